(* Message-level model of the per-file exchange (transfer.go recvFileData / recvFileMD5 /
   sendFileData / sendFileMD5, pipeline.go recvFileDataV2 / sendFileDataV2 with
   pipelineSaveData, pipelineSendAck, pipelineRecvAck, pipelineRecvFinalAck).
   What is modelled is the DECISION logic: which sequences of delivered lines make a side
   report success for a file.  Line framing is Buffer.v (C03), payload coding Escape.v
   (C04); zstd/zlib/base64 decoding is the abstract [decode]; MD5 is the abstract [H].
   Executable definitions only. *)
From Trzsz Require Export Base.Bytes.
From Trzsz Require Import Gen.Consts.
From Coq Require Import ZArith.

Section Protocol.
Variable digest : Type.
Variable H : list byte -> digest.
Variable deq : digest -> digest -> bool.
(* the codec stack of this transfer (pipelineDecodeData), a streaming reader over the DATA frames
   received before the finish flag, in order *)
Variable decode : list (list byte) -> option (list byte).

(* what the receiver reads for one file, after the SIZE line *)
Inductive line :=
| LData (frame : list byte)      (* #DATA: with this (still encoded) payload; [] = finish flag *)
| LMd5 (d : digest)              (* #MD5: *)
| LKeep                          (* #DATA:= the keep-alive of a pausing peer (protocol >= 3): recvCheckV2 reads again *)
| LOther.                        (* anything else: wrong type, undecodable, fail line, timeout *)

Inductive verdict :=
| Accept (written : list byte)   (* the receiver answered the MD5 line with SUCC: file reported as saved *)
| Reject                         (* error path *)
| Waiting.                       (* ran out of delivered lines: blocks, then times out = error *)

(* protocol >= 2 (recvFileDataV2): frames are collected until the empty finish frame; the
   decoded stream is written; then the MD5 line must equal the digest of the DECODED STREAM.

   [recv_v2_old] is the code as it was before the fix d144b66: the size check was not atomic.
   pipelineSaveData demands step = size, but only at the END of the stream; pipelineSendAck - the
   stage that reports completion (ctx.succ) - polls savedSteps once the finish flag has been read
   and reports as soon as it EQUALS the announced size.  When the stream is longer than announced
   and the saved step passes through [size] (it starts at 0: always so for size = 0), the
   acknowledger could win: recvFileDataV2 returned the digest of the WHOLE stream (the hashing
   stage runs to the end), while the saver was stopped (ctx cancelled, file closed) after a prefix
   of at least [size] bytes.  [early] is that schedule: Some k = the acknowledger wins and k bytes
   reach the file; None = the saver's check decides.

   [recv_v2] is the code as it is: after ctx.succ, recvFileDataV2 waits for the saver (saveDone)
   and returns the saver's error if its check failed - whether the source does so is read from
   the source (Consts.c02_succ_waits_saver); then the schedule no longer matters. *)
Variable early : option nat.

Definition md5_verdict (w written : list byte) (rest : list line) : verdict :=
  match rest with
  | LMd5 d :: _ => if deq d (H w) then Accept written else Reject
  | [] => Waiting
  | _ => Reject
  end.

Fixpoint recv_v2_sched (early : option nat) (size : Z) (acc : list (list byte)) (ls : list line) : verdict :=
  match ls with
  | [] => Waiting
  | LData [] :: rest =>
    match decode acc with
    | None => Reject
    | Some w =>
      if (Z.of_nat (length w) =? size)%Z then md5_verdict w w rest
      else
        match early with
        | Some k =>
          if (0 <=? size)%Z && (size <? Z.of_nat (length w))%Z && (size <=? Z.of_nat k)%Z && (k <=? length w)%nat
          then md5_verdict w (firstn k w) rest
          else Reject
        | None => Reject
        end
    end
  | LData f :: rest => recv_v2_sched early size (acc ++ [f]) rest
  | LKeep :: rest => recv_v2_sched early size acc rest
  | _ => Reject
  end.

Definition recv_v2_old : Z -> list (list byte) -> list line -> verdict := recv_v2_sched early.
Definition recv_v2 : Z -> list (list byte) -> list line -> verdict :=
  recv_v2_sched (if Consts.c02_succ_waits_saver then None else early).

(* protocol 1 (recvFileData): every DATA line is decoded on its own and appended while
   step < size; there is NO check that step = size afterwards (the loop may overshoot);
   then the MD5 comparison *)
Variable decode1 : list byte -> option (list byte).
Fixpoint recv_v1 (fuel : nat) (size : Z) (w : list byte) (ls : list line) : verdict :=
  if (Z.of_nat (length w) <? size)%Z then
    match fuel with
    | O => Waiting
    | S f =>
      match ls with
      | [] => Waiting
      | LData fr :: rest =>
        match decode1 fr with
        | None => Reject
        | Some d => recv_v1 f size (w ++ d) rest
        end
      | _ => Reject
      end
    end
  else
    match ls with
    | LMd5 d :: _ => if deq d (H w) then Accept w else Reject
    | [] => Waiting
    | _ => Reject
    end.

(* ---- sender: when does sendFiles report a file as done? ----
   protocol >= 2: pipelineRecvAck checks each per-frame ack's length against the frame
   it sent, pipelineRecvFinalAck waits for a final ack with step = size (step > size is
   an error), then sendFileMD5 demands the echoed digest *)
Inductive ack :=
| AFrame (len step : Z)     (* #SUCC:len/step *)
| AFinal (step : Z)         (* #SUCC:step *)
| ADigest (d : digest)      (* #SUCC:<digest> answering the MD5 line *)
| AKeep                     (* #SUCC:= the keep-alive of a pausing peer (protocol >= 3): recvCheckV2 reads again;
                               checkBinary (the digest echo) does NOT skip it *)
| AOther.

Fixpoint send_final (size : Z) (mine : digest) (as_ : list ack) : bool :=
  match as_ with
  | AKeep :: rest => send_final size mine rest
  | AFinal step :: rest =>
    if (step >? size)%Z then false
    else if (step =? size)%Z then
      match rest with ADigest d :: _ => deq d mine | _ => false end
    else send_final size mine rest
  | _ => false
  end.

Fixpoint send_v2 (size : Z) (mine : digest) (sent : list Z) (as_ : list ack) {struct as_} : bool :=
  match sent with
  | [] => send_final size mine as_
  | n :: sent' =>
    match as_ with
    | AKeep :: rest => send_v2 size mine sent rest
    | AFrame len _ :: rest => if (len =? n)%Z then send_v2 size mine sent' rest else false
    | _ => false
    end
  end.

(* protocol 1 (sendFileData, sendFileMD5): every chunk is acknowledged by its decoded length
   (checkInteger) before the next one is sent; then the echoed digest *)
Fixpoint send_v1 (mine : digest) (sent : list Z) (as_ : list ack) : bool :=
  match sent with
  | [] => match as_ with ADigest d :: _ => deq d mine | _ => false end
  | n :: sent' =>
    match as_ with
    | AFinal k :: rest => if (k =? n)%Z then send_v1 mine sent' rest else false
    | _ => false
    end
  end.

End Protocol.

(* ---- the unit decisions, concretely (digest = its 16 bytes): used by the correspondence
   check to tie [deq] and the integer comparison of the model to the real functions ---- *)
Definition md5_accept (local delivered : list byte) : bool := list_eqb local delivered.
Definition int_ack_accept (expect got : Z) : bool := (expect =? got)%Z.
