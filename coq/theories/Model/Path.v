(* Paths as Go's path/filepath sees them on Unix (C07, C09).  Executable definitions only.

   A [name] is a byte string: one path element, or a raw string supplied by the peer
   (which may contain '/').  A [path] is an absolute, clean path: the list of its
   components from the root ([] is "/").  [join base elems] is
   filepath.Join(base, elems...) for an absolute clean [base]: every element is split on
   '/', empty and "." components are dropped, ".." removes the previous component
   lexically and is dropped at the root (filepath.Clean on a rooted path). *)
From Trzsz Require Import Base.Bytes.

Definition name := list N.
Definition path := list name.

Definition slash : N := 47.
Definition dot : N := 46.

Fixpoint split_slash (s : list N) : list name :=
  match s with
  | [] => [[]]
  | c :: s' =>
    if c =? slash then [] :: split_slash s'
    else match split_slash s' with
         | h :: t => (c :: h) :: t
         | [] => [[c]]
         end
  end.

Definition is_empty (c : name) : bool := match c with [] => true | _ => false end.
Definition is_dot (c : name) : bool := list_eqb c [dot].
Definition is_dotdot (c : name) : bool := list_eqb c [dot; dot].

Definition step_comp (acc : path) (c : name) : path :=
  if is_empty c || is_dot c then acc
  else if is_dotdot c then removelast acc
  else acc ++ [c].

Definition join (base : path) (elems : list name) : path :=
  fold_left step_comp (flat_map split_slash elems) base.

Fixpoint path_eqb (a b : path) : bool :=
  match a, b with
  | [], [] => true
  | x :: a', y :: b' => list_eqb x y && path_eqb a' b'
  | _, _ => false
  end.

Fixpoint is_prefix (a b : path) : bool :=
  match a, b with
  | [], _ => true
  | x :: a', y :: b' => list_eqb x y && is_prefix a' b'
  | _ :: _, [] => false
  end.

(* strictly inside: dest is a proper prefix of p *)
Definition inside (dest p : path) : bool :=
  is_prefix dest p && (length dest <? length p)%nat.
