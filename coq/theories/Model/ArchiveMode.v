(* Model of WHO DECIDES that a root of the scan list travels as one archive stream, on both
   ends of a transfer (property C15):

     archiveSourceFiles (archive.go)   groups the scan list by path id (overwrite off,
                                       protocol >= 4): the first entry of an id is the root,
                                       the others become its SubFiles
     marshalSourceFile  (comm.go)      writes the `archive` flag of the NAME record
     sendFileNameV3     (append.go)    decides whether the sender opens the archive reader
                                       and streams SIZE/DATA/MD5 for the root
     createDirOrFile / newArchiveWriter (transfer.go, archive.go)
                                       what the receiver does with the flag: archive writer
                                       (expects the stream), plain directory (expects nothing),
                                       plain file (expects the file's bytes)

   The thresholds of the two length tests, the protocol bounds and the receiver's order of
   tests are regenerated from the source (Gen.Consts archive_flag_gt, archive_send_gt,
   archive_min_protocol, archive_v3_protocol, archive_writer_needs_dir).  Executable
   definitions only; unique prefix amo_ / Amo. *)
From Trzsz Require Export Base.Bytes Model.Archive.
From Trzsz Require Import Gen.Consts.

(* one element of the scan list (checkPathsReadable): RelPath has the root's name first *)
Record amo_src := mkAmoSrc {
  amo_id : nat;            (* PathID: index of the command-line path it came from *)
  amo_rel : apath;         (* RelPath *)
  amo_isdir : bool;
  amo_size : Z;
  amo_data : list byte
}.

(* a root after archiveSourceFiles *)
Record amo_root := mkAmoRoot { amo_top : amo_src; amo_subs : list amo_src }.

(* newSrcFiles[srcFile.PathID]: nil -> the entry becomes the root; else appended to SubFiles.
   None = index out of range (a run-time panic in Go) *)
Fixpoint amo_put (slots : list (option amo_root)) (i : nat) (s : amo_src) : option (list (option amo_root)) :=
  match slots, i with
  | [], _ => None
  | x :: r, O =>
    Some (match x with
          | None => Some (mkAmoRoot s [])
          | Some rt => Some (mkAmoRoot (amo_top rt) (amo_subs rt ++ [s]))
          end :: r)
  | x :: r, S j => match amo_put r j s with Some r' => Some (x :: r') | None => None end
  end.

Fixpoint amo_fill (slots : list (option amo_root)) (scan : list amo_src) : option (list (option amo_root)) :=
  match scan with
  | [] => Some slots
  | s :: r => match amo_put slots (amo_id s) s with Some sl => amo_fill sl r | None => None end
  end.

(* the guard of archiveSourceFiles *)
Definition amo_grouping (overwrite : bool) (proto : N) (scan : list amo_src) : bool :=
  negb overwrite && (Consts.archive_min_protocol <=? proto) && nonempty scan.

(* archiveSourceFiles: a slot that stays nil is kept (sendFiles would dereference it) *)
Definition amo_group (overwrite : bool) (proto : N) (scan : list amo_src) : option (list (option amo_root)) :=
  if amo_grouping overwrite proto scan then
    amo_fill (repeat None (S (last (map amo_id scan) O))) scan
  else Some (map (fun s => Some (mkAmoRoot s [])) scan).

(* the NAME record (marshalSourceFile) *)
Record amo_name := mkAmoName {
  amn_id : nat; amn_rel : apath; amn_isdir : bool; amn_archive : bool; amn_size : Z
}.

Definition amo_flag (r : amo_root) : bool :=
  (N.to_nat Consts.archive_flag_gt <? length (amo_subs r))%nat.

Definition amo_name_of (r : amo_root) : amo_name :=
  mkAmoName (amo_id (amo_top r)) (amo_rel (amo_top r)) (amo_isdir (amo_top r)) (amo_flag r) (amo_size (amo_top r)).

(* what the sender does after the NAME exchange *)
Inductive amo_skind :=
| AmoSArchive      (* newArchiveReader: SIZE/DATA/MD5 of the archive stream follow *)
| AmoSNone         (* a directory: nothing follows, next NAME *)
| AmoSFile.        (* a plain file: SIZE/DATA/MD5 of its bytes follow *)

(* sendFiles: sendFileNameV3 from protocol 3 on, else the legacy sendFileName, which never
   looks at SubFiles *)
Definition amo_sender (proto : N) (r : amo_root) : amo_skind :=
  if (Consts.archive_v3_protocol <=? proto) && (N.to_nat Consts.archive_send_gt <? length (amo_subs r))%nat
  then AmoSArchive
  else if amo_isdir (amo_top r) then AmoSNone else AmoSFile.

(* what the receiver does with a NAME record (createDirOrFile) *)
Inductive amo_rkind :=
| AmoRArchive      (* archive writer: expects SIZE/DATA/MD5 and parses them as an entry stream *)
| AmoRNone         (* directory created, no file: expects the next NAME *)
| AmoRFile         (* plain file: expects SIZE/DATA/MD5 of its bytes *)
| AmoRErr.         (* "Archive is not a directory" *)

Definition amo_receiver (n : amo_name) : amo_rkind :=
  if amn_archive n then
    (if negb (amn_isdir n) && (Consts.archive_writer_needs_dir =? 1) then AmoRErr else AmoRArchive)
  else if amn_isdir n then AmoRNone else AmoRFile.

(* the two ends stay in step *)
Definition amo_agree (s : amo_skind) (r : amo_rkind) : bool :=
  match s, r with
  | AmoSArchive, AmoRArchive | AmoSNone, AmoRNone | AmoSFile, AmoRFile => true
  | _, _ => false
  end.

(* the plan of a whole transfer: per slot, the NAME record and what either end does next *)
Inductive amo_step :=
| AmoNil                                                    (* a nil slot: sendFiles panics *)
| AmoStep (n : amo_name) (nsubs : nat) (s : amo_skind) (r : amo_rkind).

Definition amo_step_of (proto : N) (x : option amo_root) : amo_step :=
  match x with
  | None => AmoNil
  | Some r => AmoStep (amo_name_of r) (length (amo_subs r)) (amo_sender proto r) (amo_receiver (amo_name_of r))
  end.

Definition amo_plan (overwrite : bool) (proto : N) (scan : list amo_src) : option (list amo_step) :=
  match amo_group overwrite proto scan with
  | None => None
  | Some slots => Some (map (amo_step_of proto) slots)
  end.

(* the entries of a root's archive stream: paths relative to the root *)
Definition amo_entry_of (s : amo_src) : aentry :=
  mkAEntry (mkAMeta (tl (amo_rel s)) (amo_isdir s) (amo_size s)) (amo_data s).
Definition amo_entries (r : amo_root) : list aentry := map amo_entry_of (amo_subs r).

Section ArchiveMode.
Variable parse : list byte -> option ameta.

(* one directory root from end to end: the receiver is handed the segments [ws] (whatever
   the transport made of the sender's stream) only if both ends are in archive mode; with
   neither in archive mode only the directory itself is created; anything else leaves the
   two ends out of step (None): one waits for SIZE while the other sends NAME, or the
   reverse - the transfer fails or times out, and the entries are lost *)
Definition amo_root_xfer (fixed : bool) (proto : N) (r : amo_root) (ws : list (list byte)) : option awall :=
  match amo_sender proto r, amo_receiver (amo_name_of r) with
  | AmoSArchive, AmoRArchive => Some (aw_writer_run parse fixed ws)
  | AmoSNone, AmoRNone => Some (AwDone aw_init)
  | _, _ => None
  end.

End ArchiveMode.

(* ------------------------------------------------------------------------------------ *)
(* The archive stream as a source file: what sendCompressFlag decides for it.
   isCompressFixed is interpreted from the regenerated decision list (the same list C01's
   Transfer.v interprets: kind 0 = protocol < v, 1 = compress type = v, 2 = size < v; value
   0 = no, 1 = yes, 2 = "not binary").  When nothing is fixed, isCompressionProfitable asks
   the reader for its underlying file; the archive reader has none (getFile returns a nil
   *os.File) and the guard `file == nil` answers without reading a byte of the stream -
   provided the compared variable has the pointer type (Consts.archive_probe_guard_fires);
   otherwise the probe seeks on the nil file and sendCompressFlag fails. *)
Definition amo_rule_cond (kind value proto ctype size : N) : bool :=
  if kind =? 0 then proto <? value
  else if kind =? 1 then ctype =? value
  else if kind =? 2 then size <? value
  else false.
Definition amo_comp_val (v : N) (binary : bool) : bool :=
  if v =? 0 then false else if v =? 1 then true else negb binary.
Fixpoint amo_rules_eval (rules : list (N * N * bool * N)) (proto ctype : N) (binary : bool) (size : N) : bool * bool :=
  match rules with
  | [] => (fst Consts.tr_compress_default, amo_comp_val (snd Consts.tr_compress_default) binary)
  | (k, v, fx, cv) :: r =>
    if amo_rule_cond k v proto ctype size then (fx, amo_comp_val cv binary)
    else amo_rules_eval r proto ctype binary size
  end.

Inductive amo_comp :=
| AmoCompFixed (c : bool)        (* decided by the configuration and the size: no COMP line *)
| AmoCompProbed (c : bool)       (* decided by isCompressionProfitable: a COMP line is sent *)
| AmoCompErr.                    (* "Compression detect failed" *)

(* sendCompressFlag on an archive reader whose announced size is [size]; the stream itself
   is not an argument: the decision cannot depend on it, nor move it *)
Definition amo_archive_compress (proto ctype : N) (binary : bool) (size : N) : amo_comp :=
  match amo_rules_eval Consts.tr_compress_rules proto ctype binary size with
  | (true, c) => AmoCompFixed c
  | (false, _) =>
    if Consts.archive_reader_file_nil && Consts.archive_probe_guard_fires
    then AmoCompProbed Consts.archive_probe_nofile_compress
    else AmoCompErr
  end.
