(* Trace replay of Model/Tunnel.v for the correspondence run (C17).  The harness drives real
   sockets one event at a time and lets the real server settle in between; [rsettle] runs
   every enabled server thread of the model to quiescence with a fixed scheduler (acceptor,
   then handlers by index, then pumps).  Executable definitions only. *)
From Trzsz Require Import Base.Bytes Gen.Consts Model.Tunnel.
From Coq Require Import ZArith.

Inductive rev :=
| RConnect                        (* a new connection (its index = number of connections so far) *)
| RWrite (c : nat) (bs : list N)  (* its far end writes bs *)
| RClose (c : nat)                (* its far end closes *)
| RInband (bs : list N)           (* a chunk arrives on stdin *)
| RAct (tun : bool)               (* recvAction sees an ACT with this tunnel flag *)
| RCleanup.

Definition pump_all (ch sh : list N) (s : sstate) (c : nat) : option sstate :=
  match nth_error (s_conns s) c with
  | Some k => sstep ch sh s (LPump c (Nat.min (length (k_rx k)) (N.to_nat Consts.tunnel_pump_bufsize)))
  | None => None
  end.

Definition rsched_once (ch sh : list N) (s : sstate) : option sstate :=
  match sched_once ch sh s with
  | Some s' => Some s'
  | None => first_some (pump_all ch sh s) (seq 0 (length (s_conns s)))
  end.

Fixpoint rsettle (fuel : nat) (ch sh : list N) (s : sstate) : sstate :=
  match fuel with
  | O => s
  | S f => match rsched_once ch sh s with Some s' => rsettle f ch sh s' | None => s end
  end.

Definition push_script (c : nat) (e : pev) (s : sstate) : sstate :=
  with_conns s (upd c (fun k => mkConn (k_script k ++ [e]) (k_rx k) (k_eof k) (k_pc k)
                                       (k_first k) (k_tx k) (k_closed k) (k_won k) (k_pump k)) (s_conns s)).

Definition or_same (s : sstate) (o : option sstate) : sstate := match o with Some s' => s' | None => s end.

Definition rapply (ch sh : list N) (s : sstate) (e : rev) : sstate :=
  let s1 :=
    match e with
    | RConnect => or_same s (sstep ch sh s (LConnect []))
    | RWrite c bs => let s0 := push_script c (PWrite bs) s in or_same s0 (sstep ch sh s0 (LPeer c))
    | RClose c => let s0 := push_script c PClose s in or_same s0 (sstep ch sh s0 (LPeer c))
    | RInband bs => or_same s (sstep ch sh s (LInband bs))
    | RAct tun => or_same s (sstep ch sh s (LAct tun))
    | RCleanup => or_same s (sstep ch sh s LCleanup)
    end in
  rsettle (settle_fuel s1 + 4 * length (concat (map k_rx (s_conns s1)))) ch sh s1.

Definition rreplay (uid : list N) (port : Z) (evs : list rev) : sstate :=
  fold_left (rapply (client_hello uid port) (server_hello uid port)) evs s_init.
