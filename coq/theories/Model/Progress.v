(* Model of progress.go: getEllipsisString, textProgressBar (onNum/onName/onSize/onStep/
   onDone/setPreSize/setPause/setTerminalColumns), showProgress, getProgressText,
   getProgressBar.  Executable definitions only.

   Strings are lists of runes (code points, [N]); this is the `[]rune(str)` view the code
   itself takes in getEllipsisString.  Widths, lengths, sizes and times are [Z].

   External code is a Section variable:
     w   : runewidth.RuneWidth            (rune -> columns)
     sw  : runewidth.StringWidth          (string -> columns; NOT the sum of the rune widths:
                                           one width per grapheme cluster)
     mdr : mdr k a b = int(math.Round(float64(k) * float64(a) / float64(b)))  (binary64)
   [mdr_exact] is the exact-rational instance (round half away from zero, as math.Round)
   used for execution. *)
From Coq Require Import ZArith.
From Trzsz Require Export Base.Bytes.
From Trzsz Require Import Gen.Consts.

Notation rune := N (only parsing).
Notation str := (list N) (only parsing).

(* ---- generic string helpers ---- *)

(* len(s) of a Go string: UTF-8 byte count *)
Definition rune_blen (r : rune) : Z :=
  if r <? 128 then 1%Z else if r <? 2048 then 2%Z else if r <? 65536 then 3%Z else 4%Z.
Definition blen (s : str) : Z := fold_right (fun r a => (rune_blen r + a)%Z) 0%Z s.

(* strconv decimal rendering (%d) *)
Fixpoint dec_fuel (fuel : nat) (n : N) (acc : str) : str :=
  match fuel with
  | O => acc
  | S f =>
    let acc' := (48 + n mod 10) :: acc in
    if n / 10 =? 0 then acc' else dec_fuel f (n / 10) acc'
  end.
Definition dec_N (n : N) : str := dec_fuel (S (N.size_nat n)) n [].
Definition dec_Z (z : Z) : str :=
  match z with
  | Zneg p => 45 :: dec_N (Npos p)
  | _ => dec_N (Z.to_N z)
  end.

(* fmt.Sprintf restricted to what progress.go uses: the one-letter verbs %s and %d (the
   arguments are handed over already rendered) and %%.  [fmt_simple] says a format is of
   that kind; Proofs/Progress.v checks it for every generated format. *)
Fixpoint fmt_subst (f : str) (args : list str) : str :=
  match f with
  | [] => []
  | c :: f' =>
    if c =? 37 then
      match f' with
      | d :: f'' =>
        if d =? 37 then 37 :: fmt_subst f'' args
        else match args with
             | a :: args' => a ++ fmt_subst f'' args'
             | [] => fmt_subst f'' []
             end
      | [] => [37]
      end
    else c :: fmt_subst f' args
  end.

Fixpoint fmt_simple (f : str) : bool :=
  match f with
  | [] => true
  | c :: f' =>
    if c =? 37 then
      match f' with
      | d :: f'' => ((d =? 37) || (d =? 115) || (d =? 100)) && fmt_simple f''
      | [] => false
      end
    else fmt_simple f'
  end.

(* literal text of a format before its first verb / after its last verb *)
Fixpoint fmt_head (f : str) : str :=
  match f with
  | [] => []
  | c :: f' => if c =? 37 then [] else c :: fmt_head f'
  end.
Definition fmt_tail (f : str) : str :=
  match rev (fmt_head (rev f)) with
  | _ :: t => t     (* drop the verb letter *)
  | [] => []
  end.

(* unicode.IsSpace (Go standard library), used by strings.TrimSpace *)
Definition is_space (r : rune) : bool :=
  ((9 <=? r) && (r <=? 13)) || (r =? 32) || (r =? 133) || (r =? 160) || (r =? 5760) ||
  ((8192 <=? r) && (r <=? 8202)) || (r =? 8232) || (r =? 8233) || (r =? 8239) ||
  (r =? 8287) || (r =? 12288).
Fixpoint drop_space (s : str) : str :=
  match s with
  | [] => []
  | r :: s' => if is_space r then drop_space s' else s
  end.
Definition trim_space (s : str) : str := rev (drop_space (rev (drop_space s))).

Definition ascii_char (r : rune) : bool := (32 <=? r) && (r <? 127).
Definition ascii (s : str) : bool := forallb ascii_char s.

(* int64 wrap-around of `a + b` *)
Definition wrap64 (z : Z) : Z := ((z + 2 ^ 63) mod 2 ^ 64 - 2 ^ 63)%Z.

(* int(math.Round(k*a/b)) computed exactly: round half away from zero *)
Definition mdr_exact (k a b : Z) : Z :=
  (let n := k * a in
   Z.sgn n * Z.sgn b * ((2 * Z.abs n + Z.abs b) / (2 * Z.abs b)))%Z.

(* ---- the layout ladder as generated from getProgressText ---- *)
Inductive lstep :=
| LCheck                              (* if cols-leftLength-len(right) >= barMinLength { break } *)
| LEll (thr max : Z)                  (* if leftLength > thr { left, leftLength = getEllipsisString(left, max) } *)
| LRight (f : str) (args : list N)    (* right = fmt.Sprintf(f, fields...) ; 0 pct 1 total 2 speed 3 eta *)
| LClear                              (* left = "" ; leftLength = 0 *)
| LBad.

Definition decode_step (x : N * (Z * Z) * (list N * list N)) : lstep :=
  let '(tag, (a, b), (f, args)) := x in
  if tag =? 0 then LCheck else if tag =? 1 then LEll a b else
  if tag =? 2 then LRight f args else if tag =? 3 then LClear else LBad.

Definition ladder : list lstep := map decode_step Consts.progress_ladder.

Record lay := { l_left : str; l_len : Z; l_right : str }.

Inductive bres := BOk (s : str) | BPanic.
Inductive tres := TOk (s : str) | TPanic.

Definition repeat_rune (r : rune) (n : Z) : option str :=
  if (n <? 0)%Z then None else Some (repeat r (Z.to_nat n)).

(* the position shown: getDisplayStep (fixed code) or the raw fileStep (before the fix) *)
Definition display_step (clamped : bool) (fstep fsize : Z) : Z :=
  if clamped then
    let s := if (fstep <? 0)%Z then 0%Z else fstep in
    if (fsize <? s)%Z then fsize else s
  else fstep.

(* ---- the session around the bar (filter.go): the terminal width the client was told
   last (filter.options.TerminalColumns) and the progress bar of the running transfer
   (filter.progress).  A session sees resizes at any moment, transfers one after the other,
   the callbacks of the running transfer, and the stop prompt. ---- *)
Inductive tick :=
| TkNum (n : Z)
| TkName (s : str)
| TkSize (z : Z)
| TkStep (z : Z) (now : Z) (total speed eta : str)
| TkDone (now : Z) (total speed eta : str)
| TkPre (z : Z)
| TkPause (b : bool).

Inductive sevent :=
| SeResize (c : Z)                    (* TrzszFilter.SetTerminalColumns(c) *)
| SeStart (quiet : bool) (pane : Z)   (* createProgressBar(config.Quiet, config.TmuxPaneColumns) *)
| SeTick (t : tick)                   (* a callback of the running transfer on filter.progress.Load() *)
| SePromptOpen                        (* confirmStopTransfer: progress.setPause(true) *)
| SePromptClose                       (* its deferred progress.setTerminalColumns(options.TerminalColumns); setPause(false) *)
| SeEnd.                              (* resetProgressBar *)


Section Progress.
Variable w : rune -> nat.
Variable sw : str -> nat.
Variable mdr : Z -> Z -> Z -> Z.

Local Open Scope Z_scope.

(* getEllipsisString *)
Fixpoint ell_loop (s : str) (max length : Z) : str * Z :=
  match s with
  | [] => (Consts.progress_ellipsis_dots, length + Consts.progress_ellipsis_added)
  | r :: s' =>
    let rlen := Z.of_nat (w r) in
    if max <? length + rlen then (Consts.progress_ellipsis_dots, length + Consts.progress_ellipsis_added)
    else let '(t, l) := ell_loop s' max (length + rlen) in (r :: t, l)
  end.
Definition ellipsis (s : str) (max : Z) : str * Z :=
  ell_loop s (max - Consts.progress_ellipsis_reserve) 0.

Definition fits (cols : Z) (st : lay) : bool :=
  Consts.progress_bar_min_length <=? cols - l_len st - blen (l_right st).

Definition field (fields : list str) (i : N) : str := nth (N.to_nat i) fields [].

Definition apply_step (fields : list str) (s : lstep) (st : lay) : lay :=
  match s with
  | LEll thr max =>
    {| l_left := if thr <? l_len st then fst (ellipsis (l_left st) max) else l_left st;
       l_len := if thr <? l_len st then snd (ellipsis (l_left st) max) else l_len st;
       l_right := l_right st |}
  | LRight f args =>
    {| l_left := l_left st; l_len := l_len st; l_right := fmt_subst f (map (field fields) args) |}
  | LClear => {| l_left := []; l_len := 0; l_right := l_right st |}
  | LCheck | LBad => st
  end.

Fixpoint run_ladder (cols : Z) (fields : list str) (steps : list lstep) (st : lay) : lay :=
  match steps with
  | [] => st
  | LCheck :: r => if fits cols st then st else run_ladder cols fields r st
  | LBad :: _ => st
  | s :: r => run_ladder cols fields r (apply_step fields s st)
  end.

(* getProgressBar *)
Definition progress_bar_gen (clamped : bool) (fstep fsize length : Z) : bres :=
  if length <? Consts.progress_bar_min then BOk [] else
  let total := length - Consts.progress_bar_brackets in
  let full := if fsize =? 0 then total else mdr total (display_step clamped fstep fsize) fsize in
  let empty := total - full in
  match repeat_rune Consts.progress_bar_full_rune full, repeat_rune Consts.progress_bar_empty_rune empty with
  | Some a, Some b => BOk (fmt_subst Consts.progress_bar_fmt [a; b])
  | _, _ => BPanic
  end.

(* the text left of the bar before any shortening *)
Definition left_text (count idx : Z) (name : str) : str :=
  if Consts.progress_multi_threshold <? count
  then fmt_subst Consts.progress_multi_fmt [dec_Z idx; dec_Z count; name]
  else name.

(* getProgressText: layout after the ladder, then the assembled line *)
Definition layout (cols count idx : Z) (name pct total speed eta : str) : lay :=
  let left := left_text count idx name in
  run_ladder cols [pct; total; speed; eta] ladder
    {| l_left := left; l_len := Z.of_nat (sw left); l_right := [] |}.

Definition bar_length (cols : Z) (l : lay) : Z :=
  let b := cols - blen (l_right l) in
  if 0 <? l_len l then b - (l_len l + blen Consts.progress_left_sep) else b.

Definition progress_text_gen (clamped : bool) (cols count idx : Z) (name : str) (fstep fsize : Z)
           (pct total speed eta : str) : tres :=
  let l := layout cols count idx name pct total speed eta in
  let left := if 0 <? l_len l then l_left l ++ Consts.progress_left_sep else l_left l in
  match progress_bar_gen clamped fstep fsize (bar_length cols l) with
  | BPanic => TPanic
  | BOk bar => TOk (trim_space (left ++ bar ++ l_right l))
  end.

(* the percentage: math.Round(float64(step)*100.0/float64(size)) printed with %.0f%% ;
   a negative zero prints as "-0" *)
Definition pct_num (clamped : bool) (fstep fsize : Z) : Z :=
  mdr Consts.progress_pct_scale (display_step clamped fstep fsize) fsize.
Definition pct_text (clamped : bool) (fstep fsize : Z) : str :=
  if fsize =? 0 then Consts.progress_pct_default else
  let d := display_step clamped fstep fsize in
  let n := pct_num clamped fstep fsize in
  let negzero := (n =? 0) && (((0 <=? d) && (fsize <? 0)) || ((d <? 0) && (0 <? fsize))) in
  (if negzero then [45%N] else []) ++ dec_Z n ++ [37%N].

(* ---- the state machine ---- *)
Record pstate := {
  p_cols : Z; p_tmux : Z; p_count : Z; p_idx : Z; p_name : str;
  p_pre : Z; p_size : Z; p_step : Z;
  p_last : option Z;          (* lastUpdateTime, ms *)
  p_first : bool;             (* firstWrite *)
  p_pausing : bool }.

(* newTextProgressBar *)
Definition new_bar (cols tmux : Z) : pstate :=
  {| p_cols := if Consts.progress_tmux_min <? tmux then tmux - Consts.progress_tmux_margin else cols;
     p_tmux := tmux; p_count := 0; p_idx := 0; p_name := []; p_pre := 0; p_size := 0; p_step := 0;
     p_last := None; p_first := true; p_pausing := false |}.

Inductive op :=
| OpNum (n : Z)
| OpName (s : str)
| OpSize (z : Z)
| OpStep (z : Z) (now : Z) (total speed eta : str)
| OpDone (now : Z) (total speed eta : str)
| OpPre (z : Z)
| OpPause (b : bool)
| OpCols (c : Z).

(* what the bar writes: the hide-cursor sequence, or a progress line (how it is placed,
   the width it was laid out for, the percentage it shows, its text) *)
Inductive wr :=
| WHide
| WLine (kind : N) (cols : Z) (pct : str) (text : str)   (* kind 0 first write, 1 "\r", 2 cursor-back *)
| WPanic.

Definition set_step (st : pstate) (s : Z) : pstate :=
  {| p_cols := p_cols st; p_tmux := p_tmux st; p_count := p_count st; p_idx := p_idx st; p_name := p_name st;
     p_pre := p_pre st; p_size := p_size st; p_step := s; p_last := p_last st; p_first := p_first st;
     p_pausing := p_pausing st |}.
Definition set_shown (st : pstate) (last : option Z) (first : bool) : pstate :=
  {| p_cols := p_cols st; p_tmux := p_tmux st; p_count := p_count st; p_idx := p_idx st; p_name := p_name st;
     p_pre := p_pre st; p_size := p_size st; p_step := p_step st; p_last := last; p_first := first;
     p_pausing := p_pausing st |}.

(* showProgress *)
Definition throttled (st : pstate) (now : Z) : bool :=
  match p_last st with
  | Some t => now - t <? Consts.progress_throttle_ms
  | None => false
  end.

Definition show (clamped : bool) (st : pstate) (now : Z) (total speed eta : str) : pstate * list wr :=
  if throttled st now then (st, []) else
  let pct := pct_text clamped (p_step st) (p_size st) in
  match progress_text_gen clamped (p_cols st) (p_count st) (p_idx st) (p_name st) (p_step st) (p_size st)
                          pct total speed eta with
  | TPanic => (set_shown st (Some now) (p_first st), [WPanic])
  | TOk text =>
    let kind := if p_first st then 0%N else if 0 <? p_tmux st then 2%N else 1%N in
    (set_shown st (Some now) false, [WLine kind (p_cols st) pct text])
  end.

Definition apply_op (clamped : bool) (o : op) (st : pstate) : pstate * list wr :=
  match o with
  | OpNum n =>
    ({| p_cols := p_cols st; p_tmux := p_tmux st; p_count := n; p_idx := p_idx st; p_name := p_name st;
        p_pre := p_pre st; p_size := p_size st; p_step := p_step st; p_last := p_last st; p_first := p_first st;
        p_pausing := p_pausing st |}, [WHide])
  | OpName s =>
    ({| p_cols := p_cols st; p_tmux := p_tmux st; p_count := p_count st; p_idx := p_idx st + 1; p_name := s;
        p_pre := 0; p_size := p_size st; p_step := Consts.progress_initial_step; p_last := p_last st;
        p_first := p_first st; p_pausing := p_pausing st |}, [])
  | OpSize z =>
    ({| p_cols := p_cols st; p_tmux := p_tmux st; p_count := p_count st; p_idx := p_idx st; p_name := p_name st;
        p_pre := p_pre st; p_size := wrap64 (p_pre st + z); p_step := p_step st; p_last := p_last st;
        p_first := p_first st; p_pausing := p_pausing st |}, [])
  | OpStep z now total speed eta =>
    let s := wrap64 (z + p_pre st) in
    if s <=? p_step st then (st, []) else
    let st1 := set_step st s in
    if p_pausing st then (st1, []) else show clamped st1 now total speed eta
  | OpDone now total speed eta =>
    if p_size st =? 0 then (st, []) else
    show clamped (set_shown (set_step st (p_size st)) None (p_first st)) now total speed eta
  | OpPre z =>
    ({| p_cols := p_cols st; p_tmux := p_tmux st; p_count := p_count st; p_idx := p_idx st; p_name := p_name st;
        p_pre := z; p_size := p_size st; p_step := p_step st; p_last := p_last st; p_first := p_first st;
        p_pausing := p_pausing st |}, [])
  | OpPause b =>
    ({| p_cols := p_cols st; p_tmux := p_tmux st; p_count := p_count st; p_idx := p_idx st; p_name := p_name st;
        p_pre := p_pre st; p_size := p_size st; p_step := p_step st; p_last := p_last st; p_first := p_first st;
        p_pausing := b |}, if b then [] else [WHide])
  | OpCols c =>
    ({| p_cols := c; p_tmux := if 0 <? p_tmux st then 0 else p_tmux st; p_count := p_count st; p_idx := p_idx st;
        p_name := p_name st; p_pre := p_pre st; p_size := p_size st; p_step := p_step st; p_last := p_last st;
        p_first := p_first st; p_pausing := p_pausing st |}, [])
  end.

Fixpoint run (clamped : bool) (ops : list op) (st : pstate) : pstate * list (list wr) :=
  match ops with
  | [] => (st, [])
  | o :: r =>
    let '(st1, out) := apply_op clamped o st in
    let '(st2, outs) := run clamped r st1 in
    (st2, out :: outs)
  end.

(* the bytes of one write *)
Definition wr_bytes (x : wr) : option str :=
  match x with
  | WHide => Some Consts.progress_hide_cursor
  | WLine kind cols _ text =>
    Some (if (kind =? 0)%N then text
          else if (kind =? 2)%N then fmt_subst Consts.progress_redraw_tmux_fmt [dec_Z cols; text]
          else fmt_subst Consts.progress_redraw_cr_fmt [text])
  | WPanic => None
  end.

(* ---- files: what a line reports belongs to the current file ---- *)
(* the figures a line is computed from: the prefix already present (preSize), the size and
   the position of the current file *)
Definition figs (st : pstate) : Z * Z * Z := (p_pre st, p_size st, p_step st).

(* how one callback changes them - nothing else of the state is involved *)
Definition figs_next (o : op) (f : Z * Z * Z) : Z * Z * Z :=
  let '(pre, size, step) := f in
  match o with
  | OpName _ => (0, size, Consts.progress_initial_step)
  | OpSize z => (pre, wrap64 (pre + z), step)
  | OpStep z _ _ _ _ => let s := wrap64 (z + pre) in if s <=? step then f else (pre, size, s)
  | OpDone _ _ _ _ => if size =? 0 then f else (pre, size, size)
  | OpPre z => (z, size, step)
  | OpNum _ | OpPause _ | OpCols _ => f
  end.

(* the callbacks transfer.go / append.go make for ONE file, in their order: the name; if the
   destination already has a prefix (overwrite mode, protocol >= 3) the full size, the hash
   steps that matched and the length of the matching prefix; then the size still to send,
   the data steps (from 0) and the end *)
Definition step_arg := (Z * Z * (str * str * str))%type.   (* step, clock, total/speed/ETA texts *)
Definition mk_step (a : step_arg) : op := let '(z, now, (t, s, e)) := a in OpStep z now t s e.
Definition mk_done (a : step_arg) : op := let '(_, now, (t, s, e)) := a in OpDone now t s e.
Definition file_ops (name : str) (full : Z) (resume : option (list step_arg * Z))
           (steps : list step_arg) (done : step_arg) : list op :=
  OpName name ::
  match resume with
  | Some (hs, m) => OpSize full :: map mk_step hs ++ [OpPre m; OpSize (full - m)]
  | None => [OpSize full]
  end ++ map mk_step steps ++ [mk_done done].

(* ---- the ORDER in which a transfer makes its callbacks, as a language over (callback, number):
   onNum; then per entry onName and, unless it is a directory, either
     onSize(full) onStep* onDone                                          (sent from its beginning)
     onSize(full) onStep* setPreSize(m) onSize(full-m) onStep* onDone     (a prefix is at the destination)
   with the steps of each phase in non-decreasing order within the announced size, the last one
   equal to it (an empty file has no step at all), and m = the last matching hash step (0 when none).  Every step of an entry comes
   before its onDone and before anything of the next entry. ---- *)
Inductive cbstate :=
| CbStart
| CbFiles                       (* between entries: a name may follow *)
| CbNamed                       (* after onName *)
| CbSized (x last : Z)          (* after the first onSize(x); last = the last step, -1 = none *)
| CbPre (x m : Z)               (* after setPreSize(m) *)
| CbData (r last : Z)           (* after onSize(r), r = x - m *)
| CbBad.

Definition cb_next (st : cbstate) (o : op) : cbstate :=
  match o, st with
  | OpPause _, _ | OpCols _, _ => st
  | OpNum _, CbStart => CbFiles
  | OpName _, CbFiles => CbNamed
  | OpName _, CbNamed => CbNamed
  | OpSize x, CbNamed => if 0 <=? x then CbSized x (-1) else CbBad
  | OpStep s _ _ _ _, CbSized x last => if (last <=? s) && (s <=? x) then CbSized x s else CbBad
  | OpPre m, CbSized x last => if m =? Z.max last 0 then CbPre x m else CbBad
  | OpDone _ _ _ _, CbSized x last => if Z.max last 0 =? x then CbFiles else CbBad
  | OpSize r, CbPre x m => if r =? x - m then CbData r (-1) else CbBad
  | OpStep s _ _ _ _, CbData r last => if (last <=? s) && (s <=? r) then CbData r s else CbBad
  | OpDone _ _ _ _, CbData r last => if Z.max last 0 =? r then CbFiles else CbBad
  | _, _ => CbBad
  end.

Definition cb_lang_ok (ops : list op) : bool :=
  match fold_left cb_next ops CbStart with
  | CbFiles | CbNamed => true
  | _ => false
  end.

(* ---- the session state machine ---- *)
Record session := { s_cols : Z; s_bar : option pstate }.

Definition sess_init (cols : Z) : session := {| s_cols := cols; s_bar := None |}.

(* what reaches the terminal: a write of the bar, or showCursor at the end of a transfer *)
Inductive swr := SwBar (x : wr) | SwShow.

Definition tick_op (t : tick) : op :=
  match t with
  | TkNum n => OpNum n
  | TkName s => OpName s
  | TkSize z => OpSize z
  | TkStep z now t s e => OpStep z now t s e
  | TkDone now t s e => OpDone now t s e
  | TkPre z => OpPre z
  | TkPause b => OpPause b
  end.

(* a method call on filter.progress.Load(): nothing happens without a bar (nil receiver) *)
Definition sess_on_bar (clamped : bool) (s : session) (o : op) : session * list swr :=
  match s_bar s with
  | None => (s, [])
  | Some b =>
    let '(b', out) := apply_op clamped o b in
    ({| s_cols := s_cols s; s_bar := Some b' |}, map SwBar out)
  end.

Definition sess_step (clamped : bool) (e : sevent) (s : session) : session * list swr :=
  match e with
  | SeResize c =>
    (* SetTerminalColumns: the session value first, then the live bar *)
    sess_on_bar clamped {| s_cols := c; s_bar := s_bar s |} (OpCols c)
  | SeStart quiet pane =>
    if quiet then ({| s_cols := s_cols s; s_bar := None |}, [])
    else
      (* a pane can't be wider than the terminal showing it *)
      let pane' := if s_cols s <? pane then Consts.progress_pane_ignored else pane in
      ({| s_cols := s_cols s; s_bar := Some (new_bar (s_cols s) pane') |}, [])
  | SeTick t => sess_on_bar clamped s (tick_op t)
  | SePromptOpen => sess_on_bar clamped s (OpPause true)
  | SePromptClose =>
    let '(s1, o1) := sess_on_bar clamped s (OpCols (s_cols s)) in
    let '(s2, o2) := sess_on_bar clamped s1 (OpPause false) in
    (s2, o1 ++ o2)
  | SeEnd =>
    ({| s_cols := s_cols s; s_bar := None |},
     match s_bar s with Some _ => [SwShow] | None => [] end)
  end.

Fixpoint sess_run (clamped : bool) (evs : list sevent) (s : session) : session * list (list swr) :=
  match evs with
  | [] => (s, [])
  | e :: r =>
    let '(s1, out) := sess_step clamped e s in
    let '(s2, outs) := sess_run clamped r s1 in
    (s2, out :: outs)
  end.

(* the width in force after each event: the most recent resize (a function of the history
   alone, not of the model's state) *)
Fixpoint sess_widths (evs : list sevent) (cur : Z) : list Z :=
  match evs with
  | [] => []
  | e :: r => let cur' := match e with SeResize c => c | _ => cur end in cur' :: sess_widths r cur'
  end.

Definition swr_bytes (x : swr) : option str :=
  match x with
  | SwBar y => wr_bytes y
  | SwShow => Some Consts.progress_show_cursor
  end.

End Progress.

(* the code as it is in the tree (clamped or not, as generated), and the code before the fix *)
Definition progress_bar := fun mdr => progress_bar_gen mdr Consts.progress_clamped.
Definition progress_bar_unfixed := progress_bar_gen mdr_exact false.
Definition progress_text := fun w sw mdr => progress_text_gen w sw mdr Consts.progress_clamped.
Definition run_cur := fun w sw mdr => run w sw mdr Consts.progress_clamped.
Definition pct_text_cur := fun mdr => pct_text mdr Consts.progress_clamped.
Definition sess_step_cur := fun w sw mdr => sess_step w sw mdr Consts.progress_clamped.
Definition sess_run_cur := fun w sw mdr => sess_run w sw mdr Consts.progress_clamped.
