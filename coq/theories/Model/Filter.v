(* C05 - executable model of the wrapper (filter.go wrapInput/sendInput/wrapOutput, detectOSC52,
   handleTrzsz's session life cycle, uploadDragFiles/addDragFiles/resetDragFiles; drag.go
   detectDragFiles + detectDragFilesOnLinux + nextLinuxPath; comm.go writeTraceLog, trimVT100).
   Definitions only.  Every literal comes from Gen.Consts (go/cmd/gen/skel_filter.go).

   The filter is modelled as ONE state and a step function over events.  An event is one
   atomic action of one of its goroutines: one Read of the output pump, one Read of the input
   pump, the expiry of the 200 ms hold-back timer, one step of an uploadDragFiles goroutine,
   one step of a handleTrzsz goroutine, ...  A run is a list of events, i.e. one interleaving;
   theorems quantify over all of them.  The two pumps as functions over chunk lists are
   [out_pump] and [in_pump] (runs consisting of EvOut resp. EvIn events only).

   External code is a Section parameter:
     detect        the trigger detector (Model/Detector.v of C06; here abstract)
     zmodem_detect the zmodem header detector (Model/Zmodem.v of C19; here abstract)
     zm_*          the zmodem session object (C19)
     drag_detect   detectDragFiles for the platform at hand; [detect_drag_linux] below is the
                   concrete transcription for Linux, with os.Stat as the oracle [exists_]
     msg_on/off    the texts that replace the trace-log markers (contain a temp file name)
     is_stop_key   ctrl-C / tmux "send -t %n 0x3" recogniser (only consulted during a transfer) *)
From Trzsz Require Import Base.Bytes Gen.Consts.

Definition chunk := list N.
Definition path := list N.

Inductive kind := KDir | KRegular | KOther.

(* ------------------------------------------------------------------------------------ *)
(* small byte-string helpers                                                              *)

Definition in_ranges (rs : list (N * N)) (b : N) : bool :=
  existsb (fun r => (fst r <=? b) && (b <=? snd r)) rs.

(* bytes.IndexAny *)
Fixpoint index_any (set l : list N) : option nat :=
  match l with
  | [] => None
  | x :: l' => if existsb (N.eqb x) set then Some O else
      match index_any set l' with Some i => Some (S i) | None => None end
  end.

(* bytes.ReplaceAll for a non-empty pattern: left to right, non-overlapping *)
Fixpoint replace_all_f (fuel : nat) (pat rep l : list N) : list N :=
  match fuel with
  | O => l
  | S f =>
    match l with
    | [] => []
    | x :: l' =>
      if has_prefix pat l then rep ++ replace_all_f f pat rep (skipn (length pat) l)
      else x :: replace_all_f f pat rep l'
    end
  end.
Definition replace_all (pat rep l : list N) : list N := replace_all_f (length l) pat rep l.

(* comm.go trimVT100 *)
Fixpoint trim_vt100_f (skip : bool) (l : list N) : list N :=
  match l with
  | [] => []
  | c :: l' =>
    if skip then trim_vt100_f (negb (in_ranges vt100_end_ranges c)) l'
    else if c =? vt100_esc then trim_vt100_f true l'
    else c :: trim_vt100_f false l'
  end.
Definition trim_vt100 (l : list N) : list N := trim_vt100_f false l.

(* strings.TrimRight(s, cutset) *)
Fixpoint trim_right (cut l : list N) : list N :=
  match l with
  | [] => []
  | x :: l' =>
    match trim_right cut l' with
    | [] => if existsb (N.eqb x) cut then [] else [x]
    | r => x :: r
    end
  end.

(* ------------------------------------------------------------------------------------ *)
(* detectOSC52 (filter.go:887-938): a scanner with a partial-sequence buffer.  It returns  *)
(* the new buffer and what it hands to writeToClipboard; it never returns the chunk.       *)

Definition osc52_bad_b64 (l : list N) : bool := existsb (fun b => negb (in_ranges osc52_b64_ranges b)) l.

(* the inner `for` that looks for ESC ] 5 2 ; (c|p) ; : returns the rest after the header *)
Fixpoint osc52_header (fuel : nat) (buf : list N) : option (list N) :=
  match fuel with
  | O => None
  | S f =>
    match index_of osc52_prefix buf with
    | None => None
    | Some pos =>
      let b := skipn (pos + N.to_nat osc52_hdr_skip) buf in
      if (length b <? N.to_nat osc52_kind_len)%nat then None else
      match b with
      | k :: s :: _ =>
        if ((k =? osc52_kind_c) || (k =? osc52_kind_p)) && (s =? osc52_sep)
        then Some (skipn (N.to_nat osc52_kind_len) b)
        else osc52_header f (skipn (N.to_nat osc52_kind_len) b)
      | _ => None
      end
    end
  end.

Fixpoint osc52_loop (fuel : nat) (seq : option (list N)) (buf : list N) (clips : list (list N))
  : option (list N) * list (list N) :=
  match fuel with
  | O => (seq, clips)
  | S f =>
    match buf with
    | [] => (seq, clips)
    | _ =>
      match seq with
      | None =>
        match osc52_header (S (length buf)) buf with
        | None => (None, clips)
        | Some b =>
          match index_any osc52_terms b with
          | None => (Some b, clips)
          | Some pos => osc52_loop f None (skipn (S pos) b) (clips ++ [firstn pos b])
          end
        end
      | Some sq =>
        match index_any osc52_terms buf with
        | None =>
          let sq' := sq ++ buf in
          if (osc52_limit <? N.of_nat (length sq')) && osc52_bad_b64 buf then (None, clips)
          else (Some sq', clips)
        | Some pos => osc52_loop f None (skipn (S pos) buf) (clips ++ [sq ++ firstn pos buf])
        end
      end
    end
  end.

Definition detect_osc52 (seq : option (list N)) (buf : list N) : option (list N) * list (list N) :=
  osc52_loop (S (length buf)) seq buf [].

(* ------------------------------------------------------------------------------------ *)
(* drag.go                                                                                *)

Record dres := { d_files : option (list path * bool); d_ignore : bool; d_win : bool }.

Definition dres_none : dres := {| d_files := None; d_ignore := false; d_win := false |}.

(* the bracketed-paste rule of detectDragFiles: Some stripped, or None = "ignore" *)
Definition strip_paste (buf : list N) : option (list N) :=
  if (N.to_nat drag_paste_minlen <? length buf)%nat && contains drag_paste_probe buf then
    let b := replace_all drag_paste_end [] (replace_all drag_paste_begin [] buf) in
    match b with [] => None | _ => Some b end
  else Some buf.

Definition next_linux_path (buf : list N) : option (path * nat) :=
  if (length buf <? N.to_nat drag_min_len)%nat then None else
  match buf with
  | q :: s :: _ =>
    if (q =? drag_quote) && (s =? drag_slash) then
      match index_byte drag_quote (tl buf) with
      | None => None
      | Some i =>                       (* closing quote at buf[i+1] *)
        match nth_error buf (S (S i)) with
        | Some c => if c =? drag_space then Some (firstn i (tl buf), (i + 3)%nat) else None
        | None => None
        end
      end
    else if q =? drag_slash then
      match index_byte drag_space buf with
      | None => None
      | Some i => Some (firstn i buf, S i)
      end
    else None
  | _ => None
  end.

Section Linux.
  Variable exists_ : path -> option kind.    (* os.Stat: None = error *)

  (* detectFilePath *)
  Definition file_path_ok (p : path) : option bool :=   (* Some isDir *)
    match exists_ p with
    | Some KDir => Some true
    | Some KRegular => Some false
    | _ => None
    end.

  Fixpoint linux_loop (fuel : nat) (rest : list N) (acc : list path) (has_dir : bool)
    : option (list path * bool) :=
    match fuel with
    | O => None
    | S f =>
      match rest with
      | [] => Some (rev acc, has_dir)
      | _ =>
        match next_linux_path rest with
        | None => None
        | Some (p, i) =>
          match p with
          | [] => None
          | _ =>
            match file_path_ok p with
            | None => None
            | Some d => linux_loop f (skipn i rest) (p :: acc) (has_dir || d)
            end
          end
        end
      end
    end.

  Definition last_is (b : N) (l : list N) : bool :=
    match rev l with x :: _ => x =? b | [] => false end.

  Definition detect_drag_files_on_linux (buf : list N) : option (list path * bool) :=
    if (length buf <? N.to_nat drag_min_len)%nat then None else
    match buf with
    | q :: s :: _ =>
      if (((q =? drag_quote) && (s =? drag_slash)) || (q =? drag_slash)) && last_is drag_space buf
      then linux_loop (S (length buf)) buf [] false
      else None
    | _ => None
    end.

  Definition detect_drag_linux (buf : list N) : dres :=
    match strip_paste buf with
    | None => {| d_files := None; d_ignore := true; d_win := false |}
    | Some b => {| d_files := detect_drag_files_on_linux b; d_ignore := false; d_win := false |}
    end.
End Linux.

(* ------------------------------------------------------------------------------------ *)
(* the filter                                                                             *)

Record opts := {
  o_drag : bool; o_trace : bool; o_zmodem : bool; o_osc52 : bool;
  o_cmd : list N;            (* SetDragFileUploadCommand; [] = not set *)
  o_cmd_not_trz : bool;      (* uploadCommandIsNotTrz *)
  o_fixed : bool             (* code version, not a user option: true = the current source, where every
                                return of handleTrzsz closes a stop prompt that is still open (the second
                                deferred function, pinned by Gen/Skel_filter.v); false = before that fix *)
}.

(* filter.promptPipe: nil / the prompt is waiting for a key / its pipe has been closed by
   handleTrzsz and the prompt goroutine is about to store nil (it needs no key for that) *)
Inductive pstate := PNone | POpen | PClosing.
Definition p_set (p : pstate) : bool := match p with PNone => false | _ => true end.

(* one uploadDragFiles goroutine: sleeping 300 ms; sent ctrl-C, sleeping 200 ms; sent the command, sleeping 3 s *)
Inductive dphase := DWait | DInterrupt | DCmd.
(* one handleTrzsz goroutine: before / after its CompareAndSwap(nil, transfer) succeeded *)
Inductive hphase := HChoosing | HOwning.

(* what a handleTrzsz goroutine can do next *)
Inductive haction :=
| HIo (to_server to_term : list N)   (* protocol bytes / progress bar while it lives *)
| HTakeDrag                          (* chooseUploadPaths consumes the dragged files (resetDragFiles) *)
| HRefuse                            (* the user cancels the chooser: ACT confirm=false, return *)
| HFailEarly                         (* error before the swap (path not writable, no chooser...) *)
| HAccept                            (* CompareAndSwap(nil, transfer) *)
| HDone                              (* transfer completed, clientExit *)
| HError                             (* any error: remote fail, local fail, garbage, timeout *)
| HStop                              (* stopped by the user (keep or delete) *)
| HBackground.                       (* CFG said fork: handleTrzsz returns, the transfer goes on over the tunnel *)

Inductive obs :=
| ToTerm (b : list N)      (* one writeAll(clientOut, b) *)
| ToServer (b : list N)    (* one writeAll(serverIn, b) *)
| Clip (b : list N).       (* one writeToClipboard(b) *)

Section Filter.
  Variable dstate : Type.
  Variable trigger : Type.
  Variable detect : dstate -> list N -> (list N * option trigger) * dstate.
  Variable trig_prompts : trigger -> bool.          (* version > 1.1.3: ctrl-C opens the stop prompt *)
  Variable zmodem_detect : list N -> bool.
  Variable zstate : Type.
  Variable zm_init : list N -> zstate.
  Variable zm_handle : zstate -> list N -> bool * zstate.  (* handleServerOutput *)
  Variable zm_busy : zstate -> bool.                       (* isTransferringFiles *)
  Variable zm_stop : zstate -> zstate.
  Variable drag_detect : list N -> dres.
  Variable msg_on msg_off : list N.
  Variable is_stop_key : list N -> bool.
  Variable o : opts.

  Record state := {
    transfer : bool;                 (* filter.transfer != nil *)
    zmodem : option zstate;          (* filter.zmodem *)
    prompt : pstate;                 (* filter.promptPipe *)
    prompts : bool;                  (* filter.trigger.version > 1.1.3 *)
    trace_on : bool;                 (* logger has an open file *)
    interrupting : bool;
    skip_cmd : bool;                 (* skipUploadCommand *)
    cur_cmd : option (list N);       (* currentUploadCommand *)
    osc : option (list N);           (* osc52Sequence *)
    detect_on : bool;                (* detectDragFile of wrapInput *)
    dragging : bool;
    drag_has_dir : bool;
    drag_files : option (list path);
    held : option (list N);          (* dragInputBuffer *)
    det : dstate;
    drag_procs : list dphase;        (* live uploadDragFiles goroutines *)
    handlers : list hphase           (* live handleTrzsz goroutines *)
  }.

  Definition init (d : dstate) : state :=
    {| transfer := false; zmodem := None; prompt := PNone; prompts := false; trace_on := false;
       interrupting := false; skip_cmd := false; cur_cmd := None; osc := None; detect_on := false;
       dragging := false; drag_has_dir := false; drag_files := None; held := None; det := d;
       drag_procs := []; handlers := [] |}.

  (* record updates *)
  Definition set_transfer v s := {| transfer := v; zmodem := zmodem s; prompt := prompt s; prompts := prompts s; trace_on := trace_on s; interrupting := interrupting s; skip_cmd := skip_cmd s; cur_cmd := cur_cmd s; osc := osc s; detect_on := detect_on s; dragging := dragging s; drag_has_dir := drag_has_dir s; drag_files := drag_files s; held := held s; det := det s; drag_procs := drag_procs s; handlers := handlers s |}.
  Definition set_zmodem v s := {| transfer := transfer s; zmodem := v; prompt := prompt s; prompts := prompts s; trace_on := trace_on s; interrupting := interrupting s; skip_cmd := skip_cmd s; cur_cmd := cur_cmd s; osc := osc s; detect_on := detect_on s; dragging := dragging s; drag_has_dir := drag_has_dir s; drag_files := drag_files s; held := held s; det := det s; drag_procs := drag_procs s; handlers := handlers s |}.
  Definition set_prompt v s := {| transfer := transfer s; zmodem := zmodem s; prompt := v; prompts := prompts s; trace_on := trace_on s; interrupting := interrupting s; skip_cmd := skip_cmd s; cur_cmd := cur_cmd s; osc := osc s; detect_on := detect_on s; dragging := dragging s; drag_has_dir := drag_has_dir s; drag_files := drag_files s; held := held s; det := det s; drag_procs := drag_procs s; handlers := handlers s |}.
  Definition set_prompts v s := {| transfer := transfer s; zmodem := zmodem s; prompt := prompt s; prompts := v; trace_on := trace_on s; interrupting := interrupting s; skip_cmd := skip_cmd s; cur_cmd := cur_cmd s; osc := osc s; detect_on := detect_on s; dragging := dragging s; drag_has_dir := drag_has_dir s; drag_files := drag_files s; held := held s; det := det s; drag_procs := drag_procs s; handlers := handlers s |}.
  Definition set_trace_on v s := {| transfer := transfer s; zmodem := zmodem s; prompt := prompt s; prompts := prompts s; trace_on := v; interrupting := interrupting s; skip_cmd := skip_cmd s; cur_cmd := cur_cmd s; osc := osc s; detect_on := detect_on s; dragging := dragging s; drag_has_dir := drag_has_dir s; drag_files := drag_files s; held := held s; det := det s; drag_procs := drag_procs s; handlers := handlers s |}.
  Definition set_interrupting v s := {| transfer := transfer s; zmodem := zmodem s; prompt := prompt s; prompts := prompts s; trace_on := trace_on s; interrupting := v; skip_cmd := skip_cmd s; cur_cmd := cur_cmd s; osc := osc s; detect_on := detect_on s; dragging := dragging s; drag_has_dir := drag_has_dir s; drag_files := drag_files s; held := held s; det := det s; drag_procs := drag_procs s; handlers := handlers s |}.
  Definition set_skip_cmd v s := {| transfer := transfer s; zmodem := zmodem s; prompt := prompt s; prompts := prompts s; trace_on := trace_on s; interrupting := interrupting s; skip_cmd := v; cur_cmd := cur_cmd s; osc := osc s; detect_on := detect_on s; dragging := dragging s; drag_has_dir := drag_has_dir s; drag_files := drag_files s; held := held s; det := det s; drag_procs := drag_procs s; handlers := handlers s |}.
  Definition set_cur_cmd v s := {| transfer := transfer s; zmodem := zmodem s; prompt := prompt s; prompts := prompts s; trace_on := trace_on s; interrupting := interrupting s; skip_cmd := skip_cmd s; cur_cmd := v; osc := osc s; detect_on := detect_on s; dragging := dragging s; drag_has_dir := drag_has_dir s; drag_files := drag_files s; held := held s; det := det s; drag_procs := drag_procs s; handlers := handlers s |}.
  Definition set_osc v s := {| transfer := transfer s; zmodem := zmodem s; prompt := prompt s; prompts := prompts s; trace_on := trace_on s; interrupting := interrupting s; skip_cmd := skip_cmd s; cur_cmd := cur_cmd s; osc := v; detect_on := detect_on s; dragging := dragging s; drag_has_dir := drag_has_dir s; drag_files := drag_files s; held := held s; det := det s; drag_procs := drag_procs s; handlers := handlers s |}.
  Definition set_detect_on v s := {| transfer := transfer s; zmodem := zmodem s; prompt := prompt s; prompts := prompts s; trace_on := trace_on s; interrupting := interrupting s; skip_cmd := skip_cmd s; cur_cmd := cur_cmd s; osc := osc s; detect_on := v; dragging := dragging s; drag_has_dir := drag_has_dir s; drag_files := drag_files s; held := held s; det := det s; drag_procs := drag_procs s; handlers := handlers s |}.
  Definition set_drag (dg hd : bool) (fs : option (list path)) s := {| transfer := transfer s; zmodem := zmodem s; prompt := prompt s; prompts := prompts s; trace_on := trace_on s; interrupting := interrupting s; skip_cmd := skip_cmd s; cur_cmd := cur_cmd s; osc := osc s; detect_on := detect_on s; dragging := dg; drag_has_dir := hd; drag_files := fs; held := held s; det := det s; drag_procs := drag_procs s; handlers := handlers s |}.
  Definition set_held v s := {| transfer := transfer s; zmodem := zmodem s; prompt := prompt s; prompts := prompts s; trace_on := trace_on s; interrupting := interrupting s; skip_cmd := skip_cmd s; cur_cmd := cur_cmd s; osc := osc s; detect_on := detect_on s; dragging := dragging s; drag_has_dir := drag_has_dir s; drag_files := drag_files s; held := v; det := det s; drag_procs := drag_procs s; handlers := handlers s |}.
  Definition set_det v s := {| transfer := transfer s; zmodem := zmodem s; prompt := prompt s; prompts := prompts s; trace_on := trace_on s; interrupting := interrupting s; skip_cmd := skip_cmd s; cur_cmd := cur_cmd s; osc := osc s; detect_on := detect_on s; dragging := dragging s; drag_has_dir := drag_has_dir s; drag_files := drag_files s; held := held s; det := v; drag_procs := drag_procs s; handlers := handlers s |}.
  Definition set_drag_procs v s := {| transfer := transfer s; zmodem := zmodem s; prompt := prompt s; prompts := prompts s; trace_on := trace_on s; interrupting := interrupting s; skip_cmd := skip_cmd s; cur_cmd := cur_cmd s; osc := osc s; detect_on := detect_on s; dragging := dragging s; drag_has_dir := drag_has_dir s; drag_files := drag_files s; held := held s; det := det s; drag_procs := v; handlers := handlers s |}.
  Definition set_handlers v s := {| transfer := transfer s; zmodem := zmodem s; prompt := prompt s; prompts := prompts s; trace_on := trace_on s; interrupting := interrupting s; skip_cmd := skip_cmd s; cur_cmd := cur_cmd s; osc := osc s; detect_on := detect_on s; dragging := dragging s; drag_has_dir := drag_has_dir s; drag_files := drag_files s; held := held s; det := det s; drag_procs := drag_procs s; handlers := v |}.

  (* ---- drag bookkeeping (filter.go:539-570) ---- *)

  (* resetDragFiles *)
  Definition reset_drag (s : state) : state :=
    if dragging s then set_drag false false None s else s.

  (* addDragFiles: the first batch starts an uploadDragFiles goroutine, later ones are appended *)
  Definition add_drag (fs : list path) (hd : bool) (s : state) : state :=
    let hd' := if hd then true else drag_has_dir s in
    match drag_files s with
    | None => set_drag_procs (drag_procs s ++ [DWait]) (set_drag true hd' (Some fs) s)
    | Some old => set_drag true hd' (Some (old ++ fs)) s
    end.

  (* ---- comm.go writeTraceLog(buf, "svrout") ---- *)
  Definition trace_log (s : state) (buf : list N) : list N * state :=
    if o_trace o then
      if trace_on s then
        if contains trace_disable_marker buf
        then (replace_all trace_disable_marker msg_off buf, set_trace_on false s)
        else (buf, s)
      else
        if contains trace_enable_marker buf
        then (replace_all trace_enable_marker msg_on buf, set_trace_on true s)
        else (buf, s)
    else (buf, s).

  (* the command uploadDragFiles types *)
  Definition drag_command (s : state) : list N :=
    (match o_cmd o with [] => drag_default_cmd | c => c end)
    ++ (if drag_has_dir s && negb (o_cmd_not_trz o) then drag_dir_flag else []).

  (* ---- wrapOutput, one Read (filter.go:808-879), in the order of the checks ---- *)

  (* checks 6-9, reached when the trigger detector stayed silent; pre = what this Read has
     already produced (cursor restore after a zmodem session, clipboard calls) *)
  Definition out_forward (s : state) (pre : list obs) (buf : list N) : state * list obs :=
    (* 6. interrupting: the chunk is DROPPED *)
    if interrupting s then (s, pre) else
    (* 7. echo of the upload command *)
    let skip := skip_cmd s in
    let s := if skip then set_skip_cmd false s else s in
    if skip && (match cur_cmd s with
                | Some c => list_eqb c (trim_right skip_trim_cutset (trim_vt100 buf))
                | None => false end)
    then (s, pre ++ [ToTerm skip_echo_repl])
    else
    (* 8. zmodem header *)
    if o_zmodem o && zmodem_detect buf then
      match zmodem s with
      | None => (set_zmodem (Some (zm_init buf)) s, pre ++ [ToTerm buf; ToTerm hide_cursor_seq])
      | Some _ => (s, pre ++ [ToTerm buf; ToTerm buf])     (* CAS fails: falls through to 9 *)
      end
    else
    (* 9. forward *)
    (s, pre ++ [ToTerm buf]).

  (* checks 4-5 *)
  Definition out_detect (s : state) (pre : list obs) (buf : list N) : state * list obs :=
    (* 4. OSC52: looks at buf, never changes it *)
    let (q, cl) := if o_osc52 o then detect_osc52 (osc s) buf else (osc s, []) in
    let s := set_osc q s in
    let pre := pre ++ map Clip cl in
    (* 5. trigger detector *)
    match detect (det s) buf with
    | ((buf', Some t), d') =>
      (set_handlers (handlers s ++ [HChoosing]) (set_prompts (trig_prompts t) (set_det d' s)),
       pre ++ [ToTerm buf'])
    | ((buf', None), d') => out_forward (set_det d' s) pre buf'
    end.

  (* check 3: a zmodem session owns the stream (inl), or there is none / it has just ended (inr) *)
  Definition out_zmodem (s : state) (buf : list N) : state + state * list obs :=
    if o_zmodem o then
      match zmodem s with
      | Some z =>
        let (h, z') := zm_handle z buf in
        if h then inl (set_zmodem (Some z') s)
        else inr (set_zmodem None s, [ToTerm show_cursor_seq])
      | None => inr (s, [])
      end
    else inr (s, []).

  Definition out_step (s : state) (buf0 : list N) : state * list obs :=
    (* 1. a transfer owns the stream *)
    if transfer s then (s, []) else
    (* 2. trace logger *)
    let (buf, s) := trace_log s buf0 in
    match out_zmodem s buf with
    | inl s' => (s', [])
    | inr (s, pre) => out_detect s pre buf
    end.

  (* ---- the drag branch of sendInput, shared with the hold-back timer ---- *)
  Definition drag_verdict (timer : bool) (s : state) (buf : list N) : state * list obs :=
    let r := drag_detect buf in
    match d_files r with
    | Some (fs, hd) => (add_drag fs hd s, [])                    (* swallowed: a drag upload starts *)
    | None =>
      if negb timer && d_win r then (set_held (Some buf) s, [])  (* held back for 200 ms *)
      else ((if d_ignore r then s else reset_drag s), [ToServer buf])
    end.

  (* ---- sendInput, one Read (filter.go:710-774) ---- *)
  Definition in_step (s : state) (buf : list N) : state * list obs :=
    if p_set (prompt s) then (s, []) else                        (* keys go to the stop prompt *)
    if transfer s then
      ((if is_stop_key buf && prompts s then set_prompt POpen s else s), [])
    else
    let s := if o_zmodem o then
               match zmodem s with
               | Some z => if list_eqb buf [drag_interrupt_byte] then set_zmodem (Some (zm_stop z)) s else s
               | None => s
               end
             else s in
    if o_zmodem o && (match zmodem s with Some z => zm_busy z | None => false end) then (s, []) else
    if detect_on s then
      match held s with
      | Some b => (set_held (Some (b ++ buf)) s, [])              (* queues behind the held chunk *)
      | None => drag_verdict false s buf
      end
    else (s, [ToServer buf]).

  (* the goroutine started for a Windows-path-like chunk, 200 ms later *)
  Definition hold_timer (s : state) : state * list obs :=
    match held s with
    | None => (s, [])
    | Some b => drag_verdict true (set_held None s) b
    end.

  (* ---- uploadDragFiles (filter.go:572-595), one step of goroutine i ---- *)
  Fixpoint remove_nth {A} (i : nat) (l : list A) : list A :=
    match l, i with
    | [], _ => []
    | _ :: l', O => l'
    | x :: l', S j => x :: remove_nth j l'
    end.
  Fixpoint set_nth {A} (i : nat) (v : A) (l : list A) : list A :=
    match l, i with
    | [], _ => []
    | _ :: l', O => v :: l'
    | x :: l', S j => x :: set_nth j v l'
    end.

  Definition drag_step (s : state) (i : nat) : state * list obs :=
    match nth_error (drag_procs s) i with
    | None => (s, [])
    | Some DWait =>
      if dragging s
      then (set_drag_procs (set_nth i DInterrupt (drag_procs s)) (set_interrupting true s),
            [ToServer [drag_interrupt_byte]])
      else (set_drag_procs (remove_nth i (drag_procs s)) s, [])
    | Some DInterrupt =>
      let cmd := drag_command s in
      (set_drag_procs (set_nth i DCmd (drag_procs s))
         (set_cur_cmd (Some cmd) (set_skip_cmd true (set_interrupting false s))),
       [ToServer (cmd ++ drag_cmd_end)])
    | Some DCmd => (set_drag_procs (remove_nth i (drag_procs s)) (reset_drag s), [])
    end.

  (* ---- handleTrzsz (filter.go:489-528), one step of goroutine i.
          Every way out runs the deferred CompareAndSwap(transfer, nil): the session is
          cleared exactly when this goroutine owns it. ---- *)
  Definition handler_exit (s : state) (i : nat) (ph : hphase) : state :=
    (* deferred, runs first: close the pipe of a stop prompt that is still open *)
    let s := if o_fixed o then match prompt s with POpen => set_prompt PClosing s | _ => s end else s in
    (* deferred: CompareAndSwap(transfer, nil) *)
    let s := set_handlers (remove_nth i (handlers s)) s in
    match ph with HOwning => set_transfer false s | HChoosing => s end.

  Definition handler_step (s : state) (i : nat) (a : haction) : state * list obs :=
    match nth_error (handlers s) i with
    | None => (s, [])
    | Some ph =>
      match a, ph with
      | HIo sv tm, _ => (s, [ToServer sv; ToTerm tm])
      | HTakeDrag, HChoosing => (reset_drag s, [])
      | HRefuse, HChoosing => (handler_exit s i ph, [])
      | HFailEarly, HChoosing => (handler_exit s i ph, [])
      | HAccept, HChoosing =>
        if transfer s then (handler_exit s i ph, [])             (* "Swap transfer failed" *)
        else (set_handlers (set_nth i HOwning (handlers s)) (set_transfer true s), [])
      | HDone, HOwning | HError, HOwning | HStop, HOwning | HBackground, HOwning =>
        (handler_exit s i ph, [])
      | _, _ => (s, [])                                          (* not enabled in this phase *)
      end
    end.

  Inductive event :=
  | EvOut (c : chunk)                 (* one Read of serverOut by wrapOutput *)
  | EvIn (c : chunk)                  (* one Read of clientIn by wrapInput *)
  | EvDetectOn                        (* wrapInput's helper goroutine enables drag detection *)
  | EvHoldTimer                       (* 200 ms after a held-back chunk *)
  | EvDrag (i : nat)                  (* uploadDragFiles goroutine i moves on *)
  | EvHandler (i : nat) (a : haction) (* handleTrzsz goroutine i moves on *)
  | EvPromptEnd                       (* the prompt goroutine ends: answered by the user, or its pipe was closed *)
  | EvZmodem (z : zstate)             (* the zmodem helper process / its timers change its state *)
  | EvApiUpload (fs : list path) (hd : bool).
      (* the public UploadFiles API (filter.go:150) with readable paths: refused while a transfer runs
         or a drag is pending, else addDragFiles(files, hasDir, delay = false): the upload goroutine
         starts without the 300 ms wait (same automaton; the model has no clock) *)

  Definition step (s : state) (e : event) : state * list obs :=
    match e with
    | EvOut c => out_step s c
    | EvIn c => in_step s c
    | EvDetectOn => ((if o_drag o then set_detect_on true s else s), [])
    | EvHoldTimer => hold_timer s
    | EvDrag i => drag_step s i
    | EvHandler i a => handler_step s i a
    | EvPromptEnd => (set_prompt PNone s, [])
    | EvZmodem z => (match zmodem s with Some _ => set_zmodem (Some z) s | None => s end, [])
    | EvApiUpload fs hd => ((if transfer s || dragging s then s else add_drag fs hd s), [])
    end.

  Fixpoint run (s : state) (es : list event) : state * list obs :=
    match es with
    | [] => (s, [])
    | e :: es' =>
      let (s1, o1) := step s e in
      let (s2, o2) := run s1 es' in
      (s2, o1 ++ o2)
    end.

  (* the two pumps as functions over chunk lists *)
  Definition out_pump (s : state) (cs : list chunk) := run s (map EvOut cs).
  Definition in_pump (s : state) (cs : list chunk) := run s (map EvIn cs).

  (* projections of a run *)
  Definition term_writes (l : list obs) : list (list N) :=
    flat_map (fun x => match x with ToTerm b => [b] | _ => [] end) l.
  Definition server_writes (l : list obs) : list (list N) :=
    flat_map (fun x => match x with ToServer b => [b] | _ => [] end) l.
  Definition clip_writes (l : list obs) : list (list N) :=
    flat_map (fun x => match x with Clip b => [b] | _ => [] end) l.
  Definition out_chunks (es : list event) : list chunk :=
    flat_map (fun e => match e with EvOut c => [c] | _ => [] end) es.
  Definition in_chunks (es : list event) : list chunk :=
    flat_map (fun e => match e with EvIn c => [c] | _ => [] end) es.
  Definition held_bytes (s : state) : list N := match held s with Some b => b | None => [] end.

  (* "idle": nothing owns the streams and no helper goroutine is alive *)
  Definition idle (s : state) : bool :=
    negb (transfer s) && (match zmodem s with None => true | Some _ => false end) &&
    negb (p_set (prompt s)) && negb (interrupting s) && negb (skip_cmd s) &&
    (match held s with None => true | Some _ => false end) &&
    (match drag_procs s with [] => true | _ => false end) &&
    (match handlers s with [] => true | _ => false end).

  (* "no detector fires on this event in this state" - the stated exceptions *)
  Definition trace_fires (s : state) (c : chunk) : bool :=
    o_trace o && contains (if trace_on s then trace_disable_marker else trace_enable_marker) c.

  Definition quiet (s : state) (e : event) : bool :=
    match e with
    | EvOut c =>
      negb (trace_fires s c) &&
      (match snd (fst (detect (det s) c)) with None => true | Some _ => false end) &&
      negb (o_zmodem o && zmodem_detect c)
    | EvIn c =>
      if detect_on s then
        match held s with
        | Some _ => true
        | None => match d_files (drag_detect c) with None => true | Some _ => false end
        end
      else true
    | EvHoldTimer =>
      match held s with
      | Some b => match d_files (drag_detect b) with None => true | Some _ => false end
      | None => true
      end
    | EvApiUpload _ _ => false      (* an upload the user started through the API: a stated exception *)
    | _ => true
    end.

  Fixpoint all_quiet (s : state) (es : list event) : bool :=
    match es with
    | [] => true
    | e :: es' => quiet s e && all_quiet (fst (step s e)) es'
    end.
End Filter.

Arguments transfer {dstate zstate} s.
Arguments zmodem {dstate zstate} s.
Arguments prompt {dstate zstate} s.
Arguments prompts {dstate zstate} s.
Arguments trace_on {dstate zstate} s.
Arguments interrupting {dstate zstate} s.
Arguments skip_cmd {dstate zstate} s.
Arguments cur_cmd {dstate zstate} s.
Arguments osc {dstate zstate} s.
Arguments detect_on {dstate zstate} s.
Arguments dragging {dstate zstate} s.
Arguments drag_has_dir {dstate zstate} s.
Arguments drag_files {dstate zstate} s.
Arguments held {dstate zstate} s.
Arguments det {dstate zstate} s.
Arguments drag_procs {dstate zstate} s.
Arguments handlers {dstate zstate} s.
Arguments set_transfer {dstate zstate} v !s /.
Arguments set_zmodem {dstate zstate} v !s /.
Arguments set_prompt {dstate zstate} v !s /.
Arguments set_prompts {dstate zstate} v !s /.
Arguments set_trace_on {dstate zstate} v !s /.
Arguments set_interrupting {dstate zstate} v !s /.
Arguments set_skip_cmd {dstate zstate} v !s /.
Arguments set_cur_cmd {dstate zstate} v !s /.
Arguments set_osc {dstate zstate} v !s /.
Arguments set_detect_on {dstate zstate} v !s /.
Arguments set_held {dstate zstate} v !s /.
Arguments set_det {dstate zstate} v !s /.
Arguments set_drag_procs {dstate zstate} v !s /.
Arguments set_handlers {dstate zstate} v !s /.
Arguments set_drag {dstate zstate} dg hd fs !s /.
Arguments reset_drag {dstate zstate} s.
Arguments add_drag {dstate zstate} fs hd s.
Arguments held_bytes {dstate zstate} s.
Arguments idle {dstate zstate} s.
Arguments EvOut {zstate} c.
Arguments EvIn {zstate} c.
Arguments EvDetectOn {zstate}.
Arguments EvHoldTimer {zstate}.
Arguments EvDrag {zstate} i.
Arguments EvHandler {zstate} i a.
Arguments EvPromptEnd {zstate}.
Arguments EvZmodem {zstate} z.
Arguments EvApiUpload {zstate} fs hd.

(* ------------------------------------------------------------------------------------ *)
(* instances used by the correspondence run (ocaml/m_filter.ml): the harness never feeds a *)
(* chunk on which the real trigger / zmodem detectors fire, so the extracted pumps are run  *)
(* with detectors that stay silent and return the chunk untouched - the one hypothesis the  *)
(* theorems use.                                                                            *)

Definition silent_detect (d : unit) (c : list N) : (list N * option unit) * unit := ((c, None), d).

Definition corr_run (ex : path -> option kind) (zdet : list N -> bool) (msg_on msg_off : list N) (o : opts)
  (detect_on0 : bool) (es : list (event unit)) : list obs :=
  let s0 := set_detect_on detect_on0 (init unit unit tt) in
  snd (run unit unit silent_detect (fun _ => false) zdet unit (fun _ => tt) (fun z _ => (true, z))
           (fun _ => true) (fun z => z) (detect_drag_linux ex) msg_on msg_off (fun _ => false) o s0 es).
