(* Model of the RELAY's tunnel code (relay.go): listenForTunnel's port rewrite, acceptOnTunnel,
   handleTunnelConn (two-sided greeting), newTunnelRelay's two writer goroutines,
   tunnelRelay.wrapInput / wrapOutput, the tunnel part of resetToStandby, and the relay's own
   sends into the adopted bridge (flushHandshakeBuffer, sendStringToClient / ToServer).
   A second interleaving system in the style of Model/Tunnel.v: one labelled step = one I/O,
   atomic, channel or goroutine-start operation of one thread; [rt_step] is executable, every
   label list is a schedule, the theorems of Proofs/TunnelRelay.v quantify over all of them.

   ch1 / sh4 = getHelloConstant(id, RELAY port): what the client must present / is answered;
   ch2 / sh3 = getHelloConstant(id, SERVER port): what the relay presents to / expects from
   the server.

   Scope: one trigger (one listener, one quadruple of hellos, ONE handshake of the relay); the
   relay object outlives it, so resetToStandby IS modelled and handlers that are still running
   after it keep going.  The relay's own handshake goroutine (handshake / recvAction / sendAction /
   recvConfig / sendConfig / sendError / flushHandshakeBuffer) and its two in-band pumps
   (TrzszRelay.wrapInput / wrapOutput) are modelled as far as they decide WHERE bytes go: the status
   word, tunnelConnected, the two handshake buffers, bufferLock, the in-band output streams.  What
   the lines mean is not modelled: how many bytes a readLine consumes, whether the line decodes,
   and the ACT's tunnel / confirm flags are carried by the label (any values), the bytes of the
   lines the relay writes itself are carried by the label.
   Merged into one step (justified in DESIGN 5/C17 and 10.34): resetToStandby's four tunnel
   statements (it runs under the relayStatus compare-and-swap); a pump's Read, its status check,
   addHandshakeBuffer (under bufferLock) or the channel send that follows; the two loads and the send
   of sendStringToClient / ToServer and of one round of flushHandshakeBuffer.  Outside the model: the
   unsynchronised plain fields r.trigger and r.tunnelRelayPort (read by the handlers, written by
   wrapOutput at the NEXT trigger), a second trigger, the trigger detector on in-band output that is
   not parked, send on a closed channel (a panic: no successor state).  Executable definitions only. *)
From Trzsz Require Export Base.Bytes.
From Trzsz Require Import Gen.Consts Model.Tunnel.
From Coq Require Import ZArith.

(* ------------------------------------------------------------------------------------ *)
(* listenForTunnel: bytes.ReplaceAll(buf, ":<id>:<server port>", ":<id>:<relay port>") *)

Fixpoint rt_is_prefix (p s : list N) : bool :=
  match p, s with
  | [], _ => true
  | _ :: _, [] => false
  | a :: p', b :: s' => (a =? b) && rt_is_prefix p' s'
  end.

(* non-overlapping, left to right; [skip] = bytes of the current match still to be passed.
   (The pattern is never empty here: it starts with ':'.) *)
Fixpoint rt_replace_all (pat rep s : list N) (skip : nat) : list N :=
  match s with
  | [] => []
  | b :: r =>
    match skip with
    | S k => rt_replace_all pat rep r k
    | O => if rt_is_prefix pat s then rep ++ rt_replace_all pat rep r (length pat - 1)
           else b :: rt_replace_all pat rep r 0
    end
  end.

Definition rt_port_tag (uid : list N) (port : Z) : list N :=
  sprintf Consts.rtunnel_rewrite_fmt [FStr uid; FInt port].

(* NB: the FULL id (no cut) is used here, the cut one in the hellos *)
Definition rt_rewrite (uid : list N) (sport rport : Z) (buf : list N) : list N :=
  rt_replace_all (rt_port_tag uid sport) (rt_port_tag uid rport) buf 0.

(* ------------------------------------------------------------------------------------ *)
(* connections, bridges *)

Record rt_end := mkRtEnd {
  e_script : list pev;        (* what the far end still does *)
  e_rx : list N;              (* arrived at the relay's end, not yet read *)
  e_eof : bool;               (* far end closed *)
  e_tx : list N;              (* everything the relay wrote to it *)
  e_closed : bool             (* the relay called Close on it *)
}.

Definition rt_new_end (script : list pev) : rt_end := mkRtEnd script [] false [] false.
Definition rt_end_close (e : rt_end) : rt_end := mkRtEnd (e_script e) (e_rx e) (e_eof e) (e_tx e) true.
Definition rt_end_write (bs : list N) (e : rt_end) : rt_end :=
  mkRtEnd (e_script e) (e_rx e) (e_eof e) (e_tx e ++ bs) (e_closed e).
Definition rt_end_drop (n : nat) (e : rt_end) : rt_end :=
  mkRtEnd (e_script e) (skipn n (e_rx e)) (e_eof e) (e_tx e) (e_closed e).
Definition rt_end_peer (e : rt_end) : option rt_end :=
  match e_script e with
  | [] => None
  | PWrite bs :: r => Some (mkRtEnd r (if e_eof e then e_rx e else e_rx e ++ bs) (e_eof e) (e_tx e) (e_closed e))
  | PClose :: r => Some (mkRtEnd r (e_rx e) true (e_tx e) (e_closed e))
  end.

(* where a chunk on a bridge came from *)
Inductive rt_src :=
| RsCli (c : nat)             (* read from pair c's client connection by ITS wrapInput *)
| RsSrv (c : nat)             (* read from pair c's server connection by ITS wrapOutput *)
| RsRelay                     (* written by the relay itself (its ACT / CFG / FAIL lines) *)
| RsInband (agreed : bool).   (* read in-band by TrzszRelay.wrapInput / wrapOutput; ghost: tunnelConnected at that moment *)

Inductive rt_dir := RdIn | RdOut.   (* RdIn: client -> server; RdOut: server -> client *)

Inductive rt_pump := PmNone | PmRun | PmWait | PmDone.

(* one direction of a tunnelRelay: RdIn  = wrapInput (reads clientConn) -> clientBufChan -> writer -> serverConn
                                  RdOut = wrapOutput (reads serverConn) -> serverBufChan -> writer -> clientConn *)
Record rt_half := mkRtHalf {
  h_chan : list (rt_src * list N);
  h_chan_closed : bool;
  h_writer : bool;                    (* the writer goroutine is in its range loop *)
  h_pump : rt_pump;
  h_log : list (rt_src * list N)      (* ghost: the chunks the writer wrote to its connection *)
}.

Definition rt_new_half : rt_half := mkRtHalf [] false true PmNone [].

Record rt_bridge := mkRtBridge { b_in : rt_half; b_out : rt_half; b_relay : bool (* tr.relay != nil *) }.

Definition rt_half_of (d : rt_dir) (b : rt_bridge) : rt_half := match d with RdIn => b_in b | RdOut => b_out b end.
Definition rt_set_half (d : rt_dir) (h : rt_half) (b : rt_bridge) : rt_bridge :=
  match d with RdIn => mkRtBridge h (b_out b) (b_relay b) | RdOut => mkRtBridge (b_in b) h (b_relay b) end.
Definition rt_set_relay (v : bool) (b : rt_bridge) : rt_bridge := mkRtBridge (b_in b) (b_out b) v.

(* how handleTunnelConn ended *)
Inductive rt_outcome :=
| RoBusy              (* closed by the acceptor: tunnelRelay was already set *)
| RoNoConnector       (* tunnelConnector.Load() == nil *)
| RoBadClient         (* read error, or the first read is not clientHello1 *)
| RoDialFailed        (* the connector returned nil *)
| RoSrvWriteFailed
| RoBadServer         (* read error, or the server's answer is not serverHello3 *)
| RoReplyFailed       (* writing serverHello4 to the client failed *)
| RoWon
| RoLost.

Inductive rt_pc :=
| RtRefused | RtPending | RtAccepted
| RtLoadConn                          (* connector := r.tunnelConnector.Load() *)
| RtRead                              (* clientConn.Read(buf) — once *)
| RtCmp (r : option (list N))         (* err != nil || string(buf[:n]) != clientHello1 *)
| RtDial                              (* serverConn := connector(r.trigger.tunnelPort) *)
| RtWriteSrv                          (* serverConn.Write(clientHello2) *)
| RtReadSrv                           (* serverConn.Read(buf) — once *)
| RtCmpSrv (r : option (list N))      (* err != nil || string(buf[:n]) != serverHello3 *)
| RtReply                             (* clientConn.Write(serverHello4) *)
| RtNew                               (* newTunnelRelay: two channels, two writer goroutines *)
| RtCas                               (* r.tunnelRelay.CompareAndSwap(nil, tr) *)
| RtStoreRelay                        (* tr.relay.Store(r) *)
| RtGoIn | RtGoOut                    (* go tr.wrapInput() / go tr.wrapOutput() *)
| RtCloseLis                          (* listener.Close(); tunnelListener.Store(nil) *)
| RtCloseC | RtCloseS                 (* lost: close(tr.clientBufChan) / close(tr.serverBufChan) *)
| RtDone (o : rt_outcome).

Record rt_pair := mkRtPair {
  p_cli : rt_end;
  p_srv : option rt_end;              (* what the connector returned for this client *)
  p_pc : rt_pc;
  p_first : option (list N);          (* ghost: what the single Read on the client returned *)
  p_sfirst : option (list N);         (* ghost: what the single Read on the server connection returned *)
  p_br : option rt_bridge;            (* newTunnelRelay ran *)
  p_won : option nat                  (* ghost: its CompareAndSwap succeeded, in this era *)
}.

Definition rt_new_pair (script : list pev) (pc : rt_pc) : rt_pair :=
  mkRtPair (rt_new_end script) None pc None None None None.

Definition rt_set_pc (pc : rt_pc) (p : rt_pair) : rt_pair :=
  mkRtPair (p_cli p) (p_srv p) pc (p_first p) (p_sfirst p) (p_br p) (p_won p).
Definition rt_set_cli (e : rt_end) (p : rt_pair) : rt_pair :=
  mkRtPair e (p_srv p) (p_pc p) (p_first p) (p_sfirst p) (p_br p) (p_won p).
Definition rt_set_srv (e : rt_end) (p : rt_pair) : rt_pair :=
  mkRtPair (p_cli p) (Some e) (p_pc p) (p_first p) (p_sfirst p) (p_br p) (p_won p).
Definition rt_set_br (b : rt_bridge) (p : rt_pair) : rt_pair :=
  mkRtPair (p_cli p) (p_srv p) (p_pc p) (p_first p) (p_sfirst p) (Some b) (p_won p).
Definition rt_close_cli (p : rt_pair) : rt_pair := rt_set_cli (rt_end_close (p_cli p)) p.
Definition rt_close_srv (p : rt_pair) : rt_pair :=
  match p_srv p with Some e => rt_set_srv (rt_end_close e) p | None => p end.
(* clientConn.Close(); [serverConn.Close();] return *)
Definition rt_give_up (o : rt_outcome) (p : rt_pair) : rt_pair := rt_set_pc (RtDone o) (rt_close_srv (rt_close_cli p)).

(* the connection a pump of direction d reads / the connection its writer writes *)
Definition rt_src_end (d : rt_dir) (p : rt_pair) : option rt_end :=
  match d with RdIn => Some (p_cli p) | RdOut => p_srv p end.
Definition rt_dst_end (d : rt_dir) (p : rt_pair) : option rt_end :=
  match d with RdIn => p_srv p | RdOut => Some (p_cli p) end.
Definition rt_set_src_end (d : rt_dir) (e : rt_end) (p : rt_pair) : rt_pair :=
  match d with RdIn => rt_set_cli e p | RdOut => rt_set_srv e p end.
Definition rt_set_dst_end (d : rt_dir) (e : rt_end) (p : rt_pair) : rt_pair :=
  match d with RdIn => rt_set_srv e p | RdOut => rt_set_cli e p end.
Definition rt_tag (d : rt_dir) (c : nat) : rt_src := match d with RdIn => RsCli c | RdOut => RsSrv c end.

(* ------------------------------------------------------------------------------------ *)
(* the relay *)

Inductive rt_apc := RaAccept | RaCheck (c : nat) | RaDone.

Inductive rt_status := StStandby | StHandshaking | StTransferring.

(* program point of the relay's handshake goroutine *)
Inductive rt_hspc :=
| HsRecvAct                           (* action, err := r.recvAction() — reads a line from stdinBuffer *)
| HsStore (tun conf : bool)           (* r.tunnelConnected.Store(action.TunnelConnected) *)
| HsSendAct (conf : bool)             (* r.sendAction(action) -> sendStringToServer; if !action.Confirm return *)
| HsRecvCfg                           (* config, err := r.recvConfig() — reads a line from stdoutBuffer *)
| HsSendCfg                           (* r.sendConfig(config) -> sendStringToClient; confirm = true *)
| HsErr1 | HsErr2                     (* deferred: r.sendError(err): FAIL to the client, FAIL to the server *)
| HsFlushIn (conf : bool)             (* deferred flushHandshakeBuffer(confirm), bufferLock held: stdinBuffer loop *)
| HsFlushOut (conf : bool)            (* stdoutBuffer loop *)
| HsFlushEnd (conf : bool)            (* relayStatus.Store(kRelayTransferring) / resetToStandby(kRelayHandshaking); Unlock *)
| HsIdle.

(* an entry of an in-band output stream: the chunk and (ghost) tunnelConnected when it was written *)
Definition rt_out := (rt_src * list N * bool)%type.

Record rt_hs := mkRtHs {
  x_status : rt_status;               (* relayStatus *)
  x_pc : rt_hspc;
  x_lock : bool;                      (* bufferLock is held by flushHandshakeBuffer *)
  x_bufin : list (rt_src * list N);   (* stdinBuffer: parked on the way to the server *)
  x_bufout : list (rt_src * list N);  (* stdoutBuffer: parked on the way to the client *)
  x_outin : list rt_out;              (* written to osStdinChan: in-band to the server *)
  x_outout : list rt_out;             (* written to osStdoutChan / bypassTmuxChan: in-band to the client *)
  x_seen : list (rt_src * list N)     (* ghost: every chunk a tunnel pump has read, in the order of the reads *)
}.

Definition rt_hs_init : rt_hs := mkRtHs StHandshaking HsRecvAct false [] [] [] [] [].
Definition rt_buf (d : rt_dir) (x : rt_hs) := match d with RdIn => x_bufin x | RdOut => x_bufout x end.
Definition rt_outs (d : rt_dir) (x : rt_hs) := match d with RdIn => x_outin x | RdOut => x_outout x end.
Definition rt_set_buf (d : rt_dir) (b : list (rt_src * list N)) (x : rt_hs) : rt_hs :=
  match d with
  | RdIn => mkRtHs (x_status x) (x_pc x) (x_lock x) b (x_bufout x) (x_outin x) (x_outout x) (x_seen x)
  | RdOut => mkRtHs (x_status x) (x_pc x) (x_lock x) (x_bufin x) b (x_outin x) (x_outout x) (x_seen x)
  end.
Definition rt_add_out (d : rt_dir) (o : rt_out) (x : rt_hs) : rt_hs :=
  match d with
  | RdIn => mkRtHs (x_status x) (x_pc x) (x_lock x) (x_bufin x) (x_bufout x) (x_outin x ++ [o]) (x_outout x) (x_seen x)
  | RdOut => mkRtHs (x_status x) (x_pc x) (x_lock x) (x_bufin x) (x_bufout x) (x_outin x) (x_outout x ++ [o]) (x_seen x)
  end.
Definition rt_set_pc_lock (pc : rt_hspc) (lk : bool) (x : rt_hs) : rt_hs :=
  mkRtHs (x_status x) pc lk (x_bufin x) (x_bufout x) (x_outin x) (x_outout x) (x_seen x).
Definition rt_hs_finish (st : rt_status) (x : rt_hs) : rt_hs :=
  mkRtHs st HsIdle false (x_bufin x) (x_bufout x) (x_outin x) (x_outout x) (x_seen x).
Definition rt_add_seen (y : rt_src * list N) (x : rt_hs) : rt_hs :=
  mkRtHs (x_status x) (x_pc x) (x_lock x) (x_bufin x) (x_bufout x) (x_outin x) (x_outout x) (x_seen x ++ [y]).
Definition rt_set_status (st : rt_status) (x : rt_hs) : rt_hs :=
  mkRtHs st (x_pc x) (x_lock x) (x_bufin x) (x_bufout x) (x_outin x) (x_outout x) (x_seen x).

(* a readLine of the handshake goroutine takes the first k bytes out of a buffer (the rest of a chunk
   that is cut stays in front, as trzszBuffer.nextBuf / nextIdx keep it) *)
Fixpoint rt_drop_bytes (k : nat) (b : list (rt_src * list N)) : list (rt_src * list N) :=
  match k, b with
  | O, _ => b
  | _, [] => []
  | S _, (src, bs) :: r =>
    if (length bs <=? k)%nat then rt_drop_bytes (k - length bs) r else (src, skipn k bs) :: r
  end.
Definition rt_buf_bytes (b : list (rt_src * list N)) : nat := length (concat (map snd b)).

Record rt_state := mkRt {
  r_pairs : list rt_pair;
  r_lis : bool;                       (* tunnelListener != nil and open *)
  r_apc : rt_apc;
  r_connector : bool;                 (* tunnelConnector != nil *)
  r_trelay : option nat;              (* tunnelRelay *)
  r_era : nat;                        (* ghost: number of resets so far *)
  r_tconnected : bool;                (* tunnelConnected *)
  r_x : rt_hs                         (* status word, handshake goroutine, handshake buffers, in-band output *)
}.

(* right after the trigger: wrapOutput has stored kRelayHandshaking, listenForTunnel has listened,
   `go r.handshake()` has been started *)
Definition rt_init : rt_state := mkRt [] true RaAccept true None 0 false rt_hs_init.

Definition rt_with_pairs (s : rt_state) (ps : list rt_pair) : rt_state :=
  mkRt ps (r_lis s) (r_apc s) (r_connector s) (r_trelay s) (r_era s) (r_tconnected s) (r_x s).
Definition rt_upd_pair (s : rt_state) (c : nat) (f : rt_pair -> rt_pair) : rt_state :=
  rt_with_pairs s (upd c f (r_pairs s)).

Inductive rt_label :=
| RLConnect (script : list pev)       (* somebody connects to the relay's port *)
| RLPeerC (c : nat)                   (* far end of client connection c: next scripted action *)
| RLPeerS (c : nat)                   (* far end of the server connection of pair c *)
| RLAccept (c : nat) | RLAcceptErr | RLCheck
| RLHandler (c : nat) (dial : option (list pev)) (fail : bool)
                                      (* handleTunnelConn of c: next statement; dial = what the connector
                                         returns (consulted at RtDial only), fail = the write fails
                                         (consulted at the two writes only, allowed when the far end is gone) *)
| RLWriter (c : nat) (d : rt_dir)     (* writer goroutine of newTunnelRelay *)
| RLPump (c : nat) (d : rt_dir) (n : nat)
                                      (* tunnelRelay.wrapInput / wrapOutput: Read returned n bytes: addHandshakeBuffer(…, true) takes
                                         them (back-pointer set and the relay handshaking) or they go into the pump's own channel *)
| RLPumpEof (c : nat) (d : rt_dir)    (* Read returned io.EOF *)
| RLPumpExit (c : nat) (d : rt_dir)   (* t.relay.Load() == nil: break; deferred close(chan) *)
| RLPumpSpin (c : nat) (d : rt_dir)   (* Read on a connection the relay closed itself: n = 0, err != io.EOF: next iteration *)
| RLSetConnector (v : bool)           (* SetTunnelConnector *)
| RLInband (d : rt_dir) (bs : list N) (* TrzszRelay.wrapInput (RdIn) / wrapOutput (RdOut): Read returned bs in-band *)
| RLHsRead (k : nat) (ok tun conf : bool)
                                      (* handshake goroutine at recvAction / recvConfig: the line it reads takes k bytes out of the buffer;
                                         ok = it decodes; tun, conf = the ACT's tunnel / confirm fields (consulted at recvAction only) *)
| RLHs (bs : list N)                  (* handshake goroutine: next statement (bs = the line it writes, consulted at the four sends only) *)
| RLReset.                            (* resetToStandby(kRelayTransferring): a pump or an in-band pump saw an end marker / ctrl-c *)

Definition rt_with_x (s : rt_state) (x : rt_hs) : rt_state :=
  mkRt (r_pairs s) (r_lis s) (r_apc s) (r_connector s) (r_trelay s) (r_era s) (r_tconnected s) x.
Definition rt_handshaking (s : rt_state) : bool :=
  match x_status (r_x s) with StHandshaking => true | _ => false end.

Definition rt_half_push (x : rt_src * list N) (h : rt_half) : rt_half :=
  mkRtHalf (h_chan h ++ [x]) (h_chan_closed h) (h_writer h) (h_pump h) (h_log h).
Definition rt_half_set_pump (pm : rt_pump) (h : rt_half) : rt_half :=
  mkRtHalf (h_chan h) (h_chan_closed h) (h_writer h) pm (h_log h).
Definition rt_half_close_chan (h : rt_half) : rt_half :=
  mkRtHalf (h_chan h) true (h_writer h) (h_pump h) (h_log h).

Definition rt_chan_has_room (h : rt_half) : bool :=
  negb (h_chan_closed h) && (N.of_nat (length (h_chan h)) <? Consts.rtunnel_chan_cap).

(* the relay writes chunk x towards the server (RdIn) / the client (RdOut):
     if t := r.tunnelRelay.Load(); t != nil && r.tunnelConnected.Load() { t.clientBufChan / serverBufChan <- x } else { in-band }
   and the handshake goroutine moves on to pc (lk = bufferLock is / stays held) *)
Definition rt_route (s : rt_state) (d : rt_dir) (x : rt_src * list N) (pc : rt_hspc) (lk : bool) : option rt_state :=
  let x' := rt_set_pc_lock pc lk (r_x s) in
  match r_trelay s, r_tconnected s with
  | Some c, true =>
    match nth_error (r_pairs s) c with
    | Some p =>
      match p_br p with
      | Some b =>
        if rt_chan_has_room (rt_half_of d b)
        then Some (rt_with_x (rt_upd_pair s c (rt_set_br (rt_set_half d (rt_half_push x (rt_half_of d b)) b))) x')
        else None
      | None => None
      end
    | None => None
    end
  | _, _ => Some (rt_with_x s (rt_add_out d (x, r_tconnected s) x'))
  end.

(* resetToStandby, once its compare-and-swap on relayStatus has succeeded: listener.Close(), tunnelListener.Store(nil);
   t.relay.Store(nil), tunnelRelay.Store(nil); tunnelConnected.Store(false) *)
Definition rt_reset (s : rt_state) (x : rt_hs) : rt_state :=
  let ps := match r_trelay s with
            | Some c => upd c (fun p => match p_br p with Some b => rt_set_br (rt_set_relay false b) p | None => p end) (r_pairs s)
            | None => r_pairs s
            end in
  mkRt ps false (r_apc s) (r_connector s) None (S (r_era s)) false x.

Definition rt_handler (ch1 sh4 ch2 sh3 : list N) (s : rt_state) (c : nat) (p : rt_pair)
           (dial : option (list pev)) (fail : bool) : option rt_state :=
  match p_pc p with
  | RtLoadConn =>
    if r_connector s then Some (rt_upd_pair s c (rt_set_pc RtRead))
    else Some (rt_upd_pair s c (rt_give_up RoNoConnector))
  | RtRead =>
    match e_rx (p_cli p) with
    | _ :: _ =>
      let n := N.to_nat Consts.rtunnel_hello_read_size in
      let got := firstn n (e_rx (p_cli p)) in
      Some (rt_upd_pair s c (fun _ =>
        mkRtPair (rt_end_drop n (p_cli p)) (p_srv p) (RtCmp (Some got)) (Some got) (p_sfirst p) (p_br p) (p_won p)))
    | [] => if e_eof (p_cli p) then Some (rt_upd_pair s c (rt_set_pc (RtCmp None))) else None
    end
  | RtCmp r =>
    match r with
    | Some got => if hello_matches got ch1 then Some (rt_upd_pair s c (rt_set_pc RtDial))
                  else Some (rt_upd_pair s c (rt_give_up RoBadClient))
    | None => Some (rt_upd_pair s c (rt_give_up RoBadClient))
    end
  | RtDial =>
    match dial with
    | None => Some (rt_upd_pair s c (rt_give_up RoDialFailed))
    | Some script => Some (rt_upd_pair s c (fun p => rt_set_pc RtWriteSrv (rt_set_srv (rt_new_end script) p)))
    end
  | RtWriteSrv =>
    match p_srv p with
    | None => None
    | Some e =>
      if fail then (if e_eof e then Some (rt_upd_pair s c (rt_give_up RoSrvWriteFailed)) else None)
      else Some (rt_upd_pair s c (fun p => rt_set_pc RtReadSrv (rt_set_srv (rt_end_write ch2 e) p)))
    end
  | RtReadSrv =>
    match p_srv p with
    | None => None
    | Some e =>
      match e_rx e with
      | _ :: _ =>
        let n := N.to_nat Consts.rtunnel_hello_read_size in
        let got := firstn n (e_rx e) in
        Some (rt_upd_pair s c (fun _ =>
          mkRtPair (p_cli p) (Some (rt_end_drop n e)) (RtCmpSrv (Some got)) (p_first p) (Some got) (p_br p) (p_won p)))
      | [] => if e_eof e then Some (rt_upd_pair s c (rt_set_pc (RtCmpSrv None))) else None
      end
    end
  | RtCmpSrv r =>
    match r with
    | Some got => if hello_matches got sh3 then Some (rt_upd_pair s c (rt_set_pc RtReply))
                  else Some (rt_upd_pair s c (rt_give_up RoBadServer))
    | None => Some (rt_upd_pair s c (rt_give_up RoBadServer))
    end
  | RtReply =>
    if fail then (if e_eof (p_cli p) then Some (rt_upd_pair s c (rt_give_up RoReplyFailed)) else None)
    else Some (rt_upd_pair s c (fun p => rt_set_pc RtNew (rt_set_cli (rt_end_write sh4 (p_cli p)) p)))
  | RtNew =>
    Some (rt_upd_pair s c (fun p => rt_set_pc RtCas (rt_set_br (mkRtBridge rt_new_half rt_new_half false) p)))
  | RtCas =>
    match r_trelay s with
    | None =>
      Some (mkRt (upd c (fun p => mkRtPair (p_cli p) (p_srv p) RtStoreRelay (p_first p) (p_sfirst p) (p_br p) (Some (r_era s)))
                      (r_pairs s))
                 (r_lis s) (r_apc s) (r_connector s) (Some c) (r_era s) (r_tconnected s) (r_x s))
    | Some _ => Some (rt_upd_pair s c (rt_set_pc RtCloseC))
    end
  | RtStoreRelay =>
    match p_br p with
    | Some b => Some (rt_upd_pair s c (fun p => rt_set_pc RtGoIn (rt_set_br (rt_set_relay true b) p)))
    | None => None
    end
  | RtGoIn =>
    match p_br p with
    | Some b => Some (rt_upd_pair s c (fun p => rt_set_pc RtGoOut (rt_set_br (rt_set_half RdIn (rt_half_set_pump PmRun (b_in b)) b) p)))
    | None => None
    end
  | RtGoOut =>
    match p_br p with
    | Some b => Some (rt_upd_pair s c (fun p => rt_set_pc RtCloseLis (rt_set_br (rt_set_half RdOut (rt_half_set_pump PmRun (b_out b)) b) p)))
    | None => None
    end
  | RtCloseLis =>
    Some (mkRt (upd c (rt_set_pc (RtDone RoWon)) (r_pairs s)) false (r_apc s) (r_connector s) (r_trelay s) (r_era s)
               (r_tconnected s) (r_x s))
  | RtCloseC =>
    match p_br p with
    | Some b => Some (rt_upd_pair s c (fun p => rt_set_pc RtCloseS (rt_set_br (rt_set_half RdIn (rt_half_close_chan (b_in b)) b) p)))
    | None => None
    end
  | RtCloseS =>
    match p_br p with
    | Some b => Some (rt_upd_pair s c (fun p => rt_set_pc (RtDone RoLost) (rt_set_br (rt_set_half RdOut (rt_half_close_chan (b_out b)) b) p)))
    | None => None
    end
  | _ => None
  end.

Definition rt_step (ch1 sh4 ch2 sh3 : list N) (s : rt_state) (l : rt_label) : option rt_state :=
  match l with
  | RLConnect script =>
    Some (rt_with_pairs s (r_pairs s ++ [rt_new_pair script (if r_lis s then RtPending else RtRefused)]))
  | RLPeerC c =>
    match nth_error (r_pairs s) c with
    | Some p => match rt_end_peer (p_cli p) with
                | Some e => Some (rt_upd_pair s c (rt_set_cli e))
                | None => None
                end
    | None => None
    end
  | RLPeerS c =>
    match nth_error (r_pairs s) c with
    | Some p =>
      match p_srv p with
      | Some e0 => match rt_end_peer e0 with
                   | Some e => Some (rt_upd_pair s c (rt_set_srv e))
                   | None => None
                   end
      | None => None
      end
    | None => None
    end
  | RLAccept c =>
    match r_apc s, r_lis s, nth_error (r_pairs s) c with
    | RaAccept, true, Some p =>
      match p_pc p with
      | RtPending =>
        Some (mkRt (upd c (rt_set_pc RtAccepted) (r_pairs s)) (r_lis s) (RaCheck c) (r_connector s) (r_trelay s)
                   (r_era s) (r_tconnected s) (r_x s))
      | _ => None
      end
    | _, _, _ => None
    end
  | RLAcceptErr =>
    (* tunnelListener.Load() == nil, or Accept fails: return (the deferred close is a no-op then) *)
    match r_apc s, r_lis s with
    | RaAccept, false =>
      Some (mkRt (r_pairs s) false RaDone (r_connector s) (r_trelay s) (r_era s) (r_tconnected s) (r_x s))
    | _, _ => None
    end
  | RLCheck =>
    match r_apc s with
    | RaCheck c =>
      match r_trelay s with
      | Some _ =>             (* clientConn.Close(); return; deferred: listener.Close(), Store(nil) *)
        Some (mkRt (upd c (rt_give_up RoBusy) (r_pairs s)) false RaDone (r_connector s) (r_trelay s) (r_era s)
                   (r_tconnected s) (r_x s))
      | None =>               (* go r.handleTunnelConn(clientConn) *)
        Some (mkRt (upd c (rt_set_pc RtLoadConn) (r_pairs s)) (r_lis s) RaAccept (r_connector s) (r_trelay s) (r_era s)
                   (r_tconnected s) (r_x s))
      end
    | _ => None
    end
  | RLHandler c dial fail =>
    match nth_error (r_pairs s) c with
    | Some p => rt_handler ch1 sh4 ch2 sh3 s c p dial fail
    | None => None
    end
  | RLWriter c d =>
    match nth_error (r_pairs s) c with
    | Some p =>
      match p_br p, rt_dst_end d p with
      | Some b, Some e =>
        let h := rt_half_of d b in
        if h_writer h then
          match h_chan h with
          | x :: rest =>      (* _ = writeAll(conn, buffer): on a connection closed by the relay nothing is written *)
            if e_closed e
            then Some (rt_upd_pair s c (rt_set_br (rt_set_half d (mkRtHalf rest (h_chan_closed h) true (h_pump h) (h_log h)) b)))
            else Some (rt_upd_pair s c (fun p =>
                   rt_set_dst_end d (rt_end_write (snd x) e)
                     (rt_set_br (rt_set_half d (mkRtHalf rest (h_chan_closed h) true (h_pump h) (h_log h ++ [x])) b) p)))
          | [] =>
            if h_chan_closed h          (* range ends; deferred conn.Close() *)
            then Some (rt_upd_pair s c (fun p =>
                   rt_set_dst_end d (rt_end_close e)
                     (rt_set_br (rt_set_half d (mkRtHalf [] true false (h_pump h) (h_log h)) b) p)))
            else None
          end
        else None
      | _, _ => None
      end
    | None => None
    end
  | RLPump c d n =>
    match nth_error (r_pairs s) c with
    | Some p =>
      match p_br p, rt_src_end d p with
      | Some b, Some e =>
        let h := rt_half_of d b in
        match h_pump h with
        | PmRun =>
          if negb (e_closed e) && (1 <=? n)%nat && (n <=? length (e_rx e))%nat
             && (N.of_nat n <=? Consts.rtunnel_pump_bufsize)
          then
            let x := (rt_tag d c, firstn n (e_rx e)) in
            if b_relay b && rt_handshaking s
            then      (* if r := t.relay.Load(); r != nil { … addHandshakeBuffer(buffer, buf, true) … continue } *)
              if x_lock (r_x s) then None
              else Some (mkRt (upd c (rt_set_src_end d (rt_end_drop n e)) (r_pairs s)) (r_lis s) (r_apc s) (r_connector s)
                              (r_trelay s) (r_era s) (r_tconnected s) (rt_add_seen x (rt_set_buf d (rt_buf d (r_x s) ++ [x]) (r_x s))))
            else
              if rt_chan_has_room h
              then Some (rt_with_x (rt_upd_pair s c (fun p =>
                     rt_set_src_end d (rt_end_drop n e) (rt_set_br (rt_set_half d (rt_half_push x h) b) p)))
                                   (rt_add_seen x (r_x s)))
              else None
          else None
        | _ => None
        end
      | _, _ => None
      end
    | None => None
    end
  | RLPumpEof c d =>
    match nth_error (r_pairs s) c with
    | Some p =>
      match p_br p, rt_src_end d p with
      | Some b, Some e =>
        let h := rt_half_of d b in
        match h_pump h, e_rx e with
        | PmRun, [] =>
          if e_eof e && negb (e_closed e)
          then Some (rt_upd_pair s c (rt_set_br (rt_set_half d (rt_half_set_pump PmWait h) b)))
          else None
        | _, _ => None
        end
      | _, _ => None
      end
    | None => None
    end
  | RLPumpExit c d =>
    match nth_error (r_pairs s) c with
    | Some p =>
      match p_br p with
      | Some b =>
        let h := rt_half_of d b in
        match h_pump h with
        | PmWait =>
          if b_relay b then None      (* for t.relay.Load() != nil { time.Sleep(50ms) } *)
          else Some (rt_upd_pair s c (rt_set_br (rt_set_half d (rt_half_close_chan (rt_half_set_pump PmDone h)) b)))
        | _ => None
        end
      | None => None
      end
    | None => None
    end
  | RLPumpSpin c d =>
    match nth_error (r_pairs s) c with
    | Some p =>
      match p_br p, rt_src_end d p with
      | Some b, Some e =>
        match h_pump (rt_half_of d b) with
        | PmRun => if e_closed e then Some s else None
        | _ => None
        end
      | _, _ => None
      end
    | None => None
    end
  | RLSetConnector v =>
    Some (mkRt (r_pairs s) (r_lis s) (r_apc s) v (r_trelay s) (r_era s) (r_tconnected s) (r_x s))
  | RLInband d bs =>
    (* status := r.relayStatus.Load(); if status == kRelayHandshaking { status, ok = r.addHandshakeBuffer(buffer, buf, false); if ok { continue } }
       … r.osStdinChan <- buf / r.bypassTmuxChan <- buf / r.osStdoutChan <- buf *)
    match bs with
    | [] => None
    | _ :: _ =>
      let x := (RsInband (r_tconnected s), bs) in
      if rt_handshaking s then
        if x_lock (r_x s) then None       (* addHandshakeBuffer waits for bufferLock *)
        else if r_tconnected s            (* status != kRelayHandshaking || !tunnel && r.tunnelConnected.Load() *)
        then Some (rt_with_x s (rt_add_out d (x, r_tconnected s) (r_x s)))
        else Some (rt_with_x s (rt_set_buf d (rt_buf d (r_x s) ++ [x]) (r_x s)))
      else Some (rt_with_x s (rt_add_out d (x, r_tconnected s) (r_x s)))
    end
  | RLHsRead k ok tun conf =>
    match x_pc (r_x s) with
    | HsRecvAct =>
      if (1 <=? k)%nat && (k <=? rt_buf_bytes (x_bufin (r_x s)))%nat
      then Some (rt_with_x s (rt_set_pc_lock (if ok then HsStore tun conf else HsErr1) false
                                (rt_set_buf RdIn (rt_drop_bytes k (x_bufin (r_x s))) (r_x s))))
      else None
    | HsRecvCfg =>
      if (1 <=? k)%nat && (k <=? rt_buf_bytes (x_bufout (r_x s)))%nat
      then Some (rt_with_x s (rt_set_pc_lock (if ok then HsSendCfg else HsErr1) false
                                (rt_set_buf RdOut (rt_drop_bytes k (x_bufout (r_x s))) (r_x s))))
      else None
    | _ => None
    end
  | RLHs bs =>
    match x_pc (r_x s) with
    | HsStore tun conf =>
      Some (mkRt (r_pairs s) (r_lis s) (r_apc s) (r_connector s) (r_trelay s) (r_era s) tun
                 (rt_set_pc_lock (HsSendAct conf) false (r_x s)))
    | HsSendAct conf =>
      rt_route s RdIn (RsRelay, bs) (if conf then HsRecvCfg else HsFlushIn false) (negb conf)
    | HsSendCfg => rt_route s RdOut (RsRelay, bs) (HsFlushIn true) true
    | HsErr1 => rt_route s RdOut (RsRelay, bs) HsErr2 false
    | HsErr2 => rt_route s RdIn (RsRelay, bs) (HsFlushIn false) true
    | HsFlushIn conf =>
      match x_bufin (r_x s) with
      | x :: rest => rt_route (rt_with_x s (rt_set_buf RdIn rest (r_x s))) RdIn x (HsFlushIn conf) true
      | [] => Some (rt_with_x s (rt_set_pc_lock (HsFlushOut conf) true (r_x s)))
      end
    | HsFlushOut conf =>
      match x_bufout (r_x s) with
      | x :: rest => rt_route (rt_with_x s (rt_set_buf RdOut rest (r_x s))) RdOut x (HsFlushOut conf) true
      | [] => Some (rt_with_x s (rt_set_pc_lock (HsFlushEnd conf) true (r_x s)))
      end
    | HsFlushEnd conf =>
      if conf then Some (rt_with_x s (rt_hs_finish StTransferring (r_x s)))
      else Some (rt_reset s (rt_hs_finish StStandby (r_x s)))     (* resetToStandby(kRelayHandshaking) *)
    | _ => None
    end
  | RLReset =>
    match x_status (r_x s) with
    | StTransferring => Some (rt_reset s (rt_set_status StStandby (r_x s)))
    | _ => None
    end
  end.

Fixpoint rt_run (ch1 sh4 ch2 sh3 : list N) (s : rt_state) (ls : list rt_label) : option rt_state :=
  match ls with
  | [] => Some s
  | l :: r => match rt_step ch1 sh4 ch2 sh3 s l with Some s' => rt_run ch1 sh4 ch2 sh3 s' r | None => None end
  end.

Definition rt_reach (ch1 sh4 ch2 sh3 : list N) (s : rt_state) : Prop :=
  exists ls, rt_run ch1 sh4 ch2 sh3 rt_init ls = Some s.

(* ------------------------------------------------------------------------------------ *)
(* vocabulary of the theorems *)

Definition rt_is_tunnel_src (x : rt_src) : bool := match x with RsCli _ | RsSrv _ => true | _ => false end.

Definition rt_tag_ok (d : rt_dir) (c : nat) (x : rt_src * list N) : bool :=
  match fst x, d with
  | RsRelay, _ => true
  | RsInband agreed, _ => negb agreed
  | RsCli c', RdIn => Nat.eqb c' c
  | RsSrv c', RdOut => Nat.eqb c' c
  | _, _ => false
  end.

Definition rt_payload (l : list (rt_src * list N)) : list N := concat (map snd l).

(* ORDER through a bridge.  [rt_own d c l]: the bytes of the chunks of l that pair c's own pump of direction d read;
   [rt_pipe]: what of them is on its way, nearest to the far connection first: written by the writer, in the channel,
   parked in the relay's handshake buffer; [rt_sub a b]: a is b with some elements left out, the order kept. *)
Definition rt_src_eqb (a b : rt_src) : bool :=
  match a, b with
  | RsCli x, RsCli y => Nat.eqb x y
  | RsSrv x, RsSrv y => Nat.eqb x y
  | RsRelay, RsRelay => true
  | RsInband g, RsInband h => Bool.eqb g h
  | _, _ => false
  end.
Definition rt_own (d : rt_dir) (c : nat) (l : list (rt_src * list N)) : list N :=
  rt_payload (filter (fun x => rt_src_eqb (fst x) (rt_tag d c)) l).
Definition rt_pipe (d : rt_dir) (c : nat) (b : rt_bridge) (x : rt_hs) : list N :=
  rt_own d c (h_log (rt_half_of d b)) ++ rt_own d c (h_chan (rt_half_of d b)) ++ rt_own d c (rt_buf d x).
Inductive rt_sub : list N -> list N -> Prop :=
| rt_sub_nil : forall l, rt_sub [] l
| rt_sub_keep : forall x a b, rt_sub a b -> rt_sub (x :: a) (x :: b)
| rt_sub_skip : forall x a b, rt_sub a b -> rt_sub a (x :: b).

(* a pump of pair c is in its loop and the connection it reads has been closed by the relay *)
Definition rt_spinning (s : rt_state) (c : nat) (d : rt_dir) : Prop :=
  exists p b e, nth_error (r_pairs s) c = Some p /\ p_br p = Some b /\ rt_src_end d p = Some e /\
    h_pump (rt_half_of d b) = PmRun /\ e_closed e = true.

(* what the far ends can observe *)
Inductive rt_obs := RtObsRefused | RtObsOpenSilent | RtObsClosedSilent | RtObsGot (bs : list N) (closed : bool).
Definition rt_observe_end (e : rt_end) : rt_obs :=
  match e_tx e with
  | [] => if e_closed e then RtObsClosedSilent else RtObsOpenSilent
  | bs => RtObsGot bs (e_closed e)
  end.
Definition rt_observe_cli (p : rt_pair) : rt_obs :=
  match p_pc p with RtRefused => RtObsRefused | _ => rt_observe_end (p_cli p) end.
