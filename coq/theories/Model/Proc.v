(* Process-network language for the goroutine skeletons of pipeline.go / append.go
   (DESIGN 3.1 (a), section 5 C11/C10/C18).  Definitions only; proofs are in Proofs/Proc.v.

   A goroutine is a list of statements; a running goroutine is a flat continuation
   (statements still to run and loop heads to come back to).  Channels have a length,
   a closed flag and a static capacity; leaving a goroutine first runs its [finally]
   block (deferred function literals), then closes its [defer_close] channels.

   What the language over-approximates (every real path is a model path):
   * [Branch] is a free choice (conditions are data);
   * the heads of [LoopCtx] / [LoopData] may leave at any visit (their conditions are
     data), a [LoopData] runs at most [D] iterations, [D] arbitrary;
   * a `break`/`continue`/inlined `return` inside such a loop is rendered by the
     translator as "skip the rest of the iteration";
   * all goroutines of a net exist from the start, deferred calls count as registered
     from the start. *)
From Coq Require Import List Arith Bool.
Import ListNotations.

Definition chan := nat.
Definition pid := nat.
Definition wgid := nat.

Inductive alt := SendAlt (c : chan) | RecvAlt (c : chan) | DoneAlt | TimerAlt | DefaultAlt.

(* [Check]: a computation of the stage itself that may fail (codec, parsing, a consistency
   test of the stage): never blocks. *)
Inductive iokind := RecvLine | WriteWire | PauseGate | FileIO | Check | Unknown.

Inductive stmt :=
| Sel (cs : list (alt * list stmt))     (* select; each case with its body *)
| Io (k : iokind)                       (* wire / file operation from the fixed table *)
| IoE (k : iokind) (h : list stmt)      (* the same with its error path TIED to it: the operation returns
                                           without error (go on) or with an error (run h, then go on) *)
| Cancel                                (* ctx.cancel(err) *)
| IfCtxExit                             (* if ctx.Err() != nil { return } *)
| Return                                (* return from the goroutine *)
| RecvClose (c : chan)                  (* bare receive  <-c  (item or closed) *)
| SendOnce (c : chan)                   (* bare send  c <- v  directly followed by the goroutine's exit *)
| Join (p : pid)                        (* wg.Wait() for the one goroutine that does wg.Done() *)
| WgWait (w : wgid)                     (* Wait() on a shared WaitGroup *)
| WgAdd (w : wgid)
| WgDone (w : wgid)
| Branch (a b : list stmt)
| LoopCtx (body : list stmt)            (* for ... && ctx.Err() == nil *)
| LoopRange (c : chan) (body : list stmt)
| LoopData (body : list stmt).          (* loop bounded by the data it consumes *)

Inductive item :=
| IStmt (s : stmt)
| IHeadCtx (body : list stmt)
| IHeadRange (c : chan) (body : list stmt)
| IHeadData (body : list stmt) (n : nat).

Definition lift (l : list stmt) : list item := map IStmt l.

Record proc := {
  body : list stmt;
  finally : list stmt;          (* deferred function literals, run on every exit *)
  defer_close : list chan;      (* defer close(c) *)
  exit_cancel : bool;           (* defer ctx.cancel(nil) *)
  rank : nat;
}.

Record net := {
  procs_of : list proc;
  caps : list nat;                    (* capacity of channel i *)
  senders : list (option pid);        (* channel i: the goroutine allowed to SendOnce on it *)
}.

Definition noproc : proc :=
  {| body := []; finally := []; defer_close := []; exit_cancel := false; rank := 0 |}.
Definition info (N : net) (p : pid) : proc := nth p (procs_of N) noproc.
Definition nprocs (N : net) : nat := length (procs_of N).
Definition capof (N : net) (c : chan) : nat := nth c (caps N) 0.
Definition sender (N : net) (c : chan) : option pid := nth c (senders N) None.

(* ------------------------------------------------------------------------------- *)
(* static functions on statements *)

(* does the statement certainly leave the goroutine once the context is cancelled? *)
Fixpoint exitsS (s : stmt) : bool :=
  match s with
  | IfCtxExit | Return | SendOnce _ => true
  | Branch a b =>
      (fix ex (l : list stmt) : bool := match l with [] => false | x :: t => exitsS x || ex t end) a &&
      (fix ex (l : list stmt) : bool := match l with [] => false | x :: t => exitsS x || ex t end) b
  | Sel cs =>
      (fix fa (cs : list (alt * list stmt)) : bool :=
         match cs with
         | [] => true
         | c :: r =>
             (let (_, bd) := c in
              (fix ex (l : list stmt) : bool := match l with [] => false | x :: t => exitsS x || ex t end) bd)
             && fa r
         end) cs
  | _ => false
  end.
Definition exitsL (l : list stmt) : bool := existsb exitsS l.
Definition exitsC (cs : list (alt * list stmt)) : bool := forallb (fun c => exitsL (snd c)) cs.

Section WithD.
Variable D : nat.   (* bound on the iterations of any data-bounded loop *)

(* upper bound on the own steps of a statement in a cancelled world *)
Fixpoint mS (s : stmt) : nat :=
  match s with
  | Sel cs =>
      1 + (fix sm (cs : list (alt * list stmt)) : nat :=
             match cs with
             | [] => 0
             | c :: r =>
                 (let (_, bd) := c in
                  (fix ms (l : list stmt) : nat := match l with [] => 0 | x :: t => mS x + ms t end) bd)
                 + sm r
             end) cs
  | Branch a b =>
      1 + (fix ms (l : list stmt) : nat := match l with [] => 0 | x :: t => mS x + ms t end) a
        + (fix ms (l : list stmt) : nat := match l with [] => 0 | x :: t => mS x + ms t end) b
  | IoE _ h =>
      1 + (fix ms (l : list stmt) : nat := match l with [] => 0 | x :: t => mS x + ms t end) h
  | LoopCtx _ => 2
  | LoopRange _ bd =>
      3 + (fix ms (l : list stmt) : nat := match l with [] => 0 | x :: t => mS x + ms t end) bd
  | LoopData bd =>
      2 + D * (1 + (fix ms (l : list stmt) : nat := match l with [] => 0 | x :: t => mS x + ms t end) bd)
  | _ => 1
  end.
Definition mL (l : list stmt) : nat := fold_right (fun x r => mS x + r) 0 l.
Definition mC (cs : list (alt * list stmt)) : nat := fold_right (fun c r => mL (snd c) + r) 0 cs.

Definition exitsI (i : item) : bool := match i with IStmt s => exitsS s | _ => false end.
Definition mI (i : item) : nat :=
  match i with
  | IStmt s => mS s
  | IHeadCtx _ => 1
  | IHeadRange _ bd => 2 + mL bd
  | IHeadData bd n => 1 + n * (1 + mL bd)
  end.

(* truncated measure of a continuation: nothing after a certain exit is counted *)
Fixpoint M (k : list item) : nat :=
  match k with
  | [] => 0
  | i :: r => mI i + (if exitsI i then 0 else M r)
  end.
End WithD.

(* ------------------------------------------------------------------------------- *)
(* well-formedness (W1..W5), boolean *)

Inductive condition := W1 | W2 | W3 | W4 | W5.

Definition is_wake (a : alt) : bool :=
  match a with DoneAlt | TimerAlt | DefaultAlt => true | _ => false end.
Definition has_wake (cs : list (alt * list stmt)) : bool := existsb (fun c => is_wake (fst c)) cs.

Definition opt_pid_eqb (a : option pid) (b : option pid) : bool :=
  match a, b with
  | Some x, Some y => Nat.eqb x y
  | None, None => true
  | _, _ => false
  end.

Section WithNet.
Variable N : net.

(* W3: some goroutine of smaller rank closes c on exit *)
Definition closer_ok (me : pid) (c : chan) : bool :=
  existsb (fun q => Nat.ltb (rank (info N q)) (rank (info N me)) &&
                    existsb (Nat.eqb c) (defer_close (info N q)))
          (seq 0 (nprocs N)).

Definition alt_ok (a : alt) : bool :=
  match a with
  | SendAlt c => opt_pid_eqb (sender N c) None      (* W4: a SendOnce channel has no other sender *)
  | _ => true
  end.

(* the local (non-recursive) check of one statement: None = fine *)
Definition check (me : pid) (infin : bool) (s : stmt) : option condition :=
  match s with
  | Sel cs => if negb (has_wake cs) then Some W1
              else if negb (forallb (fun c => alt_ok (fst c)) cs) then Some W4 else None
  | Io Unknown | IoE Unknown _ => Some W5
  | RecvClose c => if closer_ok me c then None else Some W3
  | LoopRange c bd => if negb (closer_ok me c) then Some W3
                      else if negb (exitsL bd) then Some W2 else None
  | Join q => if Nat.ltb (rank (info N q)) (rank (info N me)) && Nat.ltb q (nprocs N) then None else Some W3
  | WgWait _ => Some W4
  | SendOnce c => if negb infin && opt_pid_eqb (sender N c) (Some me) && Nat.ltb 0 (capof N c)
                  then None else Some W4
  | IfCtxExit | Return => if infin then Some W4 else None   (* the deferred block runs to its end *)
  | _ => None
  end.
Definition checkb me infin s : bool := match check me infin s with None => true | Some _ => false end.

Fixpoint okS (me : pid) (infin : bool) (s : stmt) : bool :=
  checkb me infin s &&
  match s with
  | Sel cs =>
      (fix fa (cs : list (alt * list stmt)) : bool :=
         match cs with
         | [] => true
         | c :: r =>
             (let (_, bd) := c in
              (fix ok (l : list stmt) : bool := match l with [] => true | x :: t => okS me infin x && ok t end) bd)
             && fa r
         end) cs
  | Branch a b =>
      (fix ok (l : list stmt) : bool := match l with [] => true | x :: t => okS me infin x && ok t end) a &&
      (fix ok (l : list stmt) : bool := match l with [] => true | x :: t => okS me infin x && ok t end) b
  | IoE _ bd | LoopCtx bd | LoopRange _ bd | LoopData bd =>
      (fix ok (l : list stmt) : bool := match l with [] => true | x :: t => okS me infin x && ok t end) bd
  | _ => true
  end.
Definition okL me infin (l : list stmt) : bool := forallb (okS me infin) l.
Definition okC me infin (cs : list (alt * list stmt)) : bool := forallb (fun c => okL me infin (snd c)) cs.

(* all violations, with the statement and the condition, for diagnostics *)
Fixpoint violS (me : pid) (infin : bool) (s : stmt) : list (pid * stmt * condition) :=
  (match check me infin s with None => [] | Some w => [(me, s, w)] end) ++
  match s with
  | Sel cs =>
      (fix fa (cs : list (alt * list stmt)) : list (pid * stmt * condition) :=
         match cs with
         | [] => []
         | c :: r =>
             (let (_, bd) := c in
              (fix vl (l : list stmt) : list (pid * stmt * condition) :=
                 match l with [] => [] | x :: t => violS me infin x ++ vl t end) bd)
             ++ fa r
         end) cs
  | Branch a b =>
      (fix vl (l : list stmt) : list (pid * stmt * condition) :=
         match l with [] => [] | x :: t => violS me infin x ++ vl t end) a ++
      (fix vl (l : list stmt) : list (pid * stmt * condition) :=
         match l with [] => [] | x :: t => violS me infin x ++ vl t end) b
  | IoE _ bd | LoopCtx bd | LoopRange _ bd | LoopData bd =>
      (fix vl (l : list stmt) : list (pid * stmt * condition) :=
         match l with [] => [] | x :: t => violS me infin x ++ vl t end) bd
  | _ => []
  end.
Definition violL me infin (l : list stmt) := flat_map (violS me infin) l.

Definition ok_proc (p : pid) : bool :=
  okL p false (body (info N p)) && okL p true (finally (info N p)).

(* every channel is closed by at most one goroutine (no double close) *)
Fixpoint nodupb (l : list nat) : bool :=
  match l with [] => true | x :: r => negb (existsb (Nat.eqb x) r) && nodupb r end.
Definition closers_unique : bool := nodupb (flat_map defer_close (procs_of N)).

Definition wf : bool := forallb ok_proc (seq 0 (nprocs N)) && closers_unique.

Definition wf_violations : list (pid * stmt * condition) :=
  flat_map (fun p => violL p false (body (info N p)) ++ violL p true (finally (info N p)))
           (seq 0 (nprocs N)).
End WithNet.

(* the net in which Wait() on a shared WaitGroup is ASSUMED to return (used to state what
   holds apart from a known W4 violation): every WgWait is replaced by an Io step *)
Fixpoint assumeS (s : stmt) : stmt :=
  match s with
  | WgWait _ => Io PauseGate
  | Sel cs =>
      Sel ((fix fa (cs : list (alt * list stmt)) : list (alt * list stmt) :=
              match cs with
              | [] => []
              | c :: r =>
                  (let (a, bd) := c in
                   (a, (fix mp (l : list stmt) : list stmt :=
                          match l with [] => [] | x :: t => assumeS x :: mp t end) bd))
                  :: fa r
              end) cs)
  | Branch a b =>
      Branch ((fix mp (l : list stmt) : list stmt := match l with [] => [] | x :: t => assumeS x :: mp t end) a)
             ((fix mp (l : list stmt) : list stmt := match l with [] => [] | x :: t => assumeS x :: mp t end) b)
  | IoE k bd =>
      IoE k ((fix mp (l : list stmt) : list stmt := match l with [] => [] | x :: t => assumeS x :: mp t end) bd)
  | LoopCtx bd =>
      LoopCtx ((fix mp (l : list stmt) : list stmt := match l with [] => [] | x :: t => assumeS x :: mp t end) bd)
  | LoopRange c bd =>
      LoopRange c ((fix mp (l : list stmt) : list stmt := match l with [] => [] | x :: t => assumeS x :: mp t end) bd)
  | LoopData bd =>
      LoopData ((fix mp (l : list stmt) : list stmt := match l with [] => [] | x :: t => assumeS x :: mp t end) bd)
  | _ => s
  end.
Definition assume_proc (p : proc) : proc :=
  {| body := map assumeS (body p); finally := map assumeS (finally p);
     defer_close := defer_close p; exit_cancel := exit_cancel p; rank := rank p |}.
Definition assume_wg_returns (N : net) : net :=
  {| procs_of := map assume_proc (procs_of N); caps := caps N; senders := senders N |}.

(* ------------------------------------------------------------------------------- *)
(* structural queries on skeletons *)

(* all statements of a block, nested ones included *)
Fixpoint flatS (s : stmt) : list stmt :=
  s ::
  match s with
  | Sel cs =>
      (fix fa (cs : list (alt * list stmt)) : list stmt :=
         match cs with
         | [] => []
         | c :: r =>
             (let (_, bd) := c in
              (fix fl (l : list stmt) : list stmt := match l with [] => [] | x :: t => flatS x ++ fl t end) bd)
             ++ fa r
         end) cs
  | Branch a b =>
      (fix fl (l : list stmt) : list stmt := match l with [] => [] | x :: t => flatS x ++ fl t end) a ++
      (fix fl (l : list stmt) : list stmt := match l with [] => [] | x :: t => flatS x ++ fl t end) b
  | IoE _ bd | LoopCtx bd | LoopRange _ bd | LoopData bd =>
      (fix fl (l : list stmt) : list stmt := match l with [] => [] | x :: t => flatS x ++ fl t end) bd
  | _ => []
  end.
Definition flatL (l : list stmt) : list stmt := flat_map flatS l.
Definition all_stmts (p : proc) : list stmt := flatL (body p) ++ flatL (finally p).

Definition is_sel (s : stmt) : bool := match s with Sel _ => true | _ => false end.
Definition is_range (s : stmt) : bool := match s with LoopRange _ _ => true | _ => false end.
Definition is_sendonce (c : chan) (s : stmt) : bool := match s with SendOnce c' => Nat.eqb c c' | _ => false end.
Definition is_recvclose (c : chan) (s : stmt) : bool := match s with RecvClose c' => Nat.eqb c c' | _ => false end.
Definition count (f : stmt -> bool) (l : list stmt) : nat := length (filter f l).

(* measured facts about a net, compared with independent counts on the source (group "proc"):
   goroutines, channels, defer-closed channels, range loops, then the capacities *)
Definition net_counts (N : net) : list nat :=
  [ length (procs_of N); length (caps N);
    length (flat_map defer_close (procs_of N));
    list_sum (map (fun p => count is_range (all_stmts p)) (procs_of N)) ] ++ caps N.

(* every `SendOnce c` of the block comes after an `Io k` of the same loop iteration /
   straight-line block (k = the read or write of the final acknowledgement) *)
Definition is_io (k : iokind) (s : stmt) : bool :=
  match s, k with
  | Io RecvLine, RecvLine | Io WriteWire, WriteWire | Io PauseGate, PauseGate | Io FileIO, FileIO => true
  | IoE RecvLine _, RecvLine | IoE WriteWire _, WriteWire | IoE PauseGate _, PauseGate | IoE FileIO _, FileIO => true
  | _, _ => false
  end.
Fixpoint afterS (k : iokind) (c : chan) (seen : bool) (s : stmt) : bool :=
  match s with
  | SendOnce c' => if Nat.eqb c c' then seen else true
  | Sel cs =>
      (fix fa (cs : list (alt * list stmt)) : bool :=
         match cs with
         | [] => true
         | x :: r =>
             (let (_, bd) := x in
              (fix al (sn : bool) (l : list stmt) : bool :=
                 match l with [] => true | y :: t => afterS k c sn y && al (sn || is_io k y) t end) seen bd)
             && fa r
         end) cs
  | Branch a b =>
      (fix al (sn : bool) (l : list stmt) : bool :=
         match l with [] => true | y :: t => afterS k c sn y && al (sn || is_io k y) t end) seen a &&
      (fix al (sn : bool) (l : list stmt) : bool :=
         match l with [] => true | y :: t => afterS k c sn y && al (sn || is_io k y) t end) seen b
  | IoE _ h =>
      (fix al (sn : bool) (l : list stmt) : bool :=
         match l with [] => true | y :: t => afterS k c sn y && al (sn || is_io k y) t end) seen h
  | LoopCtx bd | LoopRange _ bd | LoopData bd =>
      (fix al (sn : bool) (l : list stmt) : bool :=
         match l with [] => true | y :: t => afterS k c sn y && al (sn || is_io k y) t end) false bd
  | _ => true
  end.
Fixpoint afterL (k : iokind) (c : chan) (seen : bool) (l : list stmt) : bool :=
  match l with [] => true | y :: t => afterS k c seen y && afterL k c (seen || is_io k y) t end.

(* every `RecvClose d` of the block sits in a select case guarded by a receive on c *)
Fixpoint underS (c d : chan) (guarded : bool) (s : stmt) : bool :=
  match s with
  | RecvClose d' => if Nat.eqb d d' then guarded else true
  | Sel cs =>
      (fix fa (cs : list (alt * list stmt)) : bool :=
         match cs with
         | [] => true
         | x :: r =>
             (let (a, bd) := x in
              (fix ul (gd : bool) (l : list stmt) : bool :=
                 match l with [] => true | y :: t => underS c d gd y && ul gd t end)
                (match a with RecvAlt c' => Nat.eqb c c' | _ => false end) bd)
             && fa r
         end) cs
  | Branch a b =>
      (fix ul (gd : bool) (l : list stmt) : bool :=
         match l with [] => true | y :: t => underS c d gd y && ul gd t end) guarded a &&
      (fix ul (gd : bool) (l : list stmt) : bool :=
         match l with [] => true | y :: t => underS c d gd y && ul gd t end) guarded b
  | IoE _ bd | LoopCtx bd | LoopRange _ bd | LoopData bd =>
      (fix ul (gd : bool) (l : list stmt) : bool :=
         match l with [] => true | y :: t => underS c d gd y && ul gd t end) guarded bd
  | _ => true
  end.
Definition underL (c d : chan) (l : list stmt) : bool := forallb (underS c d false) l.

(* success is signalled on `succ` by goroutine `acker` only, there only after an Io of kind k,
   and `main` reads the digest (its only success return) only in the case that received succ *)
Definition success_guarded (N : net) (succ digest : chan) (acker main : pid) (k : iokind) : bool :=
  forallb (fun q => Nat.eqb q acker || Nat.eqb (count (is_sendonce succ) (all_stmts (info N q))) 0)
          (seq 0 (nprocs N)) &&
  Nat.ltb 0 (count (is_sendonce succ) (all_stmts (info N acker))) &&
  afterL k succ false (body (info N acker)) &&
  Nat.eqb (count (is_sendonce succ) (flatL (finally (info N acker)))) 0 &&
  underL succ digest (body (info N main)) &&
  Nat.ltb 0 (count (is_recvclose digest) (all_stmts (info N main))) &&
  Nat.eqb (count (is_recvclose digest) (flatL (finally (info N main)))) 0.

(* ------------------------------------------------------------------------------- *)
(* the interleaving semantics *)

Record chst := { len : nat; closed : bool }.

Inductive pstate := Running (fin : bool) (k : list item) | Exited.

Record gstate := {
  cancelled : bool;
  panicked : bool;              (* send on a closed channel / negative WaitGroup counter *)
  chans : chan -> chst;
  wgs : wgid -> nat;
  procs : pid -> pstate;
}.

Definition set_chan (f : chan -> chst) (c : chan) (v : chst) : chan -> chst :=
  fun x => if Nat.eqb x c then v else f x.
Definition set_proc (f : pid -> pstate) (p : pid) (v : pstate) : pid -> pstate :=
  fun x => if Nat.eqb x p then v else f x.
Definition set_wg (f : wgid -> nat) (w : wgid) (v : nat) : wgid -> nat :=
  fun x => if Nat.eqb x w then v else f x.
Definition close_all (f : chan -> chst) (cs : list chan) : chan -> chst :=
  fun x => if existsb (Nat.eqb x) cs then {| len := len (f x); closed := true |} else f x.

Section Sem.
Variable N : net.
Variable D : nat.
Variable io_ret : iokind -> bool.   (* which kinds of Io operation eventually return *)

Definition init : gstate :=
  {| cancelled := false; panicked := false;
     chans := fun _ => {| len := 0; closed := false |};
     wgs := fun _ => 0;
     procs := fun p => if Nat.ltb p (nprocs N) then Running false (lift (body (info N p))) else Exited |}.

Definition cont (g : gstate) (p : pid) (f : bool) (k : list item) : gstate :=
  {| cancelled := cancelled g; panicked := panicked g; chans := chans g; wgs := wgs g;
     procs := set_proc (procs g) p (Running f k) |}.
Definition cont_ch (g : gstate) (p : pid) (f : bool) (k : list item) (ch : chan -> chst) : gstate :=
  {| cancelled := cancelled g; panicked := panicked g; chans := ch; wgs := wgs g;
     procs := set_proc (procs g) p (Running f k) |}.

(* leaving: from the body into the deferred block, from the deferred block for good *)
Definition exit_of (g : gstate) (p : pid) (f : bool) : gstate :=
  if f then
    {| cancelled := cancelled g || exit_cancel (info N p); panicked := panicked g;
       chans := close_all (chans g) (defer_close (info N p)); wgs := wgs g;
       procs := set_proc (procs g) p Exited |}
  else cont g p true (lift (finally (info N p))).

Definition alt_enabled (g : gstate) (a : alt) : Prop :=
  match a with
  | SendAlt c => closed (chans g c) = false /\ len (chans g c) < capof N c
  | RecvAlt c => 0 < len (chans g c) \/ closed (chans g c) = true
  | DoneAlt => cancelled g = true
  | TimerAlt => True
  | DefaultAlt => True
  end.

Definition dec_len (f : chan -> chst) (c : chan) : chan -> chst :=
  set_chan f c {| len := pred (len (f c)); closed := closed (f c) |}.
Definition inc_len (f : chan -> chst) (c : chan) : chan -> chst :=
  set_chan f c {| len := S (len (f c)); closed := closed (f c) |}.

Definition alt_effect (g : gstate) (a : alt) : chan -> chst :=
  match a with
  | SendAlt c => inc_len (chans g) c
  | RecvAlt c => dec_len (chans g) c
  | _ => chans g
  end.

Definition with_panic (g : gstate) : gstate :=
  {| cancelled := cancelled g; panicked := true; chans := chans g; wgs := wgs g; procs := procs g |}.
Definition with_chans (g : gstate) (ch : chan -> chst) : gstate :=
  {| cancelled := cancelled g; panicked := panicked g; chans := ch; wgs := wgs g; procs := procs g |}.

(* one step of goroutine p *)
Inductive lstep : pid -> gstate -> gstate -> Prop :=
| g_sel g p f cs k a bd : procs g p = Running f (IStmt (Sel cs) :: k) -> In (a, bd) cs -> alt_enabled g a ->
    lstep p g (cont_ch g p f (lift bd ++ k) (alt_effect g a))
| g_io g p f kd k : procs g p = Running f (IStmt (Io kd) :: k) -> io_ret kd = true -> lstep p g (cont g p f k)
| g_ioe_ok g p f kd h k : procs g p = Running f (IStmt (IoE kd h) :: k) -> io_ret kd = true -> lstep p g (cont g p f k)
| g_ioe_fail g p f kd h k : procs g p = Running f (IStmt (IoE kd h) :: k) -> io_ret kd = true ->
    lstep p g (cont g p f (lift h ++ k))
| g_cancel g p f k : procs g p = Running f (IStmt Cancel :: k) ->
    lstep p g {| cancelled := true; panicked := panicked g; chans := chans g; wgs := wgs g;
               procs := set_proc (procs g) p (Running f k) |}
| g_ifctx_exit g p f k : procs g p = Running f (IStmt IfCtxExit :: k) -> cancelled g = true -> lstep p g (exit_of g p f)
| g_ifctx_go g p f k : procs g p = Running f (IStmt IfCtxExit :: k) -> cancelled g = false -> lstep p g (cont g p f k)
| g_return g p f k : procs g p = Running f (IStmt Return :: k) -> lstep p g (exit_of g p f)
| g_recv_item g p f c k : procs g p = Running f (IStmt (RecvClose c) :: k) -> 0 < len (chans g c) ->
    lstep p g (cont_ch g p f k (dec_len (chans g) c))
| g_recv_closed g p f c k : procs g p = Running f (IStmt (RecvClose c) :: k) -> closed (chans g c) = true ->
    len (chans g c) = 0 -> lstep p g (cont g p f k)
| g_send_once g p f c k : procs g p = Running f (IStmt (SendOnce c) :: k) ->
    closed (chans g c) = false -> len (chans g c) < capof N c ->
    lstep p g (exit_of (with_chans g (inc_len (chans g) c)) p f)
| g_send_closed g p f c k : procs g p = Running f (IStmt (SendOnce c) :: k) ->
    closed (chans g c) = true -> lstep p g (exit_of (with_panic g) p f)
| g_join g p f q k : procs g p = Running f (IStmt (Join q) :: k) -> procs g q = Exited -> lstep p g (cont g p f k)
| g_wgwait g p f w k : procs g p = Running f (IStmt (WgWait w) :: k) -> wgs g w = 0 -> lstep p g (cont g p f k)
| g_wgadd g p f w k : procs g p = Running f (IStmt (WgAdd w) :: k) ->
    lstep p g {| cancelled := cancelled g; panicked := panicked g; chans := chans g;
               wgs := set_wg (wgs g) w (S (wgs g w)); procs := set_proc (procs g) p (Running f k) |}
| g_wgdone g p f w k : procs g p = Running f (IStmt (WgDone w) :: k) ->
    lstep p g {| cancelled := cancelled g;
               panicked := panicked g || Nat.eqb (wgs g w) 0; chans := chans g;
               wgs := set_wg (wgs g) w (pred (wgs g w)); procs := set_proc (procs g) p (Running f k) |}
| g_branch_l g p f a b k : procs g p = Running f (IStmt (Branch a b) :: k) -> lstep p g (cont g p f (lift a ++ k))
| g_branch_r g p f a b k : procs g p = Running f (IStmt (Branch a b) :: k) -> lstep p g (cont g p f (lift b ++ k))
| g_loopctx g p f bd k : procs g p = Running f (IStmt (LoopCtx bd) :: k) -> lstep p g (cont g p f (IHeadCtx bd :: k))
| g_headctx_in g p f bd k : procs g p = Running f (IHeadCtx bd :: k) -> cancelled g = false ->
    lstep p g (cont g p f (lift bd ++ IHeadCtx bd :: k))
| g_headctx_out g p f bd k : procs g p = Running f (IHeadCtx bd :: k) -> lstep p g (cont g p f k)
| g_looprange g p f c bd k : procs g p = Running f (IStmt (LoopRange c bd) :: k) ->
    lstep p g (cont g p f (IHeadRange c bd :: k))
| g_range_item g p f c bd k : procs g p = Running f (IHeadRange c bd :: k) -> 0 < len (chans g c) ->
    lstep p g (cont_ch g p f (lift bd ++ IHeadRange c bd :: k) (dec_len (chans g) c))
| g_range_closed g p f c bd k : procs g p = Running f (IHeadRange c bd :: k) -> closed (chans g c) = true ->
    len (chans g c) = 0 -> lstep p g (cont g p f k)
| g_loopdata g p f bd n k : procs g p = Running f (IStmt (LoopData bd) :: k) -> n <= D ->
    lstep p g (cont g p f (IHeadData bd n :: k))
| g_data_iter g p f bd n k : procs g p = Running f (IHeadData bd (S n) :: k) ->
    lstep p g (cont g p f (lift bd ++ IHeadData bd n :: k))
| g_data_out g p f bd n k : procs g p = Running f (IHeadData bd n :: k) -> lstep p g (cont g p f k)
| g_end g p f : procs g p = Running f [] -> lstep p g (exit_of g p f).

(* one step of the net: any goroutine may move *)
Definition gstep (g g' : gstate) : Prop := exists p, lstep p g g'.

Inductive reach : gstate -> Prop :=
| reach_init : reach init
| reach_step g g' : reach g -> gstep g g' -> reach g'.

(* what is assumed about the Io operations, stated as what it is: a wire read returns (data,
   stop or timeout - the latter only if the configured timeout is positive), wire writes,
   file operations and the pause gate return, a computation of the stage itself returns *)
Definition io_assumptions (timeout_pos : bool) : Prop :=
  (timeout_pos = true -> io_ret RecvLine = true) /\
  io_ret WriteWire = true /\ io_ret PauseGate = true /\ io_ret FileIO = true /\ io_ret Check = true.

(* n steps *)
Inductive steps : nat -> gstate -> gstate -> Prop :=
| steps_0 g : steps 0 g g
| steps_S n g g' g'' : gstep g g' -> steps n g' g'' -> steps (S n) g g''.

Definition stuck (g : gstate) : Prop := forall g', ~ gstep g g'.

(* size of a goroutine's remaining work in a cancelled world (plus one for each exit step) *)
Definition psize (p : pid) (s : pstate) : nat :=
  match s with
  | Running false k => S (M D k) + S (M D (lift (finally (info N p))))
  | Running true k => S (M D k)
  | Exited => 0
  end.
Definition total (g : gstate) : nat :=
  list_sum (map (fun p => psize p (procs g p)) (seq 0 (nprocs N))).
End Sem.
