(* C14 — what a relay does to the negotiation (ACT / CFG) that passes through it, and
   the status automaton by which it notices that a transfer has ended.
   Transcribed from relay.go: recvAction / sendAction / recvConfig / sendConfig /
   handshake / flushHandshakeBuffer / resetToStandby / wrapInput / wrapOutput, and from
   transfer.go: sendAction (client), recvAction / sendConfig (server), recvConfig
   (client), trz.go / tsz.go: the capability checks in front of sendConfig.
   Executable definitions only; every literal comes from Gen.Consts. *)
From Coq Require Import List NArith ZArith Bool.
From Trzsz Require Import Base.Bytes Gen.Consts Model.Detector.
Import ListNotations.
Open Scope N_scope.

Definition rn_str := list N.

(* ------------------------------------------------------------------------------- *)
(* 1. The two JSON objects.  `action` / `config` are the Go structs (every field has a
      value); `n_wire_action` / `n_wire_config` are JSON objects as they travel: a key may
      be absent (or null, which json.Unmarshal treats like absent for these types). *)

Record n_action := mkNA {
  na_lang : rn_str; na_version : rn_str; na_confirm : bool; na_newline : rn_str; na_protocol : Z;
  na_binary : bool; na_support_dir : bool; na_tunnel : bool; na_fork : bool }.

Record n_wire_action := mkNWA {
  nwa_lang : option rn_str; nwa_version : option rn_str; nwa_confirm : option bool;
  nwa_newline : option rn_str; nwa_protocol : option Z; nwa_binary : option bool;
  nwa_support_dir : option bool; nwa_tunnel : option bool; nwa_fork : option bool }.

(* the value of "escape_chars" on the wire: an array of pairs (source byte, code byte)
   as the server announces it, or the empty object `{}` that json.Marshal produces for
   a non-nil *escapeTable (no exported fields, no MarshalJSON) *)
Inductive n_wire_escape := WEscTable (t : list (N * N)) | WEscObject.

Record n_config := mkNC {
  nc_quiet : bool; nc_binary : bool; nc_directory : bool; nc_overwrite : bool;
  nc_timeout : Z; nc_newline : rn_str; nc_protocol : Z; nc_bufsize : Z;
  nc_escape : option (list (N * N)); nc_pane_width : Z; nc_junk : bool;
  nc_compress : Z; nc_fork : bool }.

Record n_wire_config := mkNWC {
  nwc_quiet : option bool; nwc_binary : option bool; nwc_directory : option bool;
  nwc_overwrite : option bool; nwc_timeout : option Z; nwc_newline : option rn_str;
  nwc_protocol : option Z; nwc_bufsize : option Z; nwc_escape : option n_wire_escape;
  nwc_pane_width : option Z; nwc_junk : option bool; nwc_compress : option Z;
  nwc_fork : option bool }.

Definition rn_dflt {A} (o : option A) (d : A) : A := match o with Some x => x | None => d end.

(* json.Unmarshal(str, &a): keys present overwrite, everything else keeps its value *)
Definition decode_action_into (a : n_action) (w : n_wire_action) : n_action :=
  mkNA (rn_dflt (nwa_lang w) (na_lang a)) (rn_dflt (nwa_version w) (na_version a))
           (rn_dflt (nwa_confirm w) (na_confirm a)) (rn_dflt (nwa_newline w) (na_newline a))
           (rn_dflt (nwa_protocol w) (na_protocol a)) (rn_dflt (nwa_binary w) (na_binary a))
           (rn_dflt (nwa_support_dir w) (na_support_dir a)) (rn_dflt (nwa_tunnel w) (na_tunnel a))
           (rn_dflt (nwa_fork w) (na_fork a)).

(* json.Marshal(&a): every field of the struct, nothing else *)
Definition encode_action (a : n_action) : n_wire_action :=
  mkNWA (Some (na_lang a)) (Some (na_version a)) (Some (na_confirm a)) (Some (na_newline a))
       (Some (na_protocol a)) (Some (na_binary a)) (Some (na_support_dir a))
       (Some (na_tunnel a)) (Some (na_fork a)).

(* None = json.Unmarshal fails: the only modelled failure is "escape_chars" being an
   object (escapeTable.UnmarshalJSON unmarshals into []interface{}) *)
Definition decode_config_into (c : n_config) (w : n_wire_config) : option n_config :=
  match
    match nwc_escape w with
    | None => Some (nc_escape c)
    | Some (WEscTable t) => Some (Some t)
    | Some WEscObject => None
    end
  with
  | None => None
  | Some esc =>
    Some (mkNC (rn_dflt (nwc_quiet w) (nc_quiet c)) (rn_dflt (nwc_binary w) (nc_binary c))
                   (rn_dflt (nwc_directory w) (nc_directory c)) (rn_dflt (nwc_overwrite w) (nc_overwrite c))
                   (rn_dflt (nwc_timeout w) (nc_timeout c)) (rn_dflt (nwc_newline w) (nc_newline c))
                   (rn_dflt (nwc_protocol w) (nc_protocol c)) (rn_dflt (nwc_bufsize w) (nc_bufsize c))
                   esc (rn_dflt (nwc_pane_width w) (nc_pane_width c)) (rn_dflt (nwc_junk w) (nc_junk c))
                   (rn_dflt (nwc_compress w) (nc_compress c)) (rn_dflt (nwc_fork w) (nc_fork c)))
  end.

(* json.Marshal(&c).  "escape_chars": null for a nil pointer; for a non-nil table the
   struct is marshalled, and it has [relayneg_escape_table_exported_fields] = 0
   exported fields and no marshaler, i.e. `{}`; should the source ever gain a
   MarshalJSON the generated flag flips and the table is modelled as preserved. *)
Definition marshal_escape (e : option (list (N * N))) : option n_wire_escape :=
  match e with
  | None => None
  | Some t => if relayneg_escape_table_has_marshaler then Some (WEscTable t) else Some WEscObject
  end.

Definition encode_config (c : n_config) : n_wire_config :=
  mkNWC (Some (nc_quiet c)) (Some (nc_binary c)) (Some (nc_directory c)) (Some (nc_overwrite c))
       (Some (nc_timeout c)) (Some (nc_newline c)) (Some (nc_protocol c)) (Some (nc_bufsize c))
       (marshal_escape (nc_escape c)) (Some (nc_pane_width c)) (Some (nc_junk c))
       (Some (nc_compress c)) (Some (nc_fork c)).

(* ------------------------------------------------------------------------------- *)
(* 2. The relay's handshake *)

(* zero value of the struct with the two fields recvAction pre-sets *)
Definition action_zero (nl : rn_str) (bin : bool) : n_action :=
  mkNA [] [] false nl 0%Z bin false false false.
Definition relay_action_init : n_action := action_zero relayneg_relay_act_newline relayneg_relay_act_binary.
Definition server_action_init : n_action := action_zero relayneg_server_act_newline relayneg_server_act_binary.

Definition config_zero (timeout : Z) (nl : rn_str) (bufsize : Z) : n_config :=
  mkNC false false false false timeout nl 0%Z bufsize None 0%Z false 0%Z false.

(* what a relay knows about itself and about the transfer it is relaying *)
Record rn_env := mkNEnv {
  ne_tmux_mode : N;       (* noTmuxMode / tmuxNormalMode / tmuxControlMode *)
  ne_pane_width : Z;      (* r.tmuxPaneWidth, -1 when unknown *)
  ne_win_server : bool }. (* r.trigger.winServer *)

(* recvConfig: Newline default is "!\n" for a Windows server unless the tunnel is up *)
Definition relay_config_init (e : rn_env) (tunnel : bool) : n_config :=
  config_zero relayneg_relay_cfg_timeout
    (if ne_win_server e && negb tunnel then relayneg_relay_cfg_win_newline else relayneg_relay_cfg_newline)
    relayneg_relay_cfg_bufsize.

(* handshake(), the two assignments to the action *)
Definition rewrite_action (a : n_action) : n_action :=
  let bin := if negb (na_tunnel a) then false else na_binary a in
  let proto := if (na_protocol a >? relayneg_protocol_version)%Z then relayneg_protocol_version else na_protocol a in
  mkNA (na_lang a) (na_version a) (na_confirm a) (na_newline a) proto bin
           (na_support_dir a) (na_tunnel a) (na_fork a).

(* handshake(), the two assignments to the config *)
Definition rewrite_config (e : rn_env) (c : n_config) : n_config :=
  let junk := if ne_tmux_mode e =? relayneg_tmux_normal_mode then true else nc_junk c in
  let width := if (nc_pane_width c <=? 0)%Z && (ne_pane_width e >? 0)%Z then ne_pane_width e else nc_pane_width c in
  mkNC (nc_quiet c) (nc_binary c) (nc_directory c) (nc_overwrite c) (nc_timeout c) (nc_newline c)
           (nc_protocol c) (nc_bufsize c) (nc_escape c) width junk (nc_compress c) (nc_fork c).

(* what the server finds in the ACT line after one relay *)
Definition relay_action (w : n_wire_action) : n_wire_action :=
  encode_action (rewrite_action (decode_action_into relay_action_init w)).

(* what the client finds in the CFG line after one relay; None = the relay could not
   decode the server's line (it then sends FAIL to both sides) *)
Definition relay_config (e : rn_env) (tunnel : bool) (w : n_wire_config) : option n_wire_config :=
  match decode_config_into (relay_config_init e tunnel) w with
  | None => None
  | Some c => Some (encode_config (rewrite_config e c))
  end.

(* the whole handshake goroutine.  The lines are given decoded (None = not a decodable
   line of the expected type: JSON error, wrong type, interrupted). *)
Inductive rn_status := NStandby | NHandshaking | NTransferring.

Definition rn_status_code (s : rn_status) : N :=
  match s with
  | NStandby => relayneg_relay_stand_by
  | NHandshaking => relayneg_relay_handshaking
  | NTransferring => relayneg_relay_transferring
  end.

Inductive rn_hs_result :=
| HsBadAction                                        (* FAIL to both sides *)
| HsRefused (to_server : n_wire_action)                (* confirm = false: nothing else sent *)
| HsBadConfig (to_server : n_wire_action)              (* ACT forwarded, then FAIL to both sides *)
| HsDone (to_server : n_wire_action) (to_client : n_wire_config).

Definition rn_handshake (e : rn_env) (act : option n_wire_action) (cfg : option n_wire_config) : rn_hs_result :=
  match act with
  | None => HsBadAction
  | Some wa =>
    let a := rewrite_action (decode_action_into relay_action_init wa) in
    if negb (na_confirm a) then HsRefused (encode_action a) else
    match cfg with
    | None => HsBadConfig (encode_action a)
    | Some wc =>
      match relay_config e (na_tunnel a) wc with
      | None => HsBadConfig (encode_action a)
      | Some wc' => HsDone (encode_action a) wc'
      end
    end
  end.

(* flushHandshakeBuffer(confirm): confirm is true only on the HsDone path *)
Definition hs_confirmed (r : rn_hs_result) : bool := match r with HsDone _ _ => true | _ => false end.
Definition status_after_handshake (r : rn_hs_result) : rn_status :=
  if hs_confirmed r then NTransferring else NStandby.

(* ------------------------------------------------------------------------------- *)
(* 2b. The handshake with its line framing.  Every line is "#TYP:payload" + a terminator:
       "\n", or "!\n" for an end that reads with the Windows line reader (which keeps only the
       protocol's letters and stops at '!').  The relay keeps two facts that decide which
       reader it uses and which terminator it writes: tunnelConnected (false when a handshake
       starts, see section 3b) and clientIsWindows (set from the ACT's newline field, NEVER
       reset: it survives from one transfer to the next).  handshake() in order:
         recvAction (reader: recvStringFromClient) - tunnelConnected, clientIsWindows := ACT -
         sendAction - [refused?] - recvConfig (reader: recvStringFromServer) - sendConfig;
       any failure: FAIL to the client, then FAIL to the server, with the facts as they are
       at that moment. *)

Inductive rn_read := RdOk | RdGarbled | RdBlocked.

(* a line framed Windows-style ("...!\n") or plainly ("...\n"), read by the Windows reader
   or by readLine: the plain reader keeps the '!' (the base64 payload no longer decodes), the
   Windows reader waits for a '!' that never comes (the relay reads without a timeout) *)
Definition rn_read_line (reader_win framed_win : bool) : rn_read :=
  match reader_win, framed_win with
  | true, true | false, false => RdOk
  | false, true => RdGarbled
  | true, false => RdBlocked
  end.

(* a line as its sender made it: its framing, and its payload decoded (None = not a
   decodable payload of the expected type) *)
Record rn_line (A : Type) := mkRnLine { ln_win : bool; ln_body : option A }.
Arguments mkRnLine {A}. Arguments ln_win {A}. Arguments ln_body {A}.

Inductive rn_out_msg := OAct (w : n_wire_action) | OCfg (w : n_wire_config) | OFail.

Record rn_hs2 := mkHs2 {
  h2_to_server : list (rn_out_msg * rn_str);   (* what the relay itself sent, with the terminator used *)
  h2_to_client : list (rn_out_msg * rn_str);
  h2_status : rn_status;                       (* NHandshaking: the goroutine is still waiting for a line *)
  h2_cli_win : bool }.                         (* r.clientIsWindows afterwards *)

(* sendStringToClient / sendStringToServer / recvStringFromClient / recvStringFromServer *)
Definition rn_nl_to_client (e : rn_env) (cli_win tunnel : bool) : rn_str :=
  if (cli_win || ne_win_server e) && negb tunnel then relayneg_to_client_win_nl else relayneg_to_client_nl.
Definition rn_nl_to_server (e : rn_env) (tunnel is_act : bool) : rn_str :=
  if ne_win_server e && (negb tunnel || is_act) then relayneg_to_server_win_nl else relayneg_to_server_nl.
Definition rn_reader_from_client (e : rn_env) (tunnel : bool) : bool := ne_win_server e && negb tunnel.
Definition rn_reader_from_server (e : rn_env) (cli_win tunnel : bool) : bool :=
  (cli_win || ne_win_server e) && negb tunnel.

Definition rn_hs2_fail (e : rn_env) (cli_win tunnel : bool) (sent : list (rn_out_msg * rn_str)) : rn_hs2 :=
  mkHs2 (sent ++ [(OFail, rn_nl_to_server e tunnel false)]) [(OFail, rn_nl_to_client e cli_win tunnel)] NStandby cli_win.

Definition rn_handshake2 (e : rn_env) (cli_win0 : bool) (act : rn_line n_wire_action)
                         (cfg : option (rn_line n_wire_config)) : rn_hs2 :=
  match rn_read_line (rn_reader_from_client e false) (ln_win act) with
  | RdBlocked => mkHs2 [] [] NHandshaking cli_win0
  | RdGarbled => rn_hs2_fail e cli_win0 false []
  | RdOk =>
    match ln_body act with
    | None => rn_hs2_fail e cli_win0 false []
    | Some wa =>
      let a := rewrite_action (decode_action_into relay_action_init wa) in
      let tun := na_tunnel a in
      let cw := list_eqb (na_newline a) relayneg_client_win_newline in
      let sent := [(OAct (encode_action a), rn_nl_to_server e tun true)] in
      if negb (na_confirm a) then mkHs2 sent [] NStandby cw else
      match cfg with
      | None => mkHs2 sent [] NHandshaking cw
      | Some cl =>
        match rn_read_line (rn_reader_from_server e cw tun) (ln_win cl) with
        | RdBlocked => mkHs2 sent [] NHandshaking cw
        | RdGarbled => rn_hs2_fail e cw tun sent
        | RdOk =>
          match ln_body cl with
          | None => rn_hs2_fail e cw tun sent
          | Some wc =>
            match relay_config e tun wc with
            | None => rn_hs2_fail e cw tun sent
            | Some wc' => mkHs2 sent [(OCfg wc', rn_nl_to_client e cw tun)] NTransferring cw
            end
          end
        end
      end
    end
  end.

(* The Go client as far as framing goes (transfer.go sendAction / recvLine): it frames for
   Windows iff there is no tunnel and it runs on Windows or talks to a Windows server; then it
   announces "newline":"!\n", offers no binary mode, and reads with the Windows reader.  Its
   ACT line itself is "!\n"-terminated exactly for a Windows server (the tunnel's "\n" is
   set only after the ACT has gone out). *)
Record rn_client := mkRnClient { cl_env_win : bool; cl_remote_win : bool; cl_tunnel : bool }.

Definition rn_client_windows (c : rn_client) : bool :=
  negb (cl_tunnel c) && (cl_env_win c || cl_remote_win c).

Definition rn_client_action (c : rn_client) (confirm : bool) (protocol : Z) (lang version : rn_str) : n_wire_action :=
  mkNWA (Some lang) (Some version) (Some confirm)
        (Some (if rn_client_windows c then relayneg_client_act_win_nl else relayneg_client_act_nl))
        (Some protocol) (Some (negb (rn_client_windows c))) (Some true) (Some (cl_tunnel c)) (Some (cl_tunnel c)).

Definition rn_client_act_line (c : rn_client) (wa : n_wire_action) : rn_line n_wire_action :=
  mkRnLine (cl_remote_win c) (Some wa).

(* the terminator the client's reader needs *)
Definition rn_client_terminator (c : rn_client) : rn_str :=
  if rn_client_windows c then relayneg_client_line_win_nl else relayneg_client_cfg_newline.

(* The Go server (transfer.go recvAction / sendString): every line it writes ends with the
   newline field of the ACT it received *)
Definition rn_server_line {A} (a : n_action) (body : option A) : rn_line A :=
  mkRnLine (list_eqb (na_newline a) relayneg_client_win_newline) body.

(* ------------------------------------------------------------------------------- *)
(* 3. The status automaton of wrapInput / wrapOutput (main channel, no tunnel relay).
      One event per chunk read; the handshake goroutine's end is an event of its own. *)

Definition rn_has_marker (ms : list (list N)) (c : list N) : bool := existsb (fun m => contains m c) ms.

(* wrapInput: exactly one byte Ctrl-C, or one of the markers somewhere in THIS chunk *)
Definition rn_end_in (c : list N) : bool :=
  ((N.of_nat (length c) =? relayneg_ctrl_c_len) && match c with b :: _ => b =? relayneg_ctrl_c | [] => false end)
  || rn_has_marker relayneg_markers_in c.
Definition rn_end_out (c : list N) : bool := rn_has_marker relayneg_markers_out c.

Inductive rn_event :=
| NIn (c : list N)                 (* a chunk read from the client *)
| NOut (c : list N) (det : bool)   (* a chunk read from the server; det = detectTrzsz would find a trigger in it *)
| NHsEnd (confirm : bool).         (* flushHandshakeBuffer(confirm) *)

(* what happened to the chunk *)
Inductive rn_fwd := FParked | FRaw | FRewritten | FNone.

Definition rn_step (s : rn_status) (ev : rn_event) : rn_status * rn_fwd :=
  match ev with
  | NIn c =>
    match s with
    | NHandshaking => (NHandshaking, FParked)
    | NTransferring => (if rn_end_in c then NStandby else NTransferring, FRaw)
    | NStandby => (NStandby, FRaw)
    end
  | NOut c det =>
    match s with
    | NHandshaking => (NHandshaking, FParked)
    | NTransferring => (if rn_end_out c then NStandby else NTransferring, FRaw)
    | NStandby => if det then (NHandshaking, FRewritten) else (NStandby, FRaw)
    end
  | NHsEnd confirm =>
    match s with
    | NHandshaking => (if confirm then NTransferring else NStandby, FNone)
    | _ => (s, FNone)  (* resetToStandby(kRelayHandshaking) CAS fails; Store(transferring) only follows a handshake *)
    end
  end.

Fixpoint rn_run (s : rn_status) (evs : list rn_event) : rn_status * list (rn_status * rn_fwd) :=
  match evs with
  | [] => (s, [])
  | ev :: rest =>
    let '(s1, f) := rn_step s ev in
    let '(s2, tr) := rn_run s1 rest in
    (s2, (s1, f) :: tr)
  end.

Definition rn_final (s : rn_status) (evs : list rn_event) : rn_status := fst (rn_run s evs).

(* ------------------------------------------------------------------------------- *)
(* 3b. The same automaton with the relay's tunnelConnected flag and the tunnel's own two
       read loops (tunnelRelay.wrapInput / wrapOutput).  State: status x flag.
       - handshake() stores the flag from the client's ACT once it has decoded it (THsAct);
       - resetToStandby clears it after its CompareAndSwap has succeeded;
       - addHandshakeBuffer(buf, tunnel=false) parks main-channel data only while the flag
         is false; data read from the tunnel is parked whenever the relay is handshaking.
       The handshake goroutine lives exactly as long as the status is handshaking, so THsAct
       in another status is no event of the real system (modelled as a no-op).  Tunnel events
       are those of the tunnel of the current transfer (an older tunnelRelay has relay = nil
       and only forwards). *)

Definition rt_state := (rn_status * bool)%type.

Inductive rt_event :=
| TMain (ev : rn_event)      (* the main-channel events of section 3 *)
| THsAct (tunnel : bool)     (* r.tunnelConnected.Store(action.TunnelConnected) *)
| TTunIn (c : list N)        (* a chunk read from the client's tunnel connection *)
| TTunOut (c : list N).      (* a chunk read from the server's tunnel connection *)

Definition rn_status_eqb (a b : rn_status) : bool :=
  match a, b with
  | NStandby, NStandby | NHandshaking, NHandshaking | NTransferring, NTransferring => true
  | _, _ => false
  end.

(* resetToStandby(from) *)
Definition rt_reset (from : rn_status) (st : rt_state) : rt_state :=
  if rn_status_eqb (fst st) from
  then (NStandby, if relayneg_reset_clears_tunnel_flag then false else snd st)
  else st.

Definition rn_end_tun_in (c : list N) : bool := rn_has_marker relayneg_markers_tunnel_in c.
Definition rn_end_tun_out (c : list N) : bool := rn_has_marker relayneg_markers_tunnel_out c.

Definition rt_step (st : rt_state) (ev : rt_event) : rt_state * rn_fwd :=
  let '(s, fl) := st in
  match ev with
  | TMain (NIn c) =>
    match s with
    | NHandshaking => if fl then (st, FRaw) else (st, FParked)
    | NTransferring => (if rn_end_in c then rt_reset NTransferring st else st, FRaw)
    | NStandby => (st, FRaw)
    end
  | TMain (NOut c det) =>
    match s with
    | NHandshaking => if fl then (st, if det then FRewritten else FRaw) else (st, FParked)
    | NTransferring => (if rn_end_out c then rt_reset NTransferring st else st, FRaw)
    | NStandby => if det then ((NHandshaking, fl), FRewritten) else (st, FRaw)
    end
  | TMain (NHsEnd confirm) =>
    match s with
    | NHandshaking => (if confirm then (NTransferring, fl) else rt_reset NHandshaking st, FNone)
    | _ => (st, FNone)
    end
  | THsAct tunnel =>
    match s with
    | NHandshaking => ((NHandshaking, if relayneg_handshake_sets_tunnel_flag then tunnel else fl), FNone)
    | _ => (st, FNone)
    end
  | TTunIn c =>
    match s with
    | NHandshaking => (st, FParked)
    | NTransferring => (if rn_end_tun_in c then rt_reset NTransferring st else st, FRaw)
    | NStandby => (st, FRaw)
    end
  | TTunOut c =>
    match s with
    | NHandshaking => (st, FParked)
    | NTransferring => (if rn_end_tun_out c then rt_reset NTransferring st else st, FRaw)
    | NStandby => (st, FRaw)
    end
  end.

Fixpoint rt_run (st : rt_state) (evs : list rt_event) : rt_state * list (rt_state * rn_fwd) :=
  match evs with
  | [] => (st, [])
  | ev :: rest =>
    let '(s1, f) := rt_step st ev in
    let '(s2, tr) := rt_run s1 rest in
    (s2, (s1, f) :: tr)
  end.

Definition rt_final (st : rt_state) (evs : list rt_event) : rt_state := fst (rt_run st evs).

(* ------------------------------------------------------------------------------- *)
(* 3c. wrapOutput in stand-by on ONE read of server output: the relay's own detector
       (newTrzszDetector(relay, tmux) with the two literals of the source), the `tunnel`
       argument it passes to detectTrzsz (which VALUE that is, is read from the source:
       relayneg_detect_tunnel_arg), and listenForTunnel, which exchanges ":<id>:<port>" for
       ":<id>:<relay port>" when the relay has a tunnel connector, the trigger carries a port
       and the relay could listen ([relay_port] = 0: it could not).  The detector itself is
       C06's model (Model/Detector.v). *)

Definition rn_detect_tunnel_arg (has_connector tunnel_connected : bool) : bool :=
  if relayneg_detect_tunnel_arg =? 0 then has_connector
  else if relayneg_detect_tunnel_arg =? 1 then tunnel_connected
  else relayneg_detect_tunnel_arg =? 2.

Definition rn_relay_detector : det := new_det relayneg_detector_relay relayneg_detector_tmux.

Definition rn_port_field (id : list N) (port : N) : list N := ch_colon :: id ++ ch_colon :: dec_of port.

Definition rn_port_rewrite (has_connector : bool) (relay_port : N) (t : trigger) (out : list N) : list N :=
  if has_connector && negb (t_port t =? 0) && negb (relay_port =? 0)
  then replace_all (rn_port_field (t_id t) (t_port t)) (rn_port_field (t_id t) relay_port) out
  else out.

(* result: what is forwarded to the client, the trigger (Some = the relay is handshaking
   now), the detector afterwards.  The relay does not run in a Windows environment. *)
Definition rn_stand_by_read (has_connector tunnel_connected : bool) (d : det) (relay_port : N) (buf : list N)
  : (list N * option trigger) * det :=
  let '(out, trig, d') := detect false d (rn_detect_tunnel_arg has_connector tunnel_connected) buf in
  match trig with
  | None => (out, None, d')
  | Some t => (rn_port_rewrite has_connector relay_port t out, Some t, d')
  end.

(* ------------------------------------------------------------------------------- *)
(* 4. The two ends (Go client and Go server), and the negotiation through k relays *)

(* server options that reach the configuration (baseArgs of trz / tsz) *)
Record rn_server_args := mkNArgs {
  ns_quiet : bool; ns_overwrite : bool; ns_binary : bool; ns_directory : bool; ns_fork : bool;
  ns_bufsize : Z; ns_timeout : Z; ns_compress : Z;
  ns_escape : list (N * N);          (* the table getEscapeChars(args.Escape) announces (trz); tsz: [] *)
  ns_tmux_mode : N; ns_pane_width : Z }.

Inductive rn_server_result :=
| SrvCancelled            (* confirm = false *)
| SrvNoFork               (* "The client doesn't support fork to background" *)
| SrvNoDirectory          (* "The client doesn't support transfer directory" *)
| SrvConfig (w : n_wire_config).

(* recvFiles / sendFiles up to and including sendConfig: the cfgMap *)
Definition rn_server_config (g : rn_server_args) (a : n_action) : rn_server_result :=
  if negb (na_confirm a) then SrvCancelled else
  let bin := ns_binary g && na_binary a in
  if ns_fork g && negb (na_fork a) then SrvNoFork else
  if ns_directory g && negb (na_support_dir a) then SrvNoDirectory else
  let some_true (b : bool) := if b then Some true else None in
  SrvConfig (mkNWC
    (some_true (ns_quiet g || (na_tunnel a && ns_fork g)))
    (some_true (na_tunnel a || bin))
    (some_true (ns_directory g))
    (some_true (ns_overwrite g))
    (Some (ns_timeout g))
    None
    (if (na_protocol a >? 0)%Z then Some (Z.min (na_protocol a) relayneg_protocol_version) else None)
    (Some (ns_bufsize g))
    (if negb (na_tunnel a) && bin then Some (WEscTable (ns_escape g)) else None)
    (if (ns_pane_width g >? 0)%Z then Some (ns_pane_width g) else None)
    (some_true (ns_tmux_mode g =? relayneg_tmux_normal_mode))
    (if (ns_compress g =? 0)%Z then None else Some (ns_compress g))
    (some_true (na_tunnel a && ns_fork g))).

(* the server keeps json.Unmarshal(cfgStr, &t.transferConfig) with Newline = action.Newline *)
Definition server_own_init (a : n_action) : n_config :=
  config_zero relayneg_client_cfg_timeout (na_newline a) relayneg_client_cfg_bufsize.

(* the client's transferConfig before CFG arrives: newTransfer's literal; sendAction
   sets Newline to "!\n" for a Windows server, and back to "\n" once the tunnel is up *)
Definition rn_client_init (remote_is_windows tunnel : bool) : n_config :=
  config_zero relayneg_client_cfg_timeout
    (if remote_is_windows && negb tunnel then relayneg_client_win_newline else relayneg_client_cfg_newline)
    relayneg_client_cfg_bufsize.

(* a chain of relays, listed from the client's side to the server's side *)
Fixpoint relays_action (k : nat) (w : n_wire_action) : n_wire_action :=
  match k with O => w | S k' => relays_action k' (relay_action w) end.

(* the CFG travels back: the relay nearest to the server (last of the list) first *)
Fixpoint relays_config (es : list rn_env) (tunnel : bool) (w : n_wire_config) : option n_wire_config :=
  match es with
  | [] => Some w
  | e :: rest =>
    match relays_config rest tunnel w with
    | None => None
    | Some w' => relay_config e tunnel w'
    end
  end.

Inductive rn_outcome :=
| OutRefused (r : rn_server_result)                       (* no configuration was sent *)
| OutRelayFailed (server : option n_config)              (* a relay could not decode the CFG *)
| OutClientFailed (server : option n_config)             (* the client could not decode the CFG *)
| OutAgreed (server client : n_config).

(* client sends [wa]; [es] relays in between (all see the same Windows-server fact,
   which is part of the trigger); server runs with [g] *)
Definition negotiate (g : rn_server_args) (win : bool) (es : list rn_env) (wa : n_wire_action) : rn_outcome :=
  let wa' := relays_action (length es) wa in
  let a := decode_action_into server_action_init wa' in
  match rn_server_config g a with
  | SrvConfig wc =>
    let own := decode_config_into (server_own_init a) wc in
    match relays_config es (na_tunnel a) wc with
    | None => OutRelayFailed own
    | Some wc' =>
      match own, decode_config_into (rn_client_init win (na_tunnel a)) wc' with
      | Some so, Some cc => OutAgreed so cc
      | _, _ => OutClientFailed own
      end
    end
  | r => OutRefused r
  end.
