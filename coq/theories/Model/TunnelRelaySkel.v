(* The statement skeleton of the relay's tunnel code (relay.go) that the interleaving model
   Model/TunnelRelay.v transcribes (hand-written; Proofs/TunnelRelay.v proves it equal to the one
   go/cmd/gen/skel_rtunnel.go regenerates from the source on every run, so an edit of the Go
   statements below breaks a proof obligation).  The program points of TunnelRelay.rt_pc and the
   labels of TunnelRelay.rt_label are marked.  Definitions only. *)
From Coq Require Import String List.
From Trzsz Require Import Model.TunnelSkel.
Import ListNotations.
Open Scope string_scope.

Definition expected_rt_set_tunnel_connector : list tsk := [
  TkIf "connector == nil" [
    TkDo "r.tunnelConnector.Store(nil)";
    TkReturn] [];
  TkDo "r.tunnelConnector.Store(&connector)"].

Definition expected_rt_listen_for_tunnel : list tsk := [
  TkIf "r.tunnelConnector.Load() == nil || r.trigger.tunnelPort == 0" [
    TkDo "return buf"] [];
  TkDo "listener, port := listenForTunnel()";
  TkIf "listener == nil" [
    TkDo "return buf"] [];
  TkDo "r.tunnelRelayPort = port";
  TkIf "listener := r.tunnelListener.Load(); listener != nil" [
    TkDo "(*listener).Close()"] [];
  TkDo "r.tunnelListener.Store(&listener)";
  TkDo "r.acceptOnTunnel()";
  TkDo "return bytes.ReplaceAll(buf, []byte(fmt.Sprintf("":%s:%d"", r.trigger.uniqueID, r.trigger.tunnelPort)), []byte(fmt.Sprintf("":%s:%d"", r.trigger.uniqueID, r.tunnelRelayPort)))"].

Definition expected_rt_accept_on_tunnel : list tsk := [
  TkGo [
    TkDefer "func() { if listener := r.tunnelListener.Load(); listener != nil { (*listener).Close() r.tunnelListener.Store(nil) } }()";
    TkFor [
      TkDo "listener := r.tunnelListener.Load()";
      TkIf "listener == nil" [
        TkReturn] [];
      TkDo "clientConn, err := (*listener).Accept()";                                       (* RaAccept: RLAccept / RLAcceptErr *)
      TkIf "err != nil" [
        TkReturn] [];
      TkIf "r.tunnelRelay.Load() != nil" [                                                  (* RaCheck: RLCheck *)
        TkDo "clientConn.Close()";
        TkReturn] [];
      TkDo "go r.handleTunnelConn(clientConn)"]]].

Definition expected_rt_handle_tunnel_conn : list tsk := [
  TkDo "connector := r.tunnelConnector.Load()";                                             (* RtLoadConn *)
  TkIf "connector == nil" [
    TkDo "clientConn.Close()";
    TkReturn] [];
  TkDo "clientHello1, serverHello4 := getHelloConstant(r.trigger.uniqueID, r.tunnelRelayPort)";
  TkDo "clientHello2, serverHello3 := getHelloConstant(r.trigger.uniqueID, r.trigger.tunnelPort)";
  TkDo "buf := make([]byte, 100)";
  TkDo "n, err := clientConn.Read(buf)";                                                    (* RtRead: exactly one Read *)
  TkIf "err != nil || string(buf[:n]) != clientHello1" [                                    (* RtCmp: equality with the hello for the RELAY port *)
    TkDo "clientConn.Close()";
    TkReturn] [];
  TkDo "serverConn := (*connector)(r.trigger.tunnelPort)";                                  (* RtDial: only after the client is authenticated *)
  TkIf "serverConn == nil" [
    TkDo "clientConn.Close()";
    TkReturn] [];
  TkIf "_, err := serverConn.Write([]byte(clientHello2)); err != nil" [                     (* RtWriteSrv *)
    TkDo "clientConn.Close()";
    TkDo "serverConn.Close()";
    TkReturn] [];
  TkDo "n, err = serverConn.Read(buf)";                                                     (* RtReadSrv: exactly one Read *)
  TkIf "err != nil || string(buf[:n]) != serverHello3" [                                    (* RtCmpSrv: equality with the hello for the SERVER port *)
    TkDo "clientConn.Close()";
    TkDo "serverConn.Close()";
    TkReturn] [];
  TkIf "_, err := clientConn.Write([]byte(serverHello4)); err != nil" [                     (* RtReply: only after the server answered *)
    TkDo "clientConn.Close()";
    TkDo "serverConn.Close()";
    TkReturn] [];
  TkDo "tr := newTunnelRelay(r.logger, clientConn, serverConn)";                            (* RtNew *)
  TkIf "r.tunnelRelay.CompareAndSwap(nil, tr)" [                                            (* RtCas *)
    TkDo "tr.relay.Store(r)";                                                               (* RtStoreRelay *)
    TkDo "go tr.wrapInput()";                                                               (* RtGoIn *)
    TkDo "go tr.wrapOutput()";                                                              (* RtGoOut *)
    TkIf "listener := r.tunnelListener.Load(); listener != nil" [                           (* RtCloseLis *)
      TkDo "(*listener).Close()";
      TkDo "r.tunnelListener.Store(nil)"] []] [
    TkDo "close(tr.clientBufChan)";                                                         (* RtCloseC *)
    TkDo "close(tr.serverBufChan)"]].                                                       (* RtCloseS *)

Definition expected_rt_new_tunnel_relay : list tsk := [
  TkDo "clientBufChan := make(chan []byte, 10)";
  TkGo [
    TkDefer "serverConn.Close()";
    TkRange "buffer := range clientBufChan" [
      TkIf "logger != nil" [
        TkDo "logger.writeTraceLog(buffer, ""ttosvr"")"] [];
      TkDo "_ = writeAll(serverConn, buffer)"]];
  TkDo "serverBufChan := make(chan []byte, 10)";
  TkGo [
    TkDefer "clientConn.Close()";
    TkRange "buffer := range serverBufChan" [
      TkIf "logger != nil" [
        TkDo "logger.writeTraceLog(buffer, ""ttocli"")"] [];
      TkDo "_ = writeAll(clientConn, buffer)"]];
  TkDo "return &tunnelRelay{ logger: logger, clientConn: clientConn, serverConn: serverConn, clientBufChan: clientBufChan, serverBufChan: serverBufChan, }"].

Definition expected_rt_wrap_input : list tsk := [
  TkDefer "close(t.clientBufChan)";
  TkFor [
    TkDo "buffer := make([]byte, 32*1024)";
    TkDo "n, err := t.clientConn.Read(buffer)";
    TkIf "n > 0" [
      TkDo "buf := buffer[:n]";
      TkIf "t.logger != nil" [
        TkDo "t.logger.writeTraceLog(buf, ""tunin"")"] [];
      TkIf "r := t.relay.Load(); r != nil" [
        TkDo "status := r.relayStatus.Load()";
        TkIf "status == kRelayHandshaking" [
          TkDo "var ok bool";
          TkDo "status, ok = r.addHandshakeBuffer(r.stdinBuffer, buf, true)";               (* RLPump … true (park) *)
          TkIf "ok" [
            TkDo "continue"] []] [];
        TkIf "status == kRelayTransferring" [
          TkIf "bytes.Contains(buf, []byte(""#EXIT:""))" [
            TkDo "r.resetToStandby(kRelayTransferring)"] [TkIf "bytes.Contains(buf, []byte(""#FAIL:"")) || bytes.Contains(buf, []byte(""#fail:""))" [
              TkDo "r.resetToStandby(kRelayTransferring)"] []]] []] [];
      TkDo "t.clientBufChan <- buf"] [];                                                    (* RLPump … false *)
    TkIf "err == io.EOF" [                                                                  (* RLPumpEof; any OTHER error: next iteration (RLPumpSpin) *)
      TkWhile "t.relay.Load() != nil" [                                                     (* PmWait *)
        TkDo "time.Sleep(50 * time.Millisecond)"];
      TkDo "break"] []]].

Definition expected_rt_wrap_output : list tsk := [
  TkDefer "close(t.serverBufChan)";
  TkFor [
    TkDo "buffer := make([]byte, 32*1024)";
    TkDo "n, err := t.serverConn.Read(buffer)";
    TkIf "n > 0" [
      TkDo "buf := buffer[:n]";
      TkIf "t.logger != nil" [
        TkDo "buf = t.logger.writeTraceLog(buf, ""tunout"")"] [];
      TkIf "r := t.relay.Load(); r != nil" [
        TkDo "status := r.relayStatus.Load()";
        TkIf "status == kRelayHandshaking" [
          TkDo "var ok bool";
          TkDo "status, ok = r.addHandshakeBuffer(r.stdoutBuffer, buf, true)";              (* RLPump … true (park) *)
          TkIf "ok" [
            TkDo "continue"] []] [];
        TkIf "status == kRelayTransferring" [
          TkIf "bytes.Contains(buf, []byte(""#EXIT:""))" [
            TkDo "r.resetToStandby(kRelayTransferring)"] [TkIf "bytes.Contains(buf, []byte(""#FAIL:"")) || bytes.Contains(buf, []byte(""#fail:""))" [
              TkDo "r.resetToStandby(kRelayTransferring)"] []]] []] [];
      TkDo "t.serverBufChan <- buf"] [];                                                    (* RLPump … false *)
    TkIf "err == io.EOF" [                                                                  (* RLPumpEof; any OTHER error: next iteration (RLPumpSpin) *)
      TkWhile "t.relay.Load() != nil" [                                                     (* PmWait *)
        TkDo "time.Sleep(50 * time.Millisecond)"];
      TkDo "break"] []]].

Definition expected_rt_reset_to_standby : list tsk := [
  TkIf "!r.relayStatus.CompareAndSwap(status, kRelayStandBy)" [
    TkReturn] [];
  TkIf "listener := r.tunnelListener.Load(); listener != nil" [
    TkDo "(*listener).Close()";
    TkDo "r.tunnelListener.Store(nil)"] [];
  TkIf "t := r.tunnelRelay.Load(); t != nil" [
    TkDo "t.relay.Store(nil)";
    TkDo "r.tunnelRelay.Store(nil)"] [];
  TkDo "r.tunnelConnected.Store(false)";
  TkDo "tmuxRefreshClient()"].

(* ---- the relay's handshake window: who parks what, who writes where (Model/TunnelRelay.v: rt_hs, RLInband, RLHsRead, RLHs) ---- *)

Definition expected_rt_add_handshake_buffer : list tsk := [
  TkDo "r.bufferLock.Lock()";
  TkDefer "r.bufferLock.Unlock()";
  TkDo "status := r.relayStatus.Load()";
  TkIf "status != kRelayHandshaking || !tunnel && r.tunnelConnected.Load()" [                       (* RLInband / RLPump: parked only while handshaking, and in-band bytes only while tunnelConnected is false *)
    TkDo "return status, false"] [];
  TkDo "buffer.addBuffer(data)";
  TkDo "return status, true"].

Definition expected_rt_flush_handshake_buffer : list tsk := [
  TkDo "r.bufferLock.Lock()";
  TkDefer "r.bufferLock.Unlock()";
  TkFor [
    TkDo "buf := r.stdinBuffer.popBuffer()";
    TkIf "buf == nil" [
      TkDo "break"] [];
    TkIf "t := r.tunnelRelay.Load(); t != nil && r.tunnelConnected.Load()" [                        (* HsFlushIn / HsFlushOut: rt_route *)
      TkDo "t.clientBufChan <- buf"] [
      TkDo "r.osStdinChan <- buf"]];
  TkFor [
    TkDo "buf := r.stdoutBuffer.popBuffer()";
    TkIf "buf == nil" [
      TkDo "break"] [];
    TkIf "t := r.tunnelRelay.Load(); t != nil && r.tunnelConnected.Load()" [                        (* HsFlushIn / HsFlushOut: rt_route *)
      TkDo "t.serverBufChan <- buf"] [
      TkIf "confirm" [
        TkDo "r.bypassTmuxChan <- buf"] [
        TkDo "r.osStdoutChan <- buf"]]];
  TkIf "confirm" [
    TkDo "r.relayStatus.Store(kRelayTransferring)"] [                                               (* HsFlushEnd true *)
    TkDo "r.resetToStandby(kRelayHandshaking)"]].                                                   (* HsFlushEnd false *)

Definition expected_rt_send_string_to_client : list tsk := [
  TkDo "newline := ""\n""";
  TkIf "(r.clientIsWindows || r.trigger.winServer) && !r.tunnelConnected.Load()" [
    TkDo "newline = ""!\n"""] [];
  TkDo "buffer := []byte(fmt.Sprintf(""#%s:%s%s"", typ, encodeString(str), newline))";
  TkIf "t := r.tunnelRelay.Load(); t != nil && r.tunnelConnected.Load()" [                          (* HsSendAct / HsSendCfg / HsErr1 / HsErr2: rt_route *)
    TkDo "t.serverBufChan <- buffer"] [
    TkDo "r.bypassTmuxChan <- buffer"];
  TkDo "return nil"].

Definition expected_rt_send_string_to_server : list tsk := [
  TkDo "newline := ""\n""";
  TkIf "r.trigger.winServer && (!r.tunnelConnected.Load() || typ == ""ACT"")" [
    TkDo "newline = ""!\n"""] [];
  TkDo "buffer := []byte(fmt.Sprintf(""#%s:%s%s"", typ, encodeString(str), newline))";
  TkIf "t := r.tunnelRelay.Load(); t != nil && r.tunnelConnected.Load()" [                          (* HsSendAct / HsSendCfg / HsErr1 / HsErr2: rt_route *)
    TkDo "t.clientBufChan <- buffer"] [
    TkDo "r.osStdinChan <- buffer"];
  TkDo "return nil"].

Definition expected_rt_send_error : list tsk := [
  TkDo "_ = r.sendStringToClient(""FAIL"", err.Error())";
  TkDo "_ = r.sendStringToServer(""FAIL"", err.Error())"].

Definition expected_rt_handshake : list tsk := [
  TkDo "confirm := false";
  TkDo "var err error = nil";
  TkDefer "func() { if err != nil { r.sendError(err) } r.flushHandshakeBuffer(confirm) }()";
  TkDo "action, err := r.recvAction()";                                                             (* HsRecvAct: RLHsRead *)
  TkIf "err != nil" [
    TkDo "err = simpleTrzszError(""Relay recv action error: %v"", err)";
    TkReturn] [];
  TkDo "r.tunnelConnected.Store(action.TunnelConnected)";                                           (* HsStore *)
  TkDo "r.clientIsWindows = action.Newline == ""!\n""";
  TkIf "!action.TunnelConnected" [
    TkDo "action.SupportBinary = false"] [];
  TkIf "action.Protocol > kProtocolVersion" [
    TkDo "action.Protocol = kProtocolVersion"] [];
  TkIf "e := r.sendAction(action); e != nil" [                                                      (* HsSendAct *)
    TkDo "err = simpleTrzszError(""Relay send action error: %v"", e)";
    TkReturn] [];
  TkIf "!action.Confirm" [
    TkReturn] [];
  TkDo "config, err := r.recvConfig()";                                                             (* HsRecvCfg: RLHsRead *)
  TkIf "err != nil" [
    TkDo "err = simpleTrzszError(""Relay recv config error: %v"", err)";
    TkReturn] [];
  TkIf "r.tmuxMode == tmuxNormalMode" [
    TkDo "config.TmuxOutputJunk = true"] [];
  TkIf "config.TmuxPaneColumns <= 0 && r.tmuxPaneWidth > 0" [
    TkDo "config.TmuxPaneColumns = r.tmuxPaneWidth"] [];
  TkIf "e := r.sendConfig(config); e != nil" [                                                      (* HsSendCfg *)
    TkDo "err = simpleTrzszError(""Relay send config error: %v"", e)";
    TkReturn] [];
  TkDo "confirm = true"].

Definition expected_rt_relay_wrap_input : list tsk := [
  TkDefer "close(r.osStdinChan)";
  TkFor [
    TkDo "buffer := make([]byte, 32*1024)";
    TkDo "n, err := r.clientIn.Read(buffer)";
    TkIf "n > 0" [
      TkDo "buf := buffer[:n]";
      TkIf "r.logger != nil" [
        TkDo "r.logger.writeTraceLog(buf, ""stdin"")"] [];
      TkDo "status := r.relayStatus.Load()";
      TkIf "status == kRelayHandshaking" [
        TkDo "var ok bool";
        TkDo "status, ok = r.addHandshakeBuffer(r.stdinBuffer, buf, false)";                        (* RLInband RdIn *)
        TkIf "ok" [
          TkDo "continue"] []] [];
      TkDo "r.osStdinChan <- buf";
      TkIf "status == kRelayTransferring" [
        TkIf "len(buf) == 1 && buf[0] == '\x03'" [
          TkDo "r.resetToStandby(kRelayTransferring)"] [TkIf "bytes.Contains(buf, []byte(""#EXIT:""))" [
            TkDo "r.resetToStandby(kRelayTransferring)"] [TkIf "bytes.Contains(buf, []byte(""#FAIL:"")) || bytes.Contains(buf, []byte(""#fail:""))" [
              TkDo "r.resetToStandby(kRelayTransferring)"] []]]] []] [];
    TkIf "err == io.EOF" [
      TkIf "isRunningOnWindows()" [
        TkDo "r.osStdinChan <- []byte{0x1A}";
        TkDo "continue"] [];
      TkDo "break"] []]].

Definition expected_rt_relay_wrap_output : list tsk := [
  TkDefer "close(r.osStdoutChan)";
  TkIf "r.bypassTmuxChan != r.osStdoutChan" [
    TkDefer "close(r.bypassTmuxChan)"] [];
  TkDo "detector := newTrzszDetector(true, true)";
  TkFor [
    TkDo "buffer := make([]byte, 32*1024)";
    TkDo "n, err := r.serverOut.Read(buffer)";
    TkIf "n > 0" [
      TkDo "buf := buffer[:n]";
      TkIf "r.logger != nil" [
        TkDo "buf = r.logger.writeTraceLog(buf, ""svrout"")"] [];
      TkDo "status := r.relayStatus.Load()";
      TkIf "status == kRelayHandshaking" [
        TkDo "var ok bool";
        TkDo "status, ok = r.addHandshakeBuffer(r.stdoutBuffer, buf, false)";                       (* RLInband RdOut *)
        TkIf "ok" [
          TkDo "continue"] []] [];
      TkIf "status == kRelayTransferring" [
        TkDo "r.bypassTmuxChan <- buf";
        TkIf "bytes.Contains(buf, []byte(""#EXIT:""))" [
          TkDo "r.resetToStandby(kRelayTransferring)"] [TkIf "bytes.Contains(buf, []byte(""#FAIL:"")) || bytes.Contains(buf, []byte(""#fail:""))" [
            TkDo "r.resetToStandby(kRelayTransferring)"] []];
        TkDo "continue"] [];
      TkDo "var trigger *trzszTrigger";
      TkDo "buf, trigger = detector.detectTrzsz(buf, r.tunnelConnector.Load() != nil)";
      TkIf "trigger != nil" [
        TkDo "r.relayStatus.Store(kRelayHandshaking)";
        TkDo "r.trigger = trigger";
        TkDo "buf = r.listenForTunnel(buf)";
        TkDo "go r.handshake()"] [];
      TkDo "r.osStdoutChan <- buf"] [];
    TkIf "err == io.EOF" [
      TkDo "break"] []]].

Definition expected_rt_sites_bufchan_send : list string := [
  "TrzszRelay.flushHandshakeBuffer: t.clientBufChan <- buf [if t := r.tunnelRelay.Load(); t != nil && r.tunnelConnected.Load()]";
  "TrzszRelay.flushHandshakeBuffer: t.serverBufChan <- buf [if t := r.tunnelRelay.Load(); t != nil && r.tunnelConnected.Load()]";
  "TrzszRelay.handleTunnelConn: close(tr.clientBufChan) [if else of: r.tunnelRelay.CompareAndSwap(nil, tr)]";
  "TrzszRelay.handleTunnelConn: close(tr.serverBufChan) [if else of: r.tunnelRelay.CompareAndSwap(nil, tr)]";
  "TrzszRelay.sendStringToClient: t.serverBufChan <- buffer [if t := r.tunnelRelay.Load(); t != nil && r.tunnelConnected.Load()]";
  "TrzszRelay.sendStringToServer: t.clientBufChan <- buffer [if t := r.tunnelRelay.Load(); t != nil && r.tunnelConnected.Load()]";
  "tunnelRelay.wrapInput: close(t.clientBufChan)";
  "tunnelRelay.wrapInput: t.clientBufChan <- buf [if n > 0]";
  "tunnelRelay.wrapOutput: close(t.serverBufChan)";
  "tunnelRelay.wrapOutput: t.serverBufChan <- buf [if n > 0]"].

Definition expected_rt_sites_atomic_writes : list string := [
  "TrzszRelay.SetTunnelConnector: r.tunnelConnector.Store(&connector)";
  "TrzszRelay.SetTunnelConnector: r.tunnelConnector.Store(nil) [if connector == nil]";
  "TrzszRelay.acceptOnTunnel: r.tunnelListener.Store(nil) [if listener := r.tunnelListener.Load(); listener != nil]";
  "TrzszRelay.handleTunnelConn: r.tunnelListener.Store(nil) [if listener := r.tunnelListener.Load(); listener != nil]";
  "TrzszRelay.handleTunnelConn: r.tunnelRelay.CompareAndSwap(nil, tr)";
  "TrzszRelay.handleTunnelConn: tr.relay.Store(r) [if r.tunnelRelay.CompareAndSwap(nil, tr)]";
  "TrzszRelay.handshake: r.tunnelConnected.Store(action.TunnelConnected)";
  "TrzszRelay.listenForTunnel: r.tunnelListener.Store(&listener)";
  "TrzszRelay.resetToStandby: r.tunnelConnected.Store(false)";
  "TrzszRelay.resetToStandby: r.tunnelListener.Store(nil) [if listener := r.tunnelListener.Load(); listener != nil]";
  "TrzszRelay.resetToStandby: r.tunnelRelay.Store(nil) [if t := r.tunnelRelay.Load(); t != nil]";
  "TrzszRelay.resetToStandby: t.relay.Store(nil) [if t := r.tunnelRelay.Load(); t != nil]"].

Definition expected_rt_sites_plain_writes : list string := [
  "TrzszRelay.listenForTunnel: r.tunnelRelayPort = port";
  "TrzszRelay.wrapOutput: r.trigger = trigger [if trigger != nil]"].

Definition expected_rt_sites_starts : list string := [
  "TrzszRelay.acceptOnTunnel: go r.handleTunnelConn(clientConn)";
  "TrzszRelay.handleTunnelConn: go tr.wrapInput() [if r.tunnelRelay.CompareAndSwap(nil, tr)]";
  "TrzszRelay.handleTunnelConn: go tr.wrapOutput() [if r.tunnelRelay.CompareAndSwap(nil, tr)]";
  "TrzszRelay.handleTunnelConn: newTunnelRelay(r.logger, clientConn, serverConn)";
  "TrzszRelay.listenForTunnel: r.acceptOnTunnel()";
  "TrzszRelay.wrapOutput: r.listenForTunnel(buf) [if trigger != nil]"].

