(* Trace replay of Model/TunnelRelay.v for the correspondence run (C17, group tunnel-relay).
   The harness drives a real TrzszRelay over real sockets and pipes one event at a time and lets
   it settle in between; [rtr_settle] runs every enabled thread of the model to quiescence with a
   fixed scheduler (acceptor, handlers by index, the handshake goroutine, writers, pumps).  A handler
   that has reached the connector call waits for the harness's `dial` event, which carries what the
   connector returned; the handshake goroutine at a readLine waits for the `hs-read` event, which
   carries what the line means (the harness wrote it); the lines the relay writes itself are the
   tokens the harness canonicalises them to.  Executable definitions only. *)
From Trzsz Require Import Base.Bytes Gen.Consts Model.Tunnel Model.TunnelRelay.
From Coq Require Import ZArith.

Inductive rtr_ev :=
| RtrConnect                          (* a new client connection (its index = number of pairs so far) *)
| RtrWriteC (c : nat) (bs : list N)   (* its far end writes *)
| RtrCloseC (c : nat)                 (* its far end closes *)
| RtrDial (c : nat) (ok : bool)       (* the connector, called for client c, returns a connection / nil *)
| RtrWriteS (c : nat) (bs : list N)   (* the far end of the server connection of pair c writes *)
| RtrCloseS (c : nat)
| RtrConnector (v : bool)             (* SetTunnelConnector(non-nil / nil) *)
| RtrInband (d : rt_dir) (bs : list N) (* bytes arrive in-band: typed at the client's terminal (RdIn) / printed by the server (RdOut) *)
| RtrHsRead (ok tun conf : bool)      (* what the line the relay's handshake goroutine is waiting for means: it decodes (ok), and for
                                         the ACT its tunnel / confirm fields — the harness wrote the line, so it knows *)
| RtrReset.                           (* a pump (tunnel or in-band) saw an end marker while transferring: resetToStandby *)

(* the lines the relay writes itself, as the harness canonicalises them: #ACT\n, #CFG\n, #FAIL\n *)
Definition rtr_tok_act : list N := [35; 65; 67; 84; 10].
Definition rtr_tok_cfg : list N := [35; 67; 70; 71; 10].
Definition rtr_tok_fail : list N := [35; 70; 65; 73; 76; 10].

(* a readLine takes everything up to and including the first newline *)
Fixpoint rtr_line_len (bs : list N) : option nat :=
  match bs with
  | [] => None
  | b :: r => if b =? 10 then Some 1%nat else match rtr_line_len r with Some n => Some (S n) | None => None end
  end.

(* the next statement of the handshake goroutine that needs no input *)
Definition rtr_hs_auto (ch1 sh4 ch2 sh3 : list N) (s : rt_state) : option rt_state :=
  match x_pc (r_x s) with
  | HsRecvAct | HsRecvCfg | HsIdle => None
  | HsSendAct _ => rt_step ch1 sh4 ch2 sh3 s (RLHs rtr_tok_act)
  | HsSendCfg => rt_step ch1 sh4 ch2 sh3 s (RLHs rtr_tok_cfg)
  | HsErr1 | HsErr2 => rt_step ch1 sh4 ch2 sh3 s (RLHs rtr_tok_fail)
  | _ => rt_step ch1 sh4 ch2 sh3 s (RLHs [])
  end.

Definition rtr_pending (s : rt_state) : list nat :=
  filter (fun c => match nth_error (r_pairs s) c with
                   | Some p => match p_pc p with RtPending => true | _ => false end
                   | None => false end) (seq 0 (length (r_pairs s))).

Definition rtr_handler_ready (s : rt_state) (c : nat) : bool :=
  match nth_error (r_pairs s) c with
  | Some p => match p_pc p with RtDial => false | _ => true end
  | None => false
  end.

Definition rtr_pump_try (ch1 sh4 ch2 sh3 : list N) (s : rt_state) (c : nat) (d : rt_dir) : option rt_state :=
  match nth_error (r_pairs s) c with
  | Some p =>
    match p_br p, rt_src_end d p with
    | Some b, Some e =>
      match rt_step ch1 sh4 ch2 sh3 s (RLPump c d (Nat.min (length (e_rx e)) (N.to_nat Consts.rtunnel_pump_bufsize))) with
      | Some s' => Some s'
      | None =>
        match rt_step ch1 sh4 ch2 sh3 s (RLPumpEof c d) with
        | Some s' => Some s'
        | None => rt_step ch1 sh4 ch2 sh3 s (RLPumpExit c d)
        end
      end
    | _, _ => None
    end
  | None => None
  end.

Definition rtr_once (ch1 sh4 ch2 sh3 : list N) (s : rt_state) : option rt_state :=
  let idx := seq 0 (length (r_pairs s)) in
  match rt_step ch1 sh4 ch2 sh3 s RLCheck with
  | Some s' => Some s'
  | None =>
  match first_some (fun c => rt_step ch1 sh4 ch2 sh3 s (RLAccept c)) (rtr_pending s) with
  | Some s' => Some s'
  | None =>
  match rt_step ch1 sh4 ch2 sh3 s RLAcceptErr with
  | Some s' => Some s'
  | None =>
  match first_some (fun c => if rtr_handler_ready s c then rt_step ch1 sh4 ch2 sh3 s (RLHandler c None false) else None) idx with
  | Some s' => Some s'
  | None =>
  match rtr_hs_auto ch1 sh4 ch2 sh3 s with
  | Some s' => Some s'
  | None =>
  match first_some (fun c => match rt_step ch1 sh4 ch2 sh3 s (RLWriter c RdIn) with
                             | Some s' => Some s' | None => rt_step ch1 sh4 ch2 sh3 s (RLWriter c RdOut) end) idx with
  | Some s' => Some s'
  | None =>
    first_some (fun c => match rtr_pump_try ch1 sh4 ch2 sh3 s c RdIn with
                         | Some s' => Some s' | None => rtr_pump_try ch1 sh4 ch2 sh3 s c RdOut end) idx
  end end end end end end.

Fixpoint rtr_settle (fuel : nat) (ch1 sh4 ch2 sh3 : list N) (s : rt_state) : rt_state :=
  match fuel with
  | O => s
  | S f => match rtr_once ch1 sh4 ch2 sh3 s with Some s' => rtr_settle f ch1 sh4 ch2 sh3 s' | None => s end
  end.

Definition rtr_push_c (c : nat) (e : pev) (s : rt_state) : rt_state :=
  rt_upd_pair s c (fun p => rt_set_cli (mkRtEnd (e_script (p_cli p) ++ [e]) (e_rx (p_cli p)) (e_eof (p_cli p))
                                                (e_tx (p_cli p)) (e_closed (p_cli p))) p).
Definition rtr_push_s (c : nat) (e : pev) (s : rt_state) : rt_state :=
  rt_upd_pair s c (fun p => match p_srv p with
                            | Some e0 => rt_set_srv (mkRtEnd (e_script e0 ++ [e]) (e_rx e0) (e_eof e0) (e_tx e0) (e_closed e0)) p
                            | None => p end).

Definition rtr_or (s : rt_state) (o : option rt_state) : rt_state := match o with Some s' => s' | None => s end.

Definition rtr_fuel (s : rt_state) : nat :=
  60 + 40 * length (r_pairs s) + 4 * (length (x_bufin (r_x s)) + length (x_bufout (r_x s))) +
  4 * length (concat (map (fun p => e_rx (p_cli p) ++ match p_srv p with Some e => e_rx e | None => [] end) (r_pairs s))).

(* the handshake goroutine's readLine, told what the line means *)
Definition rtr_hs_read (ch1 sh4 ch2 sh3 : list N) (s : rt_state) (ok tun conf : bool) : rt_state :=
  let buf := match x_pc (r_x s) with HsRecvCfg => x_bufout (r_x s) | _ => x_bufin (r_x s) end in
  let all := concat (map snd buf) in
  let k := match rtr_line_len all with Some n => n | None => length all end in
  rtr_or s (rt_step ch1 sh4 ch2 sh3 s (RLHsRead k ok tun conf)).

Definition rtr_apply (ch1 sh4 ch2 sh3 : list N) (s : rt_state) (e : rtr_ev) : rt_state :=
  let step := rt_step ch1 sh4 ch2 sh3 in
  let s1 :=
    match e with
    | RtrConnect => rtr_or s (step s (RLConnect []))
    | RtrWriteC c bs => let s0 := rtr_push_c c (PWrite bs) s in rtr_or s0 (step s0 (RLPeerC c))
    | RtrCloseC c => let s0 := rtr_push_c c PClose s in rtr_or s0 (step s0 (RLPeerC c))
    | RtrDial c ok => rtr_or s (step s (RLHandler c (if ok then Some [] else None) false))
    | RtrWriteS c bs => let s0 := rtr_push_s c (PWrite bs) s in rtr_or s0 (step s0 (RLPeerS c))
    | RtrCloseS c => let s0 := rtr_push_s c PClose s in rtr_or s0 (step s0 (RLPeerS c))
    | RtrConnector v => rtr_or s (step s (RLSetConnector v))
    | RtrInband d bs => rtr_or s (step s (RLInband d bs))
    | RtrHsRead ok tun conf => rtr_hs_read ch1 sh4 ch2 sh3 s ok tun conf
    | RtrReset => rtr_or s (step s RLReset)
    end in
  rtr_settle (rtr_fuel s1) ch1 sh4 ch2 sh3 s1.

Definition rtr_replay (uid : list N) (sport rport : Z) (evs : list rtr_ev) : rt_state :=
  fold_left (rtr_apply (client_hello uid rport) (server_hello uid rport) (client_hello uid sport) (server_hello uid sport))
            evs rt_init.
