(* C12: every number the other side controls, the check the code makes on it (in the order
   the code makes it) and the allocation / repeat count / position it can reach.

   This is the model of the FIXED code (hooks/fix_databound.diff, fix_hashstep.diff,
   fix_panewidth.diff applied); the [_unfixed] variants transcribe the code before the
   fixes and are refuted in Proofs/Guards.v.  Executable definitions only.

   Numbers from the peer are [Z]; the width of the Go type they are parsed into is written
   explicitly: strconv.ParseInt(s, 10, 64) and strconv.Atoi fail outside [-2^63, 2^63-1],
   encoding/json fails for an int32 field outside [-2^31, 2^31-1] and for every literal
   that is not an integer literal. *)
From Trzsz Require Export Base.Bytes.
From Trzsz Require Import Gen.Consts.
From Coq Require Import ZArith.
Open Scope Z_scope.

(* ------------------------------------------------------------------------------------ *)
(* integer parsers *)

Definition gd_int_min (bits : Z) : Z := - 2 ^ (bits - 1).
Definition gd_int_max (bits : Z) : Z := 2 ^ (bits - 1) - 1.
Definition gd_in_range (bits v : Z) : bool := (gd_int_min bits <=? v) && (v <=? gd_int_max bits).

Definition gd_digit_val (b : N) : option Z :=
  if ((48 <=? b) && (b <=? 57))%N then Some (Z.of_N b - 48) else None.

(* value of a non-empty all-digit string; None as soon as a non-digit is met *)
Fixpoint gd_digits_val (acc : Z) (l : list N) : option Z :=
  match l with
  | [] => Some acc
  | b :: r => match gd_digit_val b with
              | Some d => gd_digits_val (acc * 10 + d) r
              | None => None
              end
  end.

(* strconv.ParseInt(s, 10, bits): optional sign, at least one digit, digits only
   (underscores are accepted for base 0 only), value in range. The implementation stops
   at a cutoff while accumulating; the result is the same as computing the value exactly
   and comparing afterwards. A range error is an error for every caller in trzsz. *)
Definition gd_parse_int (bits : Z) (s : list N) : option Z :=
  match s with
  | [] => None
  | c :: r =>
    let '(neg, ds) := if (c =? 43)%N then (false, r) else if (c =? 45)%N then (true, r) else (false, s) in
    match ds with
    | [] => None
    | _ => match gd_digits_val 0 ds with
           | None => None
           | Some v => let v' := if neg then - v else v in
                       if gd_in_range bits v' then Some v' else None
           end
    end
  end.

Definition gd_parse_int64 := gd_parse_int 64.
Definition gd_atoi := gd_parse_int 64.           (* int is 64 bits on every supported platform *)

(* strconv.ParseUint(s, 10, 32) of the version components: no sign at all *)
Definition gd_parse_uint32 (s : list N) : option Z :=
  match s with
  | [] => None
  | _ => match gd_digits_val 0 s with
         | Some v => if v <=? 2 ^ 32 - 1 then Some v else None
         | None => None
         end
  end.

(* A JSON value destined for an integer field of the given width, as encoding/json treats
   it.  [JNull] leaves the field at its previous value; every other non-number and every
   number that is not an integer literal ("1.0", "1e3") or is out of range is an
   UnmarshalTypeError, after which the callers (recvConfig, recvAction, recvHash,
   unmarshalSourceFile, ...) return the error. *)
Inductive jnum :=
| JAbsent                 (* key not present *)
| JNull
| JInt (v : Z)            (* integer literal: optional minus, then 0 or a digit string without leading zero *)
| JOther.                 (* fraction / exponent / string / bool / array / object *)

Definition gd_json_int (bits : Z) (dflt : Z) (j : jnum) : option Z :=
  match j with
  | JAbsent | JNull => Some dflt
  | JInt v => if gd_in_range bits v then Some v else None
  | JOther => None
  end.

(* The literal itself: optional minus, 0 or [1-9][0-9]... gives JInt, anything else JOther. *)
Definition gd_json_int_literal (s : list N) : jnum :=
  let '(neg, body) := match s with
                      | c :: r => if (c =? 45)%N then (true, r) else (false, s)
                      | [] => (false, s)
                      end in
  match body with
  | [] => JOther
  | c :: r =>
    if (c =? 48)%N then match r with [] => JInt 0 | _ => JOther end
    else match gd_digits_val 0 body with
         | Some v => JInt (if neg then - v else v)
         | None => JOther
         end
  end.

(* ------------------------------------------------------------------------------------ *)
(* the negotiated configuration as far as the guards look at it *)

Record cfg := { bufsize : Z;        (* transferConfig.MaxBufSize after recvConfig / own argument *)
                term_cols : Z }.    (* TrzszOptions.TerminalColumns: the local terminal, not peer data *)

(* recvConfig (client): `bufsize` is an int64 JSON field with default 10 MiB, clamped to
   the largest value the servers' argument parser accepts *)
Definition recv_config_bufsize (j : jnum) : option Z :=
  match gd_json_int 64 Consts.guards_default_bufsize j with
  | Some b => Some (if b >? Consts.guards_bufsize_clamp then Consts.guards_bufsize_clamp else b)
  | None => None
  end.
Definition recv_config_bufsize_unfixed (j : jnum) : option Z := gd_json_int 64 Consts.guards_default_bufsize j.

(* bufferSize.UnmarshalText bounds (the servers' own -B argument) *)
Definition arg_bufsize_ok (b : Z) : bool := (Consts.guards_arg_bufsize_min <=? b) && (b <=? Consts.guards_arg_bufsize_max).

(* int64 wrap-around of a product, as Go computes it *)
Definition gd_wrap64 (v : Z) : Z := (v + 2 ^ 63) mod 2 ^ 64 - 2 ^ 63.

(* maxDataSize *)
Definition max_data_size (c : cfg) : Z :=
  gd_wrap64 ((if bufsize c <? Consts.guards_data_min_bufsize then Consts.guards_data_min_bufsize else bufsize c)
          * Consts.guards_data_factor).

(* what the bound is without overflow: linear in the negotiated buffer size *)
Definition alloc_bound (c : cfg) : Z := Consts.guards_data_factor * Z.max (bufsize c) Consts.guards_data_min_bufsize.

(* ------------------------------------------------------------------------------------ *)
(* #DATA:<n> in binary mode -> readBinary *)

Inductive data_res :=
| DReject                (* error returned: parse error or "Invalid data size" *)
| DFinish                (* size 0 in the pipeline: the end-of-data flag, nothing read *)
| DRead (n : Z).         (* readBinary(n): up to n bytes are buffered *)

(* pipelineRecvBinaryData: ParseInt, size == 0, the bound, readBinary(int(size)) *)
Definition recv_binary_data_v2 (c : cfg) (s : list N) : data_res :=
  match gd_parse_int64 s with
  | None => DReject
  | Some n => if n =? 0 then DFinish
              else if (n <? 0) || (n >? max_data_size c) then DReject
              else DRead n
  end.

(* recvData (protocol 1): recvInteger, the bound, readBinary(int(size)) *)
Definition recv_binary_data_v1 (c : cfg) (s : list N) : data_res :=
  match gd_parse_int64 s with
  | None => DReject
  | Some n => if (n <? 0) || (n >? max_data_size c) then DReject else DRead n
  end.

(* before the fix: no bound; readBinary(size) pre-allocated size bytes (Grow) when
   size > cap, did nothing for size <= 0 *)
Definition recv_binary_data_v2_unfixed (c : cfg) (s : list N) : data_res :=
  match gd_parse_int64 s with
  | None => DReject
  | Some n => if n =? 0 then DFinish else DRead n
  end.

(* memory readBinary holds for an announced size n after [arrived] payload bytes have come in.
   Fixed: nothing is reserved ahead of the data.  Unfixed: Grow(n) up front. *)
Definition read_binary_held (n arrived : Z) : Z := Z.max 0 (Z.min n arrived).
Definition read_binary_held_unfixed (n arrived : Z) : Z := Z.max 0 n.

Definition data_accepted (c : cfg) (n : Z) : bool :=
  gd_in_range 64 n && negb (n <? 0) && negb (n >? max_data_size c).
Definition data_accepted_unfixed (c : cfg) (n : Z) : bool := gd_in_range 64 n.

(* ------------------------------------------------------------------------------------ *)
(* prefix hash step -> make([]byte, step) and io.ReadFull *)

(* make([]byte, n) panics ("len out of range") for n < 0 and for n above the runtime's maxAlloc
   (2^48 on linux/amd64); below that an allocation that cannot be satisfied is a fatal error *)
Definition guards_makeslice_max : Z := 2 ^ 48.

Inductive hash_res :=
| HInvalid               (* "Invalid hash step" *)
| HPanic                 (* makeslice: len out of range (unfixed code only) *)
| HShort                 (* allocated, but the file ends first: io.ReadFull error *)
| HOk (match_step : Z).  (* loop ran to "over" *)

(* one received hash record: step as decoded (int64), and whether the digest equals the
   digest of the local prefix (decided by MD5, outside the model) *)
Record hrec := { h_step : Z; h_good : bool }.

(* recvPrefixHash's loop over the records that arrive before {over:true}.
   [fsize] local file size, [pos] current read offset, [ms] matchStep, [m] match.
   Result: acks sent (step, match) in order, and how the loop ended. *)
Fixpoint recv_hashes (fixed : bool) (fsize pos ms : Z) (m : bool) (l : list hrec) : list (Z * bool) * hash_res :=
  match l with
  | [] => ([], HOk ms)
  | h :: r =>
    if negb m then recv_hashes fixed fsize pos ms m r
    else
      let step := h_step h - ms in
      if fixed && ((step <=? 0) || (step >? Consts.guards_hash_step)) then ([], HInvalid)
      else if step <? 0 then ([], HPanic)
      else if step >? guards_makeslice_max then ([], HPanic)
      else if (fsize - pos <? step) then ([], HShort)       (* io.ReadFull: EOF / ErrUnexpectedEOF *)
      else
        let m' := h_good h in
        let ms' := if m' then h_step h else ms in
        let '(acks, res) := recv_hashes fixed fsize (pos + step) ms' m' r in
        ((h_step h, m') :: acks, res)
  end.

Definition hash_accepted (step : Z) : bool := negb ((step <=? 0) || (step >? Consts.guards_hash_step)).
Definition hash_accepted_unfixed (step : Z) : bool := true.

(* ------------------------------------------------------------------------------------ *)
(* acknowledgements -> progress position *)

(* pipelineRecvCurrentAck: "<length>/<step>", both ParseInt; the caller compares length
   with what was sent; NOTHING is checked about step before it goes to progress.onStep *)
Definition recv_current_ack (a b : list N) : option (Z * Z) :=
  match gd_parse_int64 a, gd_parse_int64 b with
  | Some l, Some s => Some (l, s)
  | _, _ => None
  end.
Definition ack_accepted (sent len step : Z) : bool := len =? sent.

(* pipelineRecvFinalAck: one response; Cancel on parse error or step > size; otherwise the
   step is forwarded to the progress goroutine; done when step = size *)
Inductive fack := FCancel | FForward (step : Z) (done : bool).
Definition recv_final_ack (size : Z) (s : list N) : fack :=
  match gd_parse_int64 s with
  | None => FCancel
  | Some st => if st >? size then FCancel else FForward st (st =? size)
  end.

(* the loop of pipelineRecvFinalAck over the responses that arrive: steps forwarded, and how
   it ended (Some true = success signalled, Some false = cancelled, None = waiting for more) *)
Fixpoint recv_final_acks (size : Z) (ls : list (list N)) : list Z * option bool :=
  match ls with
  | [] => ([], None)
  | s :: r =>
    match recv_final_ack size s with
    | FCancel => ([], Some false)
    | FForward st true => ([st], Some true)
    | FForward st false => let '(f, e) := recv_final_acks size r in (st :: f, e)
    end
  end.

(* pipelineRecvHashAck: the step is shown BEFORE it is compared with size *)
Inductive hack := HAStop | HAShow (step : Z) (done cancel : bool).
Definition recv_hash_ack (size : Z) (step : Z) (matched : bool) : hack :=
  if negb matched then HAStop else HAShow step (step =? size) (step >? size).

(* ------------------------------------------------------------------------------------ *)
(* tmux_pane_width -> width of the progress bar *)

(* createProgressBar's plausibility check, then newTextProgressBar's choice of columns *)
Definition pane_sanitize (term pane : Z) : Z := if pane >? term then 0 else pane.
Definition bar_columns_of (term pane : Z) : Z := if pane >? 1 then pane - 1 else term.
Definition bar_columns (term pane : Z) : Z := bar_columns_of term (pane_sanitize term pane).
Definition bar_columns_unfixed (term pane : Z) : Z := bar_columns_of term pane.

(* recvConfig: int32 JSON field, default 0 *)
Definition recv_config_pane (j : jnum) : option Z := gd_json_int 32 0 j.

(* recvConfig as a whole: any field that fails to decode fails the configuration *)
Definition recv_config (jb jp jt jpr : jnum) : option (Z * Z * Z * Z) :=
  match recv_config_bufsize jb, recv_config_pane jp, gd_json_int 64 Consts.guards_default_timeout jt, gd_json_int 64 0 jpr with
  | Some b, Some p, Some t, Some pr => Some (b, p, t, pr)
  | _, _, _, _ => None
  end.

(* parseTrzszVersion on the three components *)
Definition gd_parse_version (a b c : list N) : option (Z * Z * Z) :=
  match gd_parse_uint32 a, gd_parse_uint32 b, gd_parse_uint32 c with
  | Some x, Some y, Some z => Some (x, y, z)
  | _, _, _ => None
  end.

(* unmarshalTargetFile: int64 field, default 0, negative rejected *)
Definition gd_target_size (j : jnum) : option Z :=
  match gd_json_int 64 0 j with
  | Some v => if v <? 0 then None else Some v
  | None => None
  end.

(* ------------------------------------------------------------------------------------ *)
(* every peer-controlled number: where it goes and what stands in front *)

Inductive flow :=
| FDataSizeV2 | FDataSizeV1        (* #DATA:<n> binary, pipeline / protocol 1 *)
| FHashStep                        (* HASH {step} on the receiving side *)
| FAckStep                         (* #SUCC:<len>/<step> per chunk *)
| FAckLen
| FFinalStep                       (* #SUCC:<step> after the last chunk *)
| FHashAckStep                     (* SUCC {step, match} on the sending side *)
| FPaneWidth                       (* CFG tmux_pane_width *)
| FNum                             (* #NUM *)
| FSize                            (* #SIZE *)
| FNameSize                        (* NAME {size} (protocol 3+) *)
| FArchiveSize                     (* archive entry header {size} *)
| FTargetSize                      (* SUCC {name,size} answer to NAME (protocol 3+) *)
| FBufsize                         (* CFG bufsize *)
| FTimeout                         (* CFG timeout *)
| FProtocol                        (* ACT / CFG protocol *)
| FVersion                         (* trigger line version components *)
| FPort.                           (* trigger line tunnel port *)

Definition all_flows : list flow :=
  [FDataSizeV2; FDataSizeV1; FHashStep; FAckStep; FAckLen; FFinalStep; FHashAckStep; FPaneWidth; FNum; FSize;
   FNameSize; FArchiveSize; FTargetSize; FBufsize; FTimeout; FProtocol; FVersion; FPort].

Inductive sink :=
| SAlloc          (* allocation of that many bytes *)
| SRepeat         (* strings.Repeat count (cells of the bar) *)
| SProgress       (* progress position / size: C20's totality *)
| SLoop           (* loop bound or comparison only: no memory, ends with the first missing line *)
| SCompare.       (* compared / arithmetic only *)

Definition sink_of (f : flow) : sink :=
  match f with
  | FDataSizeV2 | FDataSizeV1 | FHashStep => SAlloc
  | FPaneWidth => SRepeat
  | FAckStep | FFinalStep | FHashAckStep | FSize | FNameSize => SProgress
  | FNum => SLoop
  | FAckLen | FArchiveSize | FTargetSize | FBufsize | FTimeout | FProtocol | FVersion | FPort => SCompare
  end.

(* the check in front of the sink, as a predicate on the decoded number; [aux] is the
   second operand where there is one (matchStep, file size, length sent) *)
Definition guard (f : flow) (c : cfg) (aux n : Z) : bool :=
  match f with
  | FDataSizeV2 | FDataSizeV1 => data_accepted c n
  | FHashStep => gd_in_range 64 n && hash_accepted (n - aux)
  | FAckStep => gd_in_range 64 n                                   (* no check at all *)
  | FAckLen => gd_in_range 64 n && (n =? aux)
  | FFinalStep => gd_in_range 64 n && negb (n >? aux)
  | FHashAckStep => gd_in_range 64 n                               (* shown before checked *)
  | FPaneWidth => gd_in_range 32 n
  | FNum | FSize | FNameSize | FArchiveSize => gd_in_range 64 n
  | FTargetSize => gd_in_range 64 n && negb (n <? 0)
  | FBufsize => gd_in_range 64 n
  | FTimeout | FProtocol => gd_in_range 64 n
  | FVersion => (0 <=? n) && (n <=? 2 ^ 32 - 1)
  | FPort => gd_in_range 64 n
  end.

(* the amount that reaches the sink for an accepted number *)
Definition amount (f : flow) (c : cfg) (aux n : Z) : Z :=
  match f with
  | FDataSizeV2 | FDataSizeV1 => n
  | FHashStep => n - aux
  | FPaneWidth => bar_columns (term_cols c) n
  | _ => 0
  end.

Definition bound (f : flow) (c : cfg) : Z :=
  match f with
  | FDataSizeV2 | FDataSizeV1 => alloc_bound c
  | FHashStep => Consts.guards_hash_step
  | FPaneWidth => Z.max (term_cols c) 0
  | _ => 0
  end.

Definition guard_unfixed (f : flow) (c : cfg) (aux n : Z) : bool :=
  match f with
  | FDataSizeV2 | FDataSizeV1 => data_accepted_unfixed c n
  | FHashStep => gd_in_range 64 n
  | _ => guard f c aux n
  end.
Definition amount_unfixed (f : flow) (c : cfg) (aux n : Z) : Z :=
  match f with
  | FPaneWidth => bar_columns_unfixed (term_cols c) n
  | _ => amount f c aux n
  end.

(* a configuration the code can be in: the client's after recvConfig, or the servers' own argument *)
Definition cfg_ok (c : cfg) : bool := bufsize c <=? Consts.guards_bufsize_clamp.

(* ------------------------------------------------------------------------------------ *)
(* the sender's chunk buffer: bufferSize from its initial value through the
   acknowledgements (pipelineRecvAck) to the capacity newSendDataWriter /
   sendDataWriter.Write hand to make *)

(* time.Since(ack.begin), as far as the code looks at it: below the fast threshold, between the
   thresholds, or at least the slow threshold with chunkTime/time.Second = secs *)
Inductive gd_chunk_time := GdFast | GdMid | GdSlow (secs : Z).
Record gd_ack := { ga_len : Z; ga_time : gd_chunk_time }.

Definition gd_min64 (a b : Z) : Z := if a <? b then a else b.
Definition gd_is_fast (t : gd_chunk_time) : bool := match t with GdFast => true | _ => false end.

(* one acknowledgement whose length matched what was sent, in the branch that looks at the
   chunk time (ignoreChunkTimeCount <= 0 or still probing; no pause in between).  Go's
   int64 division truncates: Z.quot. *)
Definition gd_bufsize_step (maxbuf bs : Z) (a : gd_ack) : Z :=
  if (ga_len a =? bs) && gd_is_fast (ga_time a) && (bs <? maxbuf)
  then gd_min64 (gd_wrap64 (bs * Consts.guards_grow_factor)) maxbuf
  else match ga_time a with
       | GdSlow k => if ga_len a <=? bs
                     then (let q := Z.quot bs k in if q <? Consts.guards_min_chunk then Consts.guards_min_chunk else q)
                     else bs
       | _ => bs
       end.

(* every value bufferSize takes: each of them can be the capacity of the next chunk buffer *)
Fixpoint gd_bufsize_run (maxbuf bs : Z) (l : list gd_ack) : list Z :=
  match l with
  | [] => [bs]
  | a :: r => bs :: gd_bufsize_run maxbuf (gd_bufsize_step maxbuf bs a) r
  end.

Definition gd_capacities (maxbuf : Z) (l : list gd_ack) : list Z := gd_bufsize_run maxbuf Consts.guards_init_buffer_size l.

(* chunkTime/time.Second of a slow acknowledgement is at least slow_ms/1000 (local clock, not peer data) *)
Definition gd_ack_ok (a : gd_ack) : bool :=
  match ga_time a with GdSlow k => Consts.guards_ack_slow_ms / 1000 <=? k | _ => true end.

(* the protocol-1 sender (sendFileData) keeps its own size: doubling under the same condition,
   back to the initial size after a slow chunk *)
Definition gd_bufsize_step_v1 (maxbuf bs : Z) (a : gd_ack) : Z :=
  if (ga_len a =? bs) && gd_is_fast (ga_time a) && (bs <? maxbuf)
  then gd_min64 (gd_wrap64 (bs * Consts.guards_grow_factor)) maxbuf
  else match ga_time a with
       | GdSlow _ => if bs >? Consts.guards_v1_init_bufsize then Consts.guards_v1_init_bufsize else bs
       | _ => bs
       end.
Fixpoint gd_bufsize_run_v1 (maxbuf bs : Z) (l : list gd_ack) : list Z :=
  match l with
  | [] => [bs]
  | a :: r => bs :: gd_bufsize_run_v1 maxbuf (gd_bufsize_step_v1 maxbuf bs a) r
  end.

(* the same walk with the growth guard written as an inequality test ("!=" for "<"): what a
   relaxed guard does with a non-positive announced limit *)
Definition gd_bufsize_step_ne (maxbuf bs : Z) (a : gd_ack) : Z :=
  if (ga_len a =? bs) && gd_is_fast (ga_time a) && negb (bs =? maxbuf)
  then gd_min64 (gd_wrap64 (bs * Consts.guards_grow_factor)) maxbuf
  else bs.

(* ------------------------------------------------------------------------------------ *)
(* TIME as an input: the peer decides when it acknowledges, so the chunk time is whatever it
   likes.  The step above takes the time in classes; here it is the measured duration in
   whole milliseconds (the thresholds are multiples of a millisecond and the divisor is
   chunkTime/time.Second, so nothing finer matters).  [thr] is the shrink threshold in ms as
   read from the source; a divisor of zero is Go's "integer divide by zero" - a run-time panic
   in a goroutine without recover - and is an explicit outcome: None. *)
Definition gd_bufsize_step_ms (thr maxbuf bs len ms : Z) : option Z :=
  if (len =? bs) && (ms <? Consts.guards_ack_fast_ms) && (bs <? maxbuf)
  then Some (gd_min64 (gd_wrap64 (bs * Consts.guards_grow_factor)) maxbuf)
  else if (thr <=? ms) && (len <=? bs)
       then (let k := ms / 1000 in
             if k =? 0 then None
             else Some (let q := Z.quot bs k in if q <? Consts.guards_min_chunk then Consts.guards_min_chunk else q))
       else Some bs.

Fixpoint gd_bufsize_run_ms (thr maxbuf bs : Z) (l : list (Z * Z)) : option (list Z) :=
  match l with
  | [] => Some [bs]
  | (len, ms) :: r =>
    match gd_bufsize_step_ms thr maxbuf bs len ms with
    | None => None
    | Some bs' => match gd_bufsize_run_ms thr maxbuf bs' r with
                  | None => None
                  | Some rest => Some (bs :: rest)
                  end
    end
  end.

Definition gd_capacities_ms (maxbuf : Z) (l : list (Z * Z)) : option (list Z) :=
  gd_bufsize_run_ms Consts.guards_ack_slow_ms maxbuf Consts.guards_init_buffer_size l.

(* the class of a duration, for the comparison with the step above *)
Definition gd_class_of_ms (ms : Z) : gd_chunk_time :=
  if ms <? Consts.guards_ack_fast_ms then GdFast
  else if ms <? Consts.guards_ack_slow_ms then GdMid else GdSlow (ms / 1000).

(* the durations around every threshold and whole second the code distinguishes *)
Definition gd_boundary_ms : list Z :=
  [0; 1; 499; 500; 501; 999; 1000; 1001; 1499; 1999; 2000; 2001; 2999; 3000; 3001; 59999; 60000; 3600000; 9223372036854].

(* ------------------------------------------------------------------------------------ *)
(* archiveFileWriter.Write: which way one call goes.  [nilcheck] = the condition in front of
   f.file.Write contains `f.file != nil` (read from the source).  A directory entry leaves
   f.file nil and f.left = the announced size, both chosen by the peer. *)
Inductive gd_aw_way := GdAwToFile | GdAwHeader | GdAwNilDeref.
Definition gd_aw_dispatch (nilcheck : bool) (left : Z) (has_file : bool) : gd_aw_way :=
  if 0 <? left then
    (if has_file then GdAwToFile else if nilcheck then GdAwHeader else GdAwNilDeref)
  else GdAwHeader.

(* the state an entry header leaves behind: createDirOrFile returns no file for a directory *)
Definition gd_aw_after_header (is_dir : bool) (size : Z) : Z * bool := (size, negb is_dir).

(* any sequence of entry headers (is_dir, size) each followed by [k] further calls of Write *)
Fixpoint gd_aw_ways (nilcheck : bool) (left : Z) (has_file : bool) (hs : list (bool * Z * nat)) : list gd_aw_way :=
  match hs with
  | [] => []
  | (d, sz, k) :: r =>
    let '(l1, f1) := gd_aw_after_header d sz in
    gd_aw_dispatch nilcheck left has_file :: repeat (gd_aw_dispatch nilcheck l1 f1) k ++ gd_aw_ways nilcheck l1 f1 r
  end.

(* ------------------------------------------------------------------------------------ *)
(* "#TYPE:payload" lines: recvCheck, recvCheckV2 and the relay's decodeRelayBufferString cut
   line[1:idx] and line[idx+1:] at the first colon.  [min_idx] is the bound of the guard in
   front (`idx < min_idx` is rejected; the source has 1).  Slicing line[1:0] panics. *)
Inductive gd_split := GdSplitReject | GdSplitPanic | GdSplitOk (typ payload : list N).
Definition gd_line_split (min_idx : Z) (line : list N) : gd_split :=
  match index_byte 58%N line with
  | None => if -1 <? min_idx then GdSplitReject else GdSplitPanic
  | Some i =>
    if Z.of_nat i <? min_idx then GdSplitReject
    else if (i <? 1)%nat then GdSplitPanic
    else GdSplitOk (firstn (i - 1) (skipn 1 line)) (skipn (S i) line)
  end.

(* ------------------------------------------------------------------------------------ *)
(* TWO numbers of the peer that bound each other.  The guard in front of recvPrefixHash's make
   with its upper bound as a parameter: [bound_by_size = false] compares the amount make gets
   (step = hash.Step - matchStep) with a constant of the code, [bound_by_size = true] compares
   the announced hash.Step with the announced size (NAME size at protocol 4, the SIZE line at
   protocol 3) - both chosen by the peer. *)
Definition gd_hash_guard2 (bound_by_size : bool) (const_bound size match_step hash_step : Z) : bool :=
  let step := hash_step - match_step in
  negb ((step <=? 0) || (if bound_by_size then hash_step >? size else step >? const_bound)).

(* the general shape: an amount [a] is let through when it does not exceed [b]; who chooses b? *)
Definition gd_pair_accepts (a b : Z) : bool := (0 <? a) && (a <=? b).
