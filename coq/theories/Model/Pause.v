(* Discrete-time model of pause / resume (C18).

   transfer.go   pauseTransferringFiles, resumeTransferringFiles, getNewTimeout, checkStop, recvLine
   pipeline.go   checkStopAndPause, recvCheckV2, sendDataV2, pipelineSendData (ack window), pipelineRecvAck
   buffer.go     nextBuffer (select on data / stop / timeout, newTimeout swap), readLine (timer set-up)

   Time is a sequence of [Tick]s of an arbitrary unit that divides the sleeps of the code; a timeout of
   cT ticks fires at the cT-th tick after it was armed, a sleep of cSL ticks ends at the cSL-th tick.
   All other events (a line arrives, pause, resume, stop, a call) happen between ticks, in the order
   given.  Between two events a goroutine runs until it blocks (in a sleep or in nextBuffer's select).

   (a) [rstep]: the READER recvCheckV2 + recvLine + readLine + nextBuffer as a deterministic machine.
   (b) [sstep]: the GATE checkStopAndPause and the write that follows it in sendDataV2.
   (c) [cstep]: one direction of a protocol >= 3 transfer with line latency 0: our wire sender S
       (gate, DATA, ack window), our ack reader A, the peer's data reader R and its acker (the peer
       never pauses: only the client has the prompt).  A pause may begin before any step.

   Executable definitions only. *)
From Trzsz Require Export Base.Bytes.
From Trzsz Require Import Gen.Consts.

(* ---------- configuration ---------- *)

Record cfg := mkCfg {
  cT : nat;      (* transferConfig.Timeout in ticks; 0 = Timeout <= 0: getNewTimeout returns nil, wait for ever *)
  cSL : nat;     (* the reader's sleep in its `for pausing` loop, in ticks *)
  cGL : nat;     (* the gate's sleep, in ticks *)
  cP3 : bool }.  (* transferConfig.Protocol >= kProtocolVersion3 *)

(* the configuration of a real transfer, for a tick of [unit_ms] milliseconds *)
Definition cfg_of (unit_ms : N) (timeout_s : Z) (protocol : N) : cfg :=
  mkCfg (match timeout_s with Zpos p => N.to_nat (Npos p * pause_timeout_unit_ms / unit_ms) | _ => O end)
        (N.to_nat (pause_reader_sleep_ms / unit_ms))
        (N.to_nat (pause_gate_sleep_ms / unit_ms))
        (pause_protocol3 <=? protocol).

(* ---------- timers ---------- *)

(* a <-chan time.Time: None = nil channel (never ready); Some r = ready after r more ticks *)
Definition timer := option nat.
Definition fresh (cf : cfg) : timer := match cT cf with O => None | t => Some t end.   (* getNewTimeout *)
Definition dec (t : timer) : timer := match t with Some (S r) => Some r | x => x end.
Definition fired (t : timer) : bool := match t with Some O => true | _ => false end.

(* ---------- what recvCheckV2 makes of a line ---------- *)

Inductive lclass := CKeep | CGood | CNoColon | CWrongType.

(* idx := bytes.IndexByte(line, ':'); idx < 1 -> error; typ := line[1:idx]; buf := line[idx+1:];
   typ != expectType -> error; len(buf) == 1 && buf[0] == '=' -> keep-alive *)
Definition classify (expect line : list N) : lclass :=
  match index_byte pause_colon line with
  | None | Some O => CNoColon
  | Some (S i) =>
    if list_eqb (firstn i (skipn 1 line)) expect
    then if list_eqb (skipn (S (S i)) line) pause_keepalive_tested then CKeep else CGood
    else CWrongType
  end.

Definition payload_of (line : list N) : list N :=
  match index_byte pause_colon line with Some i => skipn (S i) line | None => [] end.

(* the line the gate writes while pausing: "#" typ ":" "=" newline (without the newline) *)
Definition keepalive_line (typ : list N) : list N := 35 :: typ ++ pause_colon :: pause_keepalive_written.

(* ---------- (a) the reader ---------- *)

(* the part of trzszTransfer / trzszBuffer the reader depends on, and the locals of recvCheckV2 *)
Record rcore := mkCore {
  pausing : bool;     (* t.pausing *)
  pidx : nat;         (* t.pauseIdx *)
  pbt : bool;         (* t.pauseBeginTime != 0 *)
  stopped : bool;     (* t.stopped *)
  tmo : timer;        (* b.timeout *)
  ntmo : timer;       (* b.newTimeout *)
  rbt : bool;         (* t.resumeBeginTime != nil && beginTime.Before(rbt) for the current read *)
  pflag : bool }.     (* the local `pause` *)

Definition upd_pflag (c : rcore) (b : bool) : rcore :=
  mkCore (pausing c) (pidx c) (pbt c) (stopped c) (tmo c) (ntmo c) (rbt c) b.
Definition upd_stopped (c : rcore) : rcore :=
  mkCore (pausing c) (pidx c) (pbt c) true (tmo c) (ntmo c) (rbt c) (pflag c).
Definition upd_timers (c : rcore) (t nt : timer) : rcore :=
  mkCore (pausing c) (pidx c) (pbt c) (stopped c) t nt (rbt c) (pflag c).
(* rbt consumed: resumeBeginTime.CompareAndSwap(rbt, nil); pause = true *)
Definition consume_rbt (c : rcore) : rcore :=
  mkCore (pausing c) (pidx c) (pbt c) (stopped c) (tmo c) (ntmo c) false true.

(* pauseTransferringFiles *)
Definition do_pause (c : rcore) : rcore :=
  if pbt c then mkCore true (pidx c) true (stopped c) (tmo c) (ntmo c) (rbt c) (pflag c)
  else mkCore true (S (pidx c)) true (stopped c) (tmo c) (ntmo c) (rbt c) (pflag c).

(* resumeTransferringFiles; [reading]: a read (beginTime taken) is in progress *)
Definition do_resume (cf : cfg) (c : rcore) (reading : bool) : rcore :=
  mkCore false (pidx c) false (stopped c) (tmo c) (fresh cf) reading (pflag c).

(* where recvCheckV2 is *)
Inductive phase :=
| PIdle                       (* not running *)
| PGate (snap slp : nat)      (* asleep in the `for pausing` loop; pauseIdx snapshot; ticks left to sleep *)
| PRead (snap : nat).         (* blocked in nextBuffer's select *)

Definition is_read (p : phase) : bool := match p with PRead _ => true | _ => false end.

Inductive ev (L : Type) := ETick | EArrive (l : L) | EPause | EResume | EStop | ECall.
Arguments ETick {L}. Arguments EArrive {L}. Arguments EPause {L}. Arguments EResume {L}.
Arguments EStop {L}. Arguments ECall {L}.

Inductive out (L : Type) :=
| ODelivered (l : L) (pause : bool)
| OTimeout (pause : bool)
| OStopped (pause : bool)
| OBadLine (pause : bool).
Arguments ODelivered {L}. Arguments OTimeout {L}. Arguments OStopped {L}. Arguments OBadLine {L}.

Record rstate (L : Type) := mkR { core : rcore; queue : list L; ph : phase }.
Arguments mkR {L}. Arguments core {L}. Arguments queue {L}. Arguments ph {L}.

Section Reader.
Variable L : Type.
Variable cls : L -> lclass.
Variable cf : cfg.

(* beginTime := now; recvLine -> readLine: b.timeout = the fresh timer, b.newTimeout = nil *)
Definition arm (c : rcore) : rcore :=
  mkCore (pausing c) (pidx c) (pbt c) (stopped c) (fresh cf) None false (pflag c).

Inductive pre_res := PExit (c : rcore) (p : phase) (o : option (out L)) | PGo (c : rcore) (snap : nat).

(* the condition of `for t.pausing.Load()` with the loop body up to the sleep, then (loop left)
   recvLine's checkStop and the timer set-up of the read *)
Definition gate_check (c : rcore) (snap : nat) : pre_res :=
  if cP3 cf && pausing c then
    if stopped c then PExit (upd_pflag c true) PIdle (Some (OStopped true))
    else PExit (upd_pflag c true) (PGate snap (cSL cf)) None
  else if stopped c then PExit c PIdle (Some (OStopped (pflag c)))
  else PGo (arm c) snap.

Inductive entry := AtTop | AfterGate (snap : nat) | GotLine (snap : nat).

Definition pre (e : entry) (c : rcore) : pre_res :=
  match e with
  | AtTop => gate_check c (if cP3 cf then pidx c else O)   (* pauseIdx = t.pauseIdx.Load() *)
  | AfterGate snap => gate_check c snap                    (* woke up in the pausing loop: same snapshot *)
  | GotLine snap => PGo c snap                             (* nextBuffer returned data *)
  end.

(* recvCheckV2 from entry point [e] with [q] in the buffer, until it blocks or returns *)
Fixpoint rd (q : list L) (e : entry) (c : rcore) {struct q} : rstate L * option (out L) :=
  match pre e c with
  | PExit c' p o => (mkR c' q p, o)
  | PGo c' snap =>
    match q with
    | [] => (mkR c' [] (PRead snap), None)
    | l :: q' =>
      match cls l with
      | CNoColon => (mkR c' q' PIdle, Some (OBadLine (pflag c')))
      | CWrongType => (mkR c' q' PIdle, Some (OBadLine (pflag c')))
      | CKeep =>
        if cP3 cf then rd q' AtTop (upd_pflag c' true)       (* client pausing, read again *)
        else (mkR c' q' PIdle, Some (ODelivered l (pflag c')))
      | CGood =>
        if cP3 cf && rbt c' then (mkR (consume_rbt c') q' PIdle, Some (ODelivered l true))
        else (mkR c' q' PIdle, Some (ODelivered l (pflag c')))
      end
    end
  end.

(* nextBuffer returned errReceiveDataTimeout: recvLine's checkStop, then recvCheckV2's pause-generation test *)
Definition on_timeout (q : list L) (snap : nat) (c : rcore) : rstate L * option (out L) :=
  if stopped c then (mkR c q PIdle, Some (OStopped (pflag c)))
  else if cP3 cf && (snap <? pidx c)%nat then rd q AtTop (upd_pflag c true)   (* pause after read, read again *)
  else (mkR c q PIdle, Some (OTimeout (pflag c))).

Definition rtick (s : rstate L) : rstate L * option (out L) :=
  let c := upd_timers (core s) (dec (tmo (core s))) (dec (ntmo (core s))) in
  match ph s with
  | PIdle => (mkR c (queue s) PIdle, None)
  | PGate snap (S (S k)) => (mkR c (queue s) (PGate snap (S k)), None)
  | PGate snap _ => rd (queue s) (AfterGate snap) c
  | PRead snap =>
    if fired (tmo c) then
      match ntmo c with
      | Some r =>                                     (* b.timeout = b.newTimeout; b.newTimeout = nil; continue *)
        let c1 := upd_timers c (Some r) None in
        if fired (tmo c1) then on_timeout (queue s) snap c1 else (mkR c1 (queue s) (PRead snap), None)
      | None => on_timeout (queue s) snap c
      end
    else (mkR c (queue s) (PRead snap), None)
  end.

Definition rstep (s : rstate L) (e : ev L) : rstate L * option (out L) :=
  match e with
  | ETick => rtick s
  | ECall =>
    match ph s with
    | PIdle => rd (queue s) AtTop (upd_pflag (core s) false)
    | _ => (s, None)
    end
  | EArrive l =>
    if stopped (core s) then (s, None)                 (* addReceivedData drops input once stopped *)
    else match ph s with
         | PRead snap => rd (queue s ++ [l]) (GotLine snap) (core s)
         | p => (mkR (core s) (queue s ++ [l]) p, None)
         end
  | EPause => (mkR (do_pause (core s)) (queue s) (ph s), None)
  | EResume => (mkR (do_resume cf (core s) (is_read (ph s))) (queue s) (ph s), None)
  | EStop =>
    if stopped (core s) then (s, None)
    else match ph s with
         | PRead _ => (mkR (upd_stopped (core s)) (queue s) PIdle, Some (OStopped (pflag (core s))))
         | p => (mkR (upd_stopped (core s)) (queue s) p, None)
         end
  end.

Fixpoint rrun (s : rstate L) (es : list (ev L)) : rstate L * list (option (out L)) :=
  match es with
  | [] => (s, [])
  | e :: es' => let '(s1, o) := rstep s e in let '(s2, os) := rrun s1 es' in (s2, o :: os)
  end.

End Reader.

Definition core0 : rcore := mkCore false O false false None None false false.
Definition rinit (L : Type) : rstate L := mkR core0 [] PIdle.

(* ---------- (b) the gate and the write behind it ---------- *)

Inductive sphase :=
| SIdle                 (* not in sendDataV2 / the acker's gate *)
| SSleep (slp : nat)    (* asleep in checkStopAndPause's pausing loop *)
| SPassed.              (* checkStopAndPause returned nil; the frame is not yet written *)

Inductive wout := WKeep | WFrame | WStopErr.

(* `for t.pausing.Load() { checkStop; write keep-alive; sleep }; return t.checkStop()` from the loop condition *)
Definition gate_enter (cf : cfg) (pausing stopped : bool) : sphase * list wout :=
  if cP3 cf && pausing then
    if stopped then (SIdle, [WStopErr]) else (SSleep (cGL cf), [WKeep])
  else if stopped then (SIdle, [WStopErr]) else (SPassed, []).

Inductive sev := SCall | STick | SWrite | SPauseEv | SResumeEv | SStopEv.

Record sstate := mkS { s_pausing : bool; s_stopped : bool; s_ph : sphase }.

Definition sphase_step (cf : cfg) (pausing stopped : bool) (p : sphase) (e : sev) : sphase * list wout :=
  match e, p with
  | SCall, SIdle => gate_enter cf pausing stopped
  | STick, SSleep (S (S k)) => (SSleep (S k), [])
  | STick, SSleep _ => gate_enter cf pausing stopped
  | SWrite, SPassed => (SIdle, [WFrame])
  | _, _ => (p, [])
  end.

Definition sstep (cf : cfg) (s : sstate) (e : sev) : sstate * list wout :=
  match e with
  | SPauseEv => (mkS true (s_stopped s) (s_ph s), [])
  | SResumeEv => (mkS false (s_stopped s) (s_ph s), [])
  | SStopEv => (mkS (s_pausing s) true (s_ph s), [])
  | _ => let '(p, w) := sphase_step cf (s_pausing s) (s_stopped s) (s_ph s) e in
         (mkS (s_pausing s) (s_stopped s) p, w)
  end.

Fixpoint srun (cf : cfg) (s : sstate) (es : list sev) : sstate * list wout :=
  match es with
  | [] => (s, [])
  | e :: es' => let '(s1, w) := sstep cf s e in let '(s2, ws) := srun cf s1 es' in (s2, w ++ ws)
  end.

Definition count_frames (ws : list wout) : nat :=
  length (filter (fun w => match w with WFrame => true | _ => false end) ws).
Definition count_keeps (ws : list wout) : nat :=
  length (filter (fun w => match w with WKeep => true | _ => false end) ws).

(* ---------- (c) one direction of a transfer ---------- *)

Inductive wline := WLKeep | WLData (k : nat).                 (* client -> server lines *)
Definition cls_w (l : wline) : lclass := match l with WLKeep => CKeep | WLData _ => CGood end.
Definition cls_a (k : nat) : lclass := CGood.                 (* server -> client: "#SUCC:len/step" acks *)

(* the wire sender goroutine of pipelineSendData *)
Inductive csph :=
| CSGate (k : nat)               (* has frame k, about to call sendDataV2 *)
| CSIn (k : nat) (p : sphase)    (* inside sendDataV2 for frame k *)
| CSPush (k : nat)               (* frame k written; `ackChan <- ack` (blocks while the channel is full) *)
| CSDone.

(* ghost: where we are relative to the pauses (only used to state the budget on pause lengths) *)
Inductive epi :=
| EpNone
| EpPausing (e : nat)            (* e ticks since the episode began *)
| EpResumed (e j : nat).         (* resumed j ticks ago, after e ticks; sleepers may not have noticed yet *)

Record cstate := mkC {
  cA : rstate nat;      (* our ack reader: its core carries OUR pause flags, its queue is the server->client wire *)
  cAcked : nat;
  cS : csph;
  cCnt : nat;           (* len(ackChan) *)
  cR : rstate wline;    (* the peer's data reader; its queue is the client->server wire *)
  cDeliv : list nat;    (* frames the peer's reader returned, in order *)
  cErrA : bool;         (* our ack reader returned an error *)
  cErrR : bool;         (* the peer's data reader returned an error *)
  cEp : epi }.

Inductive cev := XTick | XPause | XResume | XSCall | XSWrite | XSPush | XRCall | XATake.

Section Compose.
Variable cf : cfg.
Variable n : nat.       (* number of DATA frames *)
Variable W : nat.       (* capacity of ackChan *)
Variable P : nat.       (* budget: ticks an episode of pausing may last *)

Definition slack : nat := Nat.max (cSL cf) (cGL cf).

Definition set_A (s : cstate) (a : rstate nat) (acked : nat) (err : bool) : cstate :=
  mkC a acked (cS s) (cCnt s) (cR s) (cDeliv s) err (cErrR s) (cEp s).

(* an event for our ack reader; a delivered ack is counted *)
Definition feedA (s : cstate) (e : ev nat) : cstate :=
  let '(a, o) := rstep nat cls_a cf (cA s) e in
  match o with
  | None => set_A s a (cAcked s) (cErrA s)
  | Some (ODelivered _ _) => set_A s a (S (cAcked s)) (cErrA s)
  | Some _ => set_A s a (cAcked s) true
  end.

(* an event for the peer's data reader; a delivered DATA frame is acked at once (the peer's acker gate
   never pauses), the ack arrives in our buffer at once (latency 0) *)
Definition feedR (s : cstate) (e : ev wline) : cstate :=
  let '(r, o) := rstep wline cls_w cf (cR s) e in
  match o with
  | None => mkC (cA s) (cAcked s) (cS s) (cCnt s) r (cDeliv s) (cErrA s) (cErrR s) (cEp s)
  | Some (ODelivered (WLData k) _) =>
    feedA (mkC (cA s) (cAcked s) (cS s) (cCnt s) r (cDeliv s ++ [k]) (cErrA s) (cErrR s) (cEp s)) (EArrive k)
  | Some _ => mkC (cA s) (cAcked s) (cS s) (cCnt s) r (cDeliv s) (cErrA s) true (cEp s)
  end.

Definition set_S (s : cstate) (p : csph) : cstate :=
  mkC (cA s) (cAcked s) p (cCnt s) (cR s) (cDeliv s) (cErrA s) (cErrR s) (cEp s).
Definition set_cnt (s : cstate) (c : nat) : cstate :=
  mkC (cA s) (cAcked s) (cS s) c (cR s) (cDeliv s) (cErrA s) (cErrR s) (cEp s).
Definition set_ep (s : cstate) (e : epi) : cstate :=
  mkC (cA s) (cAcked s) (cS s) (cCnt s) (cR s) (cDeliv s) (cErrA s) (cErrR s) e.

(* what the wire sender wrote reaches the peer's reader *)
Fixpoint emit (s : cstate) (k : nat) (ws : list wout) : cstate :=
  match ws with
  | [] => s
  | WKeep :: ws' => emit (feedR s (EArrive WLKeep)) k ws'
  | WFrame :: ws' => emit (feedR s (EArrive (WLData k))) k ws'
  | WStopErr :: ws' => emit s k ws'
  end.

Definition our_pausing (s : cstate) : bool := pausing (core (cA s)).
Definition our_stopped (s : cstate) : bool := stopped (core (cA s)).

(* sendDataV2 for frame k moves by sender event e *)
Definition s_move (s : cstate) (k : nat) (p : sphase) (e : sev) : cstate :=
  let '(p', ws) := sphase_step cf (our_pausing s) (our_stopped s) p e in
  let s1 := emit s k ws in
  match p', e with
  | SIdle, SWrite => set_S s1 (CSPush k)
  | _, _ => set_S s1 (CSIn k p')
  end.

Definition r_live (s : cstate) : bool := (length (cDeliv s) <? n)%nat.

(* no goroutine can move without time passing *)
Definition quiescent (s : cstate) : bool :=
  match cS s with
  | CSGate _ => false
  | CSIn _ SPassed => false
  | CSIn _ SIdle => false
  | CSIn _ (SSleep _) => true
  | CSPush _ => (W <=? cCnt s)%nat
  | CSDone => true
  end
  && negb (match ph (cR s) with PIdle => r_live s | _ => false end)
  && negb (match ph (cA s) with PIdle => (0 <? cCnt s)%nat | _ => false end).

Definition ep_pause (e : epi) : epi :=
  match e with EpNone => EpPausing O | EpPausing e => EpPausing e | EpResumed e j => EpPausing (e + j) end.
Definition ep_tick (e : epi) : epi :=
  match e with
  | EpNone => EpNone
  | EpPausing e => EpPausing (S e)
  | EpResumed e j => if (S j <? slack)%nat then EpResumed e (S j) else EpNone
  end.

Definition cstep (s : cstate) (x : cev) : option cstate :=
  match x with
  | XSCall => match cS s with CSGate k => Some (s_move s k SIdle SCall) | _ => None end
  | XSWrite => match cS s with CSIn k SPassed => Some (s_move s k SPassed SWrite) | _ => None end
  | XSPush =>
    match cS s with
    | CSPush k =>
      if (cCnt s <? W)%nat
      then Some (set_S (set_cnt s (S (cCnt s))) (if (S k <? n)%nat then CSGate (S k) else CSDone))
      else None
    | _ => None
    end
  | XRCall => match ph (cR s) with PIdle => if r_live s then Some (feedR s ECall) else None | _ => None end
  | XATake =>
    match ph (cA s), cCnt s with
    | PIdle, S c => Some (feedA (set_cnt s c) ECall)
    | _, _ => None
    end
  | XPause =>                                   (* a new pause begins at least one sleep after the last resume *)
    match cEp s with
    | EpResumed _ _ => None
    | _ => Some (set_ep (feedA s EPause) (ep_pause (cEp s)))
    end
  | XResume =>
    match cEp s with
    | EpPausing e => if our_pausing s then Some (set_ep (feedA s EResume) (EpResumed e O)) else None
    | _ => None
    end
  | XTick =>
    if quiescent s && (match cEp s with EpPausing e => (e <? P)%nat | _ => true end) then
      let s1 := feedA (feedR s ETick) ETick in
      let s2 := match cS s1 with CSIn k (SSleep j) => s_move s1 k (SSleep j) STick | _ => s1 end in
      Some (set_ep s2 (ep_tick (cEp s)))
    else None
  end.

Fixpoint crun (s : cstate) (xs : list cev) : option cstate :=
  match xs with
  | [] => Some s
  | x :: xs' => match cstep s x with Some s' => crun s' xs' | None => None end
  end.

Definition cinit : cstate :=
  mkC (rinit nat) O (match n with O => CSDone | _ => CSGate O end) O (rinit wline) [] false false EpNone.

End Compose.

(* ---------- (c') the same composition with the two readers replaced by what the reader theorems say
   about them: the peer's reader is idle or blocked with t ticks left (a keep-alive re-arms it, a DATA
   frame completes it and is acknowledged at once, t = 0 is the timeout error); our ack reader is idle,
   in the pausing loop, or blocked (an ack completes it).  [xBad] records any error. ---------- *)

Inductive aph := AIdle | AGate (j : nat) | ARead.
Inductive rph := RIdle | RRead (t : nat).

Record ast := mkA {
  xPausing : bool; xA : aph; xAq : nat; xAcked : nat; xS : csph; xCnt : nat;
  xR : rph; xRq : list wline; xDeliv : list nat; xBad : bool; xEp : epi }.

Fixpoint first_data (q : list wline) : option (nat * list wline) :=
  match q with
  | [] => None
  | WLKeep :: q' => first_data q'
  | WLData k :: q' => Some (k, q')
  end.

Section Abstract.
Variable cf : cfg.
Variable n : nat.
Variable W : nat.
Variable P : nat.

(* an ack line reaches our side *)
Definition x_ack (a : ast) : ast :=
  match xA a with
  | ARead => mkA (xPausing a) AIdle (xAq a) (S (xAcked a)) (xS a) (xCnt a) (xR a) (xRq a) (xDeliv a) (xBad a) (xEp a)
  | _ => mkA (xPausing a) (xA a) (S (xAq a)) (xAcked a) (xS a) (xCnt a) (xR a) (xRq a) (xDeliv a) (xBad a) (xEp a)
  end.

(* the peer's reader returns frame k: delivered and acknowledged *)
Definition x_deliver (a : ast) (r : rph) (q : list wline) (k : nat) : ast :=
  x_ack (mkA (xPausing a) (xA a) (xAq a) (xAcked a) (xS a) (xCnt a) r q (xDeliv a ++ [k]) (xBad a) (xEp a)).

Definition x_setR (a : ast) (r : rph) (q : list wline) : ast :=
  mkA (xPausing a) (xA a) (xAq a) (xAcked a) (xS a) (xCnt a) r q (xDeliv a) (xBad a) (xEp a).

(* a line from our sender reaches the peer *)
Definition x_rarrive (a : ast) (l : wline) : ast :=
  match xR a with
  | RIdle => x_setR a RIdle (xRq a ++ [l])
  | RRead _ =>
    match l with
    | WLKeep => x_setR a (RRead (cT cf)) (xRq a)
    | WLData k => x_deliver a RIdle (xRq a) k
    end
  end.

(* the peer calls recvCheckV2 *)
Definition x_rcall (a : ast) : ast :=
  match first_data (xRq a) with
  | None => x_setR a (RRead (cT cf)) []
  | Some (k, q') => x_deliver a RIdle q' k
  end.

Definition x_setA (a : ast) (p : aph) (q acked : nat) : ast :=
  mkA (xPausing a) p q acked (xS a) (xCnt a) (xR a) (xRq a) (xDeliv a) (xBad a) (xEp a).

(* our ack reader leaves (or skips) the pausing loop and reads *)
Definition x_aread (a : ast) : ast :=
  match xAq a with
  | S q => x_setA a AIdle q (S (xAcked a))
  | O => x_setA a ARead O (xAcked a)
  end.
Definition x_acall (a : ast) : ast :=
  if xPausing a then x_setA a (AGate (cSL cf)) (xAq a) (xAcked a) else x_aread a.

Definition x_setS (a : ast) (p : csph) : ast :=
  mkA (xPausing a) (xA a) (xAq a) (xAcked a) p (xCnt a) (xR a) (xRq a) (xDeliv a) (xBad a) (xEp a).
Definition x_setCnt (a : ast) (c : nat) : ast :=
  mkA (xPausing a) (xA a) (xAq a) (xAcked a) (xS a) c (xR a) (xRq a) (xDeliv a) (xBad a) (xEp a).
Definition x_bad (a : ast) : ast :=
  mkA (xPausing a) (xA a) (xAq a) (xAcked a) (xS a) (xCnt a) (xR a) (xRq a) (xDeliv a) true (xEp a).
Definition x_flags (a : ast) (pa : bool) (e : epi) : ast :=
  mkA pa (xA a) (xAq a) (xAcked a) (xS a) (xCnt a) (xR a) (xRq a) (xDeliv a) (xBad a) e.

(* checkStopAndPause from its loop condition, for frame k *)
Definition x_gate (a : ast) (k : nat) : ast :=
  if xPausing a then x_rarrive (x_setS a (CSIn k (SSleep (cGL cf)))) WLKeep
  else x_setS a (CSIn k SPassed).

Definition x_live (a : ast) : bool := (length (xDeliv a) <? n)%nat.

Definition x_quiescent (a : ast) : bool :=
  match xS a with
  | CSGate _ => false
  | CSIn _ SPassed => false
  | CSIn _ SIdle => false
  | CSIn _ (SSleep _) => true
  | CSPush _ => (W <=? xCnt a)%nat
  | CSDone => true
  end
  && negb (match xR a with RIdle => x_live a | _ => false end)
  && negb (match xA a with AIdle => (0 <? xCnt a)%nat | _ => false end).

Definition x_tickR (a : ast) : ast :=
  match xR a with
  | RIdle => a
  | RRead (S (S t)) => x_setR a (RRead (S t)) (xRq a)
  | RRead _ => x_bad a                                  (* the peer's reader times out *)
  end.
Definition x_tickA (a : ast) : ast :=
  match xA a with
  | AIdle => a
  | AGate (S (S j)) => x_setA a (AGate (S j)) (xAq a) (xAcked a)
  | AGate _ => x_acall a
  | ARead => x_bad a                                    (* not followed further: never happens *)
  end.
Definition x_tickS (a : ast) : ast :=
  match xS a with
  | CSIn k (SSleep (S (S j))) => x_setS a (CSIn k (SSleep (S j)))
  | CSIn k (SSleep _) => x_gate a k
  | _ => a
  end.

Definition astep (a : ast) (x : cev) : option ast :=
  match x with
  | XSCall => match xS a with CSGate k => Some (x_gate a k) | _ => None end
  | XSWrite => match xS a with CSIn k SPassed => Some (x_rarrive (x_setS a (CSPush k)) (WLData k)) | _ => None end
  | XSPush =>
    match xS a with
    | CSPush k =>
      if (xCnt a <? W)%nat
      then Some (x_setS (x_setCnt a (S (xCnt a))) (if (S k <? n)%nat then CSGate (S k) else CSDone))
      else None
    | _ => None
    end
  | XRCall => match xR a with RIdle => if x_live a then Some (x_rcall a) else None | _ => None end
  | XATake =>
    match xA a, xCnt a with
    | AIdle, S c => Some (x_acall (x_setCnt a c))
    | _, _ => None
    end
  | XPause =>
    match xEp a with
    | EpResumed _ _ => None
    | e => Some (x_flags a true (ep_pause e))
    end
  | XResume =>
    match xEp a with
    | EpPausing e => if xPausing a then Some (x_flags a false (EpResumed e O)) else None
    | _ => None
    end
  | XTick =>
    if x_quiescent a && (match xEp a with EpPausing e => (e <? P)%nat | _ => true end) then
      let a3 := x_tickS (x_tickA (x_tickR a)) in
      Some (x_flags a3 (xPausing a3) (ep_tick cf (xEp a)))
    else None
  end.

Fixpoint arun (a : ast) (xs : list cev) : option ast :=
  match xs with
  | [] => Some a
  | x :: xs' => match astep a x with Some a' => arun a' xs' | None => None end
  end.

Definition ainit : ast :=
  mkA false AIdle O O (match n with O => CSDone | _ => CSGate O end) O RIdle [] [] false EpNone.

(* the abstraction of a concrete state (used to compare the two machines) *)
Definition abs_of (s : cstate) : ast :=
  mkA (pausing (core (cA s)))
      (match ph (cA s) with PIdle => AIdle | PGate _ j => AGate j | PRead _ => ARead end)
      (length (queue (cA s))) (cAcked s) (cS s) (cCnt s)
      (match ph (cR s) with PRead _ => RRead (match tmo (core (cR s)) with Some t => t | None => O end) | _ => RIdle end)
      (queue (cR s)) (cDeliv s) (cErrA s || cErrR s) (cEp s).

End Abstract.
