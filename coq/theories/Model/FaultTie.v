(* C02 on the whole-transfer receiver: Model/Transfer.v's [tr_receiver] fed with an ARBITRARY
   sequence of delivered messages (what a damaged connection delivers, parsed), and the
   per-file view of it that Model/Protocol.v's [recv_v2] / [recv_v1] decide on.

   [ft_run] is [tr_receiver] folded over the delivered list, instrumented with a ghost that
   remembers, for the file under way, the announced size, the compression flag and the
   messages delivered since the SIZE (resp. COMP) message.  It records one [ft_saved] for every
   MD5 message the receiver answers with SUCC:<digest>, i.e. for every file it reports to the
   sender as saved.  The ghost never influences the machine ([ft_run] returns exactly the state
   and the outputs of the plain fold [ft_feed]: Proofs/FaultTie.v).

   Executable definitions only (prefix ft_ / Ft). *)
From Coq Require Import ZArith.
From Trzsz Require Export Base.Bytes.
From Trzsz Require Import Gen.Consts Model.Path Model.Fs Model.Names Model.Escape Model.Base64 Model.Wire
  Model.Transfer Model.Protocol.
From Trzsz Require Model.Resume.

Section FaultTie.
Variable digest : Type.
Variable H : list byte -> digest.
Variable deq : digest -> digest -> bool.
Variable zdecomp : list byte -> option (list byte).
Variable unzl : list byte -> option (list byte).
Variable hx : list byte -> Resume.digest.          (* the prefix digest of the resume exchange *)
Variable aparse : list byte -> option (src * Z).   (* the decoder of archive headers *)

Notation msg := (tr_msg digest).
Notation receiver := (tr_receiver digest H deq zdecomp unzl hx aparse).

(* the plain fold: final state and everything the receiver wrote *)
Fixpoint ft_feed (c : tr_cfg) (dest : path) (st : tr_rstate) (ms : list msg) : tr_rstate * list msg :=
  match ms with
  | [] => (st, [])
  | m :: r =>
    match receiver c dest st m with
    | (st1, outs) => match ft_feed c dest st1 r with (st2, outs2) => (st2, outs ++ outs2) end
    end
  end.

(* a delivered message as the per-file decision model of Protocol.v sees it *)
Definition ft_line (m : msg) : line digest :=
  match m with
  | TrData _ f => LData digest f
  | TrMd5 _ d => LMd5 digest d
  | TrKeepAlive _ => LKeep digest
  | _ => LOther digest
  end.

(* the codec stacks of the transfer as the [decode] / [decode1] of Protocol.v *)
Definition ft_decode (c : tr_cfg) (cp : bool) (fs : list (list byte)) : option (list byte) :=
  wire_decode zdecomp (tc_binary c) cp (tc_table c) fs [] tr_rdflt.
Definition ft_decode1 (c : tr_cfg) (pl : list byte) : option (list byte) :=
  wire_v1_decode unzl (tc_binary c) (tc_table c) pl.

Record ft_ghost := mkFtGhost {
  fg_size : N;            (* the SIZE message the receiver accepted for the file under way *)
  fg_cp : bool;           (* the compression decision in force for it *)
  fg_msgs : list msg      (* the messages delivered since *)
}.
Definition ft_ghost0 : ft_ghost := mkFtGhost 0 false [].

Definition ft_ghost_step (c : tr_cfg) (st : tr_rstate) (m : msg) (g : ft_ghost) : ft_ghost :=
  match rs_phase st, m with
  | RpSize _, TrSize _ n => mkFtGhost n (snd (tr_is_compress_fixed c n)) []
  | RpComp _ _, TrComp _ b => mkFtGhost (fg_size g) b []
  | _, _ => mkFtGhost (fg_size g) (fg_cp g) (fg_msgs g ++ [m])
  end.

(* one file reported as saved *)
Record ft_saved := mkFtSaved {
  fv_payload : tr_npayload;   (* the NAME record it was announced with *)
  fv_size : N;                (* the announced size *)
  fv_cp : bool;               (* the compression decision *)
  fv_msgs : list msg;         (* everything delivered for it after SIZE / COMP, the MD5 message included *)
  fv_content : list byte;     (* what the receiver wrote *)
  fv_md5 : digest;            (* the digest value the MD5 message delivered *)
  fv_before : tr_rstate;      (* the receiver just before the MD5 message *)
  fv_after : tr_rstate        (* and right after it *)
}.

Definition ft_is_digest (m : msg) : bool := match m with TrSuccDigest _ _ => true | _ => false end.

Fixpoint ft_run (c : tr_cfg) (dest : path) (st : tr_rstate) (g : ft_ghost) (ms : list msg)
  : tr_rstate * list msg * list ft_saved :=
  match ms with
  | [] => (st, [], [])
  | m :: r =>
    match receiver c dest st m with
    | (st1, outs) =>
      let g1 := ft_ghost_step c st m g in
      let sv := match rs_phase st, m with
                | RpMd5 p w, TrMd5 _ d =>
                  if existsb ft_is_digest outs then [mkFtSaved p (fg_size g) (fg_cp g) (fg_msgs g1) w d st st1] else []
                | _, _ => []
                end in
      match ft_run c dest st1 g1 r with
      | (st2, outs2, svs) => (st2, outs ++ outs2, sv ++ svs)
      end
    end
  end.

(* a whole delivered sequence, from the receiver's initial state *)
Definition ft_receive (c : tr_cfg) (dest : path) (f0 : fs) (sch : list tr_sched) (ms : list msg)
  : tr_rstate * list msg * list ft_saved :=
  ft_run c dest (tr_receiver_init f0 sch) ft_ghost0 ms.

(* the verdict of Protocol.v's decision model on the lines of one saved file *)
Definition ft_verdict (c : tr_cfg) (sv : ft_saved) : verdict :=
  if tr_pipeline c then
    (* the machine of Model/Transfer.v checks the size atomically, as the code does since d144b66 (recv_v2 is the
       same function for every schedule: Proofs/Protocol.v recv_v2_eq) *)
    recv_v2 digest H deq (ft_decode c (fv_cp sv)) None (Z.of_N (fv_size sv)) [] (map ft_line (fv_msgs sv))
  else
    recv_v1 digest H deq (ft_decode1 c) (length (fv_msgs sv)) (Z.of_N (fv_size sv)) [] (map ft_line (fv_msgs sv)).

(* where the receiver put the file: dest / local name / rest of the relative path *)
Definition ft_leaf (c : tr_cfg) (dest : path) (sv : ft_saved) : option path :=
  match tr_create c dest (fv_payload sv) [] (rs_st (fv_before sv)) with
  | (NOk ln, _) => Some (dest ++ ln :: tr_p_tail (fv_payload sv))
  | (NErr, _) => None
  end.

End FaultTie.

(* ================================ the sender ================================
   [tr_sender] fed with an ARBITRARY sequence of delivered answers; the ghost remembers, for the
   file under way, the lengths the sender expects acknowledged (the frames it sent, the finish flag
   included; protocol 1: the chunk lengths) and the answers delivered since the SIZE echo.  One
   [ft_done] per file the sender counts as done (the echo of the MD5 message accepted). *)
Section FaultTieSender.
Variable digest : Type.
Variable H : list byte -> digest.
Variable deq : digest -> digest -> bool.
Variable zcomp : list (list byte) -> list (list byte).
Variable zl : list byte -> list byte.
Variable hx : list byte -> Resume.digest.          (* the prefix digest of the resume exchange *)
Variable ahdr : src -> Z -> list byte.             (* the encoder of archive headers *)

Notation msg := (tr_msg digest).
Notation sender := (tr_sender digest H deq zcomp zl hx ahdr).

Definition ft_ack (m : msg) : ack digest :=
  match m with
  | TrSuccAck _ l s => AFrame digest (Z.of_N l) (Z.of_N s)
  | TrSuccInt _ n => AFinal digest (Z.of_N n)
  | TrSuccDigest _ d => ADigest digest d
  | TrKeepAlive _ => AKeep digest
  | _ => AOther digest
  end.

Record ft_sghost := mkFtSGhost { sg_sent : list N; sg_msgs : list msg }.
Definition ft_sghost0 : ft_sghost := mkFtSGhost [] [].

Definition ft_sghost_step (st : tr_sstate) (m : msg) (st1 : tr_sstate) (g : ft_sghost) : ft_sghost :=
  match ss_phase st, ss_phase st1 with
  | SpSize, SpAcks pending => mkFtSGhost pending []
  | SpSize, SpV1 chs expect => mkFtSGhost (expect :: map tr_blen chs) []
  | SpSize, SpMd5 => mkFtSGhost [] []
  | _, _ => mkFtSGhost (sg_sent g) (sg_msgs g ++ [m])
  end.

Record ft_done := mkFtDone {
  fd_entry : tr_entry;        (* the source entry *)
  fd_sent : list N;           (* the lengths it expected acknowledged *)
  fd_msgs : list msg          (* the answers delivered since the SIZE echo, the digest echo included *)
}.

Fixpoint ft_srun (c : tr_cfg) (st : tr_sstate) (g : ft_sghost) (ms : list msg)
  : tr_sstate * list msg * list ft_done :=
  match ms with
  | [] => (st, [], [])
  | m :: r =>
    match sender c st m with
    | (st1, outs) =>
      let g1 := ft_sghost_step st m st1 g in
      let dn := match ss_phase st, m, ss_todo st with
                | SpMd5, TrSuccDigest _ _, (e, _) :: _ =>
                  match ss_phase st1 with SpFail => [] | _ => [mkFtDone e (sg_sent g) (sg_msgs g1)] end
                | _, _, _ => []
                end in
      match ft_srun c st1 g1 r with
      | (st2, outs2, dns) => (st2, outs ++ outs2, dn ++ dns)
      end
    end
  end.

Definition ft_send (c : tr_cfg) (ess : list (tr_entry * tr_sched)) (ms : list msg)
  : tr_sstate * list msg * list ft_done :=
  match tr_sender_init digest c ess with
  | (st, outs) => match ft_srun c st ft_sghost0 ms with (st2, outs2, dns) => (st2, outs ++ outs2, dns) end
  end.

Definition ft_sverdict (c : tr_cfg) (dn : ft_done) : bool :=
  let mine := H (te_data (fd_entry dn)) in
  if tr_pipeline c then
    send_v2 digest deq (Z.of_N (te_size (fd_entry dn))) mine (map Z.of_N (fd_sent dn)) (map ft_ack (fd_msgs dn))
  else send_v1 digest deq mine (map Z.of_N (fd_sent dn)) (map ft_ack (fd_msgs dn)).

End FaultTieSender.
