(* C11, "a timeout of zero or less means wait indefinitely - on both ends, after the real
   handshake": how the timeout of the server's arguments travels in the CFG record
   (transfer.go sendConfig / recvConfig / getNewTimeout).  Definitions only.

   The shape is read from the source as VALUES (Gen/Consts.v, section cfgtimeout): the
   condition under which sendConfig writes the member (none, or `args.Timeout OP n`), the
   default both transferConfigs start from, the condition under which getNewTimeout arms a
   timer.  JSON is not modelled: an integer member that is present arrives as it was written,
   an absent one leaves the field as it was (encoding/json). *)
From Coq Require Import ZArith List Bool.
Import ListNotations.
Local Open Scope Z_scope.

(* operators of the conditions: 0 '>', 1 '>=', 2 '!=', 3 '<', 4 '<=', 5 '=='; anything else: a
   condition the translator did not understand *)
Definition ct_cmp (op : N) (a b : Z) : option bool :=
  match op with
  | 0%N => Some (b <? a)
  | 1%N => Some (b <=? a)
  | 2%N => Some (negb (a =? b))
  | 3%N => Some (a <? b)
  | 4%N => Some (a <=? b)
  | 5%N => Some (a =? b)
  | _ => None
  end.

Record ct_shape := {
  cts_guard : option (N * Z);      (* the member is written only if args.Timeout OP n *)
  cts_value_is_arg : bool;         (* what is written is args.Timeout *)
  cts_server_unmarshals : bool;    (* sendConfig unmarshals the record into its own transferConfig *)
  cts_client_unmarshals : bool;    (* recvConfig does *)
  cts_default : Z;                 (* newTransfer: Timeout *)
  cts_timer : N * Z;               (* getNewTimeout arms a timer iff Timeout OP n *)
  cts_relay_default : Z;           (* relay.go recvConfig: the relay's own default *)
  cts_relay_omitempty : bool;      (* the json tag of transferConfig.Timeout says omitempty *)
}.

(* the member of the record: None = absent *)
Definition ct_marshal (s : ct_shape) (t : Z) : option (option Z) :=
  if negb (cts_value_is_arg s) then None
  else match cts_guard s with
       | None => Some (Some t)
       | Some (op, n) => match ct_cmp op t n with
                         | Some true => Some (Some t)
                         | Some false => Some None
                         | None => None
                         end
       end.

(* what an end works with afterwards; None = the shape was not understood *)
Definition ct_end (s : ct_shape) (unmarshals : bool) (t : Z) : option Z :=
  match ct_marshal s t with
  | None => None
  | Some m => if unmarshals then Some (match m with Some v => v | None => cts_default s end)
              else Some (cts_default s)
  end.
Definition ct_server (s : ct_shape) (t : Z) : option Z := ct_end s (cts_server_unmarshals s) t.
Definition ct_client (s : ct_shape) (t : Z) : option Z := ct_end s (cts_client_unmarshals s) t.

(* a relay in between: it unmarshals the record into a config of its own and marshals that whole
   struct again for the client (the member is there unless omitempty drops a zero) *)
Definition ct_relay_client (s : ct_shape) (t : Z) : option Z :=
  match ct_marshal s t with
  | None => None
  | Some m =>
      let v := match m with Some v => v | None => cts_relay_default s end in
      let m2 := if cts_relay_omitempty s && (v =? 0) then None else Some v in
      if cts_client_unmarshals s then Some (match m2 with Some w => w | None => cts_default s end)
      else Some (cts_default s)
  end.

(* does getNewTimeout arm a timer for the value v *)
Definition ct_armed (s : ct_shape) (v : Z) : option bool := ct_cmp (fst (cts_timer s)) v (snd (cts_timer s)).

(* the handshake as far as the timeout is concerned: (server value, client value, server timer
   armed, client timer armed, the record has the member) *)
Definition ct_handshake (s : ct_shape) (t : Z) : option (Z * Z * bool * bool * bool) :=
  match ct_server s t, ct_client s t, ct_marshal s t with
  | Some a, Some b, Some m =>
      match ct_armed s a, ct_armed s b with
      | Some x, Some y => Some (a, b, x, y, match m with Some _ => true | None => false end)
      | _, _ => None
      end
  | _, _, _ => None
  end.

(* the client behind a relay: (value, timer armed) *)
Definition ct_via_relay (s : ct_shape) (t : Z) : option (Z * bool) :=
  match ct_relay_client s t with
  | Some v => match ct_armed s v with Some x => Some (v, x) | None => None end
  | None => None
  end.

(* what the property asks: the announced value on both ends, a timer iff it is positive *)
Definition ct_spec (t : Z) : Z * Z * bool * bool := (t, t, 0 <? t, 0 <? t).
