(* What a side tells its peer when a transfer fails (C11, second half): an interpreter for the
   skeletons of transfer.go's clientError / serverError and of the error predicates of comm.go
   that go/cmd/gen regenerates into Gen/Skel_errtell.v.  Definitions only.

   An error is abstracted to what those functions look at: whether it is a *trzszError, its
   errType ("", "fail", "FAIL", "EXIT", anything else), its trace flag and whether its message
   is the text of errStoppedAndDeleted.  The environment: the stopAndDelete flag of the
   transfer and whether deleteCreatedFiles() returned any name. *)
From Coq Require Import List Bool.
Import ListNotations.

(* no Coq strings here: the interpreter is extracted to OCaml next to all other models *)
Inductive et_pname := PTraceBack | PRemoteExit | PRemoteFail | PStopAndDelete.   (* e.isTraceBack() ... *)
Inductive et_var := VTrace | VTyp.                                                (* the locals `trace`, `typ` *)
Inductive et_word := WFail | WFAIL | WOther.                                      (* "fail", "FAIL", any other line type *)

Definition et_pname_eqb (a b : et_pname) : bool :=
  match a, b with
  | PTraceBack, PTraceBack | PRemoteExit, PRemoteExit | PRemoteFail, PRemoteFail | PStopAndDelete, PStopAndDelete => true
  | _, _ => false
  end.
Definition et_var_eqb (a b : et_var) : bool :=
  match a, b with VTrace, VTrace | VTyp, VTyp => true | _, _ => false end.
Definition et_word_eqb (a b : et_word) : bool :=
  match a, b with WFail, WFail | WFAIL, WFAIL | WOther, WOther => true | _, _ => false end.

Inductive et_type := EtNone | EtFail | EtFAIL | EtEXIT | EtOther.

Record et_err := {
  et_trz : bool;       (* err.[*trzszError] succeeds *)
  et_typ : et_type;    (* e.errType *)
  et_trace : bool;     (* e.trace *)
  et_sad : bool;       (* e.message == errStoppedAndDeleted.message *)
}.
Record et_env := {
  et_flag : bool;      (* t.stopAndDelete.Load() *)
  et_deleted : bool;   (* len(t.deleteCreatedFiles()) > 0 *)
  et_window : bool;    (* t.tunnelConn.Load() != nil && !t.tunnelConnected: a client has greeted on the
                          tunnel but its ACT has not been read, the writer is still the in-band one *)
}.

(* ---- the error predicates of comm.go: [if guard { return b }]* ; return final ---- *)
Inductive et_bexp :=
| BTypeIs (t : et_type)            (* e.errType == "<t>" *)
| BTrace                           (* e.trace *)
| BMsgSad                          (* e.message == errStoppedAndDeleted.message *)
| BNil                             (* e == nil *)
| BConst (b : bool)
| BNot (a : et_bexp)
| BAnd (a b : et_bexp)
| BOr (a b : et_bexp)
| BUnknownExp.

Record et_pred := { ep_name : et_pname; ep_guards : list (et_bexp * bool); ep_final : et_bexp }.

Definition et_type_eqb (a b : et_type) : bool :=
  match a, b with
  | EtNone, EtNone | EtFail, EtFail | EtFAIL, EtFAIL | EtEXIT, EtEXIT | EtOther, EtOther => true
  | _, _ => false
  end.

(* value, and whether everything was understood *)
Fixpoint et_bval (e : et_err) (x : et_bexp) : bool * bool :=
  match x with
  | BTypeIs EtOther => (false, false)      (* a comparison with a literal the model has no class for *)
  | BTypeIs t => (et_type_eqb (et_typ e) t, true)
  | BTrace => (et_trace e, true)
  | BMsgSad => (et_sad e, true)
  | BNil => (false, true)                  (* the receiver is the result of a successful type assertion *)
  | BConst b => (b, true)
  | BNot a => let (v, k) := et_bval e a in (negb v, k)
  | BAnd a b => let (v, k) := et_bval e a in let (w, l) := et_bval e b in (v && w, k && l)
  | BOr a b => let (v, k) := et_bval e a in let (w, l) := et_bval e b in (v || w, k && l)
  | BUnknownExp => (false, false)
  end.

Fixpoint et_guards (e : et_err) (gs : list (et_bexp * bool)) (final : et_bexp) : bool * bool :=
  match gs with
  | [] => et_bval e final
  | (g, r) :: t =>
      let (v, k) := et_bval e g in
      if v then (r, k) else let (w, l) := et_guards e t final in (w, k && l)
  end.

Fixpoint et_find (ps : list et_pred) (n : et_pname) : option et_pred :=
  match ps with
  | [] => None
  | p :: t => if et_pname_eqb (ep_name p) n then Some p else et_find t n
  end.

(* ---- clientError / serverError ---- *)
Inductive et_cond :=
| CIsTrz                        (* e, ok := err.[*trzszError]; ok *)
| CPred (name : et_pname)       (* e.<name>() *)
| CFlag                         (* t.stopAndDelete.Load() *)
| CDeleted                      (* len(deletedFiles) > 0 *)
| CWindow                       (* conn := t.tunnelConn.Load(); conn != nil && !t.tunnelConnected *)
| CVar (v : et_var)             (* a boolean local *)
| CConst (b : bool)
| CNot (a : et_cond)
| CAnd (a b : et_cond)
| COr (a b : et_cond)
| CUnknownCond.

Inductive et_sexp := SLit (s : et_word) | SVar (v : et_var).

Inductive et_stmt :=
| TClean                                   (* t.cleanInput(..) *)
| TSetBool (v : et_var) (c : et_cond)
| TSetStr (v : et_var) (s : et_word)
| TDelete                                  (* deletedFiles := t.deleteCreatedFiles() *)
| TSend (typ : et_sexp) (names : bool)     (* t.sendString(typ, ..); names: the text lists deletedFiles *)
| TSwitchWriter                            (* t.writer = *conn  (conn: the accepted tunnel connection) *)
| TExit (names : bool)                     (* t.serverExit(..) *)
| TIf (c : et_cond) (thn els : list et_stmt)
| TReturn
| TUnknownStmt.

(* ASend: line type, lists the deleted names, written to the accepted tunnel connection *)
Inductive et_act := AClean | ADelete | ASend (typ : et_word) (names : bool) (tunnel : bool) | AExit (names : bool).

Record et_state := {
  es_bools : list (et_var * bool);
  es_strs : list (et_var * et_word);
  es_deleted_known : bool;     (* deleteCreatedFiles() has been called *)
  es_tunnel : bool;            (* t.writer is the accepted tunnel connection *)
  es_acts : list et_act;       (* in reverse order *)
  es_ret : bool;               (* returned *)
  es_ok : bool;                (* everything was understood *)
}.

Definition et_init : et_state :=
  {| es_bools := []; es_strs := []; es_deleted_known := false; es_tunnel := false; es_acts := []; es_ret := false; es_ok := true |}.

Fixpoint et_lookup {A} (l : list (et_var * A)) (n : et_var) : option A :=
  match l with
  | [] => None
  | (k, v) :: t => if et_var_eqb k n then Some v else et_lookup t n
  end.

Section Run.
Variable preds : list et_pred.
Variable e : et_err.
Variable env : et_env.

Fixpoint et_cval (st : et_state) (intrz : bool) (c : et_cond) : bool * bool :=
  match c with
  | CIsTrz => (et_trz e, true)
  | CPred n =>
      (* a method of e: only meaningful inside `if e, ok := err.[*trzszError]; ok` *)
      match et_find preds n with
      | Some p => let (v, k) := et_guards e (ep_guards p) (ep_final p) in (v, k && intrz)
      | None => (false, false)
      end
  | CFlag => (et_flag env, true)
  | CDeleted => (et_deleted env, es_deleted_known st)
  | CWindow => (et_window env, true)
  | CVar v => match et_lookup (es_bools st) v with Some b => (b, true) | None => (false, false) end
  | CConst b => (b, true)
  | CNot a => let (v, k) := et_cval st intrz a in (negb v, k)
  | CAnd a b => let (v, k) := et_cval st intrz a in let (w, l) := et_cval st intrz b in (v && w, k && l)
  | COr a b => let (v, k) := et_cval st intrz a in let (w, l) := et_cval st intrz b in (v || w, k && l)
  | CUnknownCond => (false, false)
  end.

Definition et_mark (st : et_state) (k : bool) : et_state :=
  {| es_bools := es_bools st; es_strs := es_strs st; es_deleted_known := es_deleted_known st; es_tunnel := es_tunnel st;
     es_acts := es_acts st; es_ret := es_ret st; es_ok := es_ok st && k |}.
Definition et_emit (st : et_state) (a : et_act) : et_state :=
  {| es_bools := es_bools st; es_strs := es_strs st; es_deleted_known := es_deleted_known st; es_tunnel := es_tunnel st;
     es_acts := a :: es_acts st; es_ret := es_ret st; es_ok := es_ok st |}.

Definition et_is_istrz (c : et_cond) : bool := match c with CIsTrz => true | _ => false end.

Fixpoint et_exec (intrz : bool) (s : et_stmt) (st : et_state) : et_state :=
  match s with
  | TClean => et_emit st AClean
  | TSetBool v c =>
      let (b, k) := et_cval st intrz c in
      et_mark {| es_bools := (v, b) :: es_bools st; es_strs := es_strs st; es_deleted_known := es_deleted_known st; es_tunnel := es_tunnel st;
                 es_acts := es_acts st; es_ret := es_ret st; es_ok := es_ok st |} k
  | TSetStr v x =>
      {| es_bools := es_bools st; es_strs := (v, x) :: es_strs st; es_deleted_known := es_deleted_known st; es_tunnel := es_tunnel st;
         es_acts := es_acts st; es_ret := es_ret st; es_ok := es_ok st |}
  | TDelete =>
      et_emit {| es_bools := es_bools st; es_strs := es_strs st; es_deleted_known := true; es_tunnel := es_tunnel st;
                 es_acts := es_acts st; es_ret := es_ret st; es_ok := es_ok st |} ADelete
  | TSend t names =>
      match t with
      | SLit x => et_emit st (ASend x names (es_tunnel st))
      | SVar v => match et_lookup (es_strs st) v with
                  | Some x => et_emit st (ASend x names (es_tunnel st))
                  | None => et_mark st false
                  end
      end
  | TSwitchWriter =>
      (* *conn: only defined in the window (conn != nil) *)
      et_mark {| es_bools := es_bools st; es_strs := es_strs st; es_deleted_known := es_deleted_known st;
                 es_tunnel := true; es_acts := es_acts st; es_ret := es_ret st; es_ok := es_ok st |} (et_window env)
  | TExit names => et_emit st (AExit names)
  | TIf c a b =>
      let (v, k) := et_cval st intrz c in
      let st1 := et_mark st k in
      let inner := intrz || (et_is_istrz c && v) in
      if v then
        (fix run (l : list et_stmt) (st : et_state) : et_state :=
           match l with [] => st | x :: t => let st' := et_exec inner x st in if es_ret st' then st' else run t st' end) a st1
      else
        (fix run (l : list et_stmt) (st : et_state) : et_state :=
           match l with [] => st | x :: t => let st' := et_exec intrz x st in if es_ret st' then st' else run t st' end) b st1
  | TReturn =>
      {| es_bools := es_bools st; es_strs := es_strs st; es_deleted_known := es_deleted_known st; es_tunnel := es_tunnel st;
         es_acts := es_acts st; es_ret := true; es_ok := es_ok st |}
  | TUnknownStmt => et_mark st false
  end.

Fixpoint et_run_from (l : list et_stmt) (st : et_state) : et_state :=
  match l with
  | [] => st
  | x :: t => let st' := et_exec false x st in if es_ret st' then st' else et_run_from t st'
  end.
End Run.

(* the actions of one call, in order, and whether the skeleton was fully understood *)
Definition et_run (preds : list et_pred) (body : list et_stmt) (e : et_err) (env : et_env) : list et_act * bool :=
  let st := et_run_from preds e env body et_init in (rev (es_acts st), es_ok st).

(* ---- the statement ---- *)
Definition et_is_send (a : et_act) : bool := match a with ASend _ _ _ => true | _ => false end.
Definition et_sends (l : list et_act) : list et_act := filter et_is_send l.

(* the side is itself the victim of a line of the peer: the error IS the peer's exit / fail line *)
Definition et_victim (e : et_err) : bool :=
  et_trz e && match et_typ e with EtFail | EtFAIL | EtEXIT => true | _ => false end.

(* isTraceBack as the code computes it for a *trzszError; any other error counts as traceback *)
Definition et_traceback (e : et_err) : bool :=
  if et_trz e then (match et_typ e with EtFail | EtEXIT => false | _ => et_trace e end) else true.

Definition et_word_of (e : et_err) : et_word := if et_traceback e then WFAIL else WFail.

(* what the client must send *)
Definition et_client_sends (e : et_err) (env : et_env) : list et_act :=
  if et_victim e then []
  else if et_flag env && et_deleted env then [ASend WFail true false]
  else [ASend (et_word_of e) false false].
(* what the server must send: one line on the writer in force and, exactly in the window in
   which a client may already listen to the tunnel only, the same line once more there *)
Definition et_server_sends (e : et_err) (env : et_env) : list et_act :=
  if et_victim e then []
  else ASend (et_word_of e) false false :: (if et_window env then [ASend (et_word_of e) false true] else []).

Definition et_first_clean (l : list et_act) : bool := match l with AClean :: _ => true | _ => false end.
Definition et_last_exit (l : list et_act) : bool := match rev l with AExit _ :: _ => true | _ => false end.
Definition et_count_exit (l : list et_act) : nat :=
  List.length (filter (fun a => match a with AExit _ => true | _ => false end) l).

Definition et_types : list et_type := [EtNone; EtFail; EtFAIL; EtEXIT; EtOther].
Definition et_all_errs : list et_err :=
  flat_map (fun z => flat_map (fun t => flat_map (fun tr => map (fun sd =>
    {| et_trz := z; et_typ := t; et_trace := tr; et_sad := sd |}) [false; true]) [false; true]) et_types) [false; true].
Definition et_all_envs : list et_env :=
  flat_map (fun f => flat_map (fun d => map (fun w => {| et_flag := f; et_deleted := d; et_window := w |})
     [false; true]) [false; true]) [false; true].

Definition et_act_eqb (a b : et_act) : bool :=
  match a, b with
  | AClean, AClean | ADelete, ADelete => true
  | ASend x n u, ASend y m v => et_word_eqb x y && Bool.eqb n m && Bool.eqb u v
  | AExit n, AExit m => Bool.eqb n m
  | _, _ => false
  end.
Fixpoint et_acts_eqb (a b : list et_act) : bool :=
  match a, b with
  | [], [] => true
  | x :: s, y :: t => et_act_eqb x y && et_acts_eqb s t
  | _, _ => false
  end.

(* the check of one side on one error class *)
Definition et_client_ok (preds : list et_pred) (body : list et_stmt) (e : et_err) (env : et_env) : bool :=
  let (acts, ok) := et_run preds body e env in
  ok && et_first_clean acts && et_acts_eqb (et_sends acts) (et_client_sends e env) && Nat.eqb (et_count_exit acts) 0.
Definition et_server_ok (preds : list et_pred) (body : list et_stmt) (e : et_err) (env : et_env) : bool :=
  let (acts, ok) := et_run preds body e env in
  ok && et_first_clean acts && et_acts_eqb (et_sends acts) (et_server_sends e env) &&
  et_last_exit acts && Nat.eqb (et_count_exit acts) 1.
