open BinNat
open BinNums
open BinPos
open Datatypes

module Z =
 struct
  (** val double : coq_Z -> coq_Z **)

  let double = function
  | Z0 -> Z0
  | Zpos p -> Zpos (Coq_xO p)
  | Zneg p -> Zneg (Coq_xO p)

  (** val succ_double : coq_Z -> coq_Z **)

  let succ_double = function
  | Z0 -> Zpos Coq_xH
  | Zpos p -> Zpos (Coq_xI p)
  | Zneg p -> Zneg (Pos.pred_double p)

  (** val pred_double : coq_Z -> coq_Z **)

  let pred_double = function
  | Z0 -> Zneg Coq_xH
  | Zpos p -> Zpos (Pos.pred_double p)
  | Zneg p -> Zneg (Coq_xI p)

  (** val pos_sub : positive -> positive -> coq_Z **)

  let rec pos_sub x y =
    match x with
    | Coq_xI p ->
      (match y with
       | Coq_xI q -> double (pos_sub p q)
       | Coq_xO q -> succ_double (pos_sub p q)
       | Coq_xH -> Zpos (Coq_xO p))
    | Coq_xO p ->
      (match y with
       | Coq_xI q -> pred_double (pos_sub p q)
       | Coq_xO q -> double (pos_sub p q)
       | Coq_xH -> Zpos (Pos.pred_double p))
    | Coq_xH ->
      (match y with
       | Coq_xI q -> Zneg (Coq_xO q)
       | Coq_xO q -> Zneg (Pos.pred_double q)
       | Coq_xH -> Z0)

  (** val add : coq_Z -> coq_Z -> coq_Z **)

  let add x y =
    match x with
    | Z0 -> y
    | Zpos x' ->
      (match y with
       | Z0 -> x
       | Zpos y' -> Zpos (Pos.add x' y')
       | Zneg y' -> pos_sub x' y')
    | Zneg x' ->
      (match y with
       | Z0 -> x
       | Zpos y' -> pos_sub y' x'
       | Zneg y' -> Zneg (Pos.add x' y'))

  (** val opp : coq_Z -> coq_Z **)

  let opp = function
  | Z0 -> Z0
  | Zpos x0 -> Zneg x0
  | Zneg x0 -> Zpos x0

  (** val sub : coq_Z -> coq_Z -> coq_Z **)

  let sub m n =
    add m (opp n)

  (** val mul : coq_Z -> coq_Z -> coq_Z **)

  let mul x y =
    match x with
    | Z0 -> Z0
    | Zpos x' ->
      (match y with
       | Z0 -> Z0
       | Zpos y' -> Zpos (Pos.mul x' y')
       | Zneg y' -> Zneg (Pos.mul x' y'))
    | Zneg x' ->
      (match y with
       | Z0 -> Z0
       | Zpos y' -> Zneg (Pos.mul x' y')
       | Zneg y' -> Zpos (Pos.mul x' y'))

  (** val pow_pos : coq_Z -> positive -> coq_Z **)

  let pow_pos z =
    Pos.iter (mul z) (Zpos Coq_xH)

  (** val pow : coq_Z -> coq_Z -> coq_Z **)

  let pow x = function
  | Z0 -> Zpos Coq_xH
  | Zpos p -> pow_pos x p
  | Zneg _ -> Z0

  (** val compare : coq_Z -> coq_Z -> comparison **)

  let compare x y =
    match x with
    | Z0 -> (match y with
             | Z0 -> Eq
             | Zpos _ -> Lt
             | Zneg _ -> Gt)
    | Zpos x' -> (match y with
                  | Zpos y' -> Pos.compare x' y'
                  | _ -> Gt)
    | Zneg x' ->
      (match y with
       | Zneg y' -> coq_CompOpp (Pos.compare x' y')
       | _ -> Lt)

  (** val sgn : coq_Z -> coq_Z **)

  let sgn = function
  | Z0 -> Z0
  | Zpos _ -> Zpos Coq_xH
  | Zneg _ -> Zneg Coq_xH

  (** val leb : coq_Z -> coq_Z -> bool **)

  let leb x y =
    match compare x y with
    | Gt -> false
    | _ -> true

  (** val ltb : coq_Z -> coq_Z -> bool **)

  let ltb x y =
    match compare x y with
    | Lt -> true
    | _ -> false

  (** val gtb : coq_Z -> coq_Z -> bool **)

  let gtb x y =
    match compare x y with
    | Gt -> true
    | _ -> false

  (** val eqb : coq_Z -> coq_Z -> bool **)

  let eqb x y =
    match x with
    | Z0 -> (match y with
             | Z0 -> true
             | _ -> false)
    | Zpos p -> (match y with
                 | Zpos q -> Pos.eqb p q
                 | _ -> false)
    | Zneg p -> (match y with
                 | Zneg q -> Pos.eqb p q
                 | _ -> false)

  (** val min : coq_Z -> coq_Z -> coq_Z **)

  let min n m =
    match compare n m with
    | Gt -> m
    | _ -> n

  (** val abs : coq_Z -> coq_Z **)

  let abs = function
  | Zneg p -> Zpos p
  | x -> x

  (** val abs_N : coq_Z -> coq_N **)

  let abs_N = function
  | Z0 -> N0
  | Zpos p -> Npos p
  | Zneg p -> Npos p

  (** val to_nat : coq_Z -> nat **)

  let to_nat = function
  | Zpos p -> Pos.to_nat p
  | _ -> O

  (** val to_N : coq_Z -> coq_N **)

  let to_N = function
  | Zpos p -> Npos p
  | _ -> N0

  (** val of_nat : nat -> coq_Z **)

  let of_nat = function
  | O -> Z0
  | S n0 -> Zpos (Pos.of_succ_nat n0)

  (** val of_N : coq_N -> coq_Z **)

  let of_N = function
  | N0 -> Z0
  | Npos p -> Zpos p

  (** val pos_div_eucl : positive -> coq_Z -> coq_Z * coq_Z **)

  let rec pos_div_eucl a b =
    match a with
    | Coq_xI a' ->
      let (q, r) = pos_div_eucl a' b in
      let r' = add (mul (Zpos (Coq_xO Coq_xH)) r) (Zpos Coq_xH) in
      if ltb r' b
      then ((mul (Zpos (Coq_xO Coq_xH)) q), r')
      else ((add (mul (Zpos (Coq_xO Coq_xH)) q) (Zpos Coq_xH)), (sub r' b))
    | Coq_xO a' ->
      let (q, r) = pos_div_eucl a' b in
      let r' = mul (Zpos (Coq_xO Coq_xH)) r in
      if ltb r' b
      then ((mul (Zpos (Coq_xO Coq_xH)) q), r')
      else ((add (mul (Zpos (Coq_xO Coq_xH)) q) (Zpos Coq_xH)), (sub r' b))
    | Coq_xH ->
      if leb (Zpos (Coq_xO Coq_xH)) b
      then (Z0, (Zpos Coq_xH))
      else ((Zpos Coq_xH), Z0)

  (** val div_eucl : coq_Z -> coq_Z -> coq_Z * coq_Z **)

  let div_eucl a b =
    match a with
    | Z0 -> (Z0, Z0)
    | Zpos a' ->
      (match b with
       | Z0 -> (Z0, a)
       | Zpos _ -> pos_div_eucl a' b
       | Zneg b' ->
         let (q, r) = pos_div_eucl a' (Zpos b') in
         (match r with
          | Z0 -> ((opp q), Z0)
          | _ -> ((opp (add q (Zpos Coq_xH))), (add b r))))
    | Zneg a' ->
      (match b with
       | Z0 -> (Z0, a)
       | Zpos _ ->
         let (q, r) = pos_div_eucl a' b in
         (match r with
          | Z0 -> ((opp q), Z0)
          | _ -> ((opp (add q (Zpos Coq_xH))), (sub b r)))
       | Zneg b' -> let (q, r) = pos_div_eucl a' (Zpos b') in (q, (opp r)))

  (** val div : coq_Z -> coq_Z -> coq_Z **)

  let div a b =
    let (q, _) = div_eucl a b in q

  (** val modulo : coq_Z -> coq_Z -> coq_Z **)

  let modulo a b =
    let (_, r) = div_eucl a b in r

  (** val quotrem : coq_Z -> coq_Z -> coq_Z * coq_Z **)

  let quotrem a b =
    match a with
    | Z0 -> (Z0, Z0)
    | Zpos a0 ->
      (match b with
       | Z0 -> (Z0, a)
       | Zpos b0 ->
         let (q, r) = N.pos_div_eucl a0 (Npos b0) in ((of_N q), (of_N r))
       | Zneg b0 ->
         let (q, r) = N.pos_div_eucl a0 (Npos b0) in
         ((opp (of_N q)), (of_N r)))
    | Zneg a0 ->
      (match b with
       | Z0 -> (Z0, a)
       | Zpos b0 ->
         let (q, r) = N.pos_div_eucl a0 (Npos b0) in
         ((opp (of_N q)), (opp (of_N r)))
       | Zneg b0 ->
         let (q, r) = N.pos_div_eucl a0 (Npos b0) in
         ((of_N q), (opp (of_N r))))

  (** val quot : coq_Z -> coq_Z -> coq_Z **)

  let quot a b =
    fst (quotrem a b)
 end
