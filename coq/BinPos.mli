open BinNums
open BinPosDef
open Datatypes
open Nat0

module Pos :
 sig
  val succ : positive -> positive

  val add : positive -> positive -> positive

  val add_carry : positive -> positive -> positive

  val pred_double : positive -> positive

  type mask = Pos.mask =
  | IsNul
  | IsPos of positive
  | IsNeg

  val succ_double_mask : mask -> mask

  val double_mask : mask -> mask

  val double_pred_mask : positive -> mask

  val sub_mask : positive -> positive -> mask

  val sub_mask_carry : positive -> positive -> mask

  val mul : positive -> positive -> positive

  val iter : ('a1 -> 'a1) -> 'a1 -> positive -> 'a1

  val pow : positive -> positive -> positive

  val size_nat : positive -> nat

  val size : positive -> positive

  val compare_cont : comparison -> positive -> positive -> comparison

  val compare : positive -> positive -> comparison

  val eqb : positive -> positive -> bool

  val iter_op : ('a1 -> 'a1 -> 'a1) -> positive -> 'a1 -> 'a1

  val to_nat : positive -> nat

  val of_succ_nat : nat -> positive
 end
