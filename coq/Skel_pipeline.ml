open Datatypes
open Proc

(** val ch_send_sendFileDataV2_0 : chan **)

let ch_send_sendFileDataV2_0 =
  O

(** val ch_send_ReadData_0 : chan **)

let ch_send_ReadData_0 =
  S O

(** val ch_send_ReadData_1 : chan **)

let ch_send_ReadData_1 =
  S (S O)

(** val ch_send_CalculateMD5_0 : chan **)

let ch_send_CalculateMD5_0 =
  S (S (S O))

(** val ch_send_EncodeData_0 : chan **)

let ch_send_EncodeData_0 =
  S (S (S (S O)))

(** val ch_send_transfer_bufInitCh : chan **)

let ch_send_transfer_bufInitCh =
  S (S (S (S (S O))))

(** val ch_send_SendData_0 : chan **)

let ch_send_SendData_0 =
  S (S (S (S (S (S O)))))

(** val ch_send_RecvAck_0 : chan **)

let ch_send_RecvAck_0 =
  S (S (S (S (S (S (S O))))))

(** val p_send_CalculateMD5 : pid **)

let p_send_CalculateMD5 =
  S O

(** val p_send_RecvAck : pid **)

let p_send_RecvAck =
  S (S (S (S O)))

(** val p_send_ShowProgress : pid **)

let p_send_ShowProgress =
  S (S (S (S (S O))))

(** val send_ReadData_body : stmt list **)

let send_ReadData_body =
  (LoopCtx ((IoE (FileIO, ((Branch (((Sel (((SendAlt ch_send_ReadData_0),
    []) :: ((DoneAlt, (Return :: [])) :: []))) :: ((Sel (((SendAlt
    ch_send_ReadData_1), []) :: ((DoneAlt, (Return :: [])) :: []))) :: [])),
    [])) :: (Cancel :: (Return :: []))))) :: ((Branch (((Sel (((SendAlt
    ch_send_ReadData_0), []) :: ((DoneAlt, (Return :: [])) :: []))) :: ((Sel
    (((SendAlt ch_send_ReadData_1), []) :: ((DoneAlt,
    (Return :: [])) :: []))) :: [])), [])) :: ((Branch (((IoE (Check,
    (Cancel :: (Return :: [])))) :: []), ((IoE (Check,
    (Cancel :: (Return :: [])))) :: []))) :: [])))) :: []

(** val send_ReadData_finally : stmt list **)

let send_ReadData_finally =
  []

(** val send_ReadData_proc : proc **)

let send_ReadData_proc =
  { body = send_ReadData_body; finally = send_ReadData_finally; defer_close =
    (ch_send_ReadData_0 :: (ch_send_ReadData_1 :: [])); exit_cancel = false;
    rank = O }

(** val send_CalculateMD5_body : stmt list **)

let send_CalculateMD5_body =
  (LoopRange (ch_send_ReadData_1, ((IoE (Check,
    (Cancel :: (Return :: [])))) :: (IfCtxExit :: [])))) :: (IfCtxExit :: ((SendOnce
    ch_send_CalculateMD5_0) :: []))

(** val send_CalculateMD5_finally : stmt list **)

let send_CalculateMD5_finally =
  []

(** val send_CalculateMD5_proc : proc **)

let send_CalculateMD5_proc =
  { body = send_CalculateMD5_body; finally = send_CalculateMD5_finally;
    defer_close = (ch_send_CalculateMD5_0 :: []); exit_cancel = false; rank =
    (S O) }

(** val send_EncodeData_body : stmt list **)

let send_EncodeData_body =
  (IoE (Check, (Cancel :: (Return :: [])))) :: ((LoopRange
    (ch_send_ReadData_0, ((LoopData ((LoopData ((Branch ([], ((Branch ([],
    ((Sel (((SendAlt ch_send_EncodeData_0), []) :: ((DoneAlt,
    []) :: []))) :: ((Branch ([], ((Branch (((Sel (((RecvAlt
    ch_send_transfer_bufInitCh), []) :: ((DoneAlt, []) :: []))) :: []),
    [])) :: []))) :: [])))) :: []))) :: [])) :: [])) :: ((IoE (Check,
    (Cancel :: (Return :: [])))) :: ((Branch (((LoopData ((LoopData ((Branch
    ([], ((Branch ([], ((Sel (((SendAlt ch_send_EncodeData_0),
    []) :: ((DoneAlt, []) :: []))) :: ((Branch ([], ((Branch (((Sel
    (((RecvAlt ch_send_transfer_bufInitCh), []) :: ((DoneAlt,
    []) :: []))) :: []),
    [])) :: []))) :: [])))) :: []))) :: [])) :: [])) :: ((IoE (Check,
    (Cancel :: (Return :: [])))) :: [])),
    [])) :: (IfCtxExit :: [])))))) :: [])

(** val send_EncodeData_finally : stmt list **)

let send_EncodeData_finally =
  (LoopData ((LoopData ((Branch ([], ((Branch ([], ((Sel (((SendAlt
    ch_send_EncodeData_0), []) :: ((DoneAlt, []) :: []))) :: ((Branch ([],
    ((Branch (((Sel (((RecvAlt ch_send_transfer_bufInitCh), []) :: ((DoneAlt,
    []) :: []))) :: []),
    [])) :: []))) :: [])))) :: []))) :: [])) :: [])) :: ((Branch (((Sel
    (((SendAlt ch_send_EncodeData_0), []) :: ((DoneAlt,
    []) :: []))) :: ((Branch ([], ((Sel (((SendAlt ch_send_EncodeData_0),
    []) :: ((DoneAlt, []) :: []))) :: []))) :: [])), ((Sel (((SendAlt
    ch_send_EncodeData_0), []) :: ((DoneAlt, []) :: []))) :: []))) :: ((IoE
    (Check, (Cancel :: []))) :: []))

(** val send_EncodeData_proc : proc **)

let send_EncodeData_proc =
  { body = send_EncodeData_body; finally = send_EncodeData_finally;
    defer_close = (ch_send_EncodeData_0 :: []); exit_cancel = false; rank =
    (S O) }

(** val send_SendData_body : stmt list **)

let send_SendData_body =
  (LoopRange (ch_send_EncodeData_0, (IfCtxExit :: ((Branch (((IoE (PauseGate,
    (Cancel :: (Return :: [])))) :: ((IoE (WriteWire,
    (Cancel :: (Return :: [])))) :: ((Sel (((SendAlt ch_send_SendData_0),
    []) :: ((DoneAlt, (Cancel :: (Return :: []))) :: []))) :: []))),
    ((LoopData ((IoE (PauseGate, (Cancel :: (Return :: [])))) :: ((IoE
    (WriteWire, (Cancel :: (Return :: [])))) :: ((Sel (((SendAlt
    ch_send_SendData_0), (IfCtxExit :: [])) :: ((DoneAlt,
    (Cancel :: (Return :: []))) :: []))) :: [])))) :: []))) :: [])))) :: []

(** val send_SendData_finally : stmt list **)

let send_SendData_finally =
  []

(** val send_SendData_proc : proc **)

let send_SendData_proc =
  { body = send_SendData_body; finally = send_SendData_finally; defer_close =
    (ch_send_SendData_0 :: []); exit_cancel = false; rank = (S (S O)) }

(** val send_RecvAck_body : stmt list **)

let send_RecvAck_body =
  (LoopRange (ch_send_SendData_0, ((IoE (RecvLine,
    (Cancel :: (Return :: [])))) :: ((IoE (Check,
    (Cancel :: (Return :: [])))) :: ((Branch (((Sel (((SendAlt
    ch_send_RecvAck_0), []) :: ((DoneAlt, (Return :: [])) :: []))) :: []),
    [])) :: ((Branch (((Branch (((Branch (((Sel (((SendAlt
    ch_send_transfer_bufInitCh), []) :: ((DefaultAlt, []) :: []))) :: []),
    [])) :: []), ((Branch (((Sel (((SendAlt ch_send_transfer_bufInitCh),
    []) :: ((DefaultAlt, []) :: []))) :: []), [])) :: []))) :: []),
    [])) :: (IfCtxExit :: []))))))) :: (IfCtxExit :: ((LoopCtx ((IoE
    (RecvLine, (Cancel :: (Return :: [])))) :: ((IoE (Check,
    (Cancel :: (Return :: [])))) :: ((IoE (Check,
    (Cancel :: (Return :: [])))) :: ((Branch (((Sel (((SendAlt
    ch_send_RecvAck_0), []) :: ((DoneAlt, (Return :: [])) :: []))) :: []),
    [])) :: ((Branch (((Branch (((SendOnce ch_send_sendFileDataV2_0) :: []),
    [])) :: (Return :: [])), [])) :: [])))))) :: []))

(** val send_RecvAck_finally : stmt list **)

let send_RecvAck_finally =
  []

(** val send_RecvAck_proc : proc **)

let send_RecvAck_proc =
  { body = send_RecvAck_body; finally = send_RecvAck_finally; defer_close =
    (ch_send_RecvAck_0 :: []); exit_cancel = false; rank = (S (S (S O))) }

(** val send_ShowProgress_body : stmt list **)

let send_ShowProgress_body =
  (LoopRange (ch_send_RecvAck_0, (IfCtxExit :: []))) :: []

(** val send_ShowProgress_finally : stmt list **)

let send_ShowProgress_finally =
  []

(** val send_ShowProgress_proc : proc **)

let send_ShowProgress_proc =
  { body = send_ShowProgress_body; finally = send_ShowProgress_finally;
    defer_close = []; exit_cancel = false; rank = (S (S (S (S O)))) }

(** val send_main_body : stmt list **)

let send_main_body =
  (Sel (((RecvAlt ch_send_sendFileDataV2_0), ((RecvClose
    ch_send_CalculateMD5_0) :: (Return :: []))) :: ((DoneAlt,
    (Return :: [])) :: []))) :: []

(** val send_main_finally : stmt list **)

let send_main_finally =
  (Branch (((Join p_send_ShowProgress) :: []), [])) :: []

(** val send_main_proc : proc **)

let send_main_proc =
  { body = send_main_body; finally = send_main_finally; defer_close =
    (ch_send_sendFileDataV2_0 :: []); exit_cancel = true; rank = (S (S (S (S
    (S O))))) }

(** val send_net : net **)

let send_net =
  { procs_of =
    (send_ReadData_proc :: (send_CalculateMD5_proc :: (send_EncodeData_proc :: (send_SendData_proc :: (send_RecvAck_proc :: (send_ShowProgress_proc :: (send_main_proc :: [])))))));
    caps = ((S O) :: ((S (S (S (S (S (S (S (S (S (S (S (S (S (S (S (S (S (S
    (S (S (S (S (S (S (S (S (S (S (S (S (S (S (S (S (S (S (S (S (S (S (S (S
    (S (S (S (S (S (S (S (S (S (S (S (S (S (S (S (S (S (S (S (S (S (S (S (S
    (S (S (S (S (S (S (S (S (S (S (S (S (S (S (S (S (S (S (S (S (S (S (S (S
    (S (S (S (S (S (S (S (S (S (S
    O)))))))))))))))))))))))))))))))))))))))))))))))))))))))))))))))))))))))))))))))))))))))))))))))))))) :: ((S
    (S (S (S (S (S (S (S (S (S (S (S (S (S (S (S (S (S (S (S (S (S (S (S (S
    (S (S (S (S (S (S (S (S (S (S (S (S (S (S (S (S (S (S (S (S (S (S (S (S
    (S (S (S (S (S (S (S (S (S (S (S (S (S (S (S (S (S (S (S (S (S (S (S (S
    (S (S (S (S (S (S (S (S (S (S (S (S (S (S (S (S (S (S (S (S (S (S (S (S
    (S (S (S
    O)))))))))))))))))))))))))))))))))))))))))))))))))))))))))))))))))))))))))))))))))))))))))))))))))))) :: ((S
    O) :: ((S (S (S (S (S O))))) :: ((S O) :: ((S (S (S (S (S O))))) :: ((S
    (S (S (S (S (S (S (S (S (S (S (S (S (S (S (S (S (S (S (S (S (S (S (S (S
    (S (S (S (S (S (S (S (S (S (S (S (S (S (S (S (S (S (S (S (S (S (S (S (S
    (S (S (S (S (S (S (S (S (S (S (S (S (S (S (S (S (S (S (S (S (S (S (S (S
    (S (S (S (S (S (S (S (S (S (S (S (S (S (S (S (S (S (S (S (S (S (S (S (S
    (S (S (S
    O)))))))))))))))))))))))))))))))))))))))))))))))))))))))))))))))))))))))))))))))))))))))))))))))))))) :: []))))))));
    senders = ((Some p_send_RecvAck) :: (None :: (None :: ((Some
    p_send_CalculateMD5) :: (None :: (None :: (None :: (None :: [])))))))) }

(** val ch_recv_recvFileDataV2_0 : chan **)

let ch_recv_recvFileDataV2_0 =
  O

(** val ch_recv_RecvData_0 : chan **)

let ch_recv_RecvData_0 =
  S O

(** val ch_recv_RecvData_1 : chan **)

let ch_recv_RecvData_1 =
  S (S O)

(** val ch_recv_SendAck_0 : chan **)

let ch_recv_SendAck_0 =
  S (S (S O))

(** val ch_recv_DecodeData_0 : chan **)

let ch_recv_DecodeData_0 =
  S (S (S (S O)))

(** val ch_recv_DecodeData_1 : chan **)

let ch_recv_DecodeData_1 =
  S (S (S (S (S O))))

(** val ch_recv_CalculateMD5_0 : chan **)

let ch_recv_CalculateMD5_0 =
  S (S (S (S (S (S O)))))

(** val ch_recv_SaveData_0 : chan **)

let ch_recv_SaveData_0 =
  S (S (S (S (S (S (S O))))))

(** val ch_recv_SaveData_1 : chan **)

let ch_recv_SaveData_1 =
  S (S (S (S (S (S (S (S O)))))))

(** val p_recv_SendAck : pid **)

let p_recv_SendAck =
  S O

(** val p_recv_CalculateMD5 : pid **)

let p_recv_CalculateMD5 =
  S (S (S O))

(** val p_recv_SaveData : pid **)

let p_recv_SaveData =
  S (S (S (S O)))

(** val p_recv_ShowProgress : pid **)

let p_recv_ShowProgress =
  S (S (S (S (S O))))

(** val recv_RecvData_body : stmt list **)

let recv_RecvData_body =
  (LoopCtx ((Branch (((IoE (RecvLine, (Cancel :: (Return :: [])))) :: []),
    ((IoE (RecvLine, (Cancel :: (Return :: [])))) :: []))) :: ((Sel
    (((SendAlt ch_recv_RecvData_0), []) :: ((DoneAlt,
    (Return :: [])) :: []))) :: ((Branch ((Return :: []), [])) :: ((Sel
    (((SendAlt ch_recv_RecvData_1), []) :: ((DoneAlt,
    (Return :: [])) :: []))) :: []))))) :: []

(** val recv_RecvData_finally : stmt list **)

let recv_RecvData_finally =
  []

(** val recv_RecvData_proc : proc **)

let recv_RecvData_proc =
  { body = recv_RecvData_body; finally = recv_RecvData_finally; defer_close =
    (ch_recv_RecvData_0 :: (ch_recv_RecvData_1 :: [])); exit_cancel = false;
    rank = O }

(** val recv_SendAck_body : stmt list **)

let recv_SendAck_body =
  (LoopRange (ch_recv_RecvData_0, ((IoE (PauseGate,
    (Cancel :: (Return :: [])))) :: ((IoE (WriteWire,
    (Cancel :: (Return :: [])))) :: (IfCtxExit :: []))))) :: ((LoopCtx ((IoE
    (PauseGate, (Cancel :: (Return :: [])))) :: ((IoE (WriteWire,
    (Cancel :: (Return :: [])))) :: ((IoE (Check,
    (Cancel :: (Return :: [])))) :: ((Branch (((Branch (((SendOnce
    ch_recv_recvFileDataV2_0) :: []), [])) :: (Return :: [])), [])) :: ((Sel
    (((RecvAlt ch_recv_SendAck_0), []) :: ((TimerAlt,
    []) :: []))) :: [])))))) :: [])

(** val recv_SendAck_finally : stmt list **)

let recv_SendAck_finally =
  []

(** val recv_SendAck_proc : proc **)

let recv_SendAck_proc =
  { body = recv_SendAck_body; finally = recv_SendAck_finally; defer_close =
    []; exit_cancel = false; rank = (S O) }

(** val recv_DecodeData_body : stmt list **)

let recv_DecodeData_body =
  (IoE (Check, (Cancel :: (Return :: [])))) :: ((LoopCtx ((LoopData ((Branch
    ([], ((Branch (((Sel (((RecvAlt ch_recv_RecvData_1), []) :: ((DoneAlt,
    []) :: []))) :: []), [])) :: []))) :: [])) :: ((IoE (Check, ((Branch
    (((Sel (((SendAlt ch_recv_DecodeData_0), []) :: ((DoneAlt,
    (Return :: [])) :: []))) :: ((Sel (((SendAlt ch_recv_DecodeData_1),
    []) :: ((DoneAlt, (Return :: [])) :: []))) :: [])),
    [])) :: (Cancel :: (Return :: []))))) :: ((Branch (((Sel (((SendAlt
    ch_recv_DecodeData_0), []) :: ((DoneAlt,
    (Return :: [])) :: []))) :: ((Sel (((SendAlt ch_recv_DecodeData_1),
    []) :: ((DoneAlt, (Return :: [])) :: []))) :: [])), [])) :: ((Branch
    ((Return :: []), [])) :: ((IoE (Check,
    (Cancel :: (Return :: [])))) :: [])))))) :: [])

(** val recv_DecodeData_finally : stmt list **)

let recv_DecodeData_finally =
  []

(** val recv_DecodeData_proc : proc **)

let recv_DecodeData_proc =
  { body = recv_DecodeData_body; finally = recv_DecodeData_finally;
    defer_close = (ch_recv_DecodeData_0 :: (ch_recv_DecodeData_1 :: []));
    exit_cancel = false; rank = O }

(** val recv_CalculateMD5_body : stmt list **)

let recv_CalculateMD5_body =
  (LoopRange (ch_recv_DecodeData_1, ((IoE (Check,
    (Cancel :: (Return :: [])))) :: (IfCtxExit :: [])))) :: (IfCtxExit :: ((SendOnce
    ch_recv_CalculateMD5_0) :: []))

(** val recv_CalculateMD5_finally : stmt list **)

let recv_CalculateMD5_finally =
  []

(** val recv_CalculateMD5_proc : proc **)

let recv_CalculateMD5_proc =
  { body = recv_CalculateMD5_body; finally = recv_CalculateMD5_finally;
    defer_close = (ch_recv_CalculateMD5_0 :: []); exit_cancel = false; rank =
    (S O) }

(** val recv_SaveData_body : stmt list **)

let recv_SaveData_body =
  (LoopRange (ch_recv_DecodeData_0, ((IoE (FileIO,
    (Cancel :: (Return :: [])))) :: ((Branch (((Sel (((SendAlt
    ch_recv_SaveData_0), []) :: ((DoneAlt, (Return :: [])) :: []))) :: []),
    [])) :: (IfCtxExit :: []))))) :: (IfCtxExit :: ((IoE (Check,
    (Cancel :: (Return :: [])))) :: ((SendOnce ch_recv_SendAck_0) :: [])))

(** val recv_SaveData_finally : stmt list **)

let recv_SaveData_finally =
  []

(** val recv_SaveData_proc : proc **)

let recv_SaveData_proc =
  { body = recv_SaveData_body; finally = recv_SaveData_finally; defer_close =
    (ch_recv_SaveData_0 :: (ch_recv_SaveData_1 :: (ch_recv_SendAck_0 :: [])));
    exit_cancel = false; rank = (S O) }

(** val recv_ShowProgress_body : stmt list **)

let recv_ShowProgress_body =
  (LoopRange (ch_recv_SaveData_0, (IfCtxExit :: []))) :: []

(** val recv_ShowProgress_finally : stmt list **)

let recv_ShowProgress_finally =
  []

(** val recv_ShowProgress_proc : proc **)

let recv_ShowProgress_proc =
  { body = recv_ShowProgress_body; finally = recv_ShowProgress_finally;
    defer_close = []; exit_cancel = false; rank = (S (S O)) }

(** val recv_main_body : stmt list **)

let recv_main_body =
  (Sel (((RecvAlt ch_recv_recvFileDataV2_0), ((RecvClose
    ch_recv_SaveData_1) :: (IfCtxExit :: ((RecvClose
    ch_recv_CalculateMD5_0) :: (Return :: []))))) :: ((DoneAlt,
    (Return :: [])) :: []))) :: []

(** val recv_main_finally : stmt list **)

let recv_main_finally =
  (Branch (((Join p_recv_ShowProgress) :: []), [])) :: []

(** val recv_main_proc : proc **)

let recv_main_proc =
  { body = recv_main_body; finally = recv_main_finally; defer_close =
    (ch_recv_recvFileDataV2_0 :: []); exit_cancel = true; rank = (S (S (S
    O))) }

(** val recv_net : net **)

let recv_net =
  { procs_of =
    (recv_RecvData_proc :: (recv_SendAck_proc :: (recv_DecodeData_proc :: (recv_CalculateMD5_proc :: (recv_SaveData_proc :: (recv_ShowProgress_proc :: (recv_main_proc :: [])))))));
    caps = ((S O) :: ((S (S (S (S (S (S (S (S (S (S (S (S (S (S (S (S (S (S
    (S (S (S (S (S (S (S (S (S (S (S (S (S (S (S (S (S (S (S (S (S (S (S (S
    (S (S (S (S (S (S (S (S (S (S (S (S (S (S (S (S (S (S (S (S (S (S (S (S
    (S (S (S (S (S (S (S (S (S (S (S (S (S (S (S (S (S (S (S (S (S (S (S (S
    (S (S (S (S (S (S (S (S (S (S
    O)))))))))))))))))))))))))))))))))))))))))))))))))))))))))))))))))))))))))))))))))))))))))))))))))))) :: ((S
    (S (S (S (S (S (S (S (S (S (S (S (S (S (S (S (S (S (S (S (S (S (S (S (S
    (S (S (S (S (S (S (S (S (S (S (S (S (S (S (S (S (S (S (S (S (S (S (S (S
    (S (S (S (S (S (S (S (S (S (S (S (S (S (S (S (S (S (S (S (S (S (S (S (S
    (S (S (S (S (S (S (S (S (S (S (S (S (S (S (S (S (S (S (S (S (S (S (S (S
    (S (S (S
    O)))))))))))))))))))))))))))))))))))))))))))))))))))))))))))))))))))))))))))))))))))))))))))))))))))) :: ((S
    O) :: ((S (S (S (S (S (S (S (S (S (S (S (S (S (S (S (S (S (S (S (S (S (S
    (S (S (S (S (S (S (S (S (S (S (S (S (S (S (S (S (S (S (S (S (S (S (S (S
    (S (S (S (S (S (S (S (S (S (S (S (S (S (S (S (S (S (S (S (S (S (S (S (S
    (S (S (S (S (S (S (S (S (S (S (S (S (S (S (S (S (S (S (S (S (S (S (S (S
    (S (S (S (S (S (S
    O)))))))))))))))))))))))))))))))))))))))))))))))))))))))))))))))))))))))))))))))))))))))))))))))))))) :: ((S
    (S (S (S (S (S (S (S (S (S (S (S (S (S (S (S (S (S (S (S (S (S (S (S (S
    (S (S (S (S (S (S (S (S (S (S (S (S (S (S (S (S (S (S (S (S (S (S (S (S
    (S (S (S (S (S (S (S (S (S (S (S (S (S (S (S (S (S (S (S (S (S (S (S (S
    (S (S (S (S (S (S (S (S (S (S (S (S (S (S (S (S (S (S (S (S (S (S (S (S
    (S (S (S
    O)))))))))))))))))))))))))))))))))))))))))))))))))))))))))))))))))))))))))))))))))))))))))))))))))))) :: ((S
    O) :: ((S (S (S (S (S (S (S (S (S (S (S (S (S (S (S (S (S (S (S (S (S (S
    (S (S (S (S (S (S (S (S (S (S (S (S (S (S (S (S (S (S (S (S (S (S (S (S
    (S (S (S (S (S (S (S (S (S (S (S (S (S (S (S (S (S (S (S (S (S (S (S (S
    (S (S (S (S (S (S (S (S (S (S (S (S (S (S (S (S (S (S (S (S (S (S (S (S
    (S (S (S (S (S (S
    O)))))))))))))))))))))))))))))))))))))))))))))))))))))))))))))))))))))))))))))))))))))))))))))))))))) :: (O :: [])))))))));
    senders = ((Some p_recv_SendAck) :: (None :: (None :: ((Some
    p_recv_SaveData) :: (None :: (None :: ((Some
    p_recv_CalculateMD5) :: (None :: (None :: []))))))))) }

(** val ch_hash_RecvHashAck_0 : chan **)

let ch_hash_RecvHashAck_0 =
  O

(** val p_hash_SendHash : pid **)

let p_hash_SendHash =
  O

(** val p_hash_RecvHashAck : pid **)

let p_hash_RecvHashAck =
  S O

(** val hash_SendHash_body : stmt list **)

let hash_SendHash_body =
  (LoopCtx ((IoE (FileIO, (Cancel :: (Return :: [])))) :: ((IoE (WriteWire,
    (Cancel :: (Return :: [])))) :: []))) :: (IfCtxExit :: ((IoE (WriteWire,
    (Cancel :: (Return :: [])))) :: []))

(** val hash_SendHash_finally : stmt list **)

let hash_SendHash_finally =
  []

(** val hash_SendHash_proc : proc **)

let hash_SendHash_proc =
  { body = hash_SendHash_body; finally = hash_SendHash_finally; defer_close =
    []; exit_cancel = false; rank = O }

(** val hash_RecvHashAck_body : stmt list **)

let hash_RecvHashAck_body =
  (Branch (((SendOnce ch_hash_RecvHashAck_0) :: (Return :: [])),
    [])) :: ((LoopCtx ((IoE (RecvLine,
    (Cancel :: (Return :: [])))) :: ((Branch (((SendOnce
    ch_hash_RecvHashAck_0) :: (Return :: [])), [])) :: ((Branch (((SendOnce
    ch_hash_RecvHashAck_0) :: (Return :: [])), ((IoE (Check,
    (Cancel :: (Return :: [])))) :: []))) :: [])))) :: [])

(** val hash_RecvHashAck_finally : stmt list **)

let hash_RecvHashAck_finally =
  []

(** val hash_RecvHashAck_proc : proc **)

let hash_RecvHashAck_proc =
  { body = hash_RecvHashAck_body; finally = hash_RecvHashAck_finally;
    defer_close = (ch_hash_RecvHashAck_0 :: []); exit_cancel = false; rank =
    O }

(** val hash_main_body : stmt list **)

let hash_main_body =
  (Sel ((DoneAlt, (Return :: [])) :: (((RecvAlt ch_hash_RecvHashAck_0),
    []) :: []))) :: ((Join p_hash_SendHash) :: (IfCtxExit :: ((IoE (FileIO,
    (Return :: []))) :: (Return :: []))))

(** val hash_main_finally : stmt list **)

let hash_main_finally =
  []

(** val hash_main_proc : proc **)

let hash_main_proc =
  { body = hash_main_body; finally = hash_main_finally; defer_close = [];
    exit_cancel = true; rank = (S O) }

(** val hash_net : net **)

let hash_net =
  { procs_of =
    (hash_SendHash_proc :: (hash_RecvHashAck_proc :: (hash_main_proc :: [])));
    caps = ((S O) :: []); senders = ((Some p_hash_RecvHashAck) :: []) }
