open BinNat
open BinNums
open Buffer0
open Bytes0
open Consts
open Datatypes
open List0
open Nat0
open PeanoNat

(** val marker : byte list -> byte list **)

let marker ty =
  app recv_marker_open (app ty recv_marker_close)

(** val marker_cut : byte list -> byte list -> byte list **)

let marker_cut ty line =
  match last_index_of (marker ty) line with
  | Some i -> skipn i line
  | None ->
    (match last_index_of (recv_fallback_byte :: []) line with
     | Some n -> (match n with
                  | O -> line
                  | S i -> skipn (S i) line)
     | None -> line)

(** val strip_tmux : nat -> byte list -> byte list **)

let rec strip_tmux fuel buf =
  match fuel with
  | O -> buf
  | S f ->
    (match index_of tmux_status_begin buf with
     | Some b ->
       let i1 = add b (N.to_nat tmux_status_begin_skip) in
       (match index_of tmux_status_mid (skipn i1 buf) with
        | Some m ->
          let i2 = add (add i1 m) (N.to_nat tmux_status_mid_skip) in
          (match index_of tmux_status_end (skipn i2 buf) with
           | Some e ->
             let i3 = add (add i2 e) (N.to_nat tmux_status_end_skip) in
             strip_tmux f (app (firstn b buf) (skipn i3 buf))
           | None -> firstn b buf)
        | None -> firstn b buf)
     | None -> buf)

(** val strip_tmux_status : byte list -> byte list **)

let strip_tmux_status buf =
  strip_tmux (S (length buf)) buf

(** val recv_line : byte list -> bool -> pending -> rres **)

let recv_line ty junk pend =
  match read_line junk [] pend with
  | Done (line, p') ->
    Done ((if junk then strip_tmux_status (marker_cut ty line) else line), p')
  | x -> x

(** val in_ranges : (coq_N * coq_N) list -> byte -> bool **)

let in_ranges rs b =
  existsb (fun r -> (&&) (N.leb (fst r) b) (N.leb b (snd r))) rs

(** val is_trzsz_letter : byte -> bool **)

let is_trzsz_letter b =
  (||) (in_ranges noise_letter_ranges b)
    (existsb (N.eqb b) trzsz_letter_singles)

(** val is_vt100_end : byte -> bool **)

let is_vt100_end b =
  in_ranges noise_vt100_end_ranges b

type wst = { w_last : byte; w_skip : bool; w_nl : bool; w_dup : bool;
             w_home : bool; w_prehome : bool }

(** val w_init : wst **)

let w_init =
  { w_last = win_init_last; w_skip = false; w_nl = false; w_dup = false;
    w_home = false; w_prehome = false }

(** val last_is : byte list -> byte -> bool **)

let last_is l c =
  match rev l with
  | [] -> false
  | x :: _ -> N.eqb c x

(** val set_last : byte list -> byte -> byte list **)

let set_last l c =
  app (removelast l) (c :: [])

(** val win_byte : wst -> byte list -> byte -> (wst * byte list) option **)

let win_byte st acc c =
  if N.eqb c win_interrupt
  then None
  else let nl = if N.eqb c win_newline then true else st.w_nl in
       if st.w_skip
       then let ends = is_vt100_end c in
            let dup =
              if (&&)
                   ((&&) ((&&) ends (N.eqb c win_move_final))
                     (N.leb win_digit_lo st.w_last))
                   (N.leb st.w_last win_digit_hi)
              then true
              else st.w_dup
            in
            let home =
              if (&&) (N.eqb st.w_last win_home_prev) (N.eqb c win_home_final)
              then true
              else st.w_home
            in
            Some ({ w_last = c; w_skip = (negb ends); w_nl = nl; w_dup = dup;
            w_home = home; w_prehome = st.w_prehome }, acc)
       else if N.eqb c win_esc
            then Some ({ w_last = c; w_skip = true; w_nl = nl; w_dup =
                   st.w_dup; w_home = st.w_home; w_prehome = st.w_prehome },
                   acc)
            else if is_trzsz_letter c
                 then if (&&) ((&&) ((&&) st.w_dup nl) (nonempty acc))
                           ((||) (last_is acc c) st.w_prehome)
                      then Some ({ w_last = st.w_last; w_skip = false; w_nl =
                             nl; w_dup = false; w_home = st.w_home;
                             w_prehome = st.w_prehome }, (set_last acc c))
                      else Some ({ w_last = st.w_last; w_skip = false; w_nl =
                             false; w_dup = false; w_home = false;
                             w_prehome = st.w_home }, (app acc (c :: [])))
                 else Some ({ w_last = st.w_last; w_skip = false; w_nl = nl;
                        w_dup = st.w_dup; w_home = st.w_home; w_prehome =
                        st.w_prehome }, acc)

(** val win_fold :
    wst -> byte list -> byte list -> (wst * byte list) option **)

let rec win_fold st acc = function
| [] -> Some (st, acc)
| c :: t ->
  (match win_byte st acc c with
   | Some p -> let (st', acc') = p in win_fold st' acc' t
   | None -> None)

type wcres =
| WCLine of byte list * nat * byte list
| WCIntr of nat * byte list
| WCMore of wst * byte list

(** val win_chunk : nat -> wst -> byte list -> nat -> byte list -> wcres **)

let rec win_chunk fuel st acc off buf =
  match fuel with
  | O -> WCMore (st, acc)
  | S f ->
    (match index_byte win_terminator buf with
     | Some i ->
       let k = add i (S O) in
       let off1 = add off k in
       let used =
         if (&&) (Nat.ltb off1 (length buf))
              (N.eqb (nth off1 buf N0) win_after_terminator)
         then add k (S O)
         else k
       in
       let post = skipn used buf in
       (match win_fold st acc (firstn i buf) with
        | Some p ->
          let (st', acc') = p in
          if (&&) (nonempty acc') (negb st'.w_skip)
          then WCLine (acc', (add off used), post)
          else (match post with
                | [] -> WCMore (st', acc')
                | _ :: _ -> win_chunk f st' acc' (add off used) post)
        | None -> WCIntr ((add off used), post))
     | None ->
       (match win_fold st acc buf with
        | Some p -> let (st', acc') = p in WCMore (st', acc')
        | None -> WCIntr ((add off (length buf)), [])))

type wres =
| WDone of byte list * nat * pending
| WBlocked
| WInterrupted of nat * pending

(** val win_read : wst -> byte list -> nat -> pending -> wres **)

let rec win_read st acc off = function
| [] -> WBlocked
| c :: rest ->
  (match win_chunk (S (length c)) st acc off c with
   | WCLine (l, o, post) -> WDone (l, o, (post :: rest))
   | WCIntr (o, post) -> WInterrupted (o, (post :: rest))
   | WCMore (st', acc') -> win_read st' acc' O rest)

(** val read_line_windows : nat -> pending -> wres **)

let read_line_windows off pend =
  win_read w_init [] off pend

(** val recv_line_windows : byte list -> nat -> pending -> wres **)

let recv_line_windows ty off pend =
  match read_line_windows off pend with
  | WDone (line, o, p') -> WDone ((marker_cut ty line), o, p')
  | x -> x

(** val win_run : byte list list -> nat -> pending -> result list **)

let rec win_run tys off pend =
  match tys with
  | [] -> []
  | ty :: r ->
    (match recv_line_windows ty off pend with
     | WDone (l, o, p') -> (RData l) :: (win_run r o p')
     | WBlocked -> RBlocked :: []
     | WInterrupted (o, p') -> RInterrupted :: (win_run r o p'))

(** val junk_run : byte list list -> bool -> pending -> result list **)

let rec junk_run tys junk pend =
  match tys with
  | [] -> []
  | ty :: r ->
    (match recv_line ty junk pend with
     | Done (l, p') -> (RData l) :: (junk_run r junk p')
     | Blocked -> RBlocked :: []
     | Interrupted p' -> RInterrupted :: (junk_run r junk p'))
