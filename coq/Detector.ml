open BinNat
open BinNums
open Bytes0
open Consts
open Datatypes
open List0
open Nat0
open PeanoNat

(** val nlen : coq_N list -> coq_N **)

let nlen l =
  N.of_nat (length l)

(** val has_suffix : coq_N list -> coq_N list -> bool **)

let has_suffix suf l =
  (&&) (Nat.leb (length suf) (length l))
    (list_eqb (skipn (sub (length l) (length suf)) l) suf)

(** val span_digits : coq_N list -> coq_N list * coq_N list **)

let rec span_digits l = match l with
| [] -> ([], [])
| x :: r ->
  if is_digit x then let (d, t) = span_digits r in ((x :: d), t) else ([], l)

(** val digits1 : coq_N list -> (coq_N list * coq_N list) option **)

let digits1 l =
  let (d, t) = span_digits l in
  (match d with
   | [] -> None
   | _ :: _ -> Some (d, t))

(** val strip_prefix : coq_N list -> coq_N list -> coq_N list option **)

let rec strip_prefix p l =
  match p with
  | [] -> Some l
  | x :: p' ->
    (match l with
     | [] -> None
     | y :: l' -> if N.eqb x y then strip_prefix p' l' else None)

(** val strip_byte : coq_N -> coq_N list -> coq_N list option **)

let strip_byte b = function
| [] -> None
| x :: r -> if N.eqb x b then Some r else None

(** val replace_from :
    coq_N list -> coq_N list -> nat -> coq_N list -> coq_N list **)

let rec replace_from old new0 skip l = match l with
| [] -> []
| x :: r ->
  (match skip with
   | O ->
     if has_prefix old l
     then app new0 (replace_from old new0 (pred (length old)) r)
     else x :: (replace_from old new0 O r)
   | S k -> replace_from old new0 k r)

(** val replace_all : coq_N list -> coq_N list -> coq_N list -> coq_N list **)

let replace_all old new0 l =
  replace_from old new0 O l

(** val dec_value : coq_N list -> coq_N **)

let dec_value ds =
  fold_left (fun acc d ->
    N.add (N.mul acc (Npos (Coq_xO (Coq_xI (Coq_xO Coq_xH)))))
      (N.sub d (Npos (Coq_xO (Coq_xO (Coq_xO (Coq_xO (Coq_xI Coq_xH))))))))
    ds N0

(** val all_digits : coq_N list -> bool **)

let all_digits l =
  forallb is_digit l

(** val split_on : coq_N -> coq_N list -> coq_N list list **)

let rec split_on sep = function
| [] -> [] :: []
| x :: r ->
  if N.eqb x sep
  then [] :: (split_on sep r)
  else (match split_on sep r with
        | [] -> (x :: []) :: []
        | t :: ts -> (x :: t) :: ts)

(** val parse_uint : coq_N -> coq_N list -> coq_N option **)

let parse_uint bits tok =
  if (&&) (nonempty tok) (all_digits tok)
  then let v = dec_value tok in
       if N.ltb v (N.pow (Npos (Coq_xO Coq_xH)) bits) then Some v else None
  else None

type version = (coq_N * coq_N) * coq_N

(** val version_sep : coq_N **)

let version_sep =
  match det_version_sep with
  | [] -> N0
  | c :: l -> (match l with
               | [] -> c
               | _ :: _ -> N0)

(** val parse_version : coq_N list -> version option **)

let parse_version ver =
  match split_on version_sep ver with
  | [] -> None
  | a :: l ->
    (match l with
     | [] -> None
     | b :: l0 ->
       (match l0 with
        | [] -> None
        | c :: l1 ->
          (match l1 with
           | [] ->
             (match parse_uint det_version_bits a with
              | Some x ->
                (match parse_uint det_version_bits b with
                 | Some y ->
                   (match parse_uint det_version_bits c with
                    | Some z -> Some ((x, y), z)
                    | None -> None)
                 | None -> None)
              | None -> None)
           | _ :: _ -> None)))

(** val marker : coq_N list **)

let marker =
  det_marker

(** val ch_colon : coq_N **)

let ch_colon =
  Npos (Coq_xO (Coq_xI (Coq_xO (Coq_xI (Coq_xI Coq_xH)))))

(** val ch_dot : coq_N **)

let ch_dot =
  Npos (Coq_xO (Coq_xI (Coq_xI (Coq_xI (Coq_xO Coq_xH)))))

(** val ch_space : coq_N **)

let ch_space =
  Npos (Coq_xO (Coq_xO (Coq_xO (Coq_xO (Coq_xO Coq_xH)))))

(** val ch_nl : coq_N **)

let ch_nl =
  Npos (Coq_xO (Coq_xI (Coq_xO Coq_xH)))

(** val is_mode : coq_N -> bool **)

let is_mode b =
  (||)
    ((||)
      (N.eqb b (Npos (Coq_xI (Coq_xI (Coq_xO (Coq_xO (Coq_xI (Coq_xO
        Coq_xH))))))))
      (N.eqb b (Npos (Coq_xO (Coq_xI (Coq_xO (Coq_xO (Coq_xI (Coq_xO
        Coq_xH)))))))))
    (N.eqb b (Npos (Coq_xO (Coq_xO (Coq_xI (Coq_xO (Coq_xO (Coq_xO
      Coq_xH))))))))

(** val lit_output : coq_N list **)

let lit_output =
  (Npos (Coq_xI (Coq_xO (Coq_xI (Coq_xO (Coq_xO Coq_xH)))))) :: ((Npos
    (Coq_xI (Coq_xI (Coq_xI (Coq_xI (Coq_xO (Coq_xI Coq_xH))))))) :: ((Npos
    (Coq_xI (Coq_xO (Coq_xI (Coq_xO (Coq_xI (Coq_xI Coq_xH))))))) :: ((Npos
    (Coq_xO (Coq_xO (Coq_xI (Coq_xO (Coq_xI (Coq_xI Coq_xH))))))) :: ((Npos
    (Coq_xO (Coq_xO (Coq_xO (Coq_xO (Coq_xI (Coq_xI Coq_xH))))))) :: ((Npos
    (Coq_xI (Coq_xO (Coq_xI (Coq_xO (Coq_xI (Coq_xI Coq_xH))))))) :: ((Npos
    (Coq_xO (Coq_xO (Coq_xI (Coq_xO (Coq_xI (Coq_xI Coq_xH))))))) :: ((Npos
    (Coq_xO (Coq_xO (Coq_xO (Coq_xO (Coq_xO Coq_xH)))))) :: ((Npos (Coq_xI
    (Coq_xO (Coq_xI (Coq_xO (Coq_xO Coq_xH)))))) :: []))))))))

(** val lit_ext_output : coq_N list **)

let lit_ext_output =
  (Npos (Coq_xI (Coq_xO (Coq_xI (Coq_xO (Coq_xO Coq_xH)))))) :: ((Npos
    (Coq_xI (Coq_xO (Coq_xI (Coq_xO (Coq_xO (Coq_xI Coq_xH))))))) :: ((Npos
    (Coq_xO (Coq_xO (Coq_xO (Coq_xI (Coq_xI (Coq_xI Coq_xH))))))) :: ((Npos
    (Coq_xO (Coq_xO (Coq_xI (Coq_xO (Coq_xI (Coq_xI Coq_xH))))))) :: ((Npos
    (Coq_xI (Coq_xO (Coq_xI (Coq_xO (Coq_xO (Coq_xI Coq_xH))))))) :: ((Npos
    (Coq_xO (Coq_xI (Coq_xI (Coq_xI (Coq_xO (Coq_xI Coq_xH))))))) :: ((Npos
    (Coq_xO (Coq_xO (Coq_xI (Coq_xO (Coq_xO (Coq_xI Coq_xH))))))) :: ((Npos
    (Coq_xI (Coq_xO (Coq_xI (Coq_xO (Coq_xO (Coq_xI Coq_xH))))))) :: ((Npos
    (Coq_xO (Coq_xO (Coq_xI (Coq_xO (Coq_xO (Coq_xI Coq_xH))))))) :: ((Npos
    (Coq_xI (Coq_xO (Coq_xI (Coq_xI (Coq_xO Coq_xH)))))) :: ((Npos (Coq_xI
    (Coq_xI (Coq_xI (Coq_xI (Coq_xO (Coq_xI Coq_xH))))))) :: ((Npos (Coq_xI
    (Coq_xO (Coq_xI (Coq_xO (Coq_xI (Coq_xI Coq_xH))))))) :: ((Npos (Coq_xO
    (Coq_xO (Coq_xI (Coq_xO (Coq_xI (Coq_xI Coq_xH))))))) :: ((Npos (Coq_xO
    (Coq_xO (Coq_xO (Coq_xO (Coq_xI (Coq_xI Coq_xH))))))) :: ((Npos (Coq_xI
    (Coq_xO (Coq_xI (Coq_xO (Coq_xI (Coq_xI Coq_xH))))))) :: ((Npos (Coq_xO
    (Coq_xO (Coq_xI (Coq_xO (Coq_xI (Coq_xI Coq_xH))))))) :: ((Npos (Coq_xO
    (Coq_xO (Coq_xO (Coq_xO (Coq_xO Coq_xH)))))) :: ((Npos (Coq_xI (Coq_xO
    (Coq_xI (Coq_xO (Coq_xO Coq_xH)))))) :: [])))))))))))))))))

(** val lit_ext_tail : coq_N list **)

let lit_ext_tail =
  (Npos (Coq_xO (Coq_xO (Coq_xO (Coq_xO (Coq_xO Coq_xH)))))) :: ((Npos
    (Coq_xO (Coq_xI (Coq_xO (Coq_xI (Coq_xI Coq_xH)))))) :: ((Npos (Coq_xO
    (Coq_xO (Coq_xO (Coq_xO (Coq_xO Coq_xH)))))) :: []))

(** val uid_regex_min : nat **)

let uid_regex_min =
  S (S (S (S (S (S (S (S (S (S (S (S (S O))))))))))))

(** val match_version : coq_N list -> (coq_N list * coq_N list) option **)

let match_version l =
  match digits1 l with
  | Some p ->
    let (a, l1) = p in
    (match strip_byte ch_dot l1 with
     | Some l2 ->
       (match digits1 l2 with
        | Some p0 ->
          let (b, l3) = p0 in
          (match strip_byte ch_dot l3 with
           | Some l4 ->
             (match digits1 l4 with
              | Some p1 ->
                let (c, l5) = p1 in
                Some ((app a (ch_dot :: (app b (ch_dot :: c)))), l5)
              | None -> None)
           | None -> None)
        | None -> None)
     | None -> None)
  | None -> None

(** val opt_colon_digits : coq_N list -> coq_N list option * coq_N list **)

let opt_colon_digits l =
  match strip_byte ch_colon l with
  | Some r ->
    (match digits1 r with
     | Some p -> let (d, t) = p in ((Some d), t)
     | None -> (None, l))
  | None -> (None, l)

type tmatch = { m_mode : coq_N; m_ver : coq_N list; m_id : coq_N list option;
                m_port : coq_N list option }

(** val trzsz_at : coq_N list -> (tmatch * coq_N list) option **)

let trzsz_at l =
  match strip_prefix marker l with
  | Some l1 ->
    (match l1 with
     | [] -> None
     | m :: l2 ->
       if is_mode m
       then (match strip_byte ch_colon l2 with
             | Some l3 ->
               (match match_version l3 with
                | Some p ->
                  let (v, l4) = p in
                  let (g3, l5) = opt_colon_digits l4 in
                  let (g4, l6) = opt_colon_digits l5 in
                  Some ({ m_mode = m; m_ver = v; m_id = g3; m_port = g4 }, l6)
                | None -> None)
             | None -> None)
       else None)
  | None -> None

(** val find_trzsz : coq_N list -> tmatch option **)

let rec find_trzsz l =
  match trzsz_at l with
  | Some p -> let (m, _) = p in Some m
  | None -> (match l with
             | [] -> None
             | _ :: r -> find_trzsz r)

(** val uid_at : coq_N list -> (coq_N list * coq_N list) option **)

let uid_at l =
  match strip_prefix marker l with
  | Some l1 ->
    (match l1 with
     | [] -> None
     | m :: l2 ->
       if is_mode m
       then (match strip_byte ch_colon l2 with
             | Some l3 ->
               (match match_version l3 with
                | Some p ->
                  let (_, l4) = p in
                  (match strip_byte ch_colon l4 with
                   | Some l5 ->
                     let (d, l6) = span_digits l5 in
                     if Nat.leb uid_regex_min (length d)
                     then Some (d, l6)
                     else None
                   | None -> None)
                | None -> None)
             | None -> None)
       else None)
  | None -> None

(** val uid_find_all : nat -> coq_N list -> coq_N list list **)

let rec uid_find_all skip l = match l with
| [] -> []
| _ :: r ->
  (match skip with
   | O ->
     (match uid_at l with
      | Some p ->
        let (id, rest) = p in
        id :: (uid_find_all (sub (length r) (length rest)) r)
      | None -> uid_find_all O r)
   | S k -> uid_find_all k r)

(** val tmux_prefix_at : coq_N list -> (coq_N list * coq_N list) option **)

let tmux_prefix_at l =
  match strip_prefix lit_output l with
  | Some l1 ->
    (match digits1 l1 with
     | Some p ->
       let (d, l2) = p in
       (match strip_byte ch_space l2 with
        | Some l3 -> Some ((app lit_output (app d (ch_space :: []))), l3)
        | None -> None)
     | None -> None)
  | None ->
    (match strip_prefix lit_ext_output l with
     | Some l1 ->
       (match digits1 l1 with
        | Some p ->
          let (d, l2) = p in
          (match strip_byte ch_space l2 with
           | Some l3 ->
             (match digits1 l3 with
              | Some p0 ->
                let (e, l4) = p0 in
                (match strip_prefix lit_ext_tail l4 with
                 | Some l5 ->
                   Some
                     ((app lit_ext_output
                        (app d (ch_space :: (app e lit_ext_tail)))), l5)
                 | None -> None)
              | None -> None)
           | None -> None)
        | None -> None)
     | None -> None)

(** val take_line : coq_N list -> coq_N list **)

let rec take_line = function
| [] -> []
| x :: r -> if N.eqb x ch_nl then [] else x :: (take_line r)

(** val tmux_at : coq_N list -> coq_N list option **)

let tmux_at l =
  match tmux_prefix_at l with
  | Some p0 ->
    let (p, rest) = p0 in
    if contains marker (take_line rest) then Some p else None
  | None -> None

(** val find_tmux : coq_N list -> coq_N list option **)

let rec find_tmux l =
  match tmux_at l with
  | Some p -> Some p
  | None -> (match l with
             | [] -> None
             | _ :: r -> find_tmux r)

(** val retag : coq_N list -> coq_N list **)

let retag id =
  let k = sub (length id) (N.to_nat det_retag_back) in
  app (firstn k id) (det_retag_char :: (skipn (S k) id))

(** val rewrite_step : coq_N list -> coq_N list -> coq_N list **)

let rewrite_step buf id =
  if (&&) (N.leb det_rewrite_min_len (nlen id))
       (has_suffix det_rewrite_suffix id)
  then replace_all id (retag id) buf
  else buf

(** val rewrite_trigger : coq_N list -> coq_N list **)

let rewrite_trigger buf =
  fold_left rewrite_step (uid_find_all O buf) buf

(** val relay_scan_char : coq_N -> bool **)

let relay_scan_char c =
  (||) (existsb (N.eqb c) det_relay_scan_chars)
    ((&&) (N.leb det_relay_scan_lo c) (N.leb c det_relay_scan_hi))

(** val span_relay : coq_N list -> coq_N list * coq_N list **)

let rec span_relay l = match l with
| [] -> ([], [])
| x :: r ->
  if relay_scan_char x
  then let (a, b) = span_relay r in ((x :: a), b)
  else ([], l)

(** val add_relay_suffix : coq_N list -> nat -> coq_N list **)

let add_relay_suffix out idx =
  let i = add idx (N.to_nat det_relay_offset) in
  if Nat.leb (length out) i
  then out
  else let (a, b) = span_relay (skipn i out) in
       app (firstn i out) (app a (app det_relay_suffix b))

type idmap = (coq_N list * coq_N) list

(** val mlen : idmap -> coq_N **)

let mlen m =
  N.of_nat (length m)

(** val map_find : idmap -> coq_N list -> coq_N option **)

let rec map_find m id =
  match m with
  | [] -> None
  | p :: r ->
    let (k, v) = p in if list_eqb k id then Some v else map_find r id

(** val dedup_eligible : bool -> coq_N list -> bool **)

let dedup_eligible winenv id =
  (&&) (N.ltb det_id_min_len (nlen id))
    ((||) winenv
      (negb
        ((&&) (N.eqb (nlen id) det_plain_id_len)
          (has_suffix det_plain_suffix id))))

(** val prune : idmap -> idmap **)

let prune m =
  if N.ltb det_prune_limit (mlen m)
  then map (fun kv -> ((fst kv), (N.sub (snd kv) det_prune_keep)))
         (filter (fun kv -> N.leb det_prune_keep (snd kv)) m)
  else m

(** val is_repeated : bool -> idmap -> coq_N list -> bool * idmap **)

let is_repeated winenv m id =
  if dedup_eligible winenv id
  then (match map_find m id with
        | Some _ -> (true, m)
        | None ->
          let m' = prune m in (false, (app m' ((id, (mlen m')) :: []))))
  else (false, m)

type trigger = { t_mode : coq_N; t_version : version; t_id : coq_N list;
                 t_win : bool; t_port : coq_N; t_prefix : coq_N list }

type det = { d_relay : bool; d_tmux : bool; d_map : idmap }

(** val new_det : bool -> bool -> det **)

let new_det relay tmux =
  { d_relay = relay; d_tmux = tmux; d_map = [] }

(** val set_map : det -> idmap -> det **)

let set_map d m =
  { d_relay = d.d_relay; d_tmux = d.d_tmux; d_map = m }

(** val int_max : coq_N **)

let int_max =
  N.sub
    (N.pow (Npos (Coq_xO Coq_xH)) (Npos (Coq_xI (Coq_xI (Coq_xI (Coq_xI
      (Coq_xI Coq_xH))))))) (Npos Coq_xH)

(** val finished : coq_N list -> bool **)

let finished tail =
  existsb (fun w -> contains w tail) det_finished_words

(** val win_server : coq_N list -> bool **)

let win_server id =
  (||) (list_eqb id det_win_id)
    ((&&) (N.eqb (nlen id) det_win_id_len) (has_suffix det_win_suffix id))

(** val is_none : 'a1 option -> bool **)

let is_none = function
| Some _ -> false
| None -> true

(** val detect :
    bool -> det -> bool -> coq_N list -> (coq_N list * trigger option) * det **)

let detect winenv d tunnel buf =
  if N.ltb (nlen buf) det_min_len
  then ((buf, None), d)
  else (match last_index_of marker buf with
        | Some _ ->
          let out =
            if (&&) d.d_relay d.d_tmux then rewrite_trigger buf else buf
          in
          (match last_index_of marker out with
           | Some idx ->
             let sub0 = skipn idx out in
             (match find_trzsz sub0 with
              | Some m ->
                let tm = find_tmux out in
                if (&&) (negb (is_none tm))
                     ((||) (negb tunnel) (is_none m.m_port))
                then ((out, None), d)
                else let prefix = match tm with
                                  | Some p -> p
                                  | None -> [] in
                     if (&&) (N.ltb det_finished_offset (nlen sub0))
                          (finished
                            (skipn (N.to_nat det_finished_offset) sub0))
                     then ((out, None), d)
                     else (match parse_version m.m_ver with
                           | Some ver ->
                             let id =
                               match m.m_id with
                               | Some i -> i
                               | None -> []
                             in
                             let (rep, mp) = is_repeated winenv d.d_map id in
                             let d' = set_map d mp in
                             if rep
                             then ((out, None), d')
                             else let port =
                                    match m.m_port with
                                    | Some p ->
                                      let v = dec_value p in
                                      if N.leb v int_max then v else N0
                                    | None -> N0
                                  in
                                  let out' =
                                    if d.d_relay
                                    then add_relay_suffix out idx
                                    else replace_all det_client_old
                                           det_client_new out
                                  in
                                  ((out', (Some { t_mode = m.m_mode;
                                  t_version = ver; t_id = id; t_win =
                                  (win_server id); t_port = port; t_prefix =
                                  prefix })), d')
                           | None -> ((out, None), d))
              | None -> ((out, None), d))
           | None -> ((out, None), d))
        | None -> ((buf, None), d))

(** val detect_hist :
    bool -> det -> (bool * coq_N list) list -> ((coq_N list * trigger
    option) * coq_N) list * det **)

let rec detect_hist winenv d = function
| [] -> ([], d)
| p :: r ->
  let (tunnel, buf) = p in
  let (p0, d') = detect winenv d tunnel buf in
  let (rs, dn) = detect_hist winenv d' r in
  (((p0, (mlen d'.d_map)) :: rs), dn)

(** val dec_digits_fuel : nat -> coq_N -> coq_N list -> coq_N list **)

let rec dec_digits_fuel fuel n acc =
  match fuel with
  | O -> acc
  | S f ->
    if N.ltb n (Npos (Coq_xO (Coq_xI (Coq_xO Coq_xH))))
    then (N.add (Npos (Coq_xO (Coq_xO (Coq_xO (Coq_xO (Coq_xI Coq_xH)))))) n) :: acc
    else dec_digits_fuel f (N.div n (Npos (Coq_xO (Coq_xI (Coq_xO Coq_xH)))))
           ((N.add (Npos (Coq_xO (Coq_xO (Coq_xO (Coq_xO (Coq_xI Coq_xH))))))
              (N.modulo n (Npos (Coq_xO (Coq_xI (Coq_xO Coq_xH)))))) :: acc)

(** val dec_of : coq_N -> coq_N list **)

let dec_of n =
  dec_digits_fuel (S (N.to_nat (N.log2 n))) n []

(** val dec_pad : nat -> coq_N -> coq_N list **)

let dec_pad w n =
  let s = dec_of n in
  app
    (repeat (Npos (Coq_xO (Coq_xO (Coq_xO (Coq_xO (Coq_xI Coq_xH))))))
      (sub w (length s))) s

(** val trigger_head : coq_N list **)

let trigger_head =
  firstn (S (S (S O))) det_trz_format

(** val version_text : version -> coq_N list **)

let version_text = function
| (p, c) ->
  let (a, b) = p in
  app (dec_of a) (ch_dot :: (app (dec_of b) (ch_dot :: (dec_of c))))

(** val trigger_line : coq_N -> version -> coq_N -> coq_N -> coq_N list **)

let trigger_line mode v uid port =
  app trigger_head
    (app marker
      (mode :: (ch_colon :: (app (version_text v)
                              (ch_colon :: (app
                                             (dec_pad (S (S (S (S (S (S (S (S
                                               (S (S (S (S (S O)))))))))))))
                                               uid)
                                             (ch_colon :: (app (dec_of port)
                                                            (coq_CR :: (coq_LF :: []))))))))))
