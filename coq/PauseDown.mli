open Datatypes
open Pause
open PeanoNat

type oph =
| OIdle
| OGate of nat
| ORead of nat

type kph =
| KIdle
| KHave of nat
| KIn of nat * sphase

type yev =
| YTick
| YPause
| YResume
| YPSCall
| YPSWrite
| YPSPush
| YPATake
| YDCall
| YKTake
| YKCall
| YKWrite

type bst = { yPausing : bool; yPS : csph; yPcnt : nat; yD : oph;
             yDq : nat list; yDeliv : nat list; yK : kph; yKq : nat list;
             yPA : rph; yPAq : wline list; yPacked : nat; yBad : bool;
             yEp : epi }

val y_setPS : bst -> csph -> nat -> bst

val y_setD : bst -> oph -> nat list -> bst

val y_setK : bst -> kph -> nat list -> bst

val y_setPA : bst -> rph -> wline list -> nat -> bst

val y_bad : bst -> bst

val y_flags : bst -> bool -> epi -> bst

val y_deliver : bst -> oph -> nat list -> nat -> bst

val y_darrive : bst -> nat -> bst

val y_dcall : cfg -> bst -> bst

val y_paarrive : cfg -> bst -> wline -> bst

val y_pacall : cfg -> bst -> bst

val y_kgate : cfg -> bst -> nat -> bst

val y_live : nat -> bst -> bool

val y_quiescent : nat -> nat -> bst -> bool

val y_tickPA : bst -> bst

val y_tickD : cfg -> bst -> bst

val y_tickK : cfg -> bst -> bst

val ystep : cfg -> nat -> nat -> nat -> bst -> yev -> bst option

val yinit : nat -> bst

type dstate = { dD : nat rstate; dDeliv : nat list; dK : kph; dKq : nat list;
                dPS : csph; dPcnt : nat; dPA : wline rstate; dPacked : 
                nat; dErrD : bool; dErrPA : bool; dEp : epi }

val d_setD : dstate -> nat rstate -> nat list -> nat list -> bool -> dstate

val d_setPA : dstate -> wline rstate -> nat -> bool -> dstate

val d_setK : dstate -> kph -> nat list -> dstate

val d_setPS : dstate -> csph -> nat -> dstate

val d_setEp : dstate -> epi -> dstate

val feedD : cfg -> dstate -> nat ev -> dstate

val feedPA : cfg -> dstate -> wline ev -> dstate

val d_emit : cfg -> dstate -> nat -> wout list -> dstate

val d_pausing : dstate -> bool

val d_stopped : dstate -> bool

val k_move : cfg -> dstate -> nat -> sphase -> sev -> dstate

val d_live : nat -> dstate -> bool

val d_quiescent : nat -> nat -> dstate -> bool

val ydstep : cfg -> nat -> nat -> nat -> dstate -> yev -> dstate option

val ydinit : nat -> dstate

val tmo_val : rcore -> nat

val yabs : dstate -> bst

type pkph =
| PKWait of nat
| PKDone

type pmph =
| PMWait
| PMRead of nat
| PMDone

type uev =
| UTick
| UPause
| UResume
| UFACall
| USaved

type ust = { uPausing : bool; uFA : oph; uFAq : nat list; uFin : bool;
             uPK : pkph; uSaved : bool; uPM : pmph; uBad : bool; uEp : 
             epi }

val u_setFA : ust -> oph -> nat list -> ust

val u_bad : ust -> ust

val u_flags : ust -> bool -> epi -> ust

val u_deliver : ust -> nat list -> nat -> ust

val u_arrive : ust -> nat -> ust

val u_facall : cfg -> ust -> ust

val u_poll : cfg -> nat -> ust -> ust

val u_quiescent : ust -> bool

val u_tickPM : ust -> ust

val u_tickFA : cfg -> ust -> ust

val u_tickPK : cfg -> nat -> ust -> ust

val u_ep_tick : cfg -> epi -> epi

val ustep : cfg -> nat -> nat -> ust -> uev -> ust option

val uinit : cfg -> nat -> ust

type k2ph =
| K2Call
| K2Sleep of nat
| K2Passed
| K2Wait of nat
| K2Done

type vev =
| VTick
| VPause
| VResume
| VKCall
| VKWrite
| VSaved
| VPFCall

type vst = { vPausing : bool; vK : k2ph; vSaved : bool; vPF : rph;
             vPFq : wline list; vPfin : bool; vBad : bool }

val v_setPF : vst -> rph -> wline list -> bool -> vst

val v_setK : vst -> k2ph -> vst

val is_final : nat -> bool

val v_arrive : cfg -> vst -> wline -> vst

val v_pfcall : cfg -> vst -> vst

val v_gate : cfg -> vst -> vst

val v_quiescent : vst -> bool

val v_tickPF : vst -> vst

val v_tickK : cfg -> vst -> vst

val vstep : cfg -> nat -> vst -> vev -> vst option

val vinit : vst
