open BinNums
open BinPosDef
open Datatypes
open Nat0

module Pos =
 struct
  (** val succ : positive -> positive **)

  let rec succ = function
  | Coq_xI p -> Coq_xO (succ p)
  | Coq_xO p -> Coq_xI p
  | Coq_xH -> Coq_xO Coq_xH

  (** val add : positive -> positive -> positive **)

  let rec add x y =
    match x with
    | Coq_xI p ->
      (match y with
       | Coq_xI q -> Coq_xO (add_carry p q)
       | Coq_xO q -> Coq_xI (add p q)
       | Coq_xH -> Coq_xO (succ p))
    | Coq_xO p ->
      (match y with
       | Coq_xI q -> Coq_xI (add p q)
       | Coq_xO q -> Coq_xO (add p q)
       | Coq_xH -> Coq_xI p)
    | Coq_xH ->
      (match y with
       | Coq_xI q -> Coq_xO (succ q)
       | Coq_xO q -> Coq_xI q
       | Coq_xH -> Coq_xO Coq_xH)

  (** val add_carry : positive -> positive -> positive **)

  and add_carry x y =
    match x with
    | Coq_xI p ->
      (match y with
       | Coq_xI q -> Coq_xI (add_carry p q)
       | Coq_xO q -> Coq_xO (add_carry p q)
       | Coq_xH -> Coq_xI (succ p))
    | Coq_xO p ->
      (match y with
       | Coq_xI q -> Coq_xO (add_carry p q)
       | Coq_xO q -> Coq_xI (add p q)
       | Coq_xH -> Coq_xO (succ p))
    | Coq_xH ->
      (match y with
       | Coq_xI q -> Coq_xI (succ q)
       | Coq_xO q -> Coq_xO (succ q)
       | Coq_xH -> Coq_xI Coq_xH)

  (** val pred_double : positive -> positive **)

  let rec pred_double = function
  | Coq_xI p -> Coq_xI (Coq_xO p)
  | Coq_xO p -> Coq_xI (pred_double p)
  | Coq_xH -> Coq_xH

  type mask = Pos.mask =
  | IsNul
  | IsPos of positive
  | IsNeg

  (** val succ_double_mask : mask -> mask **)

  let succ_double_mask = function
  | IsNul -> IsPos Coq_xH
  | IsPos p -> IsPos (Coq_xI p)
  | IsNeg -> IsNeg

  (** val double_mask : mask -> mask **)

  let double_mask = function
  | IsPos p -> IsPos (Coq_xO p)
  | x0 -> x0

  (** val double_pred_mask : positive -> mask **)

  let double_pred_mask = function
  | Coq_xI p -> IsPos (Coq_xO (Coq_xO p))
  | Coq_xO p -> IsPos (Coq_xO (pred_double p))
  | Coq_xH -> IsNul

  (** val sub_mask : positive -> positive -> mask **)

  let rec sub_mask x y =
    match x with
    | Coq_xI p ->
      (match y with
       | Coq_xI q -> double_mask (sub_mask p q)
       | Coq_xO q -> succ_double_mask (sub_mask p q)
       | Coq_xH -> IsPos (Coq_xO p))
    | Coq_xO p ->
      (match y with
       | Coq_xI q -> succ_double_mask (sub_mask_carry p q)
       | Coq_xO q -> double_mask (sub_mask p q)
       | Coq_xH -> IsPos (pred_double p))
    | Coq_xH -> (match y with
                 | Coq_xH -> IsNul
                 | _ -> IsNeg)

  (** val sub_mask_carry : positive -> positive -> mask **)

  and sub_mask_carry x y =
    match x with
    | Coq_xI p ->
      (match y with
       | Coq_xI q -> succ_double_mask (sub_mask_carry p q)
       | Coq_xO q -> double_mask (sub_mask p q)
       | Coq_xH -> IsPos (pred_double p))
    | Coq_xO p ->
      (match y with
       | Coq_xI q -> double_mask (sub_mask_carry p q)
       | Coq_xO q -> succ_double_mask (sub_mask_carry p q)
       | Coq_xH -> double_pred_mask p)
    | Coq_xH -> IsNeg

  (** val mul : positive -> positive -> positive **)

  let rec mul x y =
    match x with
    | Coq_xI p -> add y (Coq_xO (mul p y))
    | Coq_xO p -> Coq_xO (mul p y)
    | Coq_xH -> y

  (** val iter : ('a1 -> 'a1) -> 'a1 -> positive -> 'a1 **)

  let rec iter f x = function
  | Coq_xI n' -> f (iter f (iter f x n') n')
  | Coq_xO n' -> iter f (iter f x n') n'
  | Coq_xH -> f x

  (** val pow : positive -> positive -> positive **)

  let pow x =
    iter (mul x) Coq_xH

  (** val size_nat : positive -> nat **)

  let rec size_nat = function
  | Coq_xI p0 -> S (size_nat p0)
  | Coq_xO p0 -> S (size_nat p0)
  | Coq_xH -> S O

  (** val size : positive -> positive **)

  let rec size = function
  | Coq_xI p0 -> succ (size p0)
  | Coq_xO p0 -> succ (size p0)
  | Coq_xH -> Coq_xH

  (** val compare_cont : comparison -> positive -> positive -> comparison **)

  let rec compare_cont r x y =
    match x with
    | Coq_xI p ->
      (match y with
       | Coq_xI q -> compare_cont r p q
       | Coq_xO q -> compare_cont Gt p q
       | Coq_xH -> Gt)
    | Coq_xO p ->
      (match y with
       | Coq_xI q -> compare_cont Lt p q
       | Coq_xO q -> compare_cont r p q
       | Coq_xH -> Gt)
    | Coq_xH -> (match y with
                 | Coq_xH -> r
                 | _ -> Lt)

  (** val compare : positive -> positive -> comparison **)

  let compare =
    compare_cont Eq

  (** val eqb : positive -> positive -> bool **)

  let rec eqb p q =
    match p with
    | Coq_xI p0 -> (match q with
                    | Coq_xI q0 -> eqb p0 q0
                    | _ -> false)
    | Coq_xO p0 -> (match q with
                    | Coq_xO q0 -> eqb p0 q0
                    | _ -> false)
    | Coq_xH -> (match q with
                 | Coq_xH -> true
                 | _ -> false)

  (** val iter_op : ('a1 -> 'a1 -> 'a1) -> positive -> 'a1 -> 'a1 **)

  let rec iter_op op p a =
    match p with
    | Coq_xI p0 -> op a (iter_op op p0 (op a a))
    | Coq_xO p0 -> iter_op op p0 (op a a)
    | Coq_xH -> a

  (** val to_nat : positive -> nat **)

  let to_nat x =
    iter_op Nat0.add x (S O)

  (** val of_succ_nat : nat -> positive **)

  let rec of_succ_nat = function
  | O -> Coq_xH
  | S x -> succ (of_succ_nat x)
 end
