
(** val negb : bool -> bool **)

let negb = function
| true -> false
| false -> true

type nat =
| O
| S of nat

(** val option_map : ('a1 -> 'a2) -> 'a1 option -> 'a2 option **)

let option_map f = function
| Some a -> Some (f a)
| None -> None

type ('a, 'b) sum =
| Coq_inl of 'a
| Coq_inr of 'b

(** val fst : ('a1 * 'a2) -> 'a1 **)

let fst = function
| (x, _) -> x

(** val snd : ('a1 * 'a2) -> 'a2 **)

let snd = function
| (_, y) -> y

(** val length : 'a1 list -> nat **)

let rec length = function
| [] -> O
| _ :: l' -> S (length l')

(** val app : 'a1 list -> 'a1 list -> 'a1 list **)

let rec app l m =
  match l with
  | [] -> m
  | a :: l1 -> a :: (app l1 m)

type comparison =
| Eq
| Lt
| Gt

(** val coq_CompOpp : comparison -> comparison **)

let coq_CompOpp = function
| Eq -> Eq
| Lt -> Gt
| Gt -> Lt
