open ErrTell

val errtell_preds : et_pred list

val errtell_clientError : et_stmt list

val errtell_serverError : et_stmt list
