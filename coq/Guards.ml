open BinInt
open BinNat
open BinNums
open Bytes0
open Consts
open Datatypes
open List0
open Nat0
open PeanoNat

(** val gd_int_min : coq_Z -> coq_Z **)

let gd_int_min bits =
  Z.opp (Z.pow (Zpos (Coq_xO Coq_xH)) (Z.sub bits (Zpos Coq_xH)))

(** val gd_int_max : coq_Z -> coq_Z **)

let gd_int_max bits =
  Z.sub (Z.pow (Zpos (Coq_xO Coq_xH)) (Z.sub bits (Zpos Coq_xH))) (Zpos
    Coq_xH)

(** val gd_in_range : coq_Z -> coq_Z -> bool **)

let gd_in_range bits v =
  (&&) (Z.leb (gd_int_min bits) v) (Z.leb v (gd_int_max bits))

(** val gd_digit_val : coq_N -> coq_Z option **)

let gd_digit_val b =
  if (&&)
       (N.leb (Npos (Coq_xO (Coq_xO (Coq_xO (Coq_xO (Coq_xI Coq_xH)))))) b)
       (N.leb b (Npos (Coq_xI (Coq_xO (Coq_xO (Coq_xI (Coq_xI Coq_xH)))))))
  then Some
         (Z.sub (Z.of_N b) (Zpos (Coq_xO (Coq_xO (Coq_xO (Coq_xO (Coq_xI
           Coq_xH)))))))
  else None

(** val gd_digits_val : coq_Z -> coq_N list -> coq_Z option **)

let rec gd_digits_val acc = function
| [] -> Some acc
| b :: r ->
  (match gd_digit_val b with
   | Some d ->
     gd_digits_val
       (Z.add (Z.mul acc (Zpos (Coq_xO (Coq_xI (Coq_xO Coq_xH))))) d) r
   | None -> None)

(** val gd_parse_int : coq_Z -> coq_N list -> coq_Z option **)

let gd_parse_int bits s = match s with
| [] -> None
| c :: r ->
  if N.eqb c (Npos (Coq_xI (Coq_xI (Coq_xO (Coq_xI (Coq_xO Coq_xH))))))
  then let neg = false in
       (match r with
        | [] -> None
        | _ :: _ ->
          (match gd_digits_val Z0 r with
           | Some v ->
             let v' = if neg then Z.opp v else v in
             if gd_in_range bits v' then Some v' else None
           | None -> None))
  else if N.eqb c (Npos (Coq_xI (Coq_xO (Coq_xI (Coq_xI (Coq_xO Coq_xH))))))
       then let neg = true in
            (match r with
             | [] -> None
             | _ :: _ ->
               (match gd_digits_val Z0 r with
                | Some v ->
                  let v' = if neg then Z.opp v else v in
                  if gd_in_range bits v' then Some v' else None
                | None -> None))
       else let neg = false in
            (match s with
             | [] -> None
             | _ :: _ ->
               (match gd_digits_val Z0 s with
                | Some v ->
                  let v' = if neg then Z.opp v else v in
                  if gd_in_range bits v' then Some v' else None
                | None -> None))

(** val gd_parse_int64 : coq_N list -> coq_Z option **)

let gd_parse_int64 =
  gd_parse_int (Zpos (Coq_xO (Coq_xO (Coq_xO (Coq_xO (Coq_xO (Coq_xO
    Coq_xH)))))))

(** val gd_atoi : coq_N list -> coq_Z option **)

let gd_atoi =
  gd_parse_int (Zpos (Coq_xO (Coq_xO (Coq_xO (Coq_xO (Coq_xO (Coq_xO
    Coq_xH)))))))

(** val gd_parse_uint32 : coq_N list -> coq_Z option **)

let gd_parse_uint32 s = match s with
| [] -> None
| _ :: _ ->
  (match gd_digits_val Z0 s with
   | Some v ->
     if Z.leb v
          (Z.sub
            (Z.pow (Zpos (Coq_xO Coq_xH)) (Zpos (Coq_xO (Coq_xO (Coq_xO
              (Coq_xO (Coq_xO Coq_xH))))))) (Zpos Coq_xH))
     then Some v
     else None
   | None -> None)

type jnum =
| JAbsent
| JNull
| JInt of coq_Z
| JOther

(** val gd_json_int : coq_Z -> coq_Z -> jnum -> coq_Z option **)

let gd_json_int bits dflt = function
| JInt v -> if gd_in_range bits v then Some v else None
| JOther -> None
| _ -> Some dflt

(** val gd_json_int_literal : coq_N list -> jnum **)

let gd_json_int_literal s = match s with
| [] ->
  let neg = false in
  (match s with
   | [] -> JOther
   | c :: r ->
     if N.eqb c (Npos (Coq_xO (Coq_xO (Coq_xO (Coq_xO (Coq_xI Coq_xH))))))
     then (match r with
           | [] -> JInt Z0
           | _ :: _ -> JOther)
     else (match gd_digits_val Z0 s with
           | Some v -> JInt (if neg then Z.opp v else v)
           | None -> JOther))
| c :: r ->
  if N.eqb c (Npos (Coq_xI (Coq_xO (Coq_xI (Coq_xI (Coq_xO Coq_xH))))))
  then let neg = true in
       (match r with
        | [] -> JOther
        | c0 :: r0 ->
          if N.eqb c0 (Npos (Coq_xO (Coq_xO (Coq_xO (Coq_xO (Coq_xI
               Coq_xH))))))
          then (match r0 with
                | [] -> JInt Z0
                | _ :: _ -> JOther)
          else (match gd_digits_val Z0 r with
                | Some v -> JInt (if neg then Z.opp v else v)
                | None -> JOther))
  else let neg = false in
       (match s with
        | [] -> JOther
        | c0 :: r0 ->
          if N.eqb c0 (Npos (Coq_xO (Coq_xO (Coq_xO (Coq_xO (Coq_xI
               Coq_xH))))))
          then (match r0 with
                | [] -> JInt Z0
                | _ :: _ -> JOther)
          else (match gd_digits_val Z0 s with
                | Some v -> JInt (if neg then Z.opp v else v)
                | None -> JOther))

type cfg = { bufsize : coq_Z; term_cols : coq_Z }

(** val recv_config_bufsize : jnum -> coq_Z option **)

let recv_config_bufsize j =
  match gd_json_int (Zpos (Coq_xO (Coq_xO (Coq_xO (Coq_xO (Coq_xO (Coq_xO
          Coq_xH))))))) guards_default_bufsize j with
  | Some b ->
    Some (if Z.gtb b guards_bufsize_clamp then guards_bufsize_clamp else b)
  | None -> None

(** val gd_wrap64 : coq_Z -> coq_Z **)

let gd_wrap64 v =
  Z.sub
    (Z.modulo
      (Z.add v
        (Z.pow (Zpos (Coq_xO Coq_xH)) (Zpos (Coq_xI (Coq_xI (Coq_xI (Coq_xI
          (Coq_xI Coq_xH))))))))
      (Z.pow (Zpos (Coq_xO Coq_xH)) (Zpos (Coq_xO (Coq_xO (Coq_xO (Coq_xO
        (Coq_xO (Coq_xO Coq_xH)))))))))
    (Z.pow (Zpos (Coq_xO Coq_xH)) (Zpos (Coq_xI (Coq_xI (Coq_xI (Coq_xI
      (Coq_xI Coq_xH)))))))

(** val max_data_size : cfg -> coq_Z **)

let max_data_size c =
  gd_wrap64
    (Z.mul
      (if Z.ltb c.bufsize guards_data_min_bufsize
       then guards_data_min_bufsize
       else c.bufsize) guards_data_factor)

type data_res =
| DReject
| DFinish
| DRead of coq_Z

(** val recv_binary_data_v2 : cfg -> coq_N list -> data_res **)

let recv_binary_data_v2 c s =
  match gd_parse_int64 s with
  | Some n ->
    if Z.eqb n Z0
    then DFinish
    else if (||) (Z.ltb n Z0) (Z.gtb n (max_data_size c))
         then DReject
         else DRead n
  | None -> DReject

(** val recv_binary_data_v1 : cfg -> coq_N list -> data_res **)

let recv_binary_data_v1 c s =
  match gd_parse_int64 s with
  | Some n ->
    if (||) (Z.ltb n Z0) (Z.gtb n (max_data_size c)) then DReject else DRead n
  | None -> DReject

(** val guards_makeslice_max : coq_Z **)

let guards_makeslice_max =
  Z.pow (Zpos (Coq_xO Coq_xH)) (Zpos (Coq_xO (Coq_xO (Coq_xO (Coq_xO (Coq_xI
    Coq_xH))))))

type hash_res =
| HInvalid
| HPanic
| HShort
| HOk of coq_Z

type hrec = { h_step : coq_Z; h_good : bool }

(** val recv_hashes :
    bool -> coq_Z -> coq_Z -> coq_Z -> bool -> hrec list -> (coq_Z * bool)
    list * hash_res **)

let rec recv_hashes fixed fsize pos ms m = function
| [] -> ([], (HOk ms))
| h :: r ->
  if negb m
  then recv_hashes fixed fsize pos ms m r
  else let step = Z.sub h.h_step ms in
       if (&&) fixed ((||) (Z.leb step Z0) (Z.gtb step guards_hash_step))
       then ([], HInvalid)
       else if Z.ltb step Z0
            then ([], HPanic)
            else if Z.gtb step guards_makeslice_max
                 then ([], HPanic)
                 else if Z.ltb (Z.sub fsize pos) step
                      then ([], HShort)
                      else let m' = h.h_good in
                           let ms' = if m' then h.h_step else ms in
                           let (acks, res) =
                             recv_hashes fixed fsize (Z.add pos step) ms' m' r
                           in
                           (((h.h_step, m') :: acks), res)

(** val recv_current_ack :
    coq_N list -> coq_N list -> (coq_Z * coq_Z) option **)

let recv_current_ack a b =
  match gd_parse_int64 a with
  | Some l ->
    (match gd_parse_int64 b with
     | Some s -> Some (l, s)
     | None -> None)
  | None -> None

type fack =
| FCancel
| FForward of coq_Z * bool

(** val recv_final_ack : coq_Z -> coq_N list -> fack **)

let recv_final_ack size s =
  match gd_parse_int64 s with
  | Some st ->
    if Z.gtb st size then FCancel else FForward (st, (Z.eqb st size))
  | None -> FCancel

(** val recv_final_acks :
    coq_Z -> coq_N list list -> coq_Z list * bool option **)

let rec recv_final_acks size = function
| [] -> ([], None)
| s :: r ->
  (match recv_final_ack size s with
   | FCancel -> ([], (Some false))
   | FForward (st, done0) ->
     if done0
     then ((st :: []), (Some true))
     else let (f, e) = recv_final_acks size r in ((st :: f), e))

(** val pane_sanitize : coq_Z -> coq_Z -> coq_Z **)

let pane_sanitize term pane =
  if Z.gtb pane term then Z0 else pane

(** val bar_columns_of : coq_Z -> coq_Z -> coq_Z **)

let bar_columns_of term pane =
  if Z.gtb pane (Zpos Coq_xH) then Z.sub pane (Zpos Coq_xH) else term

(** val bar_columns : coq_Z -> coq_Z -> coq_Z **)

let bar_columns term pane =
  bar_columns_of term (pane_sanitize term pane)

(** val recv_config_pane : jnum -> coq_Z option **)

let recv_config_pane j =
  gd_json_int (Zpos (Coq_xO (Coq_xO (Coq_xO (Coq_xO (Coq_xO Coq_xH)))))) Z0 j

(** val recv_config :
    jnum -> jnum -> jnum -> jnum -> (((coq_Z * coq_Z) * coq_Z) * coq_Z) option **)

let recv_config jb jp jt jpr =
  match recv_config_bufsize jb with
  | Some b ->
    (match recv_config_pane jp with
     | Some p ->
       (match gd_json_int (Zpos (Coq_xO (Coq_xO (Coq_xO (Coq_xO (Coq_xO
                (Coq_xO Coq_xH))))))) guards_default_timeout jt with
        | Some t ->
          (match gd_json_int (Zpos (Coq_xO (Coq_xO (Coq_xO (Coq_xO (Coq_xO
                   (Coq_xO Coq_xH))))))) Z0 jpr with
           | Some pr -> Some (((b, p), t), pr)
           | None -> None)
        | None -> None)
     | None -> None)
  | None -> None

(** val gd_parse_version :
    coq_N list -> coq_N list -> coq_N list -> ((coq_Z * coq_Z) * coq_Z) option **)

let gd_parse_version a b c =
  match gd_parse_uint32 a with
  | Some x ->
    (match gd_parse_uint32 b with
     | Some y ->
       (match gd_parse_uint32 c with
        | Some z -> Some ((x, y), z)
        | None -> None)
     | None -> None)
  | None -> None

(** val gd_target_size : jnum -> coq_Z option **)

let gd_target_size j =
  match gd_json_int (Zpos (Coq_xO (Coq_xO (Coq_xO (Coq_xO (Coq_xO (Coq_xO
          Coq_xH))))))) Z0 j with
  | Some v -> if Z.ltb v Z0 then None else Some v
  | None -> None

type gd_chunk_time =
| GdFast
| GdMid
| GdSlow of coq_Z

type gd_ack = { ga_len : coq_Z; ga_time : gd_chunk_time }

(** val gd_min64 : coq_Z -> coq_Z -> coq_Z **)

let gd_min64 a b =
  if Z.ltb a b then a else b

(** val gd_is_fast : gd_chunk_time -> bool **)

let gd_is_fast = function
| GdFast -> true
| _ -> false

(** val gd_bufsize_step : coq_Z -> coq_Z -> gd_ack -> coq_Z **)

let gd_bufsize_step maxbuf bs a =
  if (&&) ((&&) (Z.eqb a.ga_len bs) (gd_is_fast a.ga_time)) (Z.ltb bs maxbuf)
  then gd_min64 (gd_wrap64 (Z.mul bs guards_grow_factor)) maxbuf
  else (match a.ga_time with
        | GdSlow k ->
          if Z.leb a.ga_len bs
          then let q = Z.quot bs k in
               if Z.ltb q guards_min_chunk then guards_min_chunk else q
          else bs
        | _ -> bs)

(** val gd_bufsize_run : coq_Z -> coq_Z -> gd_ack list -> coq_Z list **)

let rec gd_bufsize_run maxbuf bs = function
| [] -> bs :: []
| a :: r -> bs :: (gd_bufsize_run maxbuf (gd_bufsize_step maxbuf bs a) r)

(** val gd_capacities : coq_Z -> gd_ack list -> coq_Z list **)

let gd_capacities maxbuf l =
  gd_bufsize_run maxbuf guards_init_buffer_size l

(** val gd_bufsize_step_v1 : coq_Z -> coq_Z -> gd_ack -> coq_Z **)

let gd_bufsize_step_v1 maxbuf bs a =
  if (&&) ((&&) (Z.eqb a.ga_len bs) (gd_is_fast a.ga_time)) (Z.ltb bs maxbuf)
  then gd_min64 (gd_wrap64 (Z.mul bs guards_grow_factor)) maxbuf
  else (match a.ga_time with
        | GdSlow _ ->
          if Z.gtb bs guards_v1_init_bufsize
          then guards_v1_init_bufsize
          else bs
        | _ -> bs)

(** val gd_bufsize_run_v1 : coq_Z -> coq_Z -> gd_ack list -> coq_Z list **)

let rec gd_bufsize_run_v1 maxbuf bs = function
| [] -> bs :: []
| a :: r ->
  bs :: (gd_bufsize_run_v1 maxbuf (gd_bufsize_step_v1 maxbuf bs a) r)

(** val gd_bufsize_step_ms :
    coq_Z -> coq_Z -> coq_Z -> coq_Z -> coq_Z -> coq_Z option **)

let gd_bufsize_step_ms thr maxbuf bs len ms =
  if (&&) ((&&) (Z.eqb len bs) (Z.ltb ms guards_ack_fast_ms))
       (Z.ltb bs maxbuf)
  then Some (gd_min64 (gd_wrap64 (Z.mul bs guards_grow_factor)) maxbuf)
  else if (&&) (Z.leb thr ms) (Z.leb len bs)
       then let k =
              Z.div ms (Zpos (Coq_xO (Coq_xO (Coq_xO (Coq_xI (Coq_xO (Coq_xI
                (Coq_xI (Coq_xI (Coq_xI Coq_xH))))))))))
            in
            if Z.eqb k Z0
            then None
            else Some
                   (let q = Z.quot bs k in
                    if Z.ltb q guards_min_chunk then guards_min_chunk else q)
       else Some bs

(** val gd_bufsize_run_ms :
    coq_Z -> coq_Z -> coq_Z -> (coq_Z * coq_Z) list -> coq_Z list option **)

let rec gd_bufsize_run_ms thr maxbuf bs = function
| [] -> Some (bs :: [])
| p :: r ->
  let (len, ms) = p in
  (match gd_bufsize_step_ms thr maxbuf bs len ms with
   | Some bs' ->
     (match gd_bufsize_run_ms thr maxbuf bs' r with
      | Some rest -> Some (bs :: rest)
      | None -> None)
   | None -> None)

(** val gd_capacities_ms :
    coq_Z -> (coq_Z * coq_Z) list -> coq_Z list option **)

let gd_capacities_ms maxbuf l =
  gd_bufsize_run_ms guards_ack_slow_ms maxbuf guards_init_buffer_size l

type gd_aw_way =
| GdAwToFile
| GdAwHeader
| GdAwNilDeref

(** val gd_aw_dispatch : bool -> coq_Z -> bool -> gd_aw_way **)

let gd_aw_dispatch nilcheck left has_file =
  if Z.ltb Z0 left
  then if has_file
       then GdAwToFile
       else if nilcheck then GdAwHeader else GdAwNilDeref
  else GdAwHeader

(** val gd_aw_after_header : bool -> coq_Z -> coq_Z * bool **)

let gd_aw_after_header is_dir size =
  (size, (negb is_dir))

(** val gd_aw_ways :
    bool -> coq_Z -> bool -> ((bool * coq_Z) * nat) list -> gd_aw_way list **)

let rec gd_aw_ways nilcheck left has_file = function
| [] -> []
| p :: r ->
  let (p0, k) = p in
  let (d, sz) = p0 in
  let (l1, f1) = gd_aw_after_header d sz in
  (gd_aw_dispatch nilcheck left has_file) :: (app
                                               (repeat
                                                 (gd_aw_dispatch nilcheck l1
                                                   f1) k)
                                               (gd_aw_ways nilcheck l1 f1 r))

type gd_split =
| GdSplitReject
| GdSplitPanic
| GdSplitOk of coq_N list * coq_N list

(** val gd_line_split : coq_Z -> coq_N list -> gd_split **)

let gd_line_split min_idx line =
  match index_byte (Npos (Coq_xO (Coq_xI (Coq_xO (Coq_xI (Coq_xI Coq_xH))))))
          line with
  | Some i ->
    if Z.ltb (Z.of_nat i) min_idx
    then GdSplitReject
    else if Nat.ltb i (S O)
         then GdSplitPanic
         else GdSplitOk ((firstn (sub i (S O)) (skipn (S O) line)),
                (skipn (S i) line))
  | None ->
    if Z.ltb (Zneg Coq_xH) min_idx then GdSplitReject else GdSplitPanic
