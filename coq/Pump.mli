open BinNat
open Buffer0
open Bytes0
open Consts
open Datatypes
open List0
open PeanoNat

type src_ev =
| SrcData of byte list
| SrcEnd of byte list

val chop : nat -> nat -> byte list -> byte list list

val nonempty_chunks : byte list list -> byte list list

val pump_reads : nat -> bool -> src_ev list -> byte list list

val delivered : bool -> src_ev list -> byte list

val add_received : bool -> bool -> bool -> byte list -> pending -> pending

val add_handshake : bool -> bool -> bool -> bool

val transfer_buf_size : nat

val filter_buf_size : nat

val relay_stdin_buf_size : nat

val relay_stdout_buf_size : nat

val tunnel_in_buf_size : nat

val tunnel_out_buf_size : nat

val pump_transfer : nat -> bool -> bool -> bool -> src_ev list -> pending

val pump_filter : nat -> bool -> bool -> src_ev list -> pending

val pump_relay :
  nat -> bool -> bool -> bool -> src_ev list -> pending * byte list list

type pump_kind =
| PTransfer
| PFilter
| PRelayIn
| PRelayOut
| PTunnelIn
| PTunnelOut

val pump_run :
  pump_kind -> bool -> bool -> bool -> src_ev list -> op list -> (result
  list * byte list list) * byte list list
