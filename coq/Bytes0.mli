open BinNat
open BinNums
open Datatypes

type byte = coq_N

val coq_LF : byte

val coq_CR : byte

val nonempty : 'a1 list -> bool

val list_eqb : coq_N list -> coq_N list -> bool

val has_prefix : coq_N list -> coq_N list -> bool

val index_of : coq_N list -> coq_N list -> nat option

val last_index_of : coq_N list -> coq_N list -> nat option

val contains : coq_N list -> coq_N list -> bool

val index_byte : coq_N -> coq_N list -> nat option

val is_digit : coq_N -> bool
