open Buffer0
open Bytes0
open Datatypes
open List0
open Nat0
open Noise
open Wire

val ww_wire : bool -> byte list -> (bool * byte list) list -> byte list

val ww_line_part : bool -> nat -> byte list -> byte list

val ww_recv :
  nat -> nat -> pending -> (byte list list * (nat * pending)) option
