open Base64
open BinNat
open BinNums
open Bytes0
open Consts
open Datatypes
open Escape
open List0
open PeanoNat

val wire_letter : byte -> bool

val wire_fmt : byte list -> byte list list -> byte list

val wire_dec_go : nat -> coq_N -> byte list -> byte list

val wire_dec : coq_N -> byte list

val wire_undec_go : coq_N -> byte list -> coq_N option

val wire_undec : byte list -> coq_N option

val wire_line : byte list -> byte list -> byte list -> byte list

val wire_int_line : byte list -> coq_N -> byte list -> byte list

val wire_pause_line : byte list -> byte list -> byte list

val wire_ack_line : coq_N -> coq_N -> byte list -> byte list

val wire_data_frame : bool -> byte list -> byte list -> byte list

val wire_data_piece : bool -> byte list -> byte list -> byte list

val wire_frames_go :
  byte list -> byte list -> nat -> nat list -> nat -> byte list list

val wire_frames : nat list -> nat -> byte list -> byte list list

val wire_resplit :
  byte list list -> nat list -> nat -> (bool * byte list) list

val wire_render_piece : bool -> byte list -> (bool * byte list) -> byte list

val wire_split_lf : byte list -> (byte list * byte list) option

val wire_split_colon : byte list -> (byte list * byte list) option

val wire_check : byte list -> byte list -> byte list option

val wire_DATA : byte list

val wire_recv :
  nat -> bool -> byte list -> (byte list list * byte list) option

val wire_encode :
  (byte list list -> byte list list) -> bool -> bool -> table -> byte list
  list -> byte list

val wire_decode :
  (byte list -> byte list option) -> bool -> bool -> table -> byte list list
  -> nat list -> nat -> byte list option

val wire_encode_bytes : (byte list -> byte list) -> byte list -> byte list

val wire_decode_string :
  (byte list -> byte list option) -> byte list -> byte list option

val wire_v1_chunk :
  (byte list -> byte list) -> bool -> table -> byte list -> byte list -> byte
  list

val wire_v1_decode :
  (byte list -> byte list option) -> bool -> table -> byte list -> byte list
  option

val wire_v1_recv :
  (byte list -> byte list option) -> bool -> table -> byte list -> (byte
  list * byte list) option
