open BinNat
open BinNums
open Consts
open Datatypes
open List0
open Nat0
open PeanoNat
open Tunnel
open TunnelRelay

type rtr_ev =
| RtrConnect
| RtrWriteC of nat * coq_N list
| RtrCloseC of nat
| RtrDial of nat * bool
| RtrWriteS of nat * coq_N list
| RtrCloseS of nat
| RtrConnector of bool
| RtrReset

type rtr_state = rt_state * bool

(** val rtr_pending : rt_state -> nat list **)

let rtr_pending s =
  filter (fun c ->
    match nth_error s.r_pairs c with
    | Some p -> (match p.p_pc with
                 | RtPending -> true
                 | _ -> false)
    | None -> false) (seq O (length s.r_pairs))

(** val rtr_handler_ready : rt_state -> nat -> bool **)

let rtr_handler_ready s c =
  match nth_error s.r_pairs c with
  | Some p -> (match p.p_pc with
               | RtDial -> false
               | _ -> true)
  | None -> false

(** val rtr_pump_try :
    coq_N list -> coq_N list -> coq_N list -> coq_N list -> bool -> rt_state
    -> nat -> rt_dir -> rt_state option **)

let rtr_pump_try ch1 sh4 ch2 sh3 hs s c d =
  match nth_error s.r_pairs c with
  | Some p ->
    (match p.p_br with
     | Some b ->
       (match rt_src_end d p with
        | Some e ->
          (match rt_step ch1 sh4 ch2 sh3 s (RLPump (c, d,
                   (Nat.min (length e.e_rx) (N.to_nat rtunnel_pump_bufsize)),
                   ((&&) hs b.b_relay))) with
           | Some s' -> Some s'
           | None ->
             (match rt_step ch1 sh4 ch2 sh3 s (RLPumpEof (c, d)) with
              | Some s' -> Some s'
              | None -> rt_step ch1 sh4 ch2 sh3 s (RLPumpExit (c, d))))
        | None -> None)
     | None -> None)
  | None -> None

(** val rtr_once :
    coq_N list -> coq_N list -> coq_N list -> coq_N list -> bool -> rt_state
    -> rt_state option **)

let rtr_once ch1 sh4 ch2 sh3 hs s =
  let idx = seq O (length s.r_pairs) in
  (match rt_step ch1 sh4 ch2 sh3 s RLCheck with
   | Some s' -> Some s'
   | None ->
     (match first_some (fun c -> rt_step ch1 sh4 ch2 sh3 s (RLAccept c))
              (rtr_pending s) with
      | Some s' -> Some s'
      | None ->
        (match rt_step ch1 sh4 ch2 sh3 s RLAcceptErr with
         | Some s' -> Some s'
         | None ->
           (match first_some (fun c ->
                    if rtr_handler_ready s c
                    then rt_step ch1 sh4 ch2 sh3 s (RLHandler (c, None,
                           false))
                    else None) idx with
            | Some s' -> Some s'
            | None ->
              (match first_some (fun c ->
                       match rt_step ch1 sh4 ch2 sh3 s (RLWriter (c, RdIn)) with
                       | Some s' -> Some s'
                       | None ->
                         rt_step ch1 sh4 ch2 sh3 s (RLWriter (c, RdOut))) idx with
               | Some s' -> Some s'
               | None ->
                 first_some (fun c ->
                   match rtr_pump_try ch1 sh4 ch2 sh3 hs s c RdIn with
                   | Some s' -> Some s'
                   | None -> rtr_pump_try ch1 sh4 ch2 sh3 hs s c RdOut) idx)))))

(** val rtr_settle :
    nat -> coq_N list -> coq_N list -> coq_N list -> coq_N list -> bool ->
    rt_state -> rt_state **)

let rec rtr_settle fuel ch1 sh4 ch2 sh3 hs s =
  match fuel with
  | O -> s
  | S f ->
    (match rtr_once ch1 sh4 ch2 sh3 hs s with
     | Some s' -> rtr_settle f ch1 sh4 ch2 sh3 hs s'
     | None -> s)

(** val rtr_push_c : nat -> pev -> rt_state -> rt_state **)

let rtr_push_c c e s =
  rt_upd_pair s c (fun p ->
    rt_set_cli { e_script = (app p.p_cli.e_script (e :: [])); e_rx =
      p.p_cli.e_rx; e_eof = p.p_cli.e_eof; e_tx = p.p_cli.e_tx; e_closed =
      p.p_cli.e_closed } p)

(** val rtr_push_s : nat -> pev -> rt_state -> rt_state **)

let rtr_push_s c e s =
  rt_upd_pair s c (fun p ->
    match p.p_srv with
    | Some e0 ->
      rt_set_srv { e_script = (app e0.e_script (e :: [])); e_rx = e0.e_rx;
        e_eof = e0.e_eof; e_tx = e0.e_tx; e_closed = e0.e_closed } p
    | None -> p)

(** val rtr_or : rt_state -> rt_state option -> rt_state **)

let rtr_or s = function
| Some s' -> s'
| None -> s

(** val rtr_fuel : rt_state -> nat **)

let rtr_fuel s =
  add
    (add (S (S (S (S (S (S (S (S (S (S (S (S (S (S (S (S (S (S (S (S (S (S (S
      (S (S (S (S (S (S (S (S (S (S (S (S (S (S (S (S (S
      O))))))))))))))))))))))))))))))))))))))))
      (mul (S (S (S (S (S (S (S (S (S (S (S (S (S (S (S (S (S (S (S (S (S (S
        (S (S (S (S (S (S (S (S (S (S (S (S (S (S (S (S (S (S
        O)))))))))))))))))))))))))))))))))))))))) (length s.r_pairs)))
    (mul (S (S (S (S O))))
      (length
        (concat
          (map (fun p ->
            app p.p_cli.e_rx
              (match p.p_srv with
               | Some e -> e.e_rx
               | None -> [])) s.r_pairs))))

(** val rtr_apply :
    coq_N list -> coq_N list -> coq_N list -> coq_N list -> rtr_state ->
    rtr_ev -> rtr_state **)

let rtr_apply ch1 sh4 ch2 sh3 st e =
  let (s, hs) = st in
  let step = rt_step ch1 sh4 ch2 sh3 in
  let (s1, hs1) =
    match e with
    | RtrConnect -> ((rtr_or s (step s (RLConnect []))), hs)
    | RtrWriteC (c, bs) ->
      let s0 = rtr_push_c c (PWrite bs) s in
      ((rtr_or s0 (step s0 (RLPeerC c))), hs)
    | RtrCloseC c ->
      let s0 = rtr_push_c c PClose s in
      ((rtr_or s0 (step s0 (RLPeerC c))), hs)
    | RtrDial (c, ok) ->
      ((rtr_or s
         (step s (RLHandler (c, (if ok then Some [] else None), false)))), hs)
    | RtrWriteS (c, bs) ->
      let s0 = rtr_push_s c (PWrite bs) s in
      ((rtr_or s0 (step s0 (RLPeerS c))), hs)
    | RtrCloseS c ->
      let s0 = rtr_push_s c PClose s in
      ((rtr_or s0 (step s0 (RLPeerS c))), hs)
    | RtrConnector v -> ((rtr_or s (step s (RLSetConnector v))), hs)
    | RtrReset -> ((rtr_or s (step s RLReset)), false)
  in
  ((rtr_settle (rtr_fuel s1) ch1 sh4 ch2 sh3 hs1 s1), hs1)

(** val rtr_replay :
    coq_N list -> coq_Z -> coq_Z -> rtr_ev list -> rt_state **)

let rtr_replay uid sport rport evs =
  fst
    (fold_left
      (rtr_apply (client_hello uid rport) (server_hello uid rport)
        (client_hello uid sport) (server_hello uid sport)) evs (rt_init,
      true))
