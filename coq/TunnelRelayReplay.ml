open BinNat
open BinNums
open Consts
open Datatypes
open List0
open Nat0
open PeanoNat
open Tunnel
open TunnelRelay

type rtr_ev =
| RtrConnect
| RtrWriteC of nat * coq_N list
| RtrCloseC of nat
| RtrDial of nat * bool
| RtrWriteS of nat * coq_N list
| RtrCloseS of nat
| RtrConnector of bool
| RtrInband of rt_dir * coq_N list
| RtrHsRead of bool * bool * bool
| RtrReset

(** val rtr_tok_act : coq_N list **)

let rtr_tok_act =
  (Npos (Coq_xI (Coq_xI (Coq_xO (Coq_xO (Coq_xO Coq_xH)))))) :: ((Npos
    (Coq_xI (Coq_xO (Coq_xO (Coq_xO (Coq_xO (Coq_xO Coq_xH))))))) :: ((Npos
    (Coq_xI (Coq_xI (Coq_xO (Coq_xO (Coq_xO (Coq_xO Coq_xH))))))) :: ((Npos
    (Coq_xO (Coq_xO (Coq_xI (Coq_xO (Coq_xI (Coq_xO Coq_xH))))))) :: ((Npos
    (Coq_xO (Coq_xI (Coq_xO Coq_xH)))) :: []))))

(** val rtr_tok_cfg : coq_N list **)

let rtr_tok_cfg =
  (Npos (Coq_xI (Coq_xI (Coq_xO (Coq_xO (Coq_xO Coq_xH)))))) :: ((Npos
    (Coq_xI (Coq_xI (Coq_xO (Coq_xO (Coq_xO (Coq_xO Coq_xH))))))) :: ((Npos
    (Coq_xO (Coq_xI (Coq_xI (Coq_xO (Coq_xO (Coq_xO Coq_xH))))))) :: ((Npos
    (Coq_xI (Coq_xI (Coq_xI (Coq_xO (Coq_xO (Coq_xO Coq_xH))))))) :: ((Npos
    (Coq_xO (Coq_xI (Coq_xO Coq_xH)))) :: []))))

(** val rtr_tok_fail : coq_N list **)

let rtr_tok_fail =
  (Npos (Coq_xI (Coq_xI (Coq_xO (Coq_xO (Coq_xO Coq_xH)))))) :: ((Npos
    (Coq_xO (Coq_xI (Coq_xI (Coq_xO (Coq_xO (Coq_xO Coq_xH))))))) :: ((Npos
    (Coq_xI (Coq_xO (Coq_xO (Coq_xO (Coq_xO (Coq_xO Coq_xH))))))) :: ((Npos
    (Coq_xI (Coq_xO (Coq_xO (Coq_xI (Coq_xO (Coq_xO Coq_xH))))))) :: ((Npos
    (Coq_xO (Coq_xO (Coq_xI (Coq_xI (Coq_xO (Coq_xO Coq_xH))))))) :: ((Npos
    (Coq_xO (Coq_xI (Coq_xO Coq_xH)))) :: [])))))

(** val rtr_line_len : coq_N list -> nat option **)

let rec rtr_line_len = function
| [] -> None
| b :: r ->
  if N.eqb b (Npos (Coq_xO (Coq_xI (Coq_xO Coq_xH))))
  then Some (S O)
  else (match rtr_line_len r with
        | Some n -> Some (S n)
        | None -> None)

(** val rtr_hs_auto :
    coq_N list -> coq_N list -> coq_N list -> coq_N list -> rt_state ->
    rt_state option **)

let rtr_hs_auto ch1 sh4 ch2 sh3 s =
  match s.r_x.x_pc with
  | HsRecvAct -> None
  | HsSendAct _ -> rt_step ch1 sh4 ch2 sh3 s (RLHs rtr_tok_act)
  | HsRecvCfg -> None
  | HsSendCfg -> rt_step ch1 sh4 ch2 sh3 s (RLHs rtr_tok_cfg)
  | HsErr1 -> rt_step ch1 sh4 ch2 sh3 s (RLHs rtr_tok_fail)
  | HsErr2 -> rt_step ch1 sh4 ch2 sh3 s (RLHs rtr_tok_fail)
  | HsIdle -> None
  | _ -> rt_step ch1 sh4 ch2 sh3 s (RLHs [])

(** val rtr_pending : rt_state -> nat list **)

let rtr_pending s =
  filter (fun c ->
    match nth_error s.r_pairs c with
    | Some p -> (match p.p_pc with
                 | RtPending -> true
                 | _ -> false)
    | None -> false) (seq O (length s.r_pairs))

(** val rtr_handler_ready : rt_state -> nat -> bool **)

let rtr_handler_ready s c =
  match nth_error s.r_pairs c with
  | Some p -> (match p.p_pc with
               | RtDial -> false
               | _ -> true)
  | None -> false

(** val rtr_pump_try :
    coq_N list -> coq_N list -> coq_N list -> coq_N list -> rt_state -> nat
    -> rt_dir -> rt_state option **)

let rtr_pump_try ch1 sh4 ch2 sh3 s c d =
  match nth_error s.r_pairs c with
  | Some p ->
    (match p.p_br with
     | Some _ ->
       (match rt_src_end d p with
        | Some e ->
          (match rt_step ch1 sh4 ch2 sh3 s (RLPump (c, d,
                   (Nat.min (length e.e_rx) (N.to_nat rtunnel_pump_bufsize)))) with
           | Some s' -> Some s'
           | None ->
             (match rt_step ch1 sh4 ch2 sh3 s (RLPumpEof (c, d)) with
              | Some s' -> Some s'
              | None -> rt_step ch1 sh4 ch2 sh3 s (RLPumpExit (c, d))))
        | None -> None)
     | None -> None)
  | None -> None

(** val rtr_once :
    coq_N list -> coq_N list -> coq_N list -> coq_N list -> rt_state ->
    rt_state option **)

let rtr_once ch1 sh4 ch2 sh3 s =
  let idx = seq O (length s.r_pairs) in
  (match rt_step ch1 sh4 ch2 sh3 s RLCheck with
   | Some s' -> Some s'
   | None ->
     (match first_some (fun c -> rt_step ch1 sh4 ch2 sh3 s (RLAccept c))
              (rtr_pending s) with
      | Some s' -> Some s'
      | None ->
        (match rt_step ch1 sh4 ch2 sh3 s RLAcceptErr with
         | Some s' -> Some s'
         | None ->
           (match first_some (fun c ->
                    if rtr_handler_ready s c
                    then rt_step ch1 sh4 ch2 sh3 s (RLHandler (c, None,
                           false))
                    else None) idx with
            | Some s' -> Some s'
            | None ->
              (match rtr_hs_auto ch1 sh4 ch2 sh3 s with
               | Some s' -> Some s'
               | None ->
                 (match first_some (fun c ->
                          match rt_step ch1 sh4 ch2 sh3 s (RLWriter (c, RdIn)) with
                          | Some s' -> Some s'
                          | None ->
                            rt_step ch1 sh4 ch2 sh3 s (RLWriter (c, RdOut)))
                          idx with
                  | Some s' -> Some s'
                  | None ->
                    first_some (fun c ->
                      match rtr_pump_try ch1 sh4 ch2 sh3 s c RdIn with
                      | Some s' -> Some s'
                      | None -> rtr_pump_try ch1 sh4 ch2 sh3 s c RdOut) idx))))))

(** val rtr_settle :
    nat -> coq_N list -> coq_N list -> coq_N list -> coq_N list -> rt_state
    -> rt_state **)

let rec rtr_settle fuel ch1 sh4 ch2 sh3 s =
  match fuel with
  | O -> s
  | S f ->
    (match rtr_once ch1 sh4 ch2 sh3 s with
     | Some s' -> rtr_settle f ch1 sh4 ch2 sh3 s'
     | None -> s)

(** val rtr_push_c : nat -> pev -> rt_state -> rt_state **)

let rtr_push_c c e s =
  rt_upd_pair s c (fun p ->
    rt_set_cli { e_script = (app p.p_cli.e_script (e :: [])); e_rx =
      p.p_cli.e_rx; e_eof = p.p_cli.e_eof; e_tx = p.p_cli.e_tx; e_closed =
      p.p_cli.e_closed } p)

(** val rtr_push_s : nat -> pev -> rt_state -> rt_state **)

let rtr_push_s c e s =
  rt_upd_pair s c (fun p ->
    match p.p_srv with
    | Some e0 ->
      rt_set_srv { e_script = (app e0.e_script (e :: [])); e_rx = e0.e_rx;
        e_eof = e0.e_eof; e_tx = e0.e_tx; e_closed = e0.e_closed } p
    | None -> p)

(** val rtr_or : rt_state -> rt_state option -> rt_state **)

let rtr_or s = function
| Some s' -> s'
| None -> s

(** val rtr_fuel : rt_state -> nat **)

let rtr_fuel s =
  add
    (add
      (add (S (S (S (S (S (S (S (S (S (S (S (S (S (S (S (S (S (S (S (S (S (S
        (S (S (S (S (S (S (S (S (S (S (S (S (S (S (S (S (S (S (S (S (S (S (S
        (S (S (S (S (S (S (S (S (S (S (S (S (S (S (S
        O))))))))))))))))))))))))))))))))))))))))))))))))))))))))))))
        (mul (S (S (S (S (S (S (S (S (S (S (S (S (S (S (S (S (S (S (S (S (S
          (S (S (S (S (S (S (S (S (S (S (S (S (S (S (S (S (S (S (S
          O)))))))))))))))))))))))))))))))))))))))) (length s.r_pairs)))
      (mul (S (S (S (S O))))
        (add (length s.r_x.x_bufin) (length s.r_x.x_bufout))))
    (mul (S (S (S (S O))))
      (length
        (concat
          (map (fun p ->
            app p.p_cli.e_rx
              (match p.p_srv with
               | Some e -> e.e_rx
               | None -> [])) s.r_pairs))))

(** val rtr_hs_read :
    coq_N list -> coq_N list -> coq_N list -> coq_N list -> rt_state -> bool
    -> bool -> bool -> rt_state **)

let rtr_hs_read ch1 sh4 ch2 sh3 s ok tun conf =
  let buf =
    match s.r_x.x_pc with
    | HsRecvCfg -> s.r_x.x_bufout
    | _ -> s.r_x.x_bufin
  in
  let all = concat (map snd buf) in
  let k = match rtr_line_len all with
          | Some n -> n
          | None -> length all in
  rtr_or s (rt_step ch1 sh4 ch2 sh3 s (RLHsRead (k, ok, tun, conf)))

(** val rtr_apply :
    coq_N list -> coq_N list -> coq_N list -> coq_N list -> rt_state ->
    rtr_ev -> rt_state **)

let rtr_apply ch1 sh4 ch2 sh3 s e =
  let step = rt_step ch1 sh4 ch2 sh3 in
  let s1 =
    match e with
    | RtrConnect -> rtr_or s (step s (RLConnect []))
    | RtrWriteC (c, bs) ->
      let s0 = rtr_push_c c (PWrite bs) s in rtr_or s0 (step s0 (RLPeerC c))
    | RtrCloseC c ->
      let s0 = rtr_push_c c PClose s in rtr_or s0 (step s0 (RLPeerC c))
    | RtrDial (c, ok) ->
      rtr_or s (step s (RLHandler (c, (if ok then Some [] else None), false)))
    | RtrWriteS (c, bs) ->
      let s0 = rtr_push_s c (PWrite bs) s in rtr_or s0 (step s0 (RLPeerS c))
    | RtrCloseS c ->
      let s0 = rtr_push_s c PClose s in rtr_or s0 (step s0 (RLPeerS c))
    | RtrConnector v -> rtr_or s (step s (RLSetConnector v))
    | RtrInband (d, bs) -> rtr_or s (step s (RLInband (d, bs)))
    | RtrHsRead (ok, tun, conf) -> rtr_hs_read ch1 sh4 ch2 sh3 s ok tun conf
    | RtrReset -> rtr_or s (step s RLReset)
  in
  rtr_settle (rtr_fuel s1) ch1 sh4 ch2 sh3 s1

(** val rtr_replay :
    coq_N list -> coq_Z -> coq_Z -> rtr_ev list -> rt_state **)

let rtr_replay uid sport rport evs =
  fold_left
    (rtr_apply (client_hello uid rport) (server_hello uid rport)
      (client_hello uid sport) (server_hello uid sport)) evs rt_init
