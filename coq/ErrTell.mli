open Datatypes
open List0

type et_pname =
| PTraceBack
| PRemoteExit
| PRemoteFail
| PStopAndDelete

type et_var =
| VTrace
| VTyp

type et_word =
| WFail
| WFAIL
| WOther

val et_pname_eqb : et_pname -> et_pname -> bool

val et_var_eqb : et_var -> et_var -> bool

type et_type =
| EtNone
| EtFail
| EtFAIL
| EtEXIT
| EtOther

type et_err = { et_trz : bool; et_typ : et_type; et_trace : bool;
                et_sad : bool }

type et_env = { et_flag : bool; et_deleted : bool; et_window : bool }

type et_bexp =
| BTypeIs of et_type
| BTrace
| BMsgSad
| BNil
| BConst of bool
| BNot of et_bexp
| BAnd of et_bexp * et_bexp
| BOr of et_bexp * et_bexp
| BUnknownExp

type et_pred = { ep_name : et_pname; ep_guards : (et_bexp * bool) list;
                 ep_final : et_bexp }

val et_type_eqb : et_type -> et_type -> bool

val et_bval : et_err -> et_bexp -> bool * bool

val et_guards : et_err -> (et_bexp * bool) list -> et_bexp -> bool * bool

val et_find : et_pred list -> et_pname -> et_pred option

type et_cond =
| CIsTrz
| CPred of et_pname
| CFlag
| CDeleted
| CWindow
| CVar of et_var
| CConst of bool
| CNot of et_cond
| CAnd of et_cond * et_cond
| COr of et_cond * et_cond
| CUnknownCond

type et_sexp =
| SLit of et_word
| SVar of et_var

type et_stmt =
| TClean
| TSetBool of et_var * et_cond
| TSetStr of et_var * et_word
| TDelete
| TSend of et_sexp * bool
| TSwitchWriter
| TExit of bool
| TIf of et_cond * et_stmt list * et_stmt list
| TReturn
| TUnknownStmt

type et_act =
| AClean
| ADelete
| ASend of et_word * bool * bool
| AExit of bool

type et_state = { es_bools : (et_var * bool) list;
                  es_strs : (et_var * et_word) list; es_deleted_known : 
                  bool; es_tunnel : bool; es_acts : et_act list;
                  es_ret : bool; es_ok : bool }

val et_init : et_state

val et_lookup : (et_var * 'a1) list -> et_var -> 'a1 option

val et_cval :
  et_pred list -> et_err -> et_env -> et_state -> bool -> et_cond ->
  bool * bool

val et_mark : et_state -> bool -> et_state

val et_emit : et_state -> et_act -> et_state

val et_is_istrz : et_cond -> bool

val et_exec :
  et_pred list -> et_err -> et_env -> bool -> et_stmt -> et_state -> et_state

val et_run_from :
  et_pred list -> et_err -> et_env -> et_stmt list -> et_state -> et_state

val et_run :
  et_pred list -> et_stmt list -> et_err -> et_env -> et_act list * bool

val et_victim : et_err -> bool
