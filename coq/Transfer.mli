open Archive
open BinInt
open BinNat
open BinNums
open Bytes0
open Consts
open Datatypes
open Escape
open Fs
open List0
open Names
open Nat0
open Path
open PeanoNat
open Resume
open Wire

type tr_cfg = { tc_proto : coq_N; tc_binary : bool; tc_directory : bool;
                tc_overwrite : bool; tc_ctype : coq_N; tc_table : table;
                tc_upload : bool }

val tr_pipeline : tr_cfg -> bool

val tr_json_names : tr_cfg -> bool

val tr_json : tr_cfg -> bool

val tr_names_cfg : tr_cfg -> config

val tr_rule_cond : coq_N -> coq_N -> tr_cfg -> coq_N -> bool

val tr_comp_val : coq_N -> tr_cfg -> bool

val tr_rules_eval :
  (((coq_N * coq_N) * bool) * coq_N) list -> tr_cfg -> coq_N -> bool * bool

val tr_is_compress_fixed : tr_cfg -> coq_N -> bool * bool

type tr_entry = { te_id : coq_Z; te_rel : name list; te_isdir : bool;
                  te_chunks : byte list list; te_subs : tr_entry list }

val te_data : tr_entry -> byte list

val te_size : tr_entry -> coq_N

val te_name : tr_entry -> name

type tr_sched = { sc_sizes : nat list; sc_dflt : nat; sc_profit : bool;
                  sc_steps : coq_N list; sc_prefinal : coq_N list;
                  sc_hstops : nat option; sc_rsizes : nat list;
                  sc_rdflt : nat; sc_wsizes : nat list; sc_wdflt : nat }

val tr_add_name : name list -> name -> name list

val tr_blen : byte list -> coq_N

val tr_has_subs : tr_entry -> bool

val tr_archive_mode : tr_cfg -> bool

val tr_same_id : tr_entry -> (tr_entry * tr_sched) -> bool

val tr_with_subs : tr_entry -> tr_entry list -> tr_entry

val tr_group_go :
  nat -> (tr_entry * tr_sched) list -> (tr_entry * tr_sched) list

val tr_group :
  tr_cfg -> (tr_entry * tr_sched) list -> (tr_entry * tr_sched) list

val tr_ameta : tr_entry -> ameta

val tr_aentry : tr_entry -> aentry

val tr_anode : anode -> node

val tr_graft : fs -> path -> afs -> fs

val tr_set_fs : state -> fs -> state

val tr_graft_st : state -> path -> afs -> state

val tr_set_file : state -> path -> byte list -> state

val tr_old_content : state -> path -> byte list

val tr_skip_chunks : nat -> byte list list -> byte list list

val tr_rem_entry : tr_entry -> coq_Z -> tr_entry

val tr_hash_B : coq_N

type tr_npayload =
| TrPlain of name
| TrJson of src * coq_N

type 'digest tr_msg =
| TrNum of coq_N
| TrName of tr_npayload
| TrSize of coq_N
| TrComp of bool
| TrData of byte list
| TrMd5 of 'digest
| TrExit of name list
| TrHash of coq_Z * digest
| TrHashOver
| TrSuccInt of coq_N
| TrSuccName of name
| TrSuccTarget of name * coq_N
| TrSuccAck of coq_N * coq_N
| TrSuccDigest of 'digest
| TrSuccHack of coq_Z * bool
| TrKeepAlive
| TrFail

val tr_payload : tr_cfg -> tr_entry -> tr_npayload

val tr_compress : tr_cfg -> tr_entry -> tr_sched -> bool * 'a1 tr_msg list

val tr_frames :
  (byte list list -> byte list list) -> tr_cfg -> tr_entry -> tr_sched ->
  byte list list

val tr_v1_chunks : tr_entry -> tr_sched -> byte list list

val tr_v1_payload :
  (byte list -> byte list) -> tr_cfg -> byte list -> byte list

val tr_hdr_of :
  (src -> coq_Z -> byte list) -> coq_Z -> name -> ameta -> byte list

val tr_parse_of :
  (byte list -> (src * coq_Z) option) -> coq_Z -> byte list -> ameta option

val tr_arch_hdr :
  (src -> coq_Z -> byte list) -> tr_entry -> ameta -> byte list

val tr_arch_entries : tr_entry -> aentry list

val tr_arch_size : (src -> coq_Z -> byte list) -> tr_entry -> coq_Z

val tr_arch_entry :
  (src -> coq_Z -> byte list) -> tr_entry -> tr_sched -> tr_entry option

val tr_unarchive :
  (byte list -> (src * coq_Z) option) -> coq_Z -> tr_sched -> byte list ->
  afs option

val tr_hmsg : hmsg -> 'a1 tr_msg

val tr_hack : ack -> 'a1 tr_msg

val tr_resume_size : tr_entry -> coq_N -> nat

val tr_resume_pre : tr_cfg -> tr_entry -> 'a1 tr_msg list

type tr_sphase =
| SpNum
| SpName
| SpHash of coq_Z * coq_Z
| SpSize
| SpAcks of coq_N list
| SpFinal
| SpV1 of byte list list * coq_N
| SpMd5
| SpExit
| SpDone
| SpFail

type tr_sstate = { ss_phase : tr_sphase;
                   ss_todo : (tr_entry * tr_sched) list; ss_names : name list }

val tr_s_fail : tr_sstate -> tr_sstate * 'a1 tr_msg list

val tr_s_stay : tr_sstate -> tr_sstate * 'a1 tr_msg list

val tr_s_next :
  tr_cfg -> (tr_entry * tr_sched) list -> name list -> tr_sstate * 'a1 tr_msg
  list

val tr_sender_init :
  tr_cfg -> (tr_entry * tr_sched) list -> tr_sstate * 'a1 tr_msg list

val tr_s_md5 :
  (byte list -> 'a1) -> tr_sstate -> tr_entry -> tr_sstate * 'a1 tr_msg list

val tr_s_size :
  tr_entry -> tr_sched -> (tr_entry * tr_sched) list -> name list -> coq_N ->
  tr_sstate * 'a1 tr_msg list

val tr_s_resume :
  (byte list -> digest) -> tr_cfg -> tr_entry -> tr_sched ->
  (tr_entry * tr_sched) list -> name list -> coq_N -> tr_sstate * 'a1 tr_msg
  list

val tr_s_named :
  (byte list -> digest) -> (src -> coq_Z -> byte list) -> tr_cfg -> tr_sstate
  -> tr_entry -> tr_sched -> (tr_entry * tr_sched) list -> name -> coq_N ->
  tr_sstate * 'a1 tr_msg list

val tr_s_data :
  (byte list -> 'a1) -> (byte list list -> byte list list) -> (byte list ->
  byte list) -> tr_cfg -> tr_sstate -> tr_entry -> tr_sched ->
  tr_sstate * 'a1 tr_msg list

val tr_s_hack :
  tr_sstate -> coq_Z -> coq_Z -> coq_Z -> bool -> tr_sstate * 'a1 tr_msg list

val tr_sender :
  (byte list -> 'a1) -> ('a1 -> 'a1 -> bool) -> (byte list list -> byte list
  list) -> (byte list -> byte list) -> (byte list -> digest) -> (src -> coq_Z
  -> byte list) -> tr_cfg -> tr_sstate -> 'a1 tr_msg -> tr_sstate * 'a1
  tr_msg list

val tr_create :
  tr_cfg -> path -> tr_npayload -> byte list -> state -> Names.result * state

val tr_p_isdir : tr_npayload -> bool

val tr_p_archive : tr_npayload -> bool

val tr_p_tail : tr_npayload -> name list

val tr_p_aid : tr_npayload -> coq_Z

val tr_p_size : tr_npayload -> coq_N

val tr_leaf : path -> name -> tr_npayload -> path

val tr_target_size : path -> name -> tr_npayload -> state -> coq_N

type tr_rphase =
| RpNum
| RpName
| RpHSize of tr_npayload * path * byte list
| RpHash of tr_npayload * path * byte list * coq_N * rstate
| RpSize of tr_npayload
| RpComp of tr_npayload * coq_N
| RpData of tr_npayload * coq_N * bool * byte list list * coq_N list
| RpV1 of tr_npayload * coq_N * byte list
| RpMd5 of tr_npayload * byte list
| RpExit
| RpDone
| RpFail

type tr_rstate = { rs_phase : tr_rphase; rs_left : nat; rs_st : state;
                   rs_names : name list; rs_sched : tr_sched list;
                   rs_open : ((path * file) * coq_Z) option }

val tr_r_fail : tr_rstate -> tr_rstate * 'a1 tr_msg list

val tr_r_stay : tr_rstate -> tr_rstate * 'a1 tr_msg list

val tr_r_phase : tr_rstate -> tr_rphase -> tr_rstate

val tr_r_next :
  tr_cfg -> nat -> state -> name list -> tr_sched list -> tr_rstate * 'a1
  tr_msg list

val tr_receiver_init : fs -> tr_sched list -> tr_rstate

val tr_dflt_sched : tr_sched

val tr_cur_sched : tr_rstate -> tr_sched

val tr_r_done :
  tr_cfg -> tr_rstate -> state -> 'a1 tr_msg list -> tr_rstate * 'a1 tr_msg
  list

val tr_r_name :
  tr_cfg -> path -> tr_rstate -> tr_npayload -> tr_rstate * 'a1 tr_msg list

val tr_r_hash :
  (byte list -> digest) -> tr_rstate -> tr_npayload -> path -> byte list ->
  coq_N -> rstate -> coq_Z -> digest -> tr_rstate * 'a1 tr_msg list

val tr_r_over :
  tr_rstate -> tr_npayload -> path -> byte list -> coq_N -> rstate ->
  tr_rstate * 'a1 tr_msg list

val tr_rest_mismatch : tr_rstate -> coq_N -> bool

val tr_r_size :
  tr_cfg -> tr_rstate -> tr_npayload -> coq_N -> tr_rstate * 'a1 tr_msg list

val tr_rdflt : nat

val tr_complete :
  (byte list -> (src * coq_Z) option) -> tr_cfg -> path -> tr_rstate ->
  tr_npayload -> byte list -> state option

val tr_r_frame :
  (byte list -> byte list option) -> (byte list -> (src * coq_Z) option) ->
  tr_cfg -> tr_rstate -> tr_npayload -> coq_N -> bool -> byte list list ->
  coq_N list -> byte list -> tr_rstate * 'a1 tr_msg list

val tr_r_v1 :
  (byte list -> byte list option) -> tr_cfg -> tr_rstate -> tr_npayload ->
  coq_N -> byte list -> byte list -> tr_rstate * 'a1 tr_msg list

val tr_r_md5 :
  (byte list -> 'a1) -> ('a1 -> 'a1 -> bool) -> (byte list -> (src * coq_Z)
  option) -> tr_cfg -> path -> tr_rstate -> tr_npayload -> byte list -> 'a1
  -> tr_rstate * 'a1 tr_msg list

val tr_receiver :
  (byte list -> 'a1) -> ('a1 -> 'a1 -> bool) -> (byte list -> byte list
  option) -> (byte list -> byte list option) -> (byte list -> digest) ->
  (byte list -> (src * coq_Z) option) -> tr_cfg -> path -> tr_rstate -> 'a1
  tr_msg -> tr_rstate * 'a1 tr_msg list

type 'digest tr_conf = { cf_s : tr_sstate; cf_r : tr_rstate;
                         cf_s2r : 'digest tr_msg list;
                         cf_r2s : 'digest tr_msg list;
                         cf_log : (bool * 'digest tr_msg) list }

val tr_tag_out : bool -> 'a1 tr_msg list -> (bool * 'a1 tr_msg) list

val tr_step :
  (byte list -> 'a1) -> ('a1 -> 'a1 -> bool) -> (byte list list -> byte list
  list) -> (byte list -> byte list option) -> (byte list -> byte list) ->
  (byte list -> byte list option) -> (byte list -> digest) -> (src -> coq_Z
  -> byte list) -> (byte list -> (src * coq_Z) option) -> tr_cfg -> path ->
  'a1 tr_conf -> 'a1 tr_conf option

val tr_run_from :
  (byte list -> 'a1) -> ('a1 -> 'a1 -> bool) -> (byte list list -> byte list
  list) -> (byte list -> byte list option) -> (byte list -> byte list) ->
  (byte list -> byte list option) -> (byte list -> digest) -> (src -> coq_Z
  -> byte list) -> (byte list -> (src * coq_Z) option) -> nat -> tr_cfg ->
  path -> 'a1 tr_conf -> 'a1 tr_conf

val tr_init : tr_cfg -> (tr_entry * tr_sched) list -> fs -> 'a1 tr_conf

val tr_run_items :
  (byte list -> 'a1) -> ('a1 -> 'a1 -> bool) -> (byte list list -> byte list
  list) -> (byte list -> byte list option) -> (byte list -> byte list) ->
  (byte list -> byte list option) -> (byte list -> digest) -> (src -> coq_Z
  -> byte list) -> (byte list -> (src * coq_Z) option) -> nat -> tr_cfg ->
  path -> (tr_entry * tr_sched) list -> fs -> 'a1 tr_conf

val tr_run :
  (byte list -> 'a1) -> ('a1 -> 'a1 -> bool) -> (byte list list -> byte list
  list) -> (byte list -> byte list option) -> (byte list -> byte list) ->
  (byte list -> byte list option) -> (byte list -> digest) -> (src -> coq_Z
  -> byte list) -> (byte list -> (src * coq_Z) option) -> nat -> tr_cfg ->
  path -> (tr_entry * tr_sched) list -> fs -> 'a1 tr_conf

val tr_sender_ok : 'a1 tr_conf -> bool

val tr_receiver_ok : 'a1 tr_conf -> bool

val tr_quiet : 'a1 tr_conf -> bool

val tr_resume_run :
  (byte list -> digest) -> tr_cfg -> tr_entry -> tr_sched -> byte list ->
  result

val tr_spec_entry :
  (byte list -> digest) -> (src -> coq_Z -> byte list) -> (byte list ->
  (src * coq_Z) option) -> tr_cfg -> path -> tr_entry -> tr_sched -> state ->
  (name * state) option

val tr_spec :
  (byte list -> digest) -> (src -> coq_Z -> byte list) -> (byte list ->
  (src * coq_Z) option) -> tr_cfg -> path -> (tr_entry * tr_sched) list ->
  state -> name list -> ((name list * name list) * state) option

val tr_tail_steps :
  (byte list list -> byte list list) -> tr_cfg -> tr_entry -> tr_sched -> nat

val tr_entry_steps :
  (byte list list -> byte list list) -> (byte list -> digest) -> (src ->
  coq_Z -> byte list) -> tr_cfg -> path -> tr_entry -> tr_sched -> state ->
  nat

val tr_fuel_go :
  (byte list list -> byte list list) -> (byte list -> digest) -> (src ->
  coq_Z -> byte list) -> (byte list -> (src * coq_Z) option) -> tr_cfg ->
  path -> (tr_entry * tr_sched) list -> state -> nat

val tr_fuel_items :
  (byte list list -> byte list list) -> (byte list -> digest) -> (src ->
  coq_Z -> byte list) -> (byte list -> (src * coq_Z) option) -> tr_cfg ->
  path -> (tr_entry * tr_sched) list -> fs -> nat

val tr_fuel :
  (byte list list -> byte list list) -> (byte list -> digest) -> (src ->
  coq_Z -> byte list) -> (byte list -> (src * coq_Z) option) -> tr_cfg ->
  path -> (tr_entry * tr_sched) list -> fs -> nat

type tr_tag =
| TgNum
| TgSucc
| TgName
| TgSize
| TgComp
| TgData
| TgFinish
| TgAck
| TgMd5
| TgExit
| TgHash
| TgOver
| TgHack
| TgOther

val tr_tag_of : 'a1 tr_msg -> tr_tag

type tr_q =
| Q0
| Q1
| Q2
| Q3
| Q4
| Q5
| Q6
| Q7
| Q8
| Q9
| Q10
| Q11
| QH
| QO
| QE

val tr_delta : bool -> tr_q -> tr_tag -> tr_q option

val tr_accepts_from : bool -> tr_q -> tr_tag list -> tr_q option

val tr_shape_ok : bool -> (bool * 'a1 tr_msg) list -> bool

val tr_p_head : tr_npayload -> name

val tr_tail : tr_cfg -> tr_entry -> name list

val tr_key : tr_cfg -> tr_entry -> name

val tr_nodupb : ('a1 -> 'a1 -> bool) -> 'a1 list -> bool

val tr_first_top : coq_Z list -> tr_entry list -> bool

val tr_subs_wfb : tr_entry -> bool

val tr_wfb : tr_cfg -> tr_entry list -> bool
