open BinNat
open BinNums
open Bytes0
open Consts
open Datatypes
open List0
open Nat0
open PeanoNat

type cfg = { cT : nat; cSL : nat; cGL : nat; cP3 : bool }

(** val cfg_of : coq_N -> coq_Z -> coq_N -> cfg **)

let cfg_of unit_ms timeout_s protocol =
  { cT =
    (match timeout_s with
     | Zpos p ->
       N.to_nat (N.div (N.mul (Npos p) pause_timeout_unit_ms) unit_ms)
     | _ -> O); cSL = (N.to_nat (N.div pause_reader_sleep_ms unit_ms)); cGL =
    (N.to_nat (N.div pause_gate_sleep_ms unit_ms)); cP3 =
    (N.leb pause_protocol3 protocol) }

type timer = nat option

(** val fresh : cfg -> timer **)

let fresh cf =
  match cf.cT with
  | O -> None
  | S n -> Some (S n)

(** val dec : timer -> timer **)

let dec t = match t with
| Some n -> (match n with
             | O -> t
             | S r -> Some r)
| None -> t

(** val fired : timer -> bool **)

let fired = function
| Some n -> (match n with
             | O -> true
             | S _ -> false)
| None -> false

type lclass =
| CKeep
| CGood
| CNoColon
| CWrongType

(** val classify : coq_N list -> coq_N list -> lclass **)

let classify expect line =
  match index_byte pause_colon line with
  | Some n ->
    (match n with
     | O -> CNoColon
     | S i ->
       if list_eqb (firstn i (skipn (S O) line)) expect
       then if list_eqb (skipn (S (S i)) line) pause_keepalive_tested
            then CKeep
            else CGood
       else CWrongType)
  | None -> CNoColon

(** val payload_of : coq_N list -> coq_N list **)

let payload_of line =
  match index_byte pause_colon line with
  | Some i -> skipn (S i) line
  | None -> []

(** val keepalive_line : coq_N list -> coq_N list **)

let keepalive_line typ =
  (Npos (Coq_xI (Coq_xI (Coq_xO (Coq_xO (Coq_xO
    Coq_xH)))))) :: (app typ (pause_colon :: pause_keepalive_written))

type rcore = { pausing : bool; pidx : nat; pbt : bool; stopped : bool;
               tmo : timer; ntmo : timer; rbt : bool; pflag : bool }

(** val upd_pflag : rcore -> bool -> rcore **)

let upd_pflag c b =
  { pausing = c.pausing; pidx = c.pidx; pbt = c.pbt; stopped = c.stopped;
    tmo = c.tmo; ntmo = c.ntmo; rbt = c.rbt; pflag = b }

(** val upd_stopped : rcore -> rcore **)

let upd_stopped c =
  { pausing = c.pausing; pidx = c.pidx; pbt = c.pbt; stopped = true; tmo =
    c.tmo; ntmo = c.ntmo; rbt = c.rbt; pflag = c.pflag }

(** val upd_timers : rcore -> timer -> timer -> rcore **)

let upd_timers c t nt =
  { pausing = c.pausing; pidx = c.pidx; pbt = c.pbt; stopped = c.stopped;
    tmo = t; ntmo = nt; rbt = c.rbt; pflag = c.pflag }

(** val consume_rbt : rcore -> rcore **)

let consume_rbt c =
  { pausing = c.pausing; pidx = c.pidx; pbt = c.pbt; stopped = c.stopped;
    tmo = c.tmo; ntmo = c.ntmo; rbt = false; pflag = true }

(** val do_pause : rcore -> rcore **)

let do_pause c =
  if c.pbt
  then { pausing = true; pidx = c.pidx; pbt = true; stopped = c.stopped;
         tmo = c.tmo; ntmo = c.ntmo; rbt = c.rbt; pflag = c.pflag }
  else { pausing = true; pidx = (S c.pidx); pbt = true; stopped = c.stopped;
         tmo = c.tmo; ntmo = c.ntmo; rbt = c.rbt; pflag = c.pflag }

(** val do_resume : cfg -> rcore -> bool -> rcore **)

let do_resume cf c reading =
  { pausing = false; pidx = c.pidx; pbt = false; stopped = c.stopped; tmo =
    c.tmo; ntmo = (fresh cf); rbt = reading; pflag = c.pflag }

type phase =
| PIdle
| PGate of nat * nat
| PRead of nat

(** val is_read : phase -> bool **)

let is_read = function
| PRead _ -> true
| _ -> false

type 'l ev =
| ETick
| EArrive of 'l
| EPause
| EResume
| EStop
| ECall

type 'l out =
| ODelivered of 'l * bool
| OTimeout of bool
| OStopped of bool
| OBadLine of bool

type 'l rstate = { core : rcore; queue : 'l list; ph : phase }

(** val arm : cfg -> rcore -> rcore **)

let arm cf c =
  { pausing = c.pausing; pidx = c.pidx; pbt = c.pbt; stopped = c.stopped;
    tmo = (fresh cf); ntmo = None; rbt = false; pflag = c.pflag }

type 'l pre_res =
| PExit of rcore * phase * 'l out option
| PGo of rcore * nat

(** val gate_check : cfg -> rcore -> nat -> 'a1 pre_res **)

let gate_check cf c snap =
  if (&&) cf.cP3 c.pausing
  then if c.stopped
       then PExit ((upd_pflag c true), PIdle, (Some (OStopped true)))
       else PExit ((upd_pflag c true), (PGate (snap, cf.cSL)), None)
  else if c.stopped
       then PExit (c, PIdle, (Some (OStopped c.pflag)))
       else PGo ((arm cf c), snap)

type entry =
| AtTop
| AfterGate of nat
| GotLine of nat

(** val pre : cfg -> entry -> rcore -> 'a1 pre_res **)

let pre cf e c =
  match e with
  | AtTop -> gate_check cf c (if cf.cP3 then c.pidx else O)
  | AfterGate snap -> gate_check cf c snap
  | GotLine snap -> PGo (c, snap)

(** val rd :
    ('a1 -> lclass) -> cfg -> 'a1 list -> entry -> rcore -> 'a1 rstate * 'a1
    out option **)

let rec rd cls cf q e c =
  match pre cf e c with
  | PExit (c', p, o) -> ({ core = c'; queue = q; ph = p }, o)
  | PGo (c', snap) ->
    (match q with
     | [] -> ({ core = c'; queue = []; ph = (PRead snap) }, None)
     | l :: q' ->
       (match cls l with
        | CKeep ->
          if cf.cP3
          then rd cls cf q' AtTop (upd_pflag c' true)
          else ({ core = c'; queue = q'; ph = PIdle }, (Some (ODelivered (l,
                 c'.pflag))))
        | CGood ->
          if (&&) cf.cP3 c'.rbt
          then ({ core = (consume_rbt c'); queue = q'; ph = PIdle }, (Some
                 (ODelivered (l, true))))
          else ({ core = c'; queue = q'; ph = PIdle }, (Some (ODelivered (l,
                 c'.pflag))))
        | _ ->
          ({ core = c'; queue = q'; ph = PIdle }, (Some (OBadLine c'.pflag)))))

(** val on_timeout :
    ('a1 -> lclass) -> cfg -> 'a1 list -> nat -> rcore -> 'a1 rstate * 'a1
    out option **)

let on_timeout cls cf q snap c =
  if c.stopped
  then ({ core = c; queue = q; ph = PIdle }, (Some (OStopped c.pflag)))
  else if (&&) cf.cP3 (Nat.ltb snap c.pidx)
       then rd cls cf q AtTop (upd_pflag c true)
       else ({ core = c; queue = q; ph = PIdle }, (Some (OTimeout c.pflag)))

(** val rtick :
    ('a1 -> lclass) -> cfg -> 'a1 rstate -> 'a1 rstate * 'a1 out option **)

let rtick cls cf s =
  let c = upd_timers s.core (dec s.core.tmo) (dec s.core.ntmo) in
  (match s.ph with
   | PIdle -> ({ core = c; queue = s.queue; ph = PIdle }, None)
   | PGate (snap, slp) ->
     (match slp with
      | O -> rd cls cf s.queue (AfterGate snap) c
      | S n ->
        (match n with
         | O -> rd cls cf s.queue (AfterGate snap) c
         | S k ->
           ({ core = c; queue = s.queue; ph = (PGate (snap, (S k))) }, None)))
   | PRead snap ->
     if fired c.tmo
     then (match c.ntmo with
           | Some r ->
             let c1 = upd_timers c (Some r) None in
             if fired c1.tmo
             then on_timeout cls cf s.queue snap c1
             else ({ core = c1; queue = s.queue; ph = (PRead snap) }, None)
           | None -> on_timeout cls cf s.queue snap c)
     else ({ core = c; queue = s.queue; ph = (PRead snap) }, None))

(** val rstep :
    ('a1 -> lclass) -> cfg -> 'a1 rstate -> 'a1 ev -> 'a1 rstate * 'a1 out
    option **)

let rstep cls cf s = function
| ETick -> rtick cls cf s
| EArrive l ->
  if s.core.stopped
  then (s, None)
  else (match s.ph with
        | PRead snap ->
          rd cls cf (app s.queue (l :: [])) (GotLine snap) s.core
        | x ->
          ({ core = s.core; queue = (app s.queue (l :: [])); ph = x }, None))
| EPause -> ({ core = (do_pause s.core); queue = s.queue; ph = s.ph }, None)
| EResume ->
  ({ core = (do_resume cf s.core (is_read s.ph)); queue = s.queue; ph =
    s.ph }, None)
| EStop ->
  if s.core.stopped
  then (s, None)
  else (match s.ph with
        | PRead _ ->
          ({ core = (upd_stopped s.core); queue = s.queue; ph = PIdle },
            (Some (OStopped s.core.pflag)))
        | x ->
          ({ core = (upd_stopped s.core); queue = s.queue; ph = x }, None))
| ECall ->
  (match s.ph with
   | PIdle -> rd cls cf s.queue AtTop (upd_pflag s.core false)
   | _ -> (s, None))

(** val rrun :
    ('a1 -> lclass) -> cfg -> 'a1 rstate -> 'a1 ev list -> 'a1 rstate * 'a1
    out option list **)

let rec rrun cls cf s = function
| [] -> (s, [])
| e :: es' ->
  let (s1, o) = rstep cls cf s e in
  let (s2, os) = rrun cls cf s1 es' in (s2, (o :: os))

(** val core0 : rcore **)

let core0 =
  { pausing = false; pidx = O; pbt = false; stopped = false; tmo = None;
    ntmo = None; rbt = false; pflag = false }

(** val rinit : 'a1 rstate **)

let rinit =
  { core = core0; queue = []; ph = PIdle }

type sphase =
| SIdle
| SSleep of nat
| SPassed

type wout =
| WKeep
| WFrame
| WStopErr

(** val gate_enter : cfg -> bool -> bool -> sphase * wout list **)

let gate_enter cf pausing0 stopped0 =
  if (&&) cf.cP3 pausing0
  then if stopped0
       then (SIdle, (WStopErr :: []))
       else ((SSleep cf.cGL), (WKeep :: []))
  else if stopped0 then (SIdle, (WStopErr :: [])) else (SPassed, [])

type sev =
| SCall
| STick
| SWrite
| SPauseEv
| SResumeEv
| SStopEv

type sstate = { s_pausing : bool; s_stopped : bool; s_ph : sphase }

(** val sphase_step :
    cfg -> bool -> bool -> sphase -> sev -> sphase * wout list **)

let sphase_step cf pausing0 stopped0 p = function
| SCall ->
  (match p with
   | SIdle -> gate_enter cf pausing0 stopped0
   | _ -> (p, []))
| STick ->
  (match p with
   | SSleep slp ->
     (match slp with
      | O -> gate_enter cf pausing0 stopped0
      | S n ->
        (match n with
         | O -> gate_enter cf pausing0 stopped0
         | S k -> ((SSleep (S k)), [])))
   | _ -> (p, []))
| SWrite -> (match p with
             | SPassed -> (SIdle, (WFrame :: []))
             | _ -> (p, []))
| _ -> (p, [])

(** val sstep : cfg -> sstate -> sev -> sstate * wout list **)

let sstep cf s e = match e with
| SPauseEv ->
  ({ s_pausing = true; s_stopped = s.s_stopped; s_ph = s.s_ph }, [])
| SResumeEv ->
  ({ s_pausing = false; s_stopped = s.s_stopped; s_ph = s.s_ph }, [])
| SStopEv ->
  ({ s_pausing = s.s_pausing; s_stopped = true; s_ph = s.s_ph }, [])
| _ ->
  let (p, w) = sphase_step cf s.s_pausing s.s_stopped s.s_ph e in
  ({ s_pausing = s.s_pausing; s_stopped = s.s_stopped; s_ph = p }, w)

(** val srun : cfg -> sstate -> sev list -> sstate * wout list **)

let rec srun cf s = function
| [] -> (s, [])
| e :: es' ->
  let (s1, w) = sstep cf s e in
  let (s2, ws) = srun cf s1 es' in (s2, (app w ws))

(** val count_keeps : wout list -> nat **)

let count_keeps ws =
  length (filter (fun w -> match w with
                           | WKeep -> true
                           | _ -> false) ws)

type wline =
| WLKeep
| WLData of nat

(** val cls_w : wline -> lclass **)

let cls_w = function
| WLKeep -> CKeep
| WLData _ -> CGood

(** val cls_a : nat -> lclass **)

let cls_a _ =
  CGood

type csph =
| CSGate of nat
| CSIn of nat * sphase
| CSPush of nat
| CSDone

type epi =
| EpNone
| EpPausing of nat
| EpResumed of nat * nat

type cstate = { cA : nat rstate; cAcked : nat; cS : csph; cCnt : nat;
                cR : wline rstate; cDeliv : nat list; cErrA : bool;
                cErrR : bool; cEp : epi }

type cev =
| XTick
| XPause
| XResume
| XSCall
| XSWrite
| XSPush
| XRCall
| XATake

(** val slack : cfg -> nat **)

let slack cf =
  Nat.max cf.cSL cf.cGL

(** val set_A : cstate -> nat rstate -> nat -> bool -> cstate **)

let set_A s a acked err =
  { cA = a; cAcked = acked; cS = s.cS; cCnt = s.cCnt; cR = s.cR; cDeliv =
    s.cDeliv; cErrA = err; cErrR = s.cErrR; cEp = s.cEp }

(** val feedA : cfg -> cstate -> nat ev -> cstate **)

let feedA cf s e =
  let (a, o) = rstep cls_a cf s.cA e in
  (match o with
   | Some o0 ->
     (match o0 with
      | ODelivered (_, _) -> set_A s a (S s.cAcked) s.cErrA
      | _ -> set_A s a s.cAcked true)
   | None -> set_A s a s.cAcked s.cErrA)

(** val feedR : cfg -> cstate -> wline ev -> cstate **)

let feedR cf s e =
  let (r, o) = rstep cls_w cf s.cR e in
  (match o with
   | Some o0 ->
     (match o0 with
      | ODelivered (l, _) ->
        (match l with
         | WLKeep ->
           { cA = s.cA; cAcked = s.cAcked; cS = s.cS; cCnt = s.cCnt; cR = r;
             cDeliv = s.cDeliv; cErrA = s.cErrA; cErrR = true; cEp = s.cEp }
         | WLData k ->
           feedA cf { cA = s.cA; cAcked = s.cAcked; cS = s.cS; cCnt = s.cCnt;
             cR = r; cDeliv = (app s.cDeliv (k :: [])); cErrA = s.cErrA;
             cErrR = s.cErrR; cEp = s.cEp } (EArrive k))
      | _ ->
        { cA = s.cA; cAcked = s.cAcked; cS = s.cS; cCnt = s.cCnt; cR = r;
          cDeliv = s.cDeliv; cErrA = s.cErrA; cErrR = true; cEp = s.cEp })
   | None ->
     { cA = s.cA; cAcked = s.cAcked; cS = s.cS; cCnt = s.cCnt; cR = r;
       cDeliv = s.cDeliv; cErrA = s.cErrA; cErrR = s.cErrR; cEp = s.cEp })

(** val set_S : cstate -> csph -> cstate **)

let set_S s p =
  { cA = s.cA; cAcked = s.cAcked; cS = p; cCnt = s.cCnt; cR = s.cR; cDeliv =
    s.cDeliv; cErrA = s.cErrA; cErrR = s.cErrR; cEp = s.cEp }

(** val set_cnt : cstate -> nat -> cstate **)

let set_cnt s c =
  { cA = s.cA; cAcked = s.cAcked; cS = s.cS; cCnt = c; cR = s.cR; cDeliv =
    s.cDeliv; cErrA = s.cErrA; cErrR = s.cErrR; cEp = s.cEp }

(** val set_ep : cstate -> epi -> cstate **)

let set_ep s e =
  { cA = s.cA; cAcked = s.cAcked; cS = s.cS; cCnt = s.cCnt; cR = s.cR;
    cDeliv = s.cDeliv; cErrA = s.cErrA; cErrR = s.cErrR; cEp = e }

(** val emit : cfg -> cstate -> nat -> wout list -> cstate **)

let rec emit cf s k = function
| [] -> s
| w :: ws' ->
  (match w with
   | WKeep -> emit cf (feedR cf s (EArrive WLKeep)) k ws'
   | WFrame -> emit cf (feedR cf s (EArrive (WLData k))) k ws'
   | WStopErr -> emit cf s k ws')

(** val our_pausing : cstate -> bool **)

let our_pausing s =
  s.cA.core.pausing

(** val our_stopped : cstate -> bool **)

let our_stopped s =
  s.cA.core.stopped

(** val s_move : cfg -> cstate -> nat -> sphase -> sev -> cstate **)

let s_move cf s k p e =
  let (p', ws) = sphase_step cf (our_pausing s) (our_stopped s) p e in
  let s1 = emit cf s k ws in
  (match p' with
   | SIdle ->
     (match e with
      | SWrite -> set_S s1 (CSPush k)
      | _ -> set_S s1 (CSIn (k, p')))
   | _ -> set_S s1 (CSIn (k, p')))

(** val r_live : nat -> cstate -> bool **)

let r_live n s =
  Nat.ltb (length s.cDeliv) n

(** val quiescent : nat -> nat -> cstate -> bool **)

let quiescent n w s =
  (&&)
    ((&&)
      (match s.cS with
       | CSGate _ -> false
       | CSIn (_, p) -> (match p with
                         | SSleep _ -> true
                         | _ -> false)
       | CSPush _ -> Nat.leb w s.cCnt
       | CSDone -> true)
      (negb (match s.cR.ph with
             | PIdle -> r_live n s
             | _ -> false)))
    (negb (match s.cA.ph with
           | PIdle -> Nat.ltb O s.cCnt
           | _ -> false))

(** val ep_pause : epi -> epi **)

let ep_pause = function
| EpNone -> EpPausing O
| EpPausing e0 -> EpPausing e0
| EpResumed (e0, j) -> EpPausing (add e0 j)

(** val ep_tick : cfg -> epi -> epi **)

let ep_tick cf = function
| EpNone -> EpNone
| EpPausing e0 -> EpPausing (S e0)
| EpResumed (e0, j) ->
  if Nat.ltb (S j) (slack cf) then EpResumed (e0, (S j)) else EpNone

(** val cstep : cfg -> nat -> nat -> nat -> cstate -> cev -> cstate option **)

let cstep cf n w p s = function
| XTick ->
  if (&&) (quiescent n w s)
       (match s.cEp with
        | EpPausing e -> Nat.ltb e p
        | _ -> true)
  then let s1 = feedA cf (feedR cf s ETick) ETick in
       let s2 =
         match s1.cS with
         | CSIn (k, p0) ->
           (match p0 with
            | SSleep j -> s_move cf s1 k (SSleep j) STick
            | _ -> s1)
         | _ -> s1
       in
       Some (set_ep s2 (ep_tick cf s.cEp))
  else None
| XPause ->
  (match s.cEp with
   | EpResumed (_, _) -> None
   | _ -> Some (set_ep (feedA cf s EPause) (ep_pause s.cEp)))
| XResume ->
  (match s.cEp with
   | EpPausing e ->
     if our_pausing s
     then Some (set_ep (feedA cf s EResume) (EpResumed (e, O)))
     else None
   | _ -> None)
| XSCall ->
  (match s.cS with
   | CSGate k -> Some (s_move cf s k SIdle SCall)
   | _ -> None)
| XSWrite ->
  (match s.cS with
   | CSIn (k, p0) ->
     (match p0 with
      | SPassed -> Some (s_move cf s k SPassed SWrite)
      | _ -> None)
   | _ -> None)
| XSPush ->
  (match s.cS with
   | CSPush k ->
     if Nat.ltb s.cCnt w
     then Some
            (set_S (set_cnt s (S s.cCnt))
              (if Nat.ltb (S k) n then CSGate (S k) else CSDone))
     else None
   | _ -> None)
| XRCall ->
  (match s.cR.ph with
   | PIdle -> if r_live n s then Some (feedR cf s ECall) else None
   | _ -> None)
| XATake ->
  (match s.cA.ph with
   | PIdle ->
     (match s.cCnt with
      | O -> None
      | S c -> Some (feedA cf (set_cnt s c) ECall))
   | _ -> None)

(** val crun :
    cfg -> nat -> nat -> nat -> cstate -> cev list -> cstate option **)

let rec crun cf n w p s = function
| [] -> Some s
| x :: xs' ->
  (match cstep cf n w p s x with
   | Some s' -> crun cf n w p s' xs'
   | None -> None)

(** val cinit : nat -> cstate **)

let cinit n =
  { cA = rinit; cAcked = O; cS =
    (match n with
     | O -> CSDone
     | S _ -> CSGate O); cCnt = O; cR = rinit; cDeliv = []; cErrA = false;
    cErrR = false; cEp = EpNone }

type aph =
| AIdle
| AGate of nat
| ARead

type rph =
| RIdle
| RRead of nat

type ast = { xPausing : bool; xA : aph; xAq : nat; xAcked : nat; xS : 
             csph; xCnt : nat; xR : rph; xRq : wline list; xDeliv : nat list;
             xBad : bool; xEp : epi }

(** val first_data : wline list -> (nat * wline list) option **)

let rec first_data = function
| [] -> None
| w :: q' -> (match w with
              | WLKeep -> first_data q'
              | WLData k -> Some (k, q'))

(** val x_ack : ast -> ast **)

let x_ack a =
  match a.xA with
  | ARead ->
    { xPausing = a.xPausing; xA = AIdle; xAq = a.xAq; xAcked = (S a.xAcked);
      xS = a.xS; xCnt = a.xCnt; xR = a.xR; xRq = a.xRq; xDeliv = a.xDeliv;
      xBad = a.xBad; xEp = a.xEp }
  | _ ->
    { xPausing = a.xPausing; xA = a.xA; xAq = (S a.xAq); xAcked = a.xAcked;
      xS = a.xS; xCnt = a.xCnt; xR = a.xR; xRq = a.xRq; xDeliv = a.xDeliv;
      xBad = a.xBad; xEp = a.xEp }

(** val x_deliver : ast -> rph -> wline list -> nat -> ast **)

let x_deliver a r q k =
  x_ack { xPausing = a.xPausing; xA = a.xA; xAq = a.xAq; xAcked = a.xAcked;
    xS = a.xS; xCnt = a.xCnt; xR = r; xRq = q; xDeliv =
    (app a.xDeliv (k :: [])); xBad = a.xBad; xEp = a.xEp }

(** val x_setR : ast -> rph -> wline list -> ast **)

let x_setR a r q =
  { xPausing = a.xPausing; xA = a.xA; xAq = a.xAq; xAcked = a.xAcked; xS =
    a.xS; xCnt = a.xCnt; xR = r; xRq = q; xDeliv = a.xDeliv; xBad = a.xBad;
    xEp = a.xEp }

(** val x_rarrive : cfg -> ast -> wline -> ast **)

let x_rarrive cf a l =
  match a.xR with
  | RIdle -> x_setR a RIdle (app a.xRq (l :: []))
  | RRead _ ->
    (match l with
     | WLKeep -> x_setR a (RRead cf.cT) a.xRq
     | WLData k -> x_deliver a RIdle a.xRq k)

(** val x_rcall : cfg -> ast -> ast **)

let x_rcall cf a =
  match first_data a.xRq with
  | Some p -> let (k, q') = p in x_deliver a RIdle q' k
  | None -> x_setR a (RRead cf.cT) []

(** val x_setA : ast -> aph -> nat -> nat -> ast **)

let x_setA a p q acked =
  { xPausing = a.xPausing; xA = p; xAq = q; xAcked = acked; xS = a.xS; xCnt =
    a.xCnt; xR = a.xR; xRq = a.xRq; xDeliv = a.xDeliv; xBad = a.xBad; xEp =
    a.xEp }

(** val x_aread : ast -> ast **)

let x_aread a =
  match a.xAq with
  | O -> x_setA a ARead O a.xAcked
  | S q -> x_setA a AIdle q (S a.xAcked)

(** val x_acall : cfg -> ast -> ast **)

let x_acall cf a =
  if a.xPausing then x_setA a (AGate cf.cSL) a.xAq a.xAcked else x_aread a

(** val x_setS : ast -> csph -> ast **)

let x_setS a p =
  { xPausing = a.xPausing; xA = a.xA; xAq = a.xAq; xAcked = a.xAcked; xS = p;
    xCnt = a.xCnt; xR = a.xR; xRq = a.xRq; xDeliv = a.xDeliv; xBad = a.xBad;
    xEp = a.xEp }

(** val x_setCnt : ast -> nat -> ast **)

let x_setCnt a c =
  { xPausing = a.xPausing; xA = a.xA; xAq = a.xAq; xAcked = a.xAcked; xS =
    a.xS; xCnt = c; xR = a.xR; xRq = a.xRq; xDeliv = a.xDeliv; xBad = a.xBad;
    xEp = a.xEp }

(** val x_bad : ast -> ast **)

let x_bad a =
  { xPausing = a.xPausing; xA = a.xA; xAq = a.xAq; xAcked = a.xAcked; xS =
    a.xS; xCnt = a.xCnt; xR = a.xR; xRq = a.xRq; xDeliv = a.xDeliv; xBad =
    true; xEp = a.xEp }

(** val x_flags : ast -> bool -> epi -> ast **)

let x_flags a pa e =
  { xPausing = pa; xA = a.xA; xAq = a.xAq; xAcked = a.xAcked; xS = a.xS;
    xCnt = a.xCnt; xR = a.xR; xRq = a.xRq; xDeliv = a.xDeliv; xBad = a.xBad;
    xEp = e }

(** val x_gate : cfg -> ast -> nat -> ast **)

let x_gate cf a k =
  if a.xPausing
  then x_rarrive cf (x_setS a (CSIn (k, (SSleep cf.cGL)))) WLKeep
  else x_setS a (CSIn (k, SPassed))

(** val x_live : nat -> ast -> bool **)

let x_live n a =
  Nat.ltb (length a.xDeliv) n

(** val x_quiescent : nat -> nat -> ast -> bool **)

let x_quiescent n w a =
  (&&)
    ((&&)
      (match a.xS with
       | CSGate _ -> false
       | CSIn (_, p) -> (match p with
                         | SSleep _ -> true
                         | _ -> false)
       | CSPush _ -> Nat.leb w a.xCnt
       | CSDone -> true)
      (negb (match a.xR with
             | RIdle -> x_live n a
             | RRead _ -> false)))
    (negb (match a.xA with
           | AIdle -> Nat.ltb O a.xCnt
           | _ -> false))

(** val x_tickR : ast -> ast **)

let x_tickR a =
  match a.xR with
  | RIdle -> a
  | RRead t0 ->
    (match t0 with
     | O -> x_bad a
     | S n0 ->
       (match n0 with
        | O -> x_bad a
        | S t -> x_setR a (RRead (S t)) a.xRq))

(** val x_tickA : cfg -> ast -> ast **)

let x_tickA cf a =
  match a.xA with
  | AIdle -> a
  | AGate j0 ->
    (match j0 with
     | O -> x_acall cf a
     | S n0 ->
       (match n0 with
        | O -> x_acall cf a
        | S j -> x_setA a (AGate (S j)) a.xAq a.xAcked))
  | ARead -> x_bad a

(** val x_tickS : cfg -> ast -> ast **)

let x_tickS cf a =
  match a.xS with
  | CSIn (k, p) ->
    (match p with
     | SSleep slp ->
       (match slp with
        | O -> x_gate cf a k
        | S n0 ->
          (match n0 with
           | O -> x_gate cf a k
           | S j -> x_setS a (CSIn (k, (SSleep (S j))))))
     | _ -> a)
  | _ -> a

(** val astep : cfg -> nat -> nat -> nat -> ast -> cev -> ast option **)

let astep cf n w p a = function
| XTick ->
  if (&&) (x_quiescent n w a)
       (match a.xEp with
        | EpPausing e -> Nat.ltb e p
        | _ -> true)
  then let a3 = x_tickS cf (x_tickA cf (x_tickR a)) in
       Some (x_flags a3 a3.xPausing (ep_tick cf a.xEp))
  else None
| XPause ->
  (match a.xEp with
   | EpResumed (_, _) -> None
   | x0 -> Some (x_flags a true (ep_pause x0)))
| XResume ->
  (match a.xEp with
   | EpPausing e ->
     if a.xPausing then Some (x_flags a false (EpResumed (e, O))) else None
   | _ -> None)
| XSCall -> (match a.xS with
             | CSGate k -> Some (x_gate cf a k)
             | _ -> None)
| XSWrite ->
  (match a.xS with
   | CSIn (k, p0) ->
     (match p0 with
      | SPassed -> Some (x_rarrive cf (x_setS a (CSPush k)) (WLData k))
      | _ -> None)
   | _ -> None)
| XSPush ->
  (match a.xS with
   | CSPush k ->
     if Nat.ltb a.xCnt w
     then Some
            (x_setS (x_setCnt a (S a.xCnt))
              (if Nat.ltb (S k) n then CSGate (S k) else CSDone))
     else None
   | _ -> None)
| XRCall ->
  (match a.xR with
   | RIdle -> if x_live n a then Some (x_rcall cf a) else None
   | RRead _ -> None)
| XATake ->
  (match a.xA with
   | AIdle ->
     (match a.xCnt with
      | O -> None
      | S c -> Some (x_acall cf (x_setCnt a c)))
   | _ -> None)

(** val arun : cfg -> nat -> nat -> nat -> ast -> cev list -> ast option **)

let rec arun cf n w p a = function
| [] -> Some a
| x :: xs' ->
  (match astep cf n w p a x with
   | Some a' -> arun cf n w p a' xs'
   | None -> None)

(** val ainit : nat -> ast **)

let ainit n =
  { xPausing = false; xA = AIdle; xAq = O; xAcked = O; xS =
    (match n with
     | O -> CSDone
     | S _ -> CSGate O); xCnt = O; xR = RIdle; xRq = []; xDeliv = []; xBad =
    false; xEp = EpNone }

(** val abs_of : cstate -> ast **)

let abs_of s =
  { xPausing = s.cA.core.pausing; xA =
    (match s.cA.ph with
     | PIdle -> AIdle
     | PGate (_, j) -> AGate j
     | PRead _ -> ARead); xAq = (length s.cA.queue); xAcked = s.cAcked; xS =
    s.cS; xCnt = s.cCnt; xR =
    (match s.cR.ph with
     | PRead _ -> RRead (match s.cR.core.tmo with
                         | Some t -> t
                         | None -> O)
     | _ -> RIdle); xRq = s.cR.queue; xDeliv = s.cDeliv; xBad =
    ((||) s.cErrA s.cErrR); xEp = s.cEp }
