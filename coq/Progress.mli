open BinInt
open BinNat
open BinNums
open Consts
open Datatypes
open List0

val rune_blen : coq_N -> coq_Z

val blen : coq_N list -> coq_Z

val dec_fuel : nat -> coq_N -> coq_N list -> coq_N list

val dec_N : coq_N -> coq_N list

val dec_Z : coq_Z -> coq_N list

val fmt_subst : coq_N list -> coq_N list list -> coq_N list

val is_space : coq_N -> bool

val drop_space : coq_N list -> coq_N list

val trim_space : coq_N list -> coq_N list

val wrap64 : coq_Z -> coq_Z

val mdr_exact : coq_Z -> coq_Z -> coq_Z -> coq_Z

type lstep =
| LCheck
| LEll of coq_Z * coq_Z
| LRight of coq_N list * coq_N list
| LClear
| LBad

val decode_step :
  ((coq_N * (coq_Z * coq_Z)) * (coq_N list * coq_N list)) -> lstep

val ladder : lstep list

type lay = { l_left : coq_N list; l_len : coq_Z; l_right : coq_N list }

type bres =
| BOk of coq_N list
| BPanic

type tres =
| TOk of coq_N list
| TPanic

val repeat_rune : coq_N -> coq_Z -> coq_N list option

val display_step : bool -> coq_Z -> coq_Z -> coq_Z

type tick =
| TkNum of coq_Z
| TkName of coq_N list
| TkSize of coq_Z
| TkStep of coq_Z * coq_Z * coq_N list * coq_N list * coq_N list
| TkDone of coq_Z * coq_N list * coq_N list * coq_N list
| TkPre of coq_Z
| TkPause of bool

type sevent =
| SeResize of coq_Z
| SeStart of bool * coq_Z
| SeTick of tick
| SePromptOpen
| SePromptClose
| SeEnd

val ell_loop :
  (coq_N -> nat) -> coq_N list -> coq_Z -> coq_Z -> coq_N list * coq_Z

val ellipsis : (coq_N -> nat) -> coq_N list -> coq_Z -> coq_N list * coq_Z

val fits : coq_Z -> lay -> bool

val field : coq_N list list -> coq_N -> coq_N list

val apply_step : (coq_N -> nat) -> coq_N list list -> lstep -> lay -> lay

val run_ladder :
  (coq_N -> nat) -> coq_Z -> coq_N list list -> lstep list -> lay -> lay

val progress_bar_gen :
  (coq_Z -> coq_Z -> coq_Z -> coq_Z) -> bool -> coq_Z -> coq_Z -> coq_Z ->
  bres

val left_text : coq_Z -> coq_Z -> coq_N list -> coq_N list

val layout :
  (coq_N -> nat) -> (coq_N list -> nat) -> coq_Z -> coq_Z -> coq_Z -> coq_N
  list -> coq_N list -> coq_N list -> coq_N list -> coq_N list -> lay

val bar_length : coq_Z -> lay -> coq_Z

val progress_text_gen :
  (coq_N -> nat) -> (coq_N list -> nat) -> (coq_Z -> coq_Z -> coq_Z -> coq_Z)
  -> bool -> coq_Z -> coq_Z -> coq_Z -> coq_N list -> coq_Z -> coq_Z -> coq_N
  list -> coq_N list -> coq_N list -> coq_N list -> tres

val pct_num :
  (coq_Z -> coq_Z -> coq_Z -> coq_Z) -> bool -> coq_Z -> coq_Z -> coq_Z

val pct_text :
  (coq_Z -> coq_Z -> coq_Z -> coq_Z) -> bool -> coq_Z -> coq_Z -> coq_N list

type pstate = { p_cols : coq_Z; p_tmux : coq_Z; p_count : coq_Z;
                p_idx : coq_Z; p_name : coq_N list; p_pre : coq_Z;
                p_size : coq_Z; p_step : coq_Z; p_last : coq_Z option;
                p_first : bool; p_pausing : bool }

val new_bar : coq_Z -> coq_Z -> pstate

type op =
| OpNum of coq_Z
| OpName of coq_N list
| OpSize of coq_Z
| OpStep of coq_Z * coq_Z * coq_N list * coq_N list * coq_N list
| OpDone of coq_Z * coq_N list * coq_N list * coq_N list
| OpPre of coq_Z
| OpPause of bool
| OpCols of coq_Z

type wr =
| WHide
| WLine of coq_N * coq_Z * coq_N list * coq_N list
| WPanic

val set_step : pstate -> coq_Z -> pstate

val set_shown : pstate -> coq_Z option -> bool -> pstate

val throttled : pstate -> coq_Z -> bool

val show :
  (coq_N -> nat) -> (coq_N list -> nat) -> (coq_Z -> coq_Z -> coq_Z -> coq_Z)
  -> bool -> pstate -> coq_Z -> coq_N list -> coq_N list -> coq_N list ->
  pstate * wr list

val apply_op :
  (coq_N -> nat) -> (coq_N list -> nat) -> (coq_Z -> coq_Z -> coq_Z -> coq_Z)
  -> bool -> op -> pstate -> pstate * wr list

val run :
  (coq_N -> nat) -> (coq_N list -> nat) -> (coq_Z -> coq_Z -> coq_Z -> coq_Z)
  -> bool -> op list -> pstate -> pstate * wr list list

val wr_bytes : wr -> coq_N list option

type session = { s_cols : coq_Z; s_bar : pstate option }

val sess_init : coq_Z -> session

type swr =
| SwBar of wr
| SwShow

val tick_op : tick -> op

val sess_on_bar :
  (coq_N -> nat) -> (coq_N list -> nat) -> (coq_Z -> coq_Z -> coq_Z -> coq_Z)
  -> bool -> session -> op -> session * swr list

val sess_step :
  (coq_N -> nat) -> (coq_N list -> nat) -> (coq_Z -> coq_Z -> coq_Z -> coq_Z)
  -> bool -> sevent -> session -> session * swr list

val swr_bytes : swr -> coq_N list option

val progress_bar :
  (coq_Z -> coq_Z -> coq_Z -> coq_Z) -> coq_Z -> coq_Z -> coq_Z -> bres

val progress_bar_unfixed : coq_Z -> coq_Z -> coq_Z -> bres

val progress_text :
  (coq_N -> nat) -> (coq_N list -> nat) -> (coq_Z -> coq_Z -> coq_Z -> coq_Z)
  -> coq_Z -> coq_Z -> coq_Z -> coq_N list -> coq_Z -> coq_Z -> coq_N list ->
  coq_N list -> coq_N list -> coq_N list -> tres

val run_cur :
  (coq_N -> nat) -> (coq_N list -> nat) -> (coq_Z -> coq_Z -> coq_Z -> coq_Z)
  -> op list -> pstate -> pstate * wr list list

val pct_text_cur :
  (coq_Z -> coq_Z -> coq_Z -> coq_Z) -> coq_Z -> coq_Z -> coq_N list

val sess_step_cur :
  (coq_N -> nat) -> (coq_N list -> nat) -> (coq_Z -> coq_Z -> coq_Z -> coq_Z)
  -> sevent -> session -> session * swr list
