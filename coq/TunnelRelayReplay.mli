open BinNat
open BinNums
open Consts
open Datatypes
open List0
open Nat0
open PeanoNat
open Tunnel
open TunnelRelay

type rtr_ev =
| RtrConnect
| RtrWriteC of nat * coq_N list
| RtrCloseC of nat
| RtrDial of nat * bool
| RtrWriteS of nat * coq_N list
| RtrCloseS of nat
| RtrConnector of bool
| RtrInband of rt_dir * coq_N list
| RtrHsRead of bool * bool * bool
| RtrReset

val rtr_tok_act : coq_N list

val rtr_tok_cfg : coq_N list

val rtr_tok_fail : coq_N list

val rtr_line_len : coq_N list -> nat option

val rtr_hs_auto :
  coq_N list -> coq_N list -> coq_N list -> coq_N list -> rt_state ->
  rt_state option

val rtr_pending : rt_state -> nat list

val rtr_handler_ready : rt_state -> nat -> bool

val rtr_pump_try :
  coq_N list -> coq_N list -> coq_N list -> coq_N list -> rt_state -> nat ->
  rt_dir -> rt_state option

val rtr_once :
  coq_N list -> coq_N list -> coq_N list -> coq_N list -> rt_state ->
  rt_state option

val rtr_settle :
  nat -> coq_N list -> coq_N list -> coq_N list -> coq_N list -> rt_state ->
  rt_state

val rtr_push_c : nat -> pev -> rt_state -> rt_state

val rtr_push_s : nat -> pev -> rt_state -> rt_state

val rtr_or : rt_state -> rt_state option -> rt_state

val rtr_fuel : rt_state -> nat

val rtr_hs_read :
  coq_N list -> coq_N list -> coq_N list -> coq_N list -> rt_state -> bool ->
  bool -> bool -> rt_state

val rtr_apply :
  coq_N list -> coq_N list -> coq_N list -> coq_N list -> rt_state -> rtr_ev
  -> rt_state

val rtr_replay : coq_N list -> coq_Z -> coq_Z -> rtr_ev list -> rt_state
