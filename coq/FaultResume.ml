open BinInt
open BinNat
open BinNums
open Bytes0
open Consts
open Datatypes
open List0
open PeanoNat
open Resume

type fr_outcome = { fo_mrecv : coq_Z; fo_msend : coq_Z; fo_sent : byte list;
                    fo_final : byte list }

type fr_deliv = { fd_size : coq_Z; fd_hashes : hmsg list;
                  fd_answers : ack list }

(** val fr_recv_acks : coq_Z -> ack list -> coq_Z -> sres * ack list **)

let rec fr_recv_acks size acks mstep =
  match acks with
  | [] -> (SBlocked, [])
  | a :: rest ->
    if negb a.a_match
    then ((SDone mstep), rest)
    else let mstep0 = a.a_step in
         if Z.eqb mstep0 size
         then ((SDone mstep0), rest)
         else if Z.ltb size mstep0
              then ((SErr mstep0), rest)
              else fr_recv_acks size rest mstep0

(** val fr_recv_hash_acks : coq_Z -> ack list -> sres * ack list **)

let fr_recv_hash_acks size acks =
  if Z.eqb size Z0 then ((SDone Z0), acks) else fr_recv_acks size acks Z0

(** val fr_after_over : hmsg list -> hmsg list **)

let rec fr_after_over = function
| [] -> []
| h :: rest -> (match h with
                | Hash (_, _) -> fr_after_over rest
                | Over -> rest)

(** val fr_is_nil : 'a1 list -> bool **)

let fr_is_nil = function
| [] -> true
| _ :: _ -> false

(** val fr_exchange :
    coq_N -> (byte list -> digest) -> coq_N -> coq_N -> coq_N -> bool -> byte
    list -> byte list -> fr_deliv -> fr_outcome option **)

let fr_exchange b h guard trunc sizeck proto4 src dst d =
  match dst with
  | [] ->
    if (&&) (fr_is_nil d.fd_hashes) (fr_is_nil d.fd_answers)
    then Some { fo_mrecv = Z0; fo_msend = Z0; fo_sent = src; fo_final =
           (f_write { f_data = []; f_off = O } src).f_data }
    else None
  | _ :: _ ->
    let size_r = if proto4 then Z.of_nat (length src) else d.fd_size in
    if (&&)
         ((&&) ((&&) (N.eqb sizeck (Npos Coq_xH)) (negb proto4))
           (Z.ltb Z0 (Z.of_nat (length src))))
         (negb (Z.eqb size_r (Z.of_nat (length src))))
    then None
    else (match recv_hashes b h dst d.fd_hashes r_init with
          | ROver st ->
            if negb (fr_is_nil (fr_after_over d.fd_hashes))
            then None
            else let (s, l) =
                   fr_recv_hash_acks
                     (Z.of_nat (Nat.min (length src) (length dst)))
                     d.fd_answers
                 in
                 (match s with
                  | SDone ms ->
                    (match l with
                     | [] ->
                       if Z.ltb ms Z0
                       then None
                       else let mr = st.r_mstep in
                            let rest = Z.sub size_r mr in
                            if (&&) (N.eqb sizeck (Npos Coq_xH))
                                 (Z.ltb rest Z0)
                            then None
                            else let announced =
                                   Z.sub (Z.of_nat (length src)) ms
                                 in
                                 let checked =
                                   if N.eqb guard (Npos (Coq_xO Coq_xH))
                                   then Z.leb Z0 rest
                                   else if N.eqb guard (Npos Coq_xH)
                                        then Z.ltb Z0 rest
                                        else false
                                 in
                                 if (&&) checked (negb (Z.eqb announced rest))
                                 then None
                                 else let mrn = Z.to_nat mr in
                                      let f0 =
                                        f_seek { f_data = dst; f_off =
                                          st.r_off } mrn
                                      in
                                      let cut =
                                        if N.eqb trunc (Npos Coq_xH)
                                        then true
                                        else if N.eqb trunc (Npos (Coq_xO
                                                  Coq_xH))
                                             then Z.ltb size_r
                                                    (Z.of_nat (length dst))
                                             else false
                                      in
                                      let f =
                                        if cut then f_truncate f0 mrn else f0
                                      in
                                      let sent = skipn (Z.to_nat ms) src in
                                      Some { fo_mrecv = mr; fo_msend = ms;
                                      fo_sent = sent; fo_final =
                                      (f_write f sent).f_data }
                     | _ :: _ -> None)
                  | _ -> None)
          | _ -> None)

(** val fr_exchange_code :
    coq_N -> (byte list -> digest) -> bool -> byte list -> byte list ->
    fr_deliv -> fr_outcome option **)

let fr_exchange_code b h =
  fr_exchange b h c02_resume_rest_guard c02_resume_truncates
    c02_resume_size_guard
