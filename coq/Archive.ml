open BinInt
open BinNat
open BinNums
open Bytes0
open Consts
open Datatypes
open List0
open Nat0
open PeanoNat

type aname = byte list

type apath = aname list

type ameta = { am_path : apath; am_dir : bool; am_size : coq_Z }

type aentry = { ae_meta : ameta; ae_data : byte list }

(** val apath_eqb : apath -> apath -> bool **)

let rec apath_eqb a b =
  match a with
  | [] -> (match b with
           | [] -> true
           | _ :: _ -> false)
  | x :: a' ->
    (match b with
     | [] -> false
     | y :: b' -> (&&) (list_eqb x y) (apath_eqb a' b'))

type anode =
| ADir
| AFile of byte list

type afs = (apath * anode) list

(** val afs_lookup : afs -> apath -> anode option **)

let rec afs_lookup t p =
  match t with
  | [] -> None
  | p0 :: r ->
    let (q, n) = p0 in if apath_eqb q p then Some n else afs_lookup r p

(** val afs_append : afs -> apath -> byte list -> afs **)

let rec afs_append t p x =
  match t with
  | [] -> []
  | p0 :: r ->
    let (q, n) = p0 in
    if apath_eqb q p
    then (q, (match n with
              | ADir -> ADir
              | AFile c -> AFile (app c x))) :: r
    else (q, n) :: (afs_append r p x)

(** val afs_mkdirs : afs -> apath -> apath -> afs option **)

let rec afs_mkdirs t pre = function
| [] -> Some t
| c :: rest' ->
  let q = app pre (c :: []) in
  (match afs_lookup t q with
   | Some a -> (match a with
                | ADir -> afs_mkdirs t q rest'
                | AFile _ -> None)
   | None -> afs_mkdirs ((q, ADir) :: t) q rest')

(** val afs_mkdir_all : afs -> apath -> afs option **)

let afs_mkdir_all t p =
  afs_mkdirs t [] p

(** val afs_create : afs -> ameta -> (afs * apath option) option **)

let afs_create t m =
  let p = m.am_path in
  (match afs_mkdir_all t (removelast p) with
   | Some t1 ->
     if m.am_dir
     then (match afs_mkdir_all t1 p with
           | Some t2 -> Some (t2, None)
           | None -> None)
     else (match afs_lookup t1 p with
           | Some a ->
             (match a with
              | ADir -> None
              | AFile _ -> Some (((p, (AFile [])) :: t1), (Some p)))
           | None -> Some (((p, (AFile [])) :: t1), (Some p)))
   | None -> None)

(** val afs0 : afs **)

let afs0 =
  ([], ADir) :: []

(** val ae_dir : aentry -> bool **)

let ae_dir e =
  e.ae_meta.am_dir

(** val apayload : aentry -> byte list **)

let apayload e =
  if ae_dir e then [] else firstn (Z.to_nat e.ae_meta.am_size) e.ae_data

(** val coq_ANL : byte **)

let coq_ANL =
  archive_newline

(** val coq_ASPLIT : byte **)

let coq_ASPLIT =
  archive_split_byte

(** val ar_total_size : (ameta -> byte list) -> aentry list -> coq_Z **)

let rec ar_total_size hdr = function
| [] -> Z0
| e :: r ->
  let m = e.ae_meta in
  Z.add
    (Z.add (Z.add (Z.of_nat (length (hdr m))) (Z.of_N archive_header_extra))
      (if m.am_dir then Z0 else m.am_size)) (ar_total_size hdr r)

(** val astream1 : (ameta -> byte list) -> aentry -> byte list **)

let astream1 hdr e =
  app (hdr e.ae_meta) (coq_ANL :: (apayload e))

(** val astream : (ameta -> byte list) -> aentry list -> byte list **)

let astream hdr es =
  flat_map (astream1 hdr) es

type arstate = { ar_files : aentry list; ar_src : aentry option;
                 ar_buf : byte list; ar_file : byte list option;
                 ar_left : coq_Z; ar_fds : nat; ar_peak : nat }

type arres =
| ArData of byte list
| ArEof
| ArErrShrink
| ArPanic
| ArSpin

type arstep =
| ArRet of arres * arstate
| ArNext of arstate

(** val ar_cur : arstate -> nat -> arstep **)

let ar_cur st size =
  match st.ar_buf with
  | [] ->
    (match st.ar_file with
     | Some content ->
       let m = Z.min (Z.of_nat size) st.ar_left in
       if Z.ltb m Z0
       then ArRet (ArPanic, st)
       else let n = Nat.min (Z.to_nat m) (length content) in
            let eof = (&&) (Z.ltb Z0 m) (negb (nonempty content)) in
            let left' = Z.sub st.ar_left (Z.of_nat n) in
            if (&&) eof (negb (Z.eqb left' Z0))
            then ArRet (ArErrShrink, { ar_files = st.ar_files; ar_src =
                   st.ar_src; ar_buf = []; ar_file = st.ar_file; ar_left =
                   left'; ar_fds = st.ar_fds; ar_peak = st.ar_peak })
            else let src' = if Z.eqb left' Z0 then None else st.ar_src in
                 let st' = { ar_files = st.ar_files; ar_src = src'; ar_buf =
                   []; ar_file = (Some (skipn n content)); ar_left = left';
                   ar_fds = st.ar_fds; ar_peak = st.ar_peak }
                 in
                 (match n with
                  | O ->
                    (match src' with
                     | Some _ -> ArRet (ArSpin, st')
                     | None -> ArNext st')
                  | S _ -> ArRet ((ArData (firstn n content)), st'))
     | None ->
       ArNext { ar_files = st.ar_files; ar_src = None; ar_buf = []; ar_file =
         None; ar_left = st.ar_left; ar_fds = st.ar_fds; ar_peak =
         st.ar_peak })
  | _ :: _ ->
    let n = Nat.min size (length st.ar_buf) in
    ArRet ((ArData (firstn n st.ar_buf)), { ar_files = st.ar_files; ar_src =
    st.ar_src; ar_buf = (skipn n st.ar_buf); ar_file = st.ar_file; ar_left =
    st.ar_left; ar_fds = st.ar_fds; ar_peak = st.ar_peak })

(** val ar_load :
    (ameta -> byte list) -> aentry list -> arstate -> nat -> arres * arstate **)

let rec ar_load hdr files st size =
  match files with
  | [] ->
    (ArEof, { ar_files = []; ar_src = None; ar_buf = st.ar_buf; ar_file =
      st.ar_file; ar_left = st.ar_left; ar_fds = st.ar_fds; ar_peak =
      st.ar_peak })
  | e :: rest ->
    let m = e.ae_meta in
    let fds1 =
      match st.ar_file with
      | Some _ -> pred st.ar_fds
      | None -> st.ar_fds
    in
    let file = if m.am_dir then None else Some e.ae_data in
    let fds2 = if m.am_dir then fds1 else S fds1 in
    let st1 = { ar_files = rest; ar_src = (Some e); ar_buf =
      (app (hdr m) (coq_ANL :: [])); ar_file = file; ar_left = m.am_size;
      ar_fds = fds2; ar_peak = (Nat.max st.ar_peak fds2) }
    in
    (match ar_cur st1 size with
     | ArRet (r, st2) -> (r, st2)
     | ArNext st2 -> ar_load hdr rest st2 size)

(** val ar_read :
    (ameta -> byte list) -> arstate -> nat -> arres * arstate **)

let ar_read hdr st size =
  match st.ar_src with
  | Some _ ->
    (match ar_cur st size with
     | ArRet (r, st') -> (r, st')
     | ArNext st' -> ar_load hdr st'.ar_files st' size)
  | None -> ar_load hdr st.ar_files st size

(** val ar_init : aentry list -> arstate **)

let ar_init es =
  { ar_files = es; ar_src = None; ar_buf = []; ar_file = None; ar_left = Z0;
    ar_fds = O; ar_peak = O }

(** val ar_close : arstate -> arstate **)

let ar_close st =
  match st.ar_file with
  | Some _ ->
    { ar_files = st.ar_files; ar_src = st.ar_src; ar_buf = st.ar_buf;
      ar_file = None; ar_left = st.ar_left; ar_fds = (pred st.ar_fds);
      ar_peak = st.ar_peak }
  | None -> st

(** val ar_next_size : nat list -> nat -> nat * nat list **)

let ar_next_size sizes dflt =
  match sizes with
  | [] -> (dflt, [])
  | s :: r -> (s, r)

type arend =
| ArEndEof
| ArEndErr of arres
| ArEndFuel

(** val ar_run :
    (ameta -> byte list) -> nat -> arstate -> nat list -> nat -> (byte list
    list * arend) * arstate **)

let rec ar_run hdr fuel st sizes dflt =
  match fuel with
  | O -> (([], ArEndFuel), st)
  | S f ->
    let (size, sizes') = ar_next_size sizes dflt in
    let (r, st') = ar_read hdr st size in
    (match r with
     | ArData out ->
       let (p, st'') = ar_run hdr f st' sizes' dflt in
       let (outs, e) = p in (((out :: outs), e), st'')
     | ArEof -> (([], ArEndEof), st')
     | _ -> (([], (ArEndErr r)), st'))

(** val ar_fuel : (ameta -> byte list) -> aentry list -> nat **)

let ar_fuel hdr es =
  S
    (length
      (flat_map (fun e -> app (hdr e.ae_meta) (coq_ANL :: e.ae_data)) es))

(** val ar_reader_run :
    (ameta -> byte list) -> aentry list -> nat list -> nat -> (byte list
    list * arend) * arstate **)

let ar_reader_run hdr es sizes dflt =
  ar_run hdr (ar_fuel hdr es) (ar_init es) sizes dflt

type awstate = { aw_buf : byte list; aw_file : apath option; aw_left : 
                 coq_Z; aw_fs : afs; aw_fds : nat; aw_peak : nat }

type awerr =
| AwEHeader
| AwECreate

type awres =
| AwOk of nat * awstate
| AwErr of awerr * awstate

(** val aw_write :
    (byte list -> ameta option) -> bool -> awstate -> byte list -> awres **)

let aw_write parse fixed st p =
  if Z.ltb Z0 st.aw_left
  then (match st.aw_file with
        | Some h ->
          let n = Z.to_nat (Z.min st.aw_left (Z.of_nat (length p))) in
          AwOk (n, { aw_buf = st.aw_buf; aw_file = st.aw_file; aw_left =
          (Z.sub st.aw_left (Z.of_nat n)); aw_fs =
          (afs_append st.aw_fs h (firstn n p)); aw_fds = st.aw_fds; aw_peak =
          st.aw_peak })
        | None ->
          (match index_byte coq_ASPLIT p with
           | Some idx ->
             (match parse (app st.aw_buf (firstn idx p)) with
              | Some m ->
                let file1 = if fixed then None else st.aw_file in
                let fds1 =
                  if fixed
                  then (match st.aw_file with
                        | Some _ -> pred st.aw_fds
                        | None -> st.aw_fds)
                  else st.aw_fds
                in
                (match afs_create st.aw_fs m with
                 | Some p0 ->
                   let (t', f') = p0 in
                   let fds2 = match f' with
                              | Some _ -> S fds1
                              | None -> fds1 in
                   AwOk ((add idx (N.to_nat archive_write_extra)), { aw_buf =
                   []; aw_file = f'; aw_left = m.am_size; aw_fs = t';
                   aw_fds = fds2; aw_peak = (Nat.max st.aw_peak fds2) })
                 | None ->
                   AwErr (AwECreate, { aw_buf = []; aw_file = file1;
                     aw_left = st.aw_left; aw_fs = st.aw_fs; aw_fds = fds1;
                     aw_peak = st.aw_peak }))
              | None ->
                AwErr (AwEHeader, { aw_buf = []; aw_file = st.aw_file;
                  aw_left = st.aw_left; aw_fs = st.aw_fs; aw_fds = st.aw_fds;
                  aw_peak = st.aw_peak }))
           | None ->
             AwOk ((length p), { aw_buf = (app st.aw_buf p); aw_file =
               st.aw_file; aw_left = st.aw_left; aw_fs = st.aw_fs; aw_fds =
               st.aw_fds; aw_peak = st.aw_peak })))
  else (match index_byte coq_ASPLIT p with
        | Some idx ->
          (match parse (app st.aw_buf (firstn idx p)) with
           | Some m ->
             let file1 = if fixed then None else st.aw_file in
             let fds1 =
               if fixed
               then (match st.aw_file with
                     | Some _ -> pred st.aw_fds
                     | None -> st.aw_fds)
               else st.aw_fds
             in
             (match afs_create st.aw_fs m with
              | Some p0 ->
                let (t', f') = p0 in
                let fds2 = match f' with
                           | Some _ -> S fds1
                           | None -> fds1 in
                AwOk ((add idx (N.to_nat archive_write_extra)), { aw_buf =
                []; aw_file = f'; aw_left = m.am_size; aw_fs = t'; aw_fds =
                fds2; aw_peak = (Nat.max st.aw_peak fds2) })
              | None ->
                AwErr (AwECreate, { aw_buf = []; aw_file = file1; aw_left =
                  st.aw_left; aw_fs = st.aw_fs; aw_fds = fds1; aw_peak =
                  st.aw_peak }))
           | None ->
             AwErr (AwEHeader, { aw_buf = []; aw_file = st.aw_file; aw_left =
               st.aw_left; aw_fs = st.aw_fs; aw_fds = st.aw_fds; aw_peak =
               st.aw_peak }))
        | None ->
          AwOk ((length p), { aw_buf = (app st.aw_buf p); aw_file =
            st.aw_file; aw_left = st.aw_left; aw_fs = st.aw_fs; aw_fds =
            st.aw_fds; aw_peak = st.aw_peak }))

type awall =
| AwDone of awstate
| AwFail of awerr * awstate
| AwFuel

(** val aw_wa :
    (byte list -> ameta option) -> nat -> bool -> awstate -> byte list ->
    awall **)

let rec aw_wa parse fuel fixed st data = match data with
| [] -> AwDone st
| _ :: _ ->
  (match fuel with
   | O -> AwFuel
   | S f ->
     (match aw_write parse fixed st data with
      | AwOk (n, st') -> aw_wa parse f fixed st' (skipn n data)
      | AwErr (e, st') -> AwFail (e, st')))

(** val aw_write_all :
    (byte list -> ameta option) -> bool -> awstate -> byte list -> awall **)

let aw_write_all parse fixed st data =
  aw_wa parse (length data) fixed st data

(** val aw_run :
    (byte list -> ameta option) -> bool -> awstate -> byte list list -> awall **)

let rec aw_run parse fixed st = function
| [] -> AwDone st
| w :: r ->
  (match aw_write_all parse fixed st w with
   | AwDone st' -> aw_run parse fixed st' r
   | x -> x)

(** val aw_init : awstate **)

let aw_init =
  { aw_buf = []; aw_file = None; aw_left = Z0; aw_fs = afs0; aw_fds = O;
    aw_peak = O }

(** val aw_close : awstate -> awstate **)

let aw_close st =
  match st.aw_file with
  | Some _ ->
    { aw_buf = st.aw_buf; aw_file = None; aw_left = st.aw_left; aw_fs =
      st.aw_fs; aw_fds = (pred st.aw_fds); aw_peak = st.aw_peak }
  | None -> st

(** val aw_writer_run :
    (byte list -> ameta option) -> bool -> byte list list -> awall **)

let aw_writer_run parse fixed ws =
  aw_run parse fixed aw_init ws

(** val aw_state_of : awall -> awstate option **)

let aw_state_of = function
| AwDone st -> Some st
| AwFail (_, st) -> Some st
| AwFuel -> None

(** val abuild1 : afs -> aentry -> afs option **)

let abuild1 t e =
  match afs_create t e.ae_meta with
  | Some p ->
    let (t', o) = p in
    (match o with
     | Some h -> Some (afs_append t' h (apayload e))
     | None -> Some t')
  | None -> None

(** val abuild : afs -> aentry list -> afs option **)

let rec abuild t = function
| [] -> Some t
| e :: r -> (match abuild1 t e with
             | Some t' -> abuild t' r
             | None -> None)

(** val apath_prefix : apath -> apath -> bool **)

let rec apath_prefix p q =
  match p with
  | [] -> true
  | x :: p' ->
    (match q with
     | [] -> false
     | y :: q' -> (&&) (list_eqb x y) (apath_prefix p' q'))

(** val apath_proper_prefix : apath -> apath -> bool **)

let apath_proper_prefix p q =
  (&&) (apath_prefix p q) (negb (apath_eqb p q))
