open BinNat
open BinNums
open Bytes0
open Datatypes
open List0
open PeanoNat

type name = coq_N list

type path = name list

val slash : coq_N

val dot : coq_N

val split_slash : coq_N list -> name list

val is_empty : name -> bool

val is_dot : name -> bool

val is_dotdot : name -> bool

val step_comp : path -> name -> path

val join : path -> name list -> path

val path_eqb : path -> path -> bool

val is_prefix : path -> path -> bool

val inside : path -> path -> bool
