open BinInt
open BinNums
open Consts

type pra = { pra_ignore : coq_Z; pra_init : bool }

(** val pra_step : pra -> bool -> bool -> pra * bool **)

let pra_step st pause grow =
  let cnt = if pause then Z.of_N pause_ignore_chunk_count else st.pra_ignore
  in
  if (||) (Z.leb cnt Z0) st.pra_init
  then if grow
       then ({ pra_ignore = cnt; pra_init = st.pra_init }, st.pra_init)
       else ({ pra_ignore = cnt; pra_init = false }, st.pra_init)
  else ({ pra_ignore = (Z.sub cnt (Zpos Coq_xH)); pra_init = st.pra_init },
         false)

(** val pra_run : pra -> (bool * bool) list -> pra * bool list **)

let rec pra_run st = function
| [] -> (st, [])
| p0 :: rest ->
  let (p, g) = p0 in
  let (st1, r) = pra_step st p g in
  let (st2, rs) = pra_run st1 rest in (st2, (r :: rs))

(** val pra_init0 : pra **)

let pra_init0 =
  { pra_ignore = Z0; pra_init = true }
