open BinNat
open Bytes0
open Consts
open Datatypes
open List0
open PeanoNat

(** val queue_capacity : nat **)

let queue_capacity =
  N.to_nat buffer_queue_capacity

(** val add_blocks : bool **)

let add_blocks =
  buffer_add_blocks

type qstate = { q_todo : byte list list; q_queue : byte list list;
                q_taken : byte list list; q_dropped : byte list list }

type qmove =
| QProduce
| QConsume

(** val qstep : nat -> bool -> qmove -> qstate -> qstate option **)

let qstep cap blocking m s =
  match m with
  | QProduce ->
    (match s.q_todo with
     | [] -> None
     | c :: r ->
       if Nat.ltb (length s.q_queue) cap
       then Some { q_todo = r; q_queue = (app s.q_queue (c :: [])); q_taken =
              s.q_taken; q_dropped = s.q_dropped }
       else if blocking
            then None
            else Some { q_todo = r; q_queue = s.q_queue; q_taken = s.q_taken;
                   q_dropped = (app s.q_dropped (c :: [])) })
  | QConsume ->
    (match s.q_queue with
     | [] -> None
     | c :: q ->
       Some { q_todo = s.q_todo; q_queue = q; q_taken =
         (app s.q_taken (c :: [])); q_dropped = s.q_dropped })

(** val qrun : nat -> bool -> qmove list -> qstate -> qstate **)

let rec qrun cap blocking sched s =
  match sched with
  | [] -> s
  | m :: r ->
    qrun cap blocking r
      (match qstep cap blocking m s with
       | Some s' -> s'
       | None -> s)

(** val q_init : byte list list -> qstate **)

let q_init chunks =
  { q_todo = chunks; q_queue = []; q_taken = []; q_dropped = [] }

(** val q_alternate : nat -> qmove list **)

let rec q_alternate = function
| O -> []
| S k -> QConsume :: (QProduce :: (q_alternate k))

(** val q_late_schedule : nat -> qmove list **)

let q_late_schedule n =
  app (repeat QProduce n) (q_alternate n)

(** val queue_late : byte list list -> qstate **)

let queue_late chunks =
  qrun queue_capacity add_blocks (q_late_schedule (length chunks))
    (q_init chunks)
