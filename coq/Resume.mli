open BinInt
open BinNat
open BinNums
open Bytes0
open Consts
open Datatypes
open List0
open Nat0
open PeanoNat

type digest = coq_N list

type hmsg =
| Hash of coq_Z * digest
| Over

type ack = { a_step : coq_Z; a_match : bool }

type file = { f_data : byte list; f_off : nat }

val f_write : file -> byte list -> file

val f_seek : file -> nat -> file

val f_truncate : file -> nat -> file

val coq_Bn : coq_N -> nat

val send_hashes :
  coq_N -> (byte list -> digest) -> nat -> nat option -> byte list -> nat ->
  nat -> byte list -> hmsg list option

type rstate = { r_match : bool; r_mstep : coq_Z; r_fed : byte list;
                r_off : nat; r_acks : ack list }

val r_init : rstate

type rout =
| ROver of rstate
| RBlocked of rstate
| RInvalid of rstate * coq_Z
| RPanic of rstate * coq_Z
| RReadErr of rstate * coq_Z

val recv_hashes :
  coq_N -> (byte list -> digest) -> byte list -> hmsg list -> rstate -> rout

type sres =
| SDone of coq_Z
| SErr of coq_Z
| SBlocked

val recv_acks : coq_Z -> ack list -> coq_Z -> sres

val recv_hash_acks : coq_Z -> ack list -> sres

type outcome = { o_hashes : hmsg list; o_acks : ack list; o_mrecv : coq_Z;
                 o_msend : coq_Z; o_sent : byte list; o_final : byte list }

type result =
| Done of outcome
| SenderBlocked of hmsg list * ack list
| SenderErr of coq_Z
| RecvFail of rout
| OutOfFuel

val opened : coq_N -> byte list -> byte list

val no_exchange : byte list -> byte list -> result

val run :
  coq_N -> (byte list -> digest) -> coq_N -> nat option -> byte list -> byte
  list -> result

val block_end : coq_N -> nat -> nat -> nat

val good_blocks :
  coq_N -> (byte list -> digest) -> nat -> byte list -> byte list -> nat ->
  nat -> nat

val agreed : coq_N -> (byte list -> digest) -> byte list -> byte list -> nat

val abs_nblocks : coq_N -> coq_N -> coq_N

val abs_agreed : coq_N -> coq_N -> coq_N -> coq_N

val abs_good : coq_N -> coq_N -> coq_N -> coq_N

val abs_nacks : coq_N -> coq_N -> coq_N -> coq_N

val abs_stops_ok : coq_N -> coq_N -> coq_N -> coq_N -> bool

val run_id : coq_N -> coq_N -> nat option -> byte list -> byte list -> result

val agreed_id : coq_N -> byte list -> byte list -> nat
