open BinInt
open BinNat
open BinNums
open Consts
open Datatypes
open List0

(** val rune_blen : coq_N -> coq_Z **)

let rune_blen r =
  if N.ltb r (Npos (Coq_xO (Coq_xO (Coq_xO (Coq_xO (Coq_xO (Coq_xO (Coq_xO
       Coq_xH))))))))
  then Zpos Coq_xH
  else if N.ltb r (Npos (Coq_xO (Coq_xO (Coq_xO (Coq_xO (Coq_xO (Coq_xO
            (Coq_xO (Coq_xO (Coq_xO (Coq_xO (Coq_xO Coq_xH))))))))))))
       then Zpos (Coq_xO Coq_xH)
       else if N.ltb r (Npos (Coq_xO (Coq_xO (Coq_xO (Coq_xO (Coq_xO (Coq_xO
                 (Coq_xO (Coq_xO (Coq_xO (Coq_xO (Coq_xO (Coq_xO (Coq_xO
                 (Coq_xO (Coq_xO (Coq_xO Coq_xH)))))))))))))))))
            then Zpos (Coq_xI Coq_xH)
            else Zpos (Coq_xO (Coq_xO Coq_xH))

(** val blen : coq_N list -> coq_Z **)

let blen s =
  fold_right (fun r a -> Z.add (rune_blen r) a) Z0 s

(** val dec_fuel : nat -> coq_N -> coq_N list -> coq_N list **)

let rec dec_fuel fuel n acc =
  match fuel with
  | O -> acc
  | S f ->
    let acc' =
      (N.add (Npos (Coq_xO (Coq_xO (Coq_xO (Coq_xO (Coq_xI Coq_xH))))))
        (N.modulo n (Npos (Coq_xO (Coq_xI (Coq_xO Coq_xH)))))) :: acc
    in
    if N.eqb (N.div n (Npos (Coq_xO (Coq_xI (Coq_xO Coq_xH))))) N0
    then acc'
    else dec_fuel f (N.div n (Npos (Coq_xO (Coq_xI (Coq_xO Coq_xH))))) acc'

(** val dec_N : coq_N -> coq_N list **)

let dec_N n =
  dec_fuel (S (N.size_nat n)) n []

(** val dec_Z : coq_Z -> coq_N list **)

let dec_Z z = match z with
| Zneg p ->
  (Npos (Coq_xI (Coq_xO (Coq_xI (Coq_xI (Coq_xO
    Coq_xH)))))) :: (dec_N (Npos p))
| _ -> dec_N (Z.to_N z)

(** val fmt_subst : coq_N list -> coq_N list list -> coq_N list **)

let rec fmt_subst f args =
  match f with
  | [] -> []
  | c :: f' ->
    if N.eqb c (Npos (Coq_xI (Coq_xO (Coq_xI (Coq_xO (Coq_xO Coq_xH))))))
    then (match f' with
          | [] ->
            (Npos (Coq_xI (Coq_xO (Coq_xI (Coq_xO (Coq_xO Coq_xH)))))) :: []
          | d :: f'' ->
            if N.eqb d (Npos (Coq_xI (Coq_xO (Coq_xI (Coq_xO (Coq_xO
                 Coq_xH))))))
            then (Npos (Coq_xI (Coq_xO (Coq_xI (Coq_xO (Coq_xO
                   Coq_xH)))))) :: (fmt_subst f'' args)
            else (match args with
                  | [] -> fmt_subst f'' []
                  | a :: args' -> app a (fmt_subst f'' args')))
    else c :: (fmt_subst f' args)

(** val is_space : coq_N -> bool **)

let is_space r =
  (||)
    ((||)
      ((||)
        ((||)
          ((||)
            ((||)
              ((||)
                ((||)
                  ((||)
                    ((||)
                      ((&&)
                        (N.leb (Npos (Coq_xI (Coq_xO (Coq_xO Coq_xH)))) r)
                        (N.leb r (Npos (Coq_xI (Coq_xO (Coq_xI Coq_xH))))))
                      (N.eqb r (Npos (Coq_xO (Coq_xO (Coq_xO (Coq_xO (Coq_xO
                        Coq_xH))))))))
                    (N.eqb r (Npos (Coq_xI (Coq_xO (Coq_xI (Coq_xO (Coq_xO
                      (Coq_xO (Coq_xO Coq_xH))))))))))
                  (N.eqb r (Npos (Coq_xO (Coq_xO (Coq_xO (Coq_xO (Coq_xO
                    (Coq_xI (Coq_xO Coq_xH))))))))))
                (N.eqb r (Npos (Coq_xO (Coq_xO (Coq_xO (Coq_xO (Coq_xO
                  (Coq_xO (Coq_xO (Coq_xI (Coq_xO (Coq_xI (Coq_xI (Coq_xO
                  Coq_xH)))))))))))))))
              ((&&)
                (N.leb (Npos (Coq_xO (Coq_xO (Coq_xO (Coq_xO (Coq_xO (Coq_xO
                  (Coq_xO (Coq_xO (Coq_xO (Coq_xO (Coq_xO (Coq_xO (Coq_xO
                  Coq_xH)))))))))))))) r)
                (N.leb r (Npos (Coq_xO (Coq_xI (Coq_xO (Coq_xI (Coq_xO
                  (Coq_xO (Coq_xO (Coq_xO (Coq_xO (Coq_xO (Coq_xO (Coq_xO
                  (Coq_xO Coq_xH)))))))))))))))))
            (N.eqb r (Npos (Coq_xO (Coq_xO (Coq_xO (Coq_xI (Coq_xO (Coq_xI
              (Coq_xO (Coq_xO (Coq_xO (Coq_xO (Coq_xO (Coq_xO (Coq_xO
              Coq_xH))))))))))))))))
          (N.eqb r (Npos (Coq_xI (Coq_xO (Coq_xO (Coq_xI (Coq_xO (Coq_xI
            (Coq_xO (Coq_xO (Coq_xO (Coq_xO (Coq_xO (Coq_xO (Coq_xO
            Coq_xH))))))))))))))))
        (N.eqb r (Npos (Coq_xI (Coq_xI (Coq_xI (Coq_xI (Coq_xO (Coq_xI
          (Coq_xO (Coq_xO (Coq_xO (Coq_xO (Coq_xO (Coq_xO (Coq_xO
          Coq_xH))))))))))))))))
      (N.eqb r (Npos (Coq_xI (Coq_xI (Coq_xI (Coq_xI (Coq_xI (Coq_xO (Coq_xI
        (Coq_xO (Coq_xO (Coq_xO (Coq_xO (Coq_xO (Coq_xO Coq_xH))))))))))))))))
    (N.eqb r (Npos (Coq_xO (Coq_xO (Coq_xO (Coq_xO (Coq_xO (Coq_xO (Coq_xO
      (Coq_xO (Coq_xO (Coq_xO (Coq_xO (Coq_xO (Coq_xI Coq_xH)))))))))))))))

(** val drop_space : coq_N list -> coq_N list **)

let rec drop_space s = match s with
| [] -> []
| r :: s' -> if is_space r then drop_space s' else s

(** val trim_space : coq_N list -> coq_N list **)

let trim_space s =
  rev (drop_space (rev (drop_space s)))

(** val wrap64 : coq_Z -> coq_Z **)

let wrap64 z =
  Z.sub
    (Z.modulo
      (Z.add z
        (Z.pow (Zpos (Coq_xO Coq_xH)) (Zpos (Coq_xI (Coq_xI (Coq_xI (Coq_xI
          (Coq_xI Coq_xH))))))))
      (Z.pow (Zpos (Coq_xO Coq_xH)) (Zpos (Coq_xO (Coq_xO (Coq_xO (Coq_xO
        (Coq_xO (Coq_xO Coq_xH)))))))))
    (Z.pow (Zpos (Coq_xO Coq_xH)) (Zpos (Coq_xI (Coq_xI (Coq_xI (Coq_xI
      (Coq_xI Coq_xH)))))))

(** val mdr_exact : coq_Z -> coq_Z -> coq_Z -> coq_Z **)

let mdr_exact k a b =
  let n = Z.mul k a in
  Z.mul (Z.mul (Z.sgn n) (Z.sgn b))
    (Z.div (Z.add (Z.mul (Zpos (Coq_xO Coq_xH)) (Z.abs n)) (Z.abs b))
      (Z.mul (Zpos (Coq_xO Coq_xH)) (Z.abs b)))

type lstep =
| LCheck
| LEll of coq_Z * coq_Z
| LRight of coq_N list * coq_N list
| LClear
| LBad

(** val decode_step :
    ((coq_N * (coq_Z * coq_Z)) * (coq_N list * coq_N list)) -> lstep **)

let decode_step = function
| (p, p0) ->
  let (tag, p1) = p in
  let (a, b) = p1 in
  let (f, args) = p0 in
  if N.eqb tag N0
  then LCheck
  else if N.eqb tag (Npos Coq_xH)
       then LEll (a, b)
       else if N.eqb tag (Npos (Coq_xO Coq_xH))
            then LRight (f, args)
            else if N.eqb tag (Npos (Coq_xI Coq_xH)) then LClear else LBad

(** val ladder : lstep list **)

let ladder =
  map decode_step progress_ladder

type lay = { l_left : coq_N list; l_len : coq_Z; l_right : coq_N list }

type bres =
| BOk of coq_N list
| BPanic

type tres =
| TOk of coq_N list
| TPanic

(** val repeat_rune : coq_N -> coq_Z -> coq_N list option **)

let repeat_rune r n =
  if Z.ltb n Z0 then None else Some (repeat r (Z.to_nat n))

(** val display_step : bool -> coq_Z -> coq_Z -> coq_Z **)

let display_step clamped fstep fsize =
  if clamped
  then let s = if Z.ltb fstep Z0 then Z0 else fstep in
       if Z.ltb fsize s then fsize else s
  else fstep

type tick =
| TkNum of coq_Z
| TkName of coq_N list
| TkSize of coq_Z
| TkStep of coq_Z * coq_Z * coq_N list * coq_N list * coq_N list
| TkDone of coq_Z * coq_N list * coq_N list * coq_N list
| TkPre of coq_Z
| TkPause of bool

type sevent =
| SeResize of coq_Z
| SeStart of bool * coq_Z
| SeTick of tick
| SePromptOpen
| SePromptClose
| SeEnd

(** val ell_loop :
    (coq_N -> nat) -> coq_N list -> coq_Z -> coq_Z -> coq_N list * coq_Z **)

let rec ell_loop w s max length =
  match s with
  | [] -> (progress_ellipsis_dots, (Z.add length progress_ellipsis_added))
  | r :: s' ->
    let rlen = Z.of_nat (w r) in
    if Z.ltb max (Z.add length rlen)
    then (progress_ellipsis_dots, (Z.add length progress_ellipsis_added))
    else let (t, l) = ell_loop w s' max (Z.add length rlen) in ((r :: t), l)

(** val ellipsis :
    (coq_N -> nat) -> coq_N list -> coq_Z -> coq_N list * coq_Z **)

let ellipsis w s max =
  ell_loop w s (Z.sub max progress_ellipsis_reserve) Z0

(** val fits : coq_Z -> lay -> bool **)

let fits cols st =
  Z.leb progress_bar_min_length
    (Z.sub (Z.sub cols st.l_len) (blen st.l_right))

(** val field : coq_N list list -> coq_N -> coq_N list **)

let field fields i =
  nth (N.to_nat i) fields []

(** val apply_step :
    (coq_N -> nat) -> coq_N list list -> lstep -> lay -> lay **)

let apply_step w fields s st =
  match s with
  | LEll (thr, max) ->
    { l_left =
      (if Z.ltb thr st.l_len
       then fst (ellipsis w st.l_left max)
       else st.l_left); l_len =
      (if Z.ltb thr st.l_len then snd (ellipsis w st.l_left max) else st.l_len);
      l_right = st.l_right }
  | LRight (f, args) ->
    { l_left = st.l_left; l_len = st.l_len; l_right =
      (fmt_subst f (map (field fields) args)) }
  | LClear -> { l_left = []; l_len = Z0; l_right = st.l_right }
  | _ -> st

(** val run_ladder :
    (coq_N -> nat) -> coq_Z -> coq_N list list -> lstep list -> lay -> lay **)

let rec run_ladder w cols fields steps st =
  match steps with
  | [] -> st
  | s :: r ->
    (match s with
     | LCheck -> if fits cols st then st else run_ladder w cols fields r st
     | LBad -> st
     | _ -> run_ladder w cols fields r (apply_step w fields s st))

(** val progress_bar_gen :
    (coq_Z -> coq_Z -> coq_Z -> coq_Z) -> bool -> coq_Z -> coq_Z -> coq_Z ->
    bres **)

let progress_bar_gen mdr clamped fstep fsize length =
  if Z.ltb length progress_bar_min
  then BOk []
  else let total = Z.sub length progress_bar_brackets in
       let full =
         if Z.eqb fsize Z0
         then total
         else mdr total (display_step clamped fstep fsize) fsize
       in
       let empty = Z.sub total full in
       (match repeat_rune progress_bar_full_rune full with
        | Some a ->
          (match repeat_rune progress_bar_empty_rune empty with
           | Some b -> BOk (fmt_subst progress_bar_fmt (a :: (b :: [])))
           | None -> BPanic)
        | None -> BPanic)

(** val left_text : coq_Z -> coq_Z -> coq_N list -> coq_N list **)

let left_text count idx name =
  if Z.ltb progress_multi_threshold count
  then fmt_subst progress_multi_fmt
         ((dec_Z idx) :: ((dec_Z count) :: (name :: [])))
  else name

(** val layout :
    (coq_N -> nat) -> (coq_N list -> nat) -> coq_Z -> coq_Z -> coq_Z -> coq_N
    list -> coq_N list -> coq_N list -> coq_N list -> coq_N list -> lay **)

let layout w sw cols count idx name pct total speed eta =
  let left = left_text count idx name in
  run_ladder w cols (pct :: (total :: (speed :: (eta :: [])))) ladder
    { l_left = left; l_len = (Z.of_nat (sw left)); l_right = [] }

(** val bar_length : coq_Z -> lay -> coq_Z **)

let bar_length cols l =
  let b = Z.sub cols (blen l.l_right) in
  if Z.ltb Z0 l.l_len
  then Z.sub b (Z.add l.l_len (blen progress_left_sep))
  else b

(** val progress_text_gen :
    (coq_N -> nat) -> (coq_N list -> nat) -> (coq_Z -> coq_Z -> coq_Z ->
    coq_Z) -> bool -> coq_Z -> coq_Z -> coq_Z -> coq_N list -> coq_Z -> coq_Z
    -> coq_N list -> coq_N list -> coq_N list -> coq_N list -> tres **)

let progress_text_gen w sw mdr clamped cols count idx name fstep fsize pct total speed eta =
  let l = layout w sw cols count idx name pct total speed eta in
  let left =
    if Z.ltb Z0 l.l_len then app l.l_left progress_left_sep else l.l_left
  in
  (match progress_bar_gen mdr clamped fstep fsize (bar_length cols l) with
   | BOk bar -> TOk (trim_space (app left (app bar l.l_right)))
   | BPanic -> TPanic)

(** val pct_num :
    (coq_Z -> coq_Z -> coq_Z -> coq_Z) -> bool -> coq_Z -> coq_Z -> coq_Z **)

let pct_num mdr clamped fstep fsize =
  mdr progress_pct_scale (display_step clamped fstep fsize) fsize

(** val pct_text :
    (coq_Z -> coq_Z -> coq_Z -> coq_Z) -> bool -> coq_Z -> coq_Z -> coq_N list **)

let pct_text mdr clamped fstep fsize =
  if Z.eqb fsize Z0
  then progress_pct_default
  else let d = display_step clamped fstep fsize in
       let n = pct_num mdr clamped fstep fsize in
       let negzero =
         (&&) (Z.eqb n Z0)
           ((||) ((&&) (Z.leb Z0 d) (Z.ltb fsize Z0))
             ((&&) (Z.ltb d Z0) (Z.ltb Z0 fsize)))
       in
       app
         (if negzero
          then (Npos (Coq_xI (Coq_xO (Coq_xI (Coq_xI (Coq_xO
                 Coq_xH)))))) :: []
          else [])
         (app (dec_Z n) ((Npos (Coq_xI (Coq_xO (Coq_xI (Coq_xO (Coq_xO
           Coq_xH)))))) :: []))

type pstate = { p_cols : coq_Z; p_tmux : coq_Z; p_count : coq_Z;
                p_idx : coq_Z; p_name : coq_N list; p_pre : coq_Z;
                p_size : coq_Z; p_step : coq_Z; p_last : coq_Z option;
                p_first : bool; p_pausing : bool }

(** val new_bar : coq_Z -> coq_Z -> pstate **)

let new_bar cols tmux =
  { p_cols =
    (if Z.ltb progress_tmux_min tmux
     then Z.sub tmux progress_tmux_margin
     else cols); p_tmux = tmux; p_count = Z0; p_idx = Z0; p_name = [];
    p_pre = Z0; p_size = Z0; p_step = Z0; p_last = None; p_first = true;
    p_pausing = false }

type op =
| OpNum of coq_Z
| OpName of coq_N list
| OpSize of coq_Z
| OpStep of coq_Z * coq_Z * coq_N list * coq_N list * coq_N list
| OpDone of coq_Z * coq_N list * coq_N list * coq_N list
| OpPre of coq_Z
| OpPause of bool
| OpCols of coq_Z

type wr =
| WHide
| WLine of coq_N * coq_Z * coq_N list * coq_N list
| WPanic

(** val set_step : pstate -> coq_Z -> pstate **)

let set_step st s =
  { p_cols = st.p_cols; p_tmux = st.p_tmux; p_count = st.p_count; p_idx =
    st.p_idx; p_name = st.p_name; p_pre = st.p_pre; p_size = st.p_size;
    p_step = s; p_last = st.p_last; p_first = st.p_first; p_pausing =
    st.p_pausing }

(** val set_shown : pstate -> coq_Z option -> bool -> pstate **)

let set_shown st last first =
  { p_cols = st.p_cols; p_tmux = st.p_tmux; p_count = st.p_count; p_idx =
    st.p_idx; p_name = st.p_name; p_pre = st.p_pre; p_size = st.p_size;
    p_step = st.p_step; p_last = last; p_first = first; p_pausing =
    st.p_pausing }

(** val throttled : pstate -> coq_Z -> bool **)

let throttled st now =
  match st.p_last with
  | Some t -> Z.ltb (Z.sub now t) progress_throttle_ms
  | None -> false

(** val show :
    (coq_N -> nat) -> (coq_N list -> nat) -> (coq_Z -> coq_Z -> coq_Z ->
    coq_Z) -> bool -> pstate -> coq_Z -> coq_N list -> coq_N list -> coq_N
    list -> pstate * wr list **)

let show w sw mdr clamped st now total speed eta =
  if throttled st now
  then (st, [])
  else let pct = pct_text mdr clamped st.p_step st.p_size in
       (match progress_text_gen w sw mdr clamped st.p_cols st.p_count
                st.p_idx st.p_name st.p_step st.p_size pct total speed eta with
        | TOk text ->
          let kind =
            if st.p_first
            then N0
            else if Z.ltb Z0 st.p_tmux
                 then Npos (Coq_xO Coq_xH)
                 else Npos Coq_xH
          in
          ((set_shown st (Some now) false), ((WLine (kind, st.p_cols, pct,
          text)) :: []))
        | TPanic -> ((set_shown st (Some now) st.p_first), (WPanic :: [])))

(** val apply_op :
    (coq_N -> nat) -> (coq_N list -> nat) -> (coq_Z -> coq_Z -> coq_Z ->
    coq_Z) -> bool -> op -> pstate -> pstate * wr list **)

let apply_op w sw mdr clamped o st =
  match o with
  | OpNum n ->
    ({ p_cols = st.p_cols; p_tmux = st.p_tmux; p_count = n; p_idx = st.p_idx;
      p_name = st.p_name; p_pre = st.p_pre; p_size = st.p_size; p_step =
      st.p_step; p_last = st.p_last; p_first = st.p_first; p_pausing =
      st.p_pausing }, (WHide :: []))
  | OpName s ->
    ({ p_cols = st.p_cols; p_tmux = st.p_tmux; p_count = st.p_count; p_idx =
      (Z.add st.p_idx (Zpos Coq_xH)); p_name = s; p_pre = Z0; p_size =
      st.p_size; p_step = progress_initial_step; p_last = st.p_last;
      p_first = st.p_first; p_pausing = st.p_pausing }, [])
  | OpSize z ->
    ({ p_cols = st.p_cols; p_tmux = st.p_tmux; p_count = st.p_count; p_idx =
      st.p_idx; p_name = st.p_name; p_pre = st.p_pre; p_size =
      (wrap64 (Z.add st.p_pre z)); p_step = st.p_step; p_last = st.p_last;
      p_first = st.p_first; p_pausing = st.p_pausing }, [])
  | OpStep (z, now, total, speed, eta) ->
    let s = wrap64 (Z.add z st.p_pre) in
    if Z.leb s st.p_step
    then (st, [])
    else let st1 = set_step st s in
         if st.p_pausing
         then (st1, [])
         else show w sw mdr clamped st1 now total speed eta
  | OpDone (now, total, speed, eta) ->
    if Z.eqb st.p_size Z0
    then (st, [])
    else show w sw mdr clamped
           (set_shown (set_step st st.p_size) None st.p_first) now total
           speed eta
  | OpPre z ->
    ({ p_cols = st.p_cols; p_tmux = st.p_tmux; p_count = st.p_count; p_idx =
      st.p_idx; p_name = st.p_name; p_pre = z; p_size = st.p_size; p_step =
      st.p_step; p_last = st.p_last; p_first = st.p_first; p_pausing =
      st.p_pausing }, [])
  | OpPause b ->
    ({ p_cols = st.p_cols; p_tmux = st.p_tmux; p_count = st.p_count; p_idx =
      st.p_idx; p_name = st.p_name; p_pre = st.p_pre; p_size = st.p_size;
      p_step = st.p_step; p_last = st.p_last; p_first = st.p_first;
      p_pausing = b }, (if b then [] else WHide :: []))
  | OpCols c ->
    ({ p_cols = c; p_tmux = (if Z.ltb Z0 st.p_tmux then Z0 else st.p_tmux);
      p_count = st.p_count; p_idx = st.p_idx; p_name = st.p_name; p_pre =
      st.p_pre; p_size = st.p_size; p_step = st.p_step; p_last = st.p_last;
      p_first = st.p_first; p_pausing = st.p_pausing }, [])

(** val run :
    (coq_N -> nat) -> (coq_N list -> nat) -> (coq_Z -> coq_Z -> coq_Z ->
    coq_Z) -> bool -> op list -> pstate -> pstate * wr list list **)

let rec run w sw mdr clamped ops st =
  match ops with
  | [] -> (st, [])
  | o :: r ->
    let (st1, out) = apply_op w sw mdr clamped o st in
    let (st2, outs) = run w sw mdr clamped r st1 in (st2, (out :: outs))

(** val wr_bytes : wr -> coq_N list option **)

let wr_bytes = function
| WHide -> Some progress_hide_cursor
| WLine (kind, cols, _, text) ->
  Some
    (if N.eqb kind N0
     then text
     else if N.eqb kind (Npos (Coq_xO Coq_xH))
          then fmt_subst progress_redraw_tmux_fmt
                 ((dec_Z cols) :: (text :: []))
          else fmt_subst progress_redraw_cr_fmt (text :: []))
| WPanic -> None

type session = { s_cols : coq_Z; s_bar : pstate option }

(** val sess_init : coq_Z -> session **)

let sess_init cols =
  { s_cols = cols; s_bar = None }

type swr =
| SwBar of wr
| SwShow

(** val tick_op : tick -> op **)

let tick_op = function
| TkNum n -> OpNum n
| TkName s -> OpName s
| TkSize z -> OpSize z
| TkStep (z, now, t0, s, e) -> OpStep (z, now, t0, s, e)
| TkDone (now, t0, s, e) -> OpDone (now, t0, s, e)
| TkPre z -> OpPre z
| TkPause b -> OpPause b

(** val sess_on_bar :
    (coq_N -> nat) -> (coq_N list -> nat) -> (coq_Z -> coq_Z -> coq_Z ->
    coq_Z) -> bool -> session -> op -> session * swr list **)

let sess_on_bar w sw mdr clamped s o =
  match s.s_bar with
  | Some b ->
    let (b', out) = apply_op w sw mdr clamped o b in
    ({ s_cols = s.s_cols; s_bar = (Some b') }, (map (fun x -> SwBar x) out))
  | None -> (s, [])

(** val sess_step :
    (coq_N -> nat) -> (coq_N list -> nat) -> (coq_Z -> coq_Z -> coq_Z ->
    coq_Z) -> bool -> sevent -> session -> session * swr list **)

let sess_step w sw mdr clamped e s =
  match e with
  | SeResize c ->
    sess_on_bar w sw mdr clamped { s_cols = c; s_bar = s.s_bar } (OpCols c)
  | SeStart (quiet, pane) ->
    if quiet
    then ({ s_cols = s.s_cols; s_bar = None }, [])
    else let pane' =
           if Z.ltb s.s_cols pane then progress_pane_ignored else pane
         in
         ({ s_cols = s.s_cols; s_bar = (Some (new_bar s.s_cols pane')) }, [])
  | SeTick t -> sess_on_bar w sw mdr clamped s (tick_op t)
  | SePromptOpen -> sess_on_bar w sw mdr clamped s (OpPause true)
  | SePromptClose ->
    let (s1, o1) = sess_on_bar w sw mdr clamped s (OpCols s.s_cols) in
    let (s2, o2) = sess_on_bar w sw mdr clamped s1 (OpPause false) in
    (s2, (app o1 o2))
  | SeEnd ->
    ({ s_cols = s.s_cols; s_bar = None },
      (match s.s_bar with
       | Some _ -> SwShow :: []
       | None -> []))

(** val swr_bytes : swr -> coq_N list option **)

let swr_bytes = function
| SwBar y -> wr_bytes y
| SwShow -> Some progress_show_cursor

(** val progress_bar :
    (coq_Z -> coq_Z -> coq_Z -> coq_Z) -> coq_Z -> coq_Z -> coq_Z -> bres **)

let progress_bar mdr =
  progress_bar_gen mdr progress_clamped

(** val progress_bar_unfixed : coq_Z -> coq_Z -> coq_Z -> bres **)

let progress_bar_unfixed =
  progress_bar_gen mdr_exact false

(** val progress_text :
    (coq_N -> nat) -> (coq_N list -> nat) -> (coq_Z -> coq_Z -> coq_Z ->
    coq_Z) -> coq_Z -> coq_Z -> coq_Z -> coq_N list -> coq_Z -> coq_Z ->
    coq_N list -> coq_N list -> coq_N list -> coq_N list -> tres **)

let progress_text w sw mdr =
  progress_text_gen w sw mdr progress_clamped

(** val run_cur :
    (coq_N -> nat) -> (coq_N list -> nat) -> (coq_Z -> coq_Z -> coq_Z ->
    coq_Z) -> op list -> pstate -> pstate * wr list list **)

let run_cur w sw mdr =
  run w sw mdr progress_clamped

(** val pct_text_cur :
    (coq_Z -> coq_Z -> coq_Z -> coq_Z) -> coq_Z -> coq_Z -> coq_N list **)

let pct_text_cur mdr =
  pct_text mdr progress_clamped

(** val sess_step_cur :
    (coq_N -> nat) -> (coq_N list -> nat) -> (coq_Z -> coq_Z -> coq_Z ->
    coq_Z) -> sevent -> session -> session * swr list **)

let sess_step_cur w sw mdr =
  sess_step w sw mdr progress_clamped
