
val eqb : bool -> bool -> bool
