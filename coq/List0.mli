open Datatypes
open Nat0

val hd : 'a1 -> 'a1 list -> 'a1

val tl : 'a1 list -> 'a1 list

val nth : nat -> 'a1 list -> 'a1 -> 'a1

val nth_error : 'a1 list -> nat -> 'a1 option

val last : 'a1 list -> 'a1 -> 'a1

val removelast : 'a1 list -> 'a1 list

val rev : 'a1 list -> 'a1 list

val concat : 'a1 list list -> 'a1 list

val map : ('a1 -> 'a2) -> 'a1 list -> 'a2 list

val flat_map : ('a1 -> 'a2 list) -> 'a1 list -> 'a2 list

val fold_left : ('a1 -> 'a2 -> 'a1) -> 'a2 list -> 'a1 -> 'a1

val fold_right : ('a2 -> 'a1 -> 'a1) -> 'a1 -> 'a2 list -> 'a1

val existsb : ('a1 -> bool) -> 'a1 list -> bool

val forallb : ('a1 -> bool) -> 'a1 list -> bool

val filter : ('a1 -> bool) -> 'a1 list -> 'a1 list

val firstn : nat -> 'a1 list -> 'a1 list

val skipn : nat -> 'a1 list -> 'a1 list

val seq : nat -> nat -> nat list

val repeat : 'a1 -> nat -> 'a1 list

val list_sum : nat list -> nat
