open BinNat
open BinNums
open Datatypes
open List0
open Pause
open PeanoNat

type bsph =
| BSTake
| BSSplit of coq_N * coq_N
| BSIn of bool * coq_N * coq_N * coq_N * sphase
| BSPush of bool * coq_N * coq_N * coq_N
| BSDone

type bout =
| BOKeep
| BOChunk of bool * coq_N
| BOStopErr

type bev =
| BTick
| BPauseEv
| BResumeEv
| BStopEv
| BSetBuf of coq_N
| BEnqueue of coq_N
| BClose
| BAckTake
| BNext
| BCall
| BWrite
| BPush

type bsd = { bd_pausing : bool; bd_stopped : bool; bd_queue : coq_N list;
             bd_closed : bool; bd_buf : coq_N; bd_ph : bsph; bd_cnt : 
             nat }

val bd_set : bsd -> coq_N list -> bsph -> nat -> bsd

val bs_after_push : bool -> coq_N -> coq_N -> coq_N -> bsph

val bs_gate :
  cfg -> bsd -> bool -> coq_N -> coq_N -> coq_N -> sphase -> sev ->
  bsd * bout list

val bstep : cfg -> nat -> bsd -> bev -> bsd * bout list

val brun : cfg -> nat -> bsd -> bev list -> bsd * bout list

val bs_init : coq_N -> bsd
