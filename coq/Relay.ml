open BinNat
open BinNums
open Bool0
open Bytes0
open Consts
open Datatypes
open List0
open Nat0
open PeanoNat

type chunk = byte list

type status =
| StS
| StH
| StT

type owner =
| Free
| ByIn
| ByOut
| ByHs
| ByTl

type dev =
| Std
| Byp

(** val status_code : status -> coq_N **)

let status_code = function
| StS -> relay_standby
| StH -> relay_handshaking
| StT -> relay_transferring

type inpc =
| I0
| I1 of chunk
| I3 of chunk
| I4 of chunk
| I4a of chunk
| I4p
| I4u of chunk * bool
| I5 of chunk * bool
| I6 of bool

type outpc =
| O0
| O1 of chunk
| O3 of chunk
| O4 of chunk
| O4a of chunk
| O4p
| O4u of chunk * bool
| O5 of chunk * bool
| O5h of chunk * chunk
| O5g of chunk * chunk
| O5s of chunk * chunk
| O6

type hspc =
| HN
| H0
| H2
| H3
| H4
| HF1
| HF2
| HL of bool
| HP1 of bool
| HS1 of bool * chunk
| HP2 of bool
| HS2 of bool * chunk
| HD of bool

type evI =
| PassI of chunk
| EatI of chunk
| InsI of chunk

type evO =
| PassO of dev * chunk * chunk
| EatO of chunk
| InsO of dev * chunk

(** val evI_in : evI -> chunk **)

let evI_in = function
| PassI b -> b
| EatI b -> b
| InsI _ -> []

(** val evI_out : evI -> chunk **)

let evI_out = function
| PassI b -> b
| EatI _ -> []
| InsI b -> b

(** val inI_of : evI list -> byte list **)

let inI_of h =
  concat (map evI_in h)

(** val outI_of : evI list -> byte list **)

let outI_of h =
  concat (map evI_out h)

(** val dev_eqb : dev -> dev -> bool **)

let dev_eqb a b =
  match a with
  | Std -> (match b with
            | Std -> true
            | Byp -> false)
  | Byp -> (match b with
            | Std -> false
            | Byp -> true)

(** val evO_in : evO -> chunk **)

let evO_in = function
| PassO (_, c, _) -> c
| EatO b -> b
| InsO (_, _) -> []

(** val evO_out : dev -> evO -> chunk **)

let evO_out d = function
| PassO (d', _, c') -> if dev_eqb d d' then c' else []
| EatO _ -> []
| InsO (d', b) -> if dev_eqb d d' then b else []

(** val inO_of : evO list -> byte list **)

let inO_of h =
  concat (map evO_in h)

(** val outO_of : dev -> evO list -> byte list **)

let outO_of d h =
  concat (map (evO_out d) h)

type state = { st : status; lk : owner; cin : chunk list; sin : chunk list;
               ibr : chunk; ibq : chunk list; obr : chunk; obq : chunk list;
               slog : byte list; clog : byte list; blog : byte list;
               ipc : inpc; opc : outpc; hpc : hspc; tlk : bool;
               hI : evI list; hO : evO list; trg : bool }

(** val set_st : state -> status -> state **)

let set_st s x =
  { st = x; lk = s.lk; cin = s.cin; sin = s.sin; ibr = s.ibr; ibq = s.ibq;
    obr = s.obr; obq = s.obq; slog = s.slog; clog = s.clog; blog = s.blog;
    ipc = s.ipc; opc = s.opc; hpc = s.hpc; tlk = s.tlk; hI = s.hI; hO = s.hO;
    trg = s.trg }

(** val set_lk : state -> owner -> state **)

let set_lk s x =
  { st = s.st; lk = x; cin = s.cin; sin = s.sin; ibr = s.ibr; ibq = s.ibq;
    obr = s.obr; obq = s.obq; slog = s.slog; clog = s.clog; blog = s.blog;
    ipc = s.ipc; opc = s.opc; hpc = s.hpc; tlk = s.tlk; hI = s.hI; hO = s.hO;
    trg = s.trg }

(** val set_cin : state -> chunk list -> state **)

let set_cin s x =
  { st = s.st; lk = s.lk; cin = x; sin = s.sin; ibr = s.ibr; ibq = s.ibq;
    obr = s.obr; obq = s.obq; slog = s.slog; clog = s.clog; blog = s.blog;
    ipc = s.ipc; opc = s.opc; hpc = s.hpc; tlk = s.tlk; hI = s.hI; hO = s.hO;
    trg = s.trg }

(** val set_sin : state -> chunk list -> state **)

let set_sin s x =
  { st = s.st; lk = s.lk; cin = s.cin; sin = x; ibr = s.ibr; ibq = s.ibq;
    obr = s.obr; obq = s.obq; slog = s.slog; clog = s.clog; blog = s.blog;
    ipc = s.ipc; opc = s.opc; hpc = s.hpc; tlk = s.tlk; hI = s.hI; hO = s.hO;
    trg = s.trg }

(** val set_ib : state -> chunk -> chunk list -> state **)

let set_ib s r q =
  { st = s.st; lk = s.lk; cin = s.cin; sin = s.sin; ibr = r; ibq = q; obr =
    s.obr; obq = s.obq; slog = s.slog; clog = s.clog; blog = s.blog; ipc =
    s.ipc; opc = s.opc; hpc = s.hpc; tlk = s.tlk; hI = s.hI; hO = s.hO; trg =
    s.trg }

(** val set_ob : state -> chunk -> chunk list -> state **)

let set_ob s r q =
  { st = s.st; lk = s.lk; cin = s.cin; sin = s.sin; ibr = s.ibr; ibq = s.ibq;
    obr = r; obq = q; slog = s.slog; clog = s.clog; blog = s.blog; ipc =
    s.ipc; opc = s.opc; hpc = s.hpc; tlk = s.tlk; hI = s.hI; hO = s.hO; trg =
    s.trg }

(** val set_slog : state -> byte list -> state **)

let set_slog s x =
  { st = s.st; lk = s.lk; cin = s.cin; sin = s.sin; ibr = s.ibr; ibq = s.ibq;
    obr = s.obr; obq = s.obq; slog = x; clog = s.clog; blog = s.blog; ipc =
    s.ipc; opc = s.opc; hpc = s.hpc; tlk = s.tlk; hI = s.hI; hO = s.hO; trg =
    s.trg }

(** val set_clog : state -> byte list -> state **)

let set_clog s x =
  { st = s.st; lk = s.lk; cin = s.cin; sin = s.sin; ibr = s.ibr; ibq = s.ibq;
    obr = s.obr; obq = s.obq; slog = s.slog; clog = x; blog = s.blog; ipc =
    s.ipc; opc = s.opc; hpc = s.hpc; tlk = s.tlk; hI = s.hI; hO = s.hO; trg =
    s.trg }

(** val set_blog : state -> byte list -> state **)

let set_blog s x =
  { st = s.st; lk = s.lk; cin = s.cin; sin = s.sin; ibr = s.ibr; ibq = s.ibq;
    obr = s.obr; obq = s.obq; slog = s.slog; clog = s.clog; blog = x; ipc =
    s.ipc; opc = s.opc; hpc = s.hpc; tlk = s.tlk; hI = s.hI; hO = s.hO; trg =
    s.trg }

(** val set_ipc : state -> inpc -> state **)

let set_ipc s x =
  { st = s.st; lk = s.lk; cin = s.cin; sin = s.sin; ibr = s.ibr; ibq = s.ibq;
    obr = s.obr; obq = s.obq; slog = s.slog; clog = s.clog; blog = s.blog;
    ipc = x; opc = s.opc; hpc = s.hpc; tlk = s.tlk; hI = s.hI; hO = s.hO;
    trg = s.trg }

(** val set_opc : state -> outpc -> state **)

let set_opc s x =
  { st = s.st; lk = s.lk; cin = s.cin; sin = s.sin; ibr = s.ibr; ibq = s.ibq;
    obr = s.obr; obq = s.obq; slog = s.slog; clog = s.clog; blog = s.blog;
    ipc = s.ipc; opc = x; hpc = s.hpc; tlk = s.tlk; hI = s.hI; hO = s.hO;
    trg = s.trg }

(** val set_hpc : state -> hspc -> state **)

let set_hpc s x =
  { st = s.st; lk = s.lk; cin = s.cin; sin = s.sin; ibr = s.ibr; ibq = s.ibq;
    obr = s.obr; obq = s.obq; slog = s.slog; clog = s.clog; blog = s.blog;
    ipc = s.ipc; opc = s.opc; hpc = x; tlk = s.tlk; hI = s.hI; hO = s.hO;
    trg = s.trg }

(** val set_tl : state -> bool -> state **)

let set_tl s x =
  { st = s.st; lk = s.lk; cin = s.cin; sin = s.sin; ibr = s.ibr; ibq = s.ibq;
    obr = s.obr; obq = s.obq; slog = s.slog; clog = s.clog; blog = s.blog;
    ipc = s.ipc; opc = s.opc; hpc = s.hpc; tlk = x; hI = s.hI; hO = s.hO;
    trg = s.trg }

(** val set_hI : state -> evI list -> state **)

let set_hI s x =
  { st = s.st; lk = s.lk; cin = s.cin; sin = s.sin; ibr = s.ibr; ibq = s.ibq;
    obr = s.obr; obq = s.obq; slog = s.slog; clog = s.clog; blog = s.blog;
    ipc = s.ipc; opc = s.opc; hpc = s.hpc; tlk = s.tlk; hI = x; hO = s.hO;
    trg = s.trg }

(** val set_hO : state -> evO list -> state **)

let set_hO s x =
  { st = s.st; lk = s.lk; cin = s.cin; sin = s.sin; ibr = s.ibr; ibq = s.ibq;
    obr = s.obr; obq = s.obq; slog = s.slog; clog = s.clog; blog = s.blog;
    ipc = s.ipc; opc = s.opc; hpc = s.hpc; tlk = s.tlk; hI = s.hI; hO = x;
    trg = s.trg }

(** val set_trg : state -> bool -> state **)

let set_trg s x =
  { st = s.st; lk = s.lk; cin = s.cin; sin = s.sin; ibr = s.ibr; ibq = s.ibq;
    obr = s.obr; obq = s.obq; slog = s.slog; clog = s.clog; blog = s.blog;
    ipc = s.ipc; opc = s.opc; hpc = s.hpc; tlk = s.tlk; hI = s.hI; hO = s.hO;
    trg = x }

(** val send_srv : state -> chunk -> evI -> state **)

let send_srv s b e =
  set_hI (set_slog s (app s.slog b)) (app s.hI (e :: []))

(** val send_cli : state -> dev -> chunk -> evO -> state **)

let send_cli s d b e =
  set_hO
    (match d with
     | Std -> set_clog s (app s.clog b)
     | Byp -> set_blog s (app s.blog b)) (app s.hO (e :: []))

(** val bdev : bool -> dev **)

let bdev = function
| true -> Byp
| false -> Std

(** val flat : chunk -> chunk list -> byte list **)

let flat r q =
  app r (concat q)

(** val drop_parked : nat -> chunk -> chunk list -> chunk * chunk list **)

let rec drop_parked n r q =
  if Nat.leb n (length r)
  then ((skipn n r), q)
  else (match q with
        | [] -> ([], [])
        | c :: q' -> drop_parked (sub n (length r)) c q')

(** val pop_buf :
    chunk -> chunk list -> (chunk option * chunk) * chunk list **)

let pop_buf r q =
  match r with
  | [] ->
    (match q with
     | [] -> ((None, []), [])
     | b :: q' -> (((Some b), []), q'))
  | _ :: _ -> (((Some r), []), q)

type rd_res =
| RdMore
| RdOk
| RdErr

type label =
| LInRead
| LInLoad
| LInLock
| LInReload
| LInAdd
| LInUnlockP
| LInUnlockU
| LInSend
| LInEnd of bool
| LOutRead
| LOutLoad
| LOutLock
| LOutReload
| LOutAdd
| LOutUnlockP
| LOutUnlockU
| LOutBypass
| LOutDetect of chunk * bool
| LOutStoreH
| LOutGo
| LOutSend
| LOutEnd of bool
| LHsAct of nat * rd_res
| LHsSendAct of chunk * bool
| LHsCfg of nat * rd_res
| LHsSendCfg of chunk
| LHsFail1 of chunk
| LHsFail2 of chunk
| LHsLock
| LHsPopI
| LHsSendI
| LHsPopO
| LHsSendO
| LHsDone
| LTlUnlock

(** val after_load_in : status -> chunk -> inpc **)

let after_load_in x c =
  match x with
  | StS -> I5 (c, false)
  | StH -> I3 c
  | StT -> I5 (c, true)

(** val after_reload_in : status -> chunk -> inpc **)

let after_reload_in x c =
  match x with
  | StS -> I4u (c, false)
  | StH -> I4a c
  | StT -> I4u (c, true)

(** val after_load_out : status -> chunk -> outpc **)

let after_load_out x c =
  match x with
  | StS -> O5 (c, false)
  | StH -> O3 c
  | StT -> O5 (c, true)

(** val after_reload_out : status -> chunk -> outpc **)

let after_reload_out x c =
  match x with
  | StS -> O4u (c, false)
  | StH -> O4a c
  | StT -> O4u (c, true)

(** val cas_t_s : state -> state **)

let cas_t_s s =
  match s.st with
  | StT -> set_st s StS
  | _ -> s

(** val step_fn : bool -> bool -> label -> state -> state option **)

let step_fn rc tm l s =
  match l with
  | LInRead ->
    (match s.ipc with
     | I0 ->
       (match s.cin with
        | [] -> None
        | c :: r -> Some (set_ipc (set_cin s r) (I1 c)))
     | _ -> None)
  | LInLoad ->
    (match s.ipc with
     | I1 c -> Some (set_ipc s (after_load_in s.st c))
     | _ -> None)
  | LInLock ->
    (match s.ipc with
     | I3 c ->
       (match s.lk with
        | Free -> Some (set_ipc (set_lk s ByIn) (I4 c))
        | _ -> None)
     | _ -> None)
  | LInReload ->
    (match s.ipc with
     | I4 c -> Some (set_ipc s (after_reload_in (if rc then s.st else StH) c))
     | _ -> None)
  | LInAdd ->
    (match s.ipc with
     | I4a c -> Some (set_ipc (set_ib s s.ibr (app s.ibq (c :: []))) I4p)
     | _ -> None)
  | LInUnlockP ->
    (match s.ipc with
     | I4p -> Some (set_ipc (set_lk s Free) I0)
     | _ -> None)
  | LInUnlockU ->
    (match s.ipc with
     | I4u (c, t) -> Some (set_ipc (set_lk s Free) (I5 (c, t)))
     | _ -> None)
  | LInSend ->
    (match s.ipc with
     | I5 (c, t) -> Some (set_ipc (send_srv s c (PassI c)) (I6 t))
     | _ -> None)
  | LInEnd cas ->
    (match s.ipc with
     | I6 t -> Some (set_ipc (if (&&) t cas then cas_t_s s else s) I0)
     | _ -> None)
  | LOutRead ->
    (match s.opc with
     | O0 ->
       (match s.sin with
        | [] -> None
        | c :: r -> Some (set_opc (set_sin s r) (O1 c)))
     | _ -> None)
  | LOutLoad ->
    (match s.opc with
     | O1 c -> Some (set_opc s (after_load_out s.st c))
     | _ -> None)
  | LOutLock ->
    (match s.opc with
     | O3 c ->
       (match s.lk with
        | Free -> Some (set_opc (set_lk s ByOut) (O4 c))
        | _ -> None)
     | _ -> None)
  | LOutReload ->
    (match s.opc with
     | O4 c ->
       Some (set_opc s (after_reload_out (if rc then s.st else StH) c))
     | _ -> None)
  | LOutAdd ->
    (match s.opc with
     | O4a c -> Some (set_opc (set_ob s s.obr (app s.obq (c :: []))) O4p)
     | _ -> None)
  | LOutUnlockP ->
    (match s.opc with
     | O4p -> Some (set_opc (set_lk s Free) O0)
     | _ -> None)
  | LOutUnlockU ->
    (match s.opc with
     | O4u (c, t) -> Some (set_opc (set_lk s Free) (O5 (c, t)))
     | _ -> None)
  | LOutBypass ->
    (match s.opc with
     | O5 (c, t) ->
       if t
       then Some
              (set_opc (send_cli s (bdev tm) c (PassO ((bdev tm), c, c))) O6)
       else None
     | _ -> None)
  | LOutDetect (c', trig) ->
    (match s.opc with
     | O5 (c, t) ->
       if t
       then None
       else Some
              (if trig
               then set_trg (set_opc s (O5h (c, c'))) true
               else set_opc s (O5s (c, c')))
     | _ -> None)
  | LOutStoreH ->
    (match s.opc with
     | O5h (c, c') -> Some (set_opc (set_st s StH) (O5g (c, c')))
     | _ -> None)
  | LOutGo ->
    (match s.opc with
     | O5g (c, c') -> Some (set_opc (set_hpc s H0) (O5s (c, c')))
     | _ -> None)
  | LOutSend ->
    (match s.opc with
     | O5s (c, c') ->
       Some (set_opc (send_cli s Std c' (PassO (Std, c, c'))) O0)
     | _ -> None)
  | LOutEnd cas ->
    (match s.opc with
     | O6 -> Some (set_opc (if cas then cas_t_s s else s) O0)
     | _ -> None)
  | LHsAct (n, r) ->
    (match s.hpc with
     | H0 ->
       let (r', q') = drop_parked n s.ibr s.ibq in
       Some
       (set_hpc
         (set_hI (set_ib s r' q')
           (app s.hI ((EatI (firstn n (flat s.ibr s.ibq))) :: [])))
         (match r with
          | RdMore -> H0
          | RdOk -> H2
          | RdErr -> HF1))
     | _ -> None)
  | LHsSendAct (l0, cf) ->
    (match s.hpc with
     | H2 ->
       Some (set_hpc (send_srv s l0 (InsI l0)) (if cf then H3 else HL false))
     | _ -> None)
  | LHsCfg (n, r) ->
    (match s.hpc with
     | H3 ->
       let (r', q') = drop_parked n s.obr s.obq in
       Some
       (set_hpc
         (set_hO (set_ob s r' q')
           (app s.hO ((EatO (firstn n (flat s.obr s.obq))) :: [])))
         (match r with
          | RdMore -> H3
          | RdOk -> H4
          | RdErr -> HF1))
     | _ -> None)
  | LHsSendCfg l0 ->
    (match s.hpc with
     | H4 ->
       Some
         (set_hpc (send_cli s (bdev tm) l0 (InsO ((bdev tm), l0))) (HL true))
     | _ -> None)
  | LHsFail1 l0 ->
    (match s.hpc with
     | HF1 ->
       Some (set_hpc (send_cli s (bdev tm) l0 (InsO ((bdev tm), l0))) HF2)
     | _ -> None)
  | LHsFail2 l0 ->
    (match s.hpc with
     | HF2 -> Some (set_hpc (send_srv s l0 (InsI l0)) (HL false))
     | _ -> None)
  | LHsLock ->
    (match s.hpc with
     | HL cf ->
       (match s.lk with
        | Free -> Some (set_hpc (set_lk s ByHs) (HP1 cf))
        | _ -> None)
     | _ -> None)
  | LHsPopI ->
    (match s.hpc with
     | HP1 cf ->
       let (p, q') = pop_buf s.ibr s.ibq in
       let (o, r') = p in
       (match o with
        | Some b -> Some (set_hpc (set_ib s r' q') (HS1 (cf, b)))
        | None -> Some (set_hpc (set_ib s r' q') (HP2 cf)))
     | _ -> None)
  | LHsSendI ->
    (match s.hpc with
     | HS1 (cf, b) -> Some (set_hpc (send_srv s b (PassI b)) (HP1 cf))
     | _ -> None)
  | LHsPopO ->
    (match s.hpc with
     | HP2 cf ->
       let (p, q') = pop_buf s.obr s.obq in
       let (o, r') = p in
       (match o with
        | Some b -> Some (set_hpc (set_ob s r' q') (HS2 (cf, b)))
        | None -> Some (set_hpc (set_ob s r' q') (HD cf)))
     | _ -> None)
  | LHsSendO ->
    (match s.hpc with
     | HS2 (cf, b) ->
       let d = if cf then bdev tm else Std in
       Some (set_hpc (send_cli s d b (PassO (d, b, b))) (HP2 cf))
     | _ -> None)
  | LHsDone ->
    (match s.hpc with
     | HD cf ->
       Some
         (set_tl
           (set_lk
             (set_hpc
               (if cf
                then set_st s StT
                else (match s.st with
                      | StH -> set_st s StS
                      | _ -> s)) HN) ByTl) true)
     | _ -> None)
  | LTlUnlock -> if s.tlk then Some (set_tl (set_lk s Free) false) else None

(** val init : chunk list -> chunk list -> state **)

let init cs ss =
  { st = StS; lk = Free; cin = cs; sin = ss; ibr = []; ibq = []; obr = [];
    obq = []; slog = []; clog = []; blog = []; ipc = I0; opc = O0; hpc = HN;
    tlk = false; hI = []; hO = []; trg = false }

(** val run : bool -> bool -> label list -> state -> state option **)

let rec run rc tm ls s =
  match ls with
  | [] -> Some s
  | l :: r ->
    (match step_fn rc tm l s with
     | Some s' -> run rc tm r s'
     | None -> None)

(** val inflightI : inpc -> chunk **)

let inflightI = function
| I1 c -> c
| I3 c -> c
| I4 c -> c
| I4a c -> c
| I4u (c, _) -> c
| I5 (c, _) -> c
| _ -> []

(** val inflightO : outpc -> chunk **)

let inflightO = function
| O1 c -> c
| O3 c -> c
| O4 c -> c
| O4a c -> c
| O4u (c, _) -> c
| O5 (c, _) -> c
| O5h (c, _) -> c
| O5g (c, _) -> c
| O5s (c, _) -> c
| _ -> []

(** val hs_flI : hspc -> chunk **)

let hs_flI = function
| HS1 (_, b) -> b
| _ -> []

(** val hs_flO : hspc -> chunk **)

let hs_flO = function
| HS2 (_, b) -> b
| _ -> []

(** val conserved_I_b : byte list -> state -> bool **)

let conserved_I_b ci s =
  (&&)
    (list_eqb
      (app (inI_of s.hI)
        (app (hs_flI s.hpc)
          (app (flat s.ibr s.ibq) (app (inflightI s.ipc) (concat s.cin)))))
      ci) (list_eqb (outI_of s.hI) s.slog)

type rv_role =
| RvIn
| RvOut
| RvHs

type rv_chan =
| RvSrv
| RvCli
| RvByp

type rv_buf =
| RvBufI
| RvBufO

type rv_ev =
| RvRead of rv_role * chunk
| RvLoad of rv_role * coq_N
| RvLock of rv_role * bool
| RvReload of rv_role * coq_N
| RvAdd of rv_role * chunk
| RvUnlock of rv_role
| RvSend of rv_role * rv_chan * chunk * bool
| RvCas of rv_role * coq_N * bool
| RvStore of rv_role * coq_N
| RvDetect of chunk * bool
| RvGo
| RvEat of rv_buf * nat
| RvRes of rv_buf * bool
| RvPop of rv_buf * chunk option
| RvScope of bool

(** val rv_st_is : state -> coq_N -> bool **)

let rv_st_is s x =
  N.eqb (status_code s.st) x

(** val rv_chan_eqb : rv_chan -> rv_chan -> bool **)

let rv_chan_eqb a b =
  match a with
  | RvSrv -> (match b with
              | RvSrv -> true
              | _ -> false)
  | RvCli -> (match b with
              | RvCli -> true
              | _ -> false)
  | RvByp -> (match b with
              | RvByp -> true
              | _ -> false)

(** val rv_opt_eqb : chunk option -> chunk option -> bool **)

let rv_opt_eqb a b =
  match a with
  | Some x -> (match b with
               | Some y -> list_eqb x y
               | None -> false)
  | None -> (match b with
             | Some _ -> false
             | None -> true)

(** val rv_when : bool -> label list -> label list option **)

let rv_when b ls =
  if b then Some ls else None

(** val rv_rd : bool -> rd_res **)

let rv_rd = function
| true -> RdOk
| false -> RdErr

(** val rv_head_is : chunk list -> chunk -> bool **)

let rv_head_is l c =
  match l with
  | [] -> false
  | c0 :: _ -> list_eqb c0 c

(** val rv_labels : rv_ev -> state -> label list option **)

let rv_labels e s =
  match e with
  | RvRead (r, c) ->
    (match r with
     | RvIn ->
       (match s.ipc with
        | I0 -> rv_when (rv_head_is s.cin c) (LInRead :: [])
        | I6 _ ->
          rv_when (rv_head_is s.cin c) ((LInEnd false) :: (LInRead :: []))
        | _ -> None)
     | RvOut ->
       (match s.opc with
        | O0 -> rv_when (rv_head_is s.sin c) (LOutRead :: [])
        | O6 ->
          rv_when (rv_head_is s.sin c) ((LOutEnd false) :: (LOutRead :: []))
        | _ -> None)
     | RvHs -> None)
  | RvLoad (r, x) ->
    (match r with
     | RvIn ->
       (match s.ipc with
        | I1 _ -> rv_when (rv_st_is s x) (LInLoad :: [])
        | _ -> None)
     | RvOut ->
       (match s.opc with
        | O1 _ -> rv_when (rv_st_is s x) (LOutLoad :: [])
        | _ -> None)
     | RvHs -> None)
  | RvLock (r, cf) ->
    (match r with
     | RvIn -> (match s.ipc with
                | I3 _ -> Some (LInLock :: [])
                | _ -> None)
     | RvOut -> (match s.opc with
                 | O3 _ -> Some (LOutLock :: [])
                 | _ -> None)
     | RvHs ->
       (match s.hpc with
        | HL cf' -> rv_when (eqb cf cf') (LHsLock :: [])
        | _ -> None))
  | RvReload (r, x) ->
    (match r with
     | RvIn ->
       (match s.ipc with
        | I4 _ -> rv_when (rv_st_is s x) (LInReload :: [])
        | _ -> None)
     | RvOut ->
       (match s.opc with
        | O4 _ -> rv_when (rv_st_is s x) (LOutReload :: [])
        | _ -> None)
     | RvHs -> None)
  | RvAdd (r, c) ->
    (match r with
     | RvIn ->
       (match s.ipc with
        | I4a c0 -> rv_when (list_eqb c0 c) (LInAdd :: [])
        | _ -> None)
     | RvOut ->
       (match s.opc with
        | O4a c0 -> rv_when (list_eqb c0 c) (LOutAdd :: [])
        | _ -> None)
     | RvHs -> None)
  | RvUnlock r ->
    (match r with
     | RvIn ->
       (match s.ipc with
        | I4p -> Some (LInUnlockP :: [])
        | I4u (_, _) -> Some (LInUnlockU :: [])
        | _ -> None)
     | RvOut ->
       (match s.opc with
        | O4p -> Some (LOutUnlockP :: [])
        | O4u (_, _) -> Some (LOutUnlockU :: [])
        | _ -> None)
     | RvHs -> rv_when s.tlk (LTlUnlock :: []))
  | RvSend (r, ch, b, cf) ->
    (match r with
     | RvIn ->
       (match s.ipc with
        | I5 (c, _) ->
          rv_when ((&&) (rv_chan_eqb ch RvSrv) (list_eqb c b)) (LInSend :: [])
        | _ -> None)
     | RvOut ->
       (match s.opc with
        | O5 (c, t) ->
          if t
          then rv_when ((&&) (rv_chan_eqb ch RvByp) (list_eqb c b))
                 (LOutBypass :: [])
          else None
        | O5s (_, c') ->
          rv_when ((&&) (rv_chan_eqb ch RvCli) (list_eqb c' b))
            (LOutSend :: [])
        | _ -> None)
     | RvHs ->
       (match s.hpc with
        | H2 -> rv_when (rv_chan_eqb ch RvSrv) ((LHsSendAct (b, cf)) :: [])
        | H4 -> rv_when (rv_chan_eqb ch RvByp) ((LHsSendCfg b) :: [])
        | HF1 -> rv_when (rv_chan_eqb ch RvByp) ((LHsFail1 b) :: [])
        | HF2 -> rv_when (rv_chan_eqb ch RvSrv) ((LHsFail2 b) :: [])
        | HS1 (_, b') ->
          rv_when ((&&) (rv_chan_eqb ch RvSrv) (list_eqb b' b))
            (LHsSendI :: [])
        | HS2 (cf', b') ->
          rv_when
            ((&&) (rv_chan_eqb ch (if cf' then RvByp else RvCli))
              (list_eqb b' b)) (LHsSendO :: [])
        | _ -> None))
  | RvCas (r, old, ok) ->
    (match r with
     | RvIn ->
       (match s.ipc with
        | I6 t ->
          if t
          then rv_when
                 ((&&) (N.eqb old (status_code StT))
                   (eqb ok (rv_st_is s old))) ((LInEnd true) :: [])
          else None
        | _ -> None)
     | RvOut ->
       (match s.opc with
        | O6 ->
          rv_when
            ((&&) (N.eqb old (status_code StT)) (eqb ok (rv_st_is s old)))
            ((LOutEnd true) :: [])
        | _ -> None)
     | RvHs ->
       (match s.hpc with
        | HD cf ->
          if cf
          then None
          else rv_when
                 ((&&) (N.eqb old (status_code StH))
                   (eqb ok (rv_st_is s old))) (LHsDone :: [])
        | _ -> None))
  | RvStore (r, x) ->
    (match r with
     | RvIn -> None
     | RvOut ->
       (match s.opc with
        | O5h (_, _) -> rv_when (N.eqb x (status_code StH)) (LOutStoreH :: [])
        | _ -> None)
     | RvHs ->
       (match s.hpc with
        | HD cf ->
          if cf
          then rv_when (N.eqb x (status_code StT)) (LHsDone :: [])
          else None
        | _ -> None))
  | RvDetect (c', trig) ->
    (match s.opc with
     | O5 (_, t) -> if t then None else Some ((LOutDetect (c', trig)) :: [])
     | _ -> None)
  | RvGo -> (match s.opc with
             | O5g (_, _) -> Some (LOutGo :: [])
             | _ -> None)
  | RvEat (b, n) ->
    (match b with
     | RvBufI ->
       (match s.hpc with
        | H0 ->
          rv_when (Nat.leb n (length (flat s.ibr s.ibq))) ((LHsAct (n,
            RdMore)) :: [])
        | _ -> None)
     | RvBufO ->
       (match s.hpc with
        | H3 ->
          rv_when (Nat.leb n (length (flat s.obr s.obq))) ((LHsCfg (n,
            RdMore)) :: [])
        | _ -> None))
  | RvRes (b, ok) ->
    (match b with
     | RvBufI ->
       (match s.hpc with
        | H0 -> Some ((LHsAct (O, (rv_rd ok))) :: [])
        | _ -> None)
     | RvBufO ->
       (match s.hpc with
        | H3 -> Some ((LHsCfg (O, (rv_rd ok))) :: [])
        | _ -> None))
  | RvPop (b, x) ->
    (match b with
     | RvBufI ->
       (match s.hpc with
        | HP1 _ ->
          rv_when (rv_opt_eqb (fst (fst (pop_buf s.ibr s.ibq))) x)
            (LHsPopI :: [])
        | _ -> None)
     | RvBufO ->
       (match s.hpc with
        | HP2 _ ->
          rv_when (rv_opt_eqb (fst (fst (pop_buf s.obr s.obq))) x)
            (LHsPopO :: [])
        | _ -> None))
  | RvScope v -> rv_when (negb v) []

(** val rv_step : bool -> rv_ev -> state -> state option **)

let rv_step tm e s =
  match rv_labels e s with
  | Some ls -> run true tm ls s
  | None -> None

type rv_result =
| RvOk of state
| RvBad of nat * state

(** val rv_run : bool -> rv_ev list -> nat -> state -> rv_result **)

let rec rv_run tm es i s =
  match es with
  | [] -> RvOk s
  | e :: r ->
    (match rv_step tm e s with
     | Some s' -> rv_run tm r (S i) s'
     | None -> RvBad (i, s))

(** val rg_current : bool **)

let rg_current =
  negb relay_reset_guarded

(** val rg_reset : bool -> status -> state -> state **)

let rg_reset ug expect s =
  if ug
  then set_st s StS
  else (match expect with
        | StS -> (match s.st with
                  | StS -> set_st s StS
                  | _ -> s)
        | StH -> (match s.st with
                  | StH -> set_st s StS
                  | _ -> s)
        | StT -> (match s.st with
                  | StT -> set_st s StS
                  | _ -> s))

(** val rg_step : bool -> bool -> label -> state -> state option **)

let rg_step ug tm l s =
  match l with
  | LInEnd cas ->
    (match s.ipc with
     | I6 t -> Some (set_ipc (if (&&) t cas then rg_reset ug StT s else s) I0)
     | _ -> None)
  | LOutEnd cas ->
    (match s.opc with
     | O6 -> Some (set_opc (if cas then rg_reset ug StT s else s) O0)
     | _ -> None)
  | LHsDone ->
    (match s.hpc with
     | HD cf ->
       Some
         (set_tl
           (set_lk
             (set_hpc (if cf then set_st s StT else rg_reset ug StH s) HN)
             ByTl) true)
     | _ -> None)
  | _ -> step_fn true tm l s

(** val rg_run : bool -> bool -> label list -> state -> state option **)

let rec rg_run ug tm ls s =
  match ls with
  | [] -> Some s
  | l :: r ->
    (match rg_step ug tm l s with
     | Some s' -> rg_run ug tm r s'
     | None -> None)

(** val conserved_O_b : byte list -> state -> bool **)

let conserved_O_b si s =
  (&&)
    ((&&)
      (list_eqb
        (app (inO_of s.hO)
          (app (hs_flO s.hpc)
            (app (flat s.obr s.obq) (app (inflightO s.opc) (concat s.sin)))))
        si) (list_eqb (outO_of Std s.hO) s.clog))
    (list_eqb (outO_of Byp s.hO) s.blog)

(** val rg_is_nil : byte list -> bool **)

let rg_is_nil = function
| [] -> true
| _ :: _ -> false

(** val rg_stranded : state -> bool **)

let rg_stranded s =
  (&&)
    (negb
      ((&&) (rg_is_nil (flat s.ibr s.ibq)) (rg_is_nil (flat s.obr s.obq))))
    (match s.st with
     | StH -> false
     | _ -> true)

(** val rg_bad : byte list -> byte list -> state -> bool **)

let rg_bad ci si s =
  (||) (negb ((&&) (conserved_I_b ci s) (conserved_O_b si s))) (rg_stranded s)

(** val rg_has : coq_N -> byte list -> bool **)

let rg_has x c =
  existsb (N.eqb x) c

(** val rg_line : byte list -> nat option **)

let rec rg_line = function
| [] -> None
| b :: r ->
  if N.eqb b (Npos (Coq_xO (Coq_xI (Coq_xO Coq_xH))))
  then Some (S O)
  else (match rg_line r with
        | Some k -> Some (S k)
        | None -> None)

type rg_mem = { rg_ie : bool; rg_oe : bool; rg_cf : bool }

(** val rg_mem0 : rg_mem **)

let rg_mem0 =
  { rg_ie = false; rg_oe = false; rg_cf = false }

type rg_thread =
| RgIn
| RgOut
| RgHs
| RgTl

(** val rg_next : rg_thread -> rg_mem -> state -> (label * rg_mem) option **)

let rg_next th m s =
  match th with
  | RgIn ->
    (match s.ipc with
     | I0 -> (match s.cin with
              | [] -> None
              | _ :: _ -> Some (LInRead, m))
     | I1 _ -> Some (LInLoad, m)
     | I3 _ -> Some (LInLock, m)
     | I4 _ -> Some (LInReload, m)
     | I4a _ -> Some (LInAdd, m)
     | I4p -> Some (LInUnlockP, m)
     | I4u (_, _) -> Some (LInUnlockU, m)
     | I5 (c, _) ->
       Some (LInSend, { rg_ie = (rg_has (Npos (Coq_xI (Coq_xI Coq_xH))) c);
         rg_oe = m.rg_oe; rg_cf = m.rg_cf })
     | I6 _ -> Some ((LInEnd m.rg_ie), m))
  | RgOut ->
    (match s.opc with
     | O0 -> (match s.sin with
              | [] -> None
              | _ :: _ -> Some (LOutRead, m))
     | O1 _ -> Some (LOutLoad, m)
     | O3 _ -> Some (LOutLock, m)
     | O4 _ -> Some (LOutReload, m)
     | O4a _ -> Some (LOutAdd, m)
     | O4p -> Some (LOutUnlockP, m)
     | O4u (_, _) -> Some (LOutUnlockU, m)
     | O5 (c, t) ->
       if t
       then Some (LOutBypass, { rg_ie = m.rg_ie; rg_oe =
              (rg_has (Npos (Coq_xI (Coq_xI Coq_xH))) c); rg_cf = m.rg_cf })
       else Some ((LOutDetect (c,
              (rg_has (Npos (Coq_xI (Coq_xO (Coq_xO Coq_xH)))) c))), m)
     | O5h (_, _) -> Some (LOutStoreH, m)
     | O5g (_, _) -> Some (LOutGo, m)
     | O5s (_, _) -> Some (LOutSend, m)
     | O6 -> Some ((LOutEnd m.rg_oe), m))
  | RgHs ->
    (match s.hpc with
     | HN -> None
     | H0 ->
       (match rg_line (flat s.ibr s.ibq) with
        | Some k ->
          let line = firstn k (flat s.ibr s.ibq) in
          Some ((LHsAct (k,
          (if rg_has (Npos Coq_xH) line then RdOk else RdErr))), { rg_ie =
          m.rg_ie; rg_oe = m.rg_oe; rg_cf =
          (rg_has (Npos (Coq_xI Coq_xH)) line) })
        | None -> None)
     | H2 ->
       Some ((LHsSendAct (((Npos (Coq_xI (Coq_xO (Coq_xI (Coq_xO (Coq_xO
         (Coq_xI Coq_xH))))))) :: []), m.rg_cf)), m)
     | H3 ->
       (match rg_line (flat s.obr s.obq) with
        | Some k ->
          Some ((LHsCfg (k,
            (if rg_has (Npos (Coq_xO Coq_xH)) (firstn k (flat s.obr s.obq))
             then RdOk
             else RdErr))), m)
        | None -> None)
     | H4 ->
       Some ((LHsSendCfg ((Npos (Coq_xO (Coq_xI (Coq_xI (Coq_xO (Coq_xO
         (Coq_xI Coq_xH))))))) :: [])), m)
     | HF1 ->
       Some ((LHsFail1 ((Npos (Coq_xI (Coq_xI (Coq_xI (Coq_xO (Coq_xO (Coq_xI
         Coq_xH))))))) :: [])), m)
     | HF2 ->
       Some ((LHsFail2 ((Npos (Coq_xI (Coq_xI (Coq_xI (Coq_xO (Coq_xO (Coq_xI
         Coq_xH))))))) :: [])), m)
     | HL _ -> Some (LHsLock, m)
     | HP1 _ -> Some (LHsPopI, m)
     | HS1 (_, _) -> Some (LHsSendI, m)
     | HP2 _ -> Some (LHsPopO, m)
     | HS2 (_, _) -> Some (LHsSendO, m)
     | HD _ -> Some (LHsDone, m))
  | RgTl -> if s.tlk then Some (LTlUnlock, m) else None

(** val rg_move :
    bool -> bool -> rg_thread -> (rg_mem * state) ->
    (label * (rg_mem * state)) option **)

let rg_move ug tm th ms =
  match rg_next th (fst ms) (snd ms) with
  | Some p ->
    let (l, m') = p in
    (match rg_step ug tm l (snd ms) with
     | Some s' -> Some (l, (m', s'))
     | None -> None)
  | None -> None

(** val rg_at_head : rg_thread -> state -> bool **)

let rg_at_head th s =
  match th with
  | RgIn -> (match s.ipc with
             | I0 -> true
             | _ -> false)
  | RgOut -> (match s.opc with
              | O0 -> true
              | _ -> false)
  | RgHs -> (match s.hpc with
             | HN -> true
             | _ -> false)
  | RgTl -> negb s.tlk

(** val rp_current : bool **)

let rp_current =
  negb relay_handshaking_stored_by_reader

type rp_state = bool * state

type rp_label =
| RpL of label
| RpPublish

(** val rp_is_hs : label -> bool **)

let rp_is_hs = function
| LHsAct (_, _) -> true
| LHsSendAct (_, _) -> true
| LHsCfg (_, _) -> true
| LHsSendCfg _ -> true
| LHsFail1 _ -> true
| LHsFail2 _ -> true
| LHsLock -> true
| LHsPopI -> true
| LHsSendI -> true
| LHsPopO -> true
| LHsSendO -> true
| LHsDone -> true
| _ -> false

(** val rp_keep : bool -> state option -> rp_state option **)

let rp_keep pend = function
| Some s -> Some (pend, s)
| None -> None

(** val rp_step :
    bool -> bool -> bool -> rp_label -> rp_state -> rp_state option **)

let rp_step late ug tm x = function
| (pend, s) ->
  (match x with
   | RpL l ->
     if (&&) pend (rp_is_hs l)
     then None
     else (match l with
           | LOutStoreH ->
             if late
             then (match s.opc with
                   | O5h (c, c') -> Some (pend, (set_opc s (O5g (c, c'))))
                   | _ -> None)
             else rp_keep pend (rg_step ug tm l s)
           | LOutGo -> rp_keep late (rg_step ug tm l s)
           | _ -> rp_keep pend (rg_step ug tm l s))
   | RpPublish -> if pend then Some (false, (set_st s StH)) else None)

(** val rp_run :
    bool -> bool -> bool -> rp_label list -> rp_state -> rp_state option **)

let rec rp_run late ug tm ls ps =
  match ls with
  | [] -> Some ps
  | l :: r ->
    (match rp_step late ug tm l ps with
     | Some ps' -> rp_run late ug tm r ps'
     | None -> None)

(** val rp_next :
    rg_thread -> rg_mem -> rp_state -> (rp_label * rg_mem) option **)

let rp_next th m ps =
  match th with
  | RgHs ->
    if fst ps
    then Some (RpPublish, m)
    else (match rg_next th m (snd ps) with
          | Some p -> let (l, m') = p in Some ((RpL l), m')
          | None -> None)
  | _ ->
    (match rg_next th m (snd ps) with
     | Some p -> let (l, m') = p in Some ((RpL l), m')
     | None -> None)

(** val rp_move :
    bool -> bool -> bool -> rg_thread -> (rg_mem * rp_state) ->
    (rp_label * (rg_mem * rp_state)) option **)

let rp_move late ug tm th x =
  match rp_next th (fst x) (snd x) with
  | Some p ->
    let (l, m') = p in
    (match rp_step late ug tm l (snd x) with
     | Some ps' -> Some (l, (m', ps'))
     | None -> None)
  | None -> None

(** val rp_at_head : rg_thread -> rp_state -> bool **)

let rp_at_head th ps =
  match th with
  | RgHs -> (&&) (negb (fst ps)) (rg_at_head th (snd ps))
  | _ -> rg_at_head th (snd ps)

(** val rp_holds : state -> bool **)

let rp_holds s =
  negb
    ((&&)
      ((&&)
        ((&&)
          ((&&)
            ((&&) (rg_is_nil (flat s.ibr s.ibq))
              (rg_is_nil (flat s.obr s.obq))) (rg_is_nil (inflightI s.ipc)))
          (rg_is_nil (inflightO s.opc))) (rg_is_nil (hs_flI s.hpc)))
      (rg_is_nil (hs_flO s.hpc)))
