open BinNat
open BinNums
open Bytes0
open Consts
open Datatypes
open List0
open Nat0
open PeanoNat

(** val leader : byte **)

let leader =
  escape_leader

type table = (byte * byte) list

(** val esc_code : table -> byte -> byte option **)

let rec esc_code t b =
  match t with
  | [] -> None
  | p :: r ->
    let (s, c) = p in
    (match esc_code r b with
     | Some x -> Some x
     | None -> if N.eqb s b then Some c else None)

(** val unesc_code : table -> byte -> byte option **)

let rec unesc_code t c =
  match t with
  | [] -> None
  | p :: r ->
    let (s, c') = p in
    (match unesc_code r c with
     | Some x -> Some x
     | None -> if N.eqb c' c then Some s else None)

(** val escape : table -> byte list -> byte list **)

let rec escape t = function
| [] -> []
| b :: r ->
  (match esc_code t b with
   | Some c -> leader :: (c :: (escape t r))
   | None -> b :: (escape t r))

type ures =
| UOk of byte list * byte list
| UErr of byte

(** val ucons : byte -> ures -> ures **)

let ucons b = function
| UOk (o, rem) -> UOk ((b :: o), rem)
| UErr c -> UErr c

(** val unesc : table -> byte list -> nat -> ures **)

let rec unesc t data room =
  match data with
  | [] -> UOk ([], [])
  | b :: r ->
    if N.eqb b leader
    then (match r with
          | [] -> UOk ([], (b :: []))
          | c :: r' ->
            (match unesc_code t c with
             | Some s ->
               (match room with
                | O -> UOk ((s :: []), r')
                | S room' ->
                  (match room' with
                   | O -> UOk ((s :: []), r')
                   | S _ -> ucons s (unesc t r' room')))
             | None -> UErr c))
    else (match room with
          | O -> UOk ((b :: []), r)
          | S room' ->
            (match room' with
             | O -> UOk ((b :: []), r)
             | S _ -> ucons b (unesc t r room')))

(** val unescape_data : table -> byte list -> nat -> ures **)

let unescape_data t data dstlen =
  match t with
  | [] -> UOk (data, [])
  | _ :: _ ->
    unesc t data (match dstlen with
                  | O -> length data
                  | S _ -> dstlen)

type rres =
| RData of byte list
| REof
| RErr of byte

(** val er_read :
    table -> byte list -> byte list list -> nat -> rres * (byte list * byte
    list list) **)

let rec er_read t buffer cs size =
  match match buffer with
        | [] -> UOk ([], [])
        | _ :: _ -> unesc t buffer size with
  | UOk (out, rem) ->
    (match out with
     | [] ->
       (match cs with
        | [] -> (REof, (rem, []))
        | c :: cs' -> er_read t (app rem c) cs' size)
     | _ :: _ -> ((RData out), (rem, cs)))
  | UErr c -> ((RErr c), (buffer, cs))

(** val next_size : nat list -> nat -> nat * nat list **)

let next_size sizes dflt =
  match sizes with
  | [] -> (dflt, [])
  | s :: r -> (s, r)

type rend =
| EndEof of byte list
| EndErr of byte
| EndFuel

(** val er_run :
    nat -> table -> byte list -> byte list list -> nat list -> nat -> byte
    list list * rend **)

let rec er_run fuel t buffer cs sizes dflt =
  match fuel with
  | O -> ([], EndFuel)
  | S f ->
    let (size, sizes') = next_size sizes dflt in
    let (r, p) = er_read t buffer cs size in
    (match r with
     | RData out ->
       let (b', cs') = p in
       let (outs, e) = er_run f t b' cs' sizes' dflt in ((out :: outs), e)
     | REof -> let (b', _) = p in ([], (EndEof b'))
     | RErr c -> ([], (EndErr c)))

(** val er_fuel : byte list -> byte list list -> nat **)

let er_fuel buffer cs =
  S (add (length buffer) (length (concat cs)))

(** val ew_write : table -> byte list list -> byte list list **)

let ew_write t chunks =
  map (escape t) chunks

(** val latin1 : coq_N list -> byte list option **)

let latin1 s =
  if forallb (fun c ->
       N.ltb c (Npos (Coq_xO (Coq_xO (Coq_xO (Coq_xO (Coq_xO (Coq_xO (Coq_xO
         (Coq_xO Coq_xH)))))))))) s
  then Some s
  else None

(** val table_of_json : coq_N list list list -> table option **)

let rec table_of_json = function
| [] -> Some []
| e :: r ->
  (match e with
   | [] -> None
   | a :: l ->
     (match l with
      | [] -> None
      | b :: l0 ->
        (match l0 with
         | [] ->
           (match latin1 a with
            | Some l1 ->
              (match l1 with
               | [] -> None
               | s :: l2 ->
                 (match l2 with
                  | [] ->
                    (match latin1 b with
                     | Some l3 ->
                       (match l3 with
                        | [] -> None
                        | l4 :: l5 ->
                          (match l5 with
                           | [] -> None
                           | c :: l6 ->
                             (match l6 with
                              | [] ->
                                if N.eqb l4 leader
                                then (match table_of_json r with
                                      | Some t -> Some ((s, c) :: t)
                                      | None -> None)
                                else None
                              | _ :: _ -> None)))
                     | None -> None)
                  | _ :: _ -> None))
            | None -> None)
         | _ :: _ -> None)))

(** val escape_all_pairs : coq_N list -> coq_N -> coq_N list list list **)

let rec escape_all_pairs chars code =
  match chars with
  | [] -> []
  | c :: r ->
    ((c :: []) :: ((leader :: (code :: [])) :: [])) :: (escape_all_pairs r
                                                         (N.add code (Npos
                                                           Coq_xH)))

(** val builtin_json : bool -> coq_N list list list **)

let builtin_json escape_all =
  app (map (fun p -> (fst p) :: ((snd p) :: [])) escape_base_json)
    (if escape_all
     then escape_all_pairs escape_all_chars escape_all_first_code
     else [])

(** val builtin_table : bool -> table **)

let builtin_table escape_all =
  match table_of_json (builtin_json escape_all) with
  | Some t -> t
  | None -> []

(** val er_run_passthru :
    nat -> byte list list -> nat list -> nat -> byte list list **)

let rec er_run_passthru fuel cs sizes dflt =
  match fuel with
  | O -> []
  | S f ->
    let (size, sizes') = next_size sizes dflt in
    (match cs with
     | [] -> []
     | c :: cs' ->
       if Nat.leb (length c) size
       then c :: (er_run_passthru f cs' sizes' dflt)
       else (firstn size c) :: (er_run_passthru f ((skipn size c) :: cs')
                                 sizes' dflt))

(** val er_passthru_fuel : byte list list -> nat **)

let er_passthru_fuel cs =
  S (add (length (concat cs)) (length cs))
