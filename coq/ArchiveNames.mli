open BinNat
open BinNums
open Bytes0
open List0
open Names

val anm_replacement : byte list

val anm_enc1 : coq_N -> byte list

val anm_utf8 : coq_N list -> byte list

val anm_valid : coq_N list -> bool
