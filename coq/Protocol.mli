open BinInt
open BinNums
open Bytes0
open Consts
open Datatypes
open List0
open PeanoNat

type 'digest line =
| LData of byte list
| LMd5 of 'digest
| LKeep
| LOther

type verdict =
| Accept of byte list
| Reject
| Waiting

val md5_verdict :
  (byte list -> 'a1) -> ('a1 -> 'a1 -> bool) -> byte list -> byte list -> 'a1
  line list -> verdict

val recv_v2_sched :
  (byte list -> 'a1) -> ('a1 -> 'a1 -> bool) -> (byte list list -> byte list
  option) -> nat option -> coq_Z -> byte list list -> 'a1 line list -> verdict

val recv_v2 :
  (byte list -> 'a1) -> ('a1 -> 'a1 -> bool) -> (byte list list -> byte list
  option) -> nat option -> coq_Z -> byte list list -> 'a1 line list -> verdict

val recv_v1 :
  (byte list -> 'a1) -> ('a1 -> 'a1 -> bool) -> (byte list -> byte list
  option) -> nat -> coq_Z -> byte list -> 'a1 line list -> verdict

type 'digest ack =
| AFrame of coq_Z * coq_Z
| AFinal of coq_Z
| ADigest of 'digest
| AKeep
| AOther

val send_final : ('a1 -> 'a1 -> bool) -> coq_Z -> 'a1 -> 'a1 ack list -> bool

val send_v2 :
  ('a1 -> 'a1 -> bool) -> coq_Z -> 'a1 -> coq_Z list -> 'a1 ack list -> bool

val send_v1 :
  ('a1 -> 'a1 -> bool) -> 'a1 -> coq_Z list -> 'a1 ack list -> bool

val md5_accept : byte list -> byte list -> bool

val int_ack_accept : coq_Z -> coq_Z -> bool
