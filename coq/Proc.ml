open Datatypes
open List0
open PeanoNat

type chan = nat

type pid = nat

type wgid = nat

type alt =
| SendAlt of chan
| RecvAlt of chan
| DoneAlt
| TimerAlt
| DefaultAlt

type iokind =
| RecvLine
| WriteWire
| PauseGate
| FileIO
| Check
| Unknown

type stmt =
| Sel of (alt * stmt list) list
| Io of iokind
| IoE of iokind * stmt list
| Cancel
| IfCtxExit
| Return
| RecvClose of chan
| SendOnce of chan
| Join of pid
| WgWait of wgid
| WgAdd of wgid
| WgDone of wgid
| Branch of stmt list * stmt list
| LoopCtx of stmt list
| LoopRange of chan * stmt list
| LoopData of stmt list

type proc = { body : stmt list; finally : stmt list; defer_close : chan list;
              exit_cancel : bool; rank : nat }

type net = { procs_of : proc list; caps : nat list; senders : pid option list }

(** val noproc : proc **)

let noproc =
  { body = []; finally = []; defer_close = []; exit_cancel = false; rank = O }

(** val info : net -> pid -> proc **)

let info n p =
  nth p n.procs_of noproc

(** val nprocs : net -> nat **)

let nprocs n =
  length n.procs_of

(** val capof : net -> chan -> nat **)

let capof n c =
  nth c n.caps O

(** val sender : net -> chan -> pid option **)

let sender n c =
  nth c n.senders None

(** val exitsS : stmt -> bool **)

let rec exitsS = function
| Sel cs ->
  let rec fa = function
  | [] -> true
  | c :: r ->
    (&&)
      (let (_, bd) = c in
       let rec ex = function
       | [] -> false
       | x :: t -> (||) (exitsS x) (ex t)
       in ex bd) (fa r)
  in fa cs
| IfCtxExit -> true
| Return -> true
| SendOnce _ -> true
| Branch (a, b) ->
  (&&)
    (let rec ex = function
     | [] -> false
     | x :: t -> (||) (exitsS x) (ex t)
     in ex a)
    (let rec ex = function
     | [] -> false
     | x :: t -> (||) (exitsS x) (ex t)
     in ex b)
| _ -> false

(** val exitsL : stmt list -> bool **)

let exitsL l =
  existsb exitsS l

type condition =
| W1
| W2
| W3
| W4
| W5

(** val is_wake : alt -> bool **)

let is_wake = function
| SendAlt _ -> false
| RecvAlt _ -> false
| _ -> true

(** val has_wake : (alt * stmt list) list -> bool **)

let has_wake cs =
  existsb (fun c -> is_wake (fst c)) cs

(** val opt_pid_eqb : pid option -> pid option -> bool **)

let opt_pid_eqb a b =
  match a with
  | Some x -> (match b with
               | Some y -> Nat.eqb x y
               | None -> false)
  | None -> (match b with
             | Some _ -> false
             | None -> true)

(** val closer_ok : net -> pid -> chan -> bool **)

let closer_ok n me c =
  existsb (fun q ->
    (&&) (Nat.ltb (info n q).rank (info n me).rank)
      (existsb (Nat.eqb c) (info n q).defer_close)) (seq O (nprocs n))

(** val alt_ok : net -> alt -> bool **)

let alt_ok n = function
| SendAlt c -> opt_pid_eqb (sender n c) None
| _ -> true

(** val check : net -> pid -> bool -> stmt -> condition option **)

let check n me infin = function
| Sel cs ->
  if negb (has_wake cs)
  then Some W1
  else if negb (forallb (fun c -> alt_ok n (fst c)) cs) then Some W4 else None
| Io k -> (match k with
           | Unknown -> Some W5
           | _ -> None)
| IoE (k, _) -> (match k with
                 | Unknown -> Some W5
                 | _ -> None)
| IfCtxExit -> if infin then Some W4 else None
| Return -> if infin then Some W4 else None
| RecvClose c -> if closer_ok n me c then None else Some W3
| SendOnce c ->
  if (&&) ((&&) (negb infin) (opt_pid_eqb (sender n c) (Some me)))
       (Nat.ltb O (capof n c))
  then None
  else Some W4
| Join q ->
  if (&&) (Nat.ltb (info n q).rank (info n me).rank) (Nat.ltb q (nprocs n))
  then None
  else Some W3
| WgWait _ -> Some W4
| LoopRange (c, bd) ->
  if negb (closer_ok n me c)
  then Some W3
  else if negb (exitsL bd) then Some W2 else None
| _ -> None

(** val checkb : net -> pid -> bool -> stmt -> bool **)

let checkb n me infin s =
  match check n me infin s with
  | Some _ -> false
  | None -> true

(** val okS : net -> pid -> bool -> stmt -> bool **)

let rec okS n me infin s =
  (&&) (checkb n me infin s)
    (match s with
     | Sel cs ->
       let rec fa = function
       | [] -> true
       | c :: r ->
         (&&)
           (let (_, bd) = c in
            let rec ok = function
            | [] -> true
            | x :: t -> (&&) (okS n me infin x) (ok t)
            in ok bd) (fa r)
       in fa cs
     | IoE (_, bd) ->
       let rec ok = function
       | [] -> true
       | x :: t -> (&&) (okS n me infin x) (ok t)
       in ok bd
     | Branch (a, b) ->
       (&&)
         (let rec ok = function
          | [] -> true
          | x :: t -> (&&) (okS n me infin x) (ok t)
          in ok a)
         (let rec ok = function
          | [] -> true
          | x :: t -> (&&) (okS n me infin x) (ok t)
          in ok b)
     | LoopCtx bd ->
       let rec ok = function
       | [] -> true
       | x :: t -> (&&) (okS n me infin x) (ok t)
       in ok bd
     | LoopRange (_, bd) ->
       let rec ok = function
       | [] -> true
       | x :: t -> (&&) (okS n me infin x) (ok t)
       in ok bd
     | LoopData bd ->
       let rec ok = function
       | [] -> true
       | x :: t -> (&&) (okS n me infin x) (ok t)
       in ok bd
     | _ -> true)

(** val okL : net -> pid -> bool -> stmt list -> bool **)

let okL n me infin l =
  forallb (okS n me infin) l

(** val violS :
    net -> pid -> bool -> stmt -> ((pid * stmt) * condition) list **)

let rec violS n me infin s =
  app
    (match check n me infin s with
     | Some w -> ((me, s), w) :: []
     | None -> [])
    (match s with
     | Sel cs ->
       let rec fa = function
       | [] -> []
       | c :: r ->
         app
           (let (_, bd) = c in
            let rec vl = function
            | [] -> []
            | x :: t -> app (violS n me infin x) (vl t)
            in vl bd) (fa r)
       in fa cs
     | IoE (_, bd) ->
       let rec vl = function
       | [] -> []
       | x :: t -> app (violS n me infin x) (vl t)
       in vl bd
     | Branch (a, b) ->
       app
         (let rec vl = function
          | [] -> []
          | x :: t -> app (violS n me infin x) (vl t)
          in vl a)
         (let rec vl = function
          | [] -> []
          | x :: t -> app (violS n me infin x) (vl t)
          in vl b)
     | LoopCtx bd ->
       let rec vl = function
       | [] -> []
       | x :: t -> app (violS n me infin x) (vl t)
       in vl bd
     | LoopRange (_, bd) ->
       let rec vl = function
       | [] -> []
       | x :: t -> app (violS n me infin x) (vl t)
       in vl bd
     | LoopData bd ->
       let rec vl = function
       | [] -> []
       | x :: t -> app (violS n me infin x) (vl t)
       in vl bd
     | _ -> [])

(** val violL :
    net -> pid -> bool -> stmt list -> ((pid * stmt) * condition) list **)

let violL n me infin l =
  flat_map (violS n me infin) l

(** val ok_proc : net -> pid -> bool **)

let ok_proc n p =
  (&&) (okL n p false (info n p).body) (okL n p true (info n p).finally)

(** val nodupb : nat list -> bool **)

let rec nodupb = function
| [] -> true
| x :: r -> (&&) (negb (existsb (Nat.eqb x) r)) (nodupb r)

(** val closers_unique : net -> bool **)

let closers_unique n =
  nodupb (flat_map (fun p -> p.defer_close) n.procs_of)

(** val wf : net -> bool **)

let wf n =
  (&&) (forallb (ok_proc n) (seq O (nprocs n))) (closers_unique n)

(** val wf_violations : net -> ((pid * stmt) * condition) list **)

let wf_violations n =
  flat_map (fun p ->
    app (violL n p false (info n p).body) (violL n p true (info n p).finally))
    (seq O (nprocs n))

(** val flatS : stmt -> stmt list **)

let rec flatS s =
  s :: (match s with
        | Sel cs ->
          let rec fa = function
          | [] -> []
          | c :: r ->
            app
              (let (_, bd) = c in
               let rec fl = function
               | [] -> []
               | x :: t -> app (flatS x) (fl t)
               in fl bd) (fa r)
          in fa cs
        | IoE (_, bd) ->
          let rec fl = function
          | [] -> []
          | x :: t -> app (flatS x) (fl t)
          in fl bd
        | Branch (a, b) ->
          app
            (let rec fl = function
             | [] -> []
             | x :: t -> app (flatS x) (fl t)
             in fl a)
            (let rec fl = function
             | [] -> []
             | x :: t -> app (flatS x) (fl t)
             in fl b)
        | LoopCtx bd ->
          let rec fl = function
          | [] -> []
          | x :: t -> app (flatS x) (fl t)
          in fl bd
        | LoopRange (_, bd) ->
          let rec fl = function
          | [] -> []
          | x :: t -> app (flatS x) (fl t)
          in fl bd
        | LoopData bd ->
          let rec fl = function
          | [] -> []
          | x :: t -> app (flatS x) (fl t)
          in fl bd
        | _ -> [])

(** val flatL : stmt list -> stmt list **)

let flatL l =
  flat_map flatS l

(** val all_stmts : proc -> stmt list **)

let all_stmts p =
  app (flatL p.body) (flatL p.finally)

(** val is_range : stmt -> bool **)

let is_range = function
| LoopRange (_, _) -> true
| _ -> false

(** val count : (stmt -> bool) -> stmt list -> nat **)

let count f l =
  length (filter f l)

(** val net_counts : net -> nat list **)

let net_counts n =
  app
    ((length n.procs_of) :: ((length n.caps) :: ((length
                                                   (flat_map (fun p ->
                                                     p.defer_close)
                                                     n.procs_of)) :: (
    (list_sum (map (fun p -> count is_range (all_stmts p)) n.procs_of)) :: []))))
    n.caps
