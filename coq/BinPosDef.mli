open BinNums

module Pos :
 sig
  type mask =
  | IsNul
  | IsPos of positive
  | IsNeg
 end
