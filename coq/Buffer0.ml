open BinInt
open BinNat
open BinNums
open Bytes0
open Consts
open Datatypes
open List0
open Nat0
open PeanoNat

(** val nl : byte **)

let nl =
  buffer_line_newline

(** val intr : byte **)

let intr =
  buffer_line_interrupt

(** val cr : byte **)

let cr =
  buffer_line_cr

type pending = byte list list

type rres =
| Done of byte list * pending
| Blocked
| Interrupted of pending

(** val has_byte : byte -> byte list -> bool **)

let has_byte b l =
  existsb (N.eqb b) l

(** val ends_cr : byte list -> bool **)

let ends_cr l =
  match rev l with
  | [] -> false
  | b :: _ -> N.eqb b cr

type cres =
| CLine of byte list * byte list
| CIntr of byte list
| CMore of byte list

(** val in_chunk : nat -> bool -> byte list -> byte list -> cres **)

let rec in_chunk fuel junk acc buf =
  match fuel with
  | O -> CMore acc
  | S f ->
    (match index_byte nl buf with
     | Some i ->
       let post = skipn (add i (S O)) buf in
       let pre = firstn i buf in
       if has_byte intr pre
       then CIntr post
       else let acc' = app acc pre in
            if (&&) junk (ends_cr acc')
            then (match post with
                  | [] -> CMore (removelast acc')
                  | _ :: _ -> in_chunk f junk (removelast acc') post)
            else CLine (acc', post)
     | None -> if has_byte intr buf then CIntr [] else CMore (app acc buf))

(** val read_line : bool -> byte list -> pending -> rres **)

let rec read_line junk acc = function
| [] -> Blocked
| c :: rest ->
  (match in_chunk (S (length c)) junk acc c with
   | CLine (l, post) -> Done (l, (post :: rest))
   | CIntr post -> Interrupted (post :: rest)
   | CMore acc' -> read_line junk acc' rest)

(** val read_binary : nat -> byte list -> pending -> rres **)

let rec read_binary left acc = function
| [] -> Blocked
| c :: rest ->
  if Nat.leb left (length c)
  then Done ((app acc (firstn left c)), ((skipn left c) :: rest))
  else read_binary (sub left (length c)) (app acc c) rest

(** val read_binary_op : coq_Z -> pending -> rres **)

let read_binary_op size pend =
  match Z.to_nat size with
  | O -> Done ([], pend)
  | S n0 -> read_binary (S n0) [] pend

(** val pop_buffer : pending -> byte list option * pending **)

let pop_buffer = function
| [] -> (None, [])
| l :: q ->
  (match l with
   | [] -> (match q with
            | [] -> (None, [])
            | c :: q0 -> ((Some c), ([] :: q0)))
   | b :: c -> ((Some (b :: c)), ([] :: q)))

(** val pop_all : nat -> pending -> byte list list **)

let rec pop_all fuel pend =
  match fuel with
  | O -> []
  | S f ->
    let (o, p') = pop_buffer pend in
    (match o with
     | Some c -> c :: (pop_all f p')
     | None -> [])

(** val pop_all_fuel : pending -> nat **)

let pop_all_fuel pend =
  S (length pend)

type op =
| OpLine of bool
| OpBinary of coq_Z

type result =
| RData of byte list
| RBlocked
| RInterrupted

(** val step : op -> pending -> rres **)

let step o pend =
  match o with
  | OpLine junk -> read_line junk [] pend
  | OpBinary size -> read_binary_op size pend

(** val run_st : op list -> pending -> result list * pending **)

let rec run_st ops pend =
  match ops with
  | [] -> ([], pend)
  | o :: r ->
    (match step o pend with
     | Done (d, p') -> let (rs, e) = run_st r p' in (((RData d) :: rs), e)
     | Blocked -> ((RBlocked :: []), pend)
     | Interrupted _ -> ((RInterrupted :: []), pend))

(** val run : op list -> pending -> result list **)

let run ops pend =
  fst (run_st ops pend)

(** val run_cont : op list -> pending -> result list * pending **)

let rec run_cont ops pend =
  match ops with
  | [] -> ([], pend)
  | o :: r ->
    (match step o pend with
     | Done (d, p') -> let (rs, e) = run_cont r p' in (((RData d) :: rs), e)
     | Blocked -> ((RBlocked :: []), [])
     | Interrupted p' ->
       let (rs, e) = run_cont r p' in ((RInterrupted :: rs), e))

(** val split_at : byte -> byte list -> byte list * byte list option **)

let rec split_at b = function
| [] -> ([], None)
| x :: t ->
  if N.eqb x b
  then ([], (Some t))
  else let (p, r) = split_at b t in ((x :: p), r)

type fres =
| FDone of byte list * byte list
| FBlocked
| FInterrupted

(** val ref_line : byte list -> fres **)

let ref_line s =
  let (pre, o) = split_at nl s in
  (match o with
   | Some post ->
     if has_byte intr pre then FInterrupted else FDone (pre, post)
   | None -> if has_byte intr pre then FInterrupted else FBlocked)

(** val ref_junk_line : nat -> byte list -> byte list -> fres **)

let rec ref_junk_line fuel acc s =
  match fuel with
  | O -> FBlocked
  | S f ->
    let (pre, o) = split_at nl s in
    (match o with
     | Some post ->
       if has_byte intr pre
       then FInterrupted
       else if ends_cr (app acc pre)
            then ref_junk_line f (removelast (app acc pre)) post
            else FDone ((app acc pre), post)
     | None -> if has_byte intr pre then FInterrupted else FBlocked)

(** val ref_binary : coq_Z -> byte list -> fres **)

let ref_binary size s =
  let n = Z.to_nat size in
  if Nat.leb n (length s) then FDone ((firstn n s), (skipn n s)) else FBlocked

(** val ref_step : op -> byte list -> fres **)

let ref_step o s =
  match o with
  | OpLine junk ->
    if junk then ref_junk_line (S (length s)) [] s else ref_line s
  | OpBinary size -> ref_binary size s

(** val ref_run_st : op list -> byte list -> result list * byte list **)

let rec ref_run_st ops s =
  match ops with
  | [] -> ([], s)
  | o :: r ->
    (match ref_step o s with
     | FDone (d, s') ->
       let (rs, e) = ref_run_st r s' in (((RData d) :: rs), e)
     | FBlocked -> ((RBlocked :: []), s)
     | FInterrupted -> ((RInterrupted :: []), s))

(** val ref_run : op list -> byte list -> result list **)

let ref_run ops s =
  fst (ref_run_st ops s)
