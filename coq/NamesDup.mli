open BinNums
open Bytes0
open Datatypes
open List0
open Path

type nd_entry = { nd_abs : coq_N list; nd_rel : name list }

val nd_join : name list -> coq_N list

val nd_mem : coq_N list -> coq_N list list -> bool

val nd_check_from : coq_N list list -> nd_entry list -> coq_N list option

val nd_check : nd_entry list -> coq_N list option

type nd_verdict =
| NdRefused of coq_N list
| NdSend of nd_entry list

val nd_guard : bool -> nd_entry list -> nd_verdict
