open BinInt
open BinNat
open BinNums
open Bytes0
open Consts
open Datatypes
open List0
open Nat0
open PeanoNat

(** val is_hex_lc : coq_N -> bool **)

let is_hex_lc b =
  (||)
    ((&&)
      (N.leb (Npos (Coq_xO (Coq_xO (Coq_xO (Coq_xO (Coq_xI Coq_xH)))))) b)
      (N.leb b (Npos (Coq_xI (Coq_xO (Coq_xO (Coq_xI (Coq_xI Coq_xH))))))))
    ((&&)
      (N.leb (Npos (Coq_xI (Coq_xO (Coq_xO (Coq_xO (Coq_xO (Coq_xI
        Coq_xH))))))) b)
      (N.leb b (Npos (Coq_xO (Coq_xI (Coq_xI (Coq_xO (Coq_xO (Coq_xI
        Coq_xH)))))))))

(** val all_hex : nat -> coq_N list -> bool **)

let rec all_hex n l =
  match n with
  | O -> true
  | S n' ->
    (match l with
     | [] -> false
     | b :: r -> (&&) (is_hex_lc b) (all_hex n' r))

(** val init_prefix : coq_N list **)

let init_prefix =
  (Npos (Coq_xO (Coq_xI (Coq_xO (Coq_xI (Coq_xO Coq_xH)))))) :: ((Npos
    (Coq_xO (Coq_xI (Coq_xO (Coq_xI (Coq_xO Coq_xH)))))) :: ((Npos (Coq_xO
    (Coq_xO (Coq_xO (Coq_xI Coq_xH))))) :: ((Npos (Coq_xO (Coq_xI (Coq_xO
    (Coq_xO (Coq_xO (Coq_xO Coq_xH))))))) :: ((Npos (Coq_xO (Coq_xO (Coq_xO
    (Coq_xO (Coq_xI Coq_xH)))))) :: []))))

(** val finish_prefix : coq_N list **)

let finish_prefix =
  (Npos (Coq_xO (Coq_xI (Coq_xO (Coq_xI (Coq_xO Coq_xH)))))) :: ((Npos
    (Coq_xO (Coq_xI (Coq_xO (Coq_xI (Coq_xO Coq_xH)))))) :: ((Npos (Coq_xO
    (Coq_xO (Coq_xO (Coq_xI Coq_xH))))) :: ((Npos (Coq_xO (Coq_xI (Coq_xO
    (Coq_xO (Coq_xO (Coq_xO Coq_xH))))))) :: ((Npos (Coq_xO (Coq_xO (Coq_xO
    (Coq_xO (Coq_xI Coq_xH)))))) :: ((Npos (Coq_xO (Coq_xO (Coq_xO (Coq_xI
    (Coq_xI Coq_xH)))))) :: [])))))

(** val init_at : coq_N list -> bool option **)

let init_at l =
  if has_prefix init_prefix l
  then (match skipn (S (S (S (S (S O))))) l with
        | [] -> None
        | d :: r ->
          if (&&)
               ((||)
                 (N.eqb d (Npos (Coq_xO (Coq_xO (Coq_xO (Coq_xO (Coq_xI
                   Coq_xH)))))))
                 (N.eqb d (Npos (Coq_xI (Coq_xO (Coq_xO (Coq_xO (Coq_xI
                   Coq_xH))))))))
               (all_hex (S (S (S (S (S (S (S (S (S (S (S (S O)))))))))))) r)
          then Some
                 (N.eqb d (Npos (Coq_xI (Coq_xO (Coq_xO (Coq_xO (Coq_xI
                   Coq_xH)))))))
          else None)
  else None

(** val init_find : coq_N list -> bool option **)

let rec init_find l =
  match init_at l with
  | Some u -> Some u
  | None -> (match l with
             | [] -> None
             | _ :: r -> init_find r)

(** val finish_at : coq_N list -> bool **)

let finish_at l =
  (&&) (has_prefix finish_prefix l)
    (all_hex (S (S (S (S (S (S (S (S (S (S (S (S O))))))))))))
      (skipn (S (S (S (S (S (S O)))))) l))

(** val finish_find : coq_N list -> bool **)

let rec finish_find l =
  (||) (finish_at l) (match l with
                      | [] -> false
                      | _ :: r -> finish_find r)

(** val is_finish : coq_N list -> bool **)

let is_finish buf =
  (&&) (N.ltb (N.of_nat (length buf)) zmodem_finish_max_len) (finish_find buf)

(** val has_cancel : coq_N list -> bool **)

let has_cancel buf =
  contains zmodem_cancel_sub buf

(** val has_cannot : coq_N list -> bool **)

let has_cannot buf =
  contains zmodem_cannot_open buf

(** val detect_zmodem : coq_N list -> bool option **)

let detect_zmodem buf =
  match init_find buf with
  | Some up ->
    if (||) (has_cancel buf) (has_cannot buf) then None else Some up
  | None -> None

type helper =
| HNone
| HRun
| HExit of coq_Z

type zstate = { upload : bool; cf : bool; sf : bool; eo : bool;
                stopped : bool; cleaned : bool; hp : helper; reader : 
                bool; lpend : bool; tcu : bool; tcl : bool; tsv : bool;
                ksched : bool; gbegun : bool }

(** val set_cf : bool -> zstate -> zstate **)

let set_cf v s =
  { upload = s.upload; cf = v; sf = s.sf; eo = s.eo; stopped = s.stopped;
    cleaned = s.cleaned; hp = s.hp; reader = s.reader; lpend = s.lpend; tcu =
    s.tcu; tcl = s.tcl; tsv = s.tsv; ksched = s.ksched; gbegun = s.gbegun }

(** val set_sf : bool -> zstate -> zstate **)

let set_sf v s =
  { upload = s.upload; cf = s.cf; sf = v; eo = s.eo; stopped = s.stopped;
    cleaned = s.cleaned; hp = s.hp; reader = s.reader; lpend = s.lpend; tcu =
    s.tcu; tcl = s.tcl; tsv = s.tsv; ksched = s.ksched; gbegun = s.gbegun }

(** val set_eo : bool -> zstate -> zstate **)

let set_eo v s =
  { upload = s.upload; cf = s.cf; sf = s.sf; eo = v; stopped = s.stopped;
    cleaned = s.cleaned; hp = s.hp; reader = s.reader; lpend = s.lpend; tcu =
    s.tcu; tcl = s.tcl; tsv = s.tsv; ksched = s.ksched; gbegun = s.gbegun }

(** val set_stopped : bool -> zstate -> zstate **)

let set_stopped v s =
  { upload = s.upload; cf = s.cf; sf = s.sf; eo = s.eo; stopped = v;
    cleaned = s.cleaned; hp = s.hp; reader = s.reader; lpend = s.lpend; tcu =
    s.tcu; tcl = s.tcl; tsv = s.tsv; ksched = s.ksched; gbegun = s.gbegun }

(** val set_cleaned : bool -> zstate -> zstate **)

let set_cleaned v s =
  { upload = s.upload; cf = s.cf; sf = s.sf; eo = s.eo; stopped = s.stopped;
    cleaned = v; hp = s.hp; reader = s.reader; lpend = s.lpend; tcu = s.tcu;
    tcl = s.tcl; tsv = s.tsv; ksched = s.ksched; gbegun = s.gbegun }

(** val set_hp : helper -> zstate -> zstate **)

let set_hp v s =
  { upload = s.upload; cf = s.cf; sf = s.sf; eo = s.eo; stopped = s.stopped;
    cleaned = s.cleaned; hp = v; reader = s.reader; lpend = s.lpend; tcu =
    s.tcu; tcl = s.tcl; tsv = s.tsv; ksched = s.ksched; gbegun = s.gbegun }

(** val set_reader : bool -> zstate -> zstate **)

let set_reader v s =
  { upload = s.upload; cf = s.cf; sf = s.sf; eo = s.eo; stopped = s.stopped;
    cleaned = s.cleaned; hp = s.hp; reader = v; lpend = s.lpend; tcu = s.tcu;
    tcl = s.tcl; tsv = s.tsv; ksched = s.ksched; gbegun = s.gbegun }

(** val set_lpend : bool -> zstate -> zstate **)

let set_lpend v s =
  { upload = s.upload; cf = s.cf; sf = s.sf; eo = s.eo; stopped = s.stopped;
    cleaned = s.cleaned; hp = s.hp; reader = s.reader; lpend = v; tcu =
    s.tcu; tcl = s.tcl; tsv = s.tsv; ksched = s.ksched; gbegun = s.gbegun }

(** val set_tcu : bool -> zstate -> zstate **)

let set_tcu v s =
  { upload = s.upload; cf = s.cf; sf = s.sf; eo = s.eo; stopped = s.stopped;
    cleaned = s.cleaned; hp = s.hp; reader = s.reader; lpend = s.lpend; tcu =
    v; tcl = s.tcl; tsv = s.tsv; ksched = s.ksched; gbegun = s.gbegun }

(** val set_tcl : bool -> zstate -> zstate **)

let set_tcl v s =
  { upload = s.upload; cf = s.cf; sf = s.sf; eo = s.eo; stopped = s.stopped;
    cleaned = s.cleaned; hp = s.hp; reader = s.reader; lpend = s.lpend; tcu =
    s.tcu; tcl = v; tsv = s.tsv; ksched = s.ksched; gbegun = s.gbegun }

(** val set_tsv : bool -> zstate -> zstate **)

let set_tsv v s =
  { upload = s.upload; cf = s.cf; sf = s.sf; eo = s.eo; stopped = s.stopped;
    cleaned = s.cleaned; hp = s.hp; reader = s.reader; lpend = s.lpend; tcu =
    s.tcu; tcl = s.tcl; tsv = v; ksched = s.ksched; gbegun = s.gbegun }

(** val set_ksched : bool -> zstate -> zstate **)

let set_ksched v s =
  { upload = s.upload; cf = s.cf; sf = s.sf; eo = s.eo; stopped = s.stopped;
    cleaned = s.cleaned; hp = s.hp; reader = s.reader; lpend = s.lpend; tcu =
    s.tcu; tcl = s.tcl; tsv = s.tsv; ksched = v; gbegun = s.gbegun }

(** val set_gbegun : bool -> zstate -> zstate **)

let set_gbegun v s =
  { upload = s.upload; cf = s.cf; sf = s.sf; eo = s.eo; stopped = s.stopped;
    cleaned = s.cleaned; hp = s.hp; reader = s.reader; lpend = s.lpend; tcu =
    s.tcu; tcl = s.tcl; tsv = s.tsv; ksched = s.ksched; gbegun = v }

type fstate = { zs : zstate; ptr : bool }

(** val new_session : bool -> zstate **)

let new_session up =
  { upload = up; cf = false; sf = false; eo = false; stopped = false;
    cleaned = false; hp = HNone; reader = false; lpend = true; tcu = false;
    tcl = false; tsv = false; ksched = false; gbegun = false }

(** val idle : fstate **)

let idle =
  { zs = { upload = false; cf = false; sf = false; eo = false; stopped =
    true; cleaned = true; hp = HNone; reader = false; lpend = false; tcu =
    false; tcl = false; tsv = false; ksched = false; gbegun = true }; ptr =
    false }

type launch_res =
| LaunchOk
| LaunchFail
| ChooserErr

type event =
| EvServer of coq_N list
| EvInput of coq_N list
| EvLaunch of launch_res
| EvHelperOut of coq_N list
| EvHelperEOF
| EvHelperReadErr
| EvHelperExit of coq_Z
| EvCleanupFire
| EvClientFire
| EvServerFire
| EvGraceBegin

type msg =
| MStopped
| MSuccess
| MExit of coq_Z
| MLaunchFail
| MChooser
| MClientTimeout
| MServerTimeout
| MReadErr

type timer =
| TCleanup
| TClient
| TServer

type output =
| OTerm of coq_N list
| OHide
| OShow
| OMsg of msg
| OServer of coq_N list
| OCancelServer
| OCancelHelper
| OOServer
| OOHelper
| OHelper of coq_N list
| OClaim
| OForward
| OInput of bool
| OStart of bool
| OArm of timer
| OStopT of timer
| OKill
| OLaunchHelper
| OCrash

type res = zstate * output list

(** val andthen : res -> (zstate -> res) -> res **)

let andthen r f =
  let (s, o) = r in let (s', o') = f s in (s', (app o o'))

(** val is_transferring : zstate -> bool **)

let is_transferring s =
  (||) (negb s.stopped) (negb s.cleaned)

(** val to_helper : zstate -> output -> output list **)

let to_helper s o =
  match s.hp with
  | HRun -> o :: []
  | _ -> []

(** val reset_cleanup : zstate -> res **)

let reset_cleanup s =
  ((set_tcu true s), ((OArm TCleanup) :: []))

(** val reset_client : zstate -> res **)

let reset_client s =
  if s.upload then ((set_tcl true s), ((OArm TClient) :: [])) else (s, [])

(** val reset_server : zstate -> res **)

let reset_server s =
  if s.upload then (s, []) else ((set_tsv true s), ((OArm TServer) :: []))

(** val handle_error_gen : bool -> bool -> msg -> zstate -> res **)

let handle_error_gen fixed alive m s =
  if s.stopped
  then (s, [])
  else let s1 = set_eo true (set_stopped true s) in
       (match s1.hp with
        | HNone ->
          if fixed
          then ((set_tcu true s1), (OCancelServer :: ((OArm
                 TCleanup) :: ((OMsg m) :: []))))
          else (s1, (OCancelServer :: ((OMsg m) :: [])))
        | _ ->
          ((set_ksched true s1),
            (app (OCancelServer :: [])
              (app (if alive then to_helper s1 OCancelHelper else [])
                (OKill :: ((OMsg m) :: []))))))

(** val handle_error : bool -> msg -> zstate -> res **)

let handle_error fixed =
  handle_error_gen fixed true

(** val ensure_over_and_out : zstate -> res **)

let ensure_over_and_out s =
  if (&&) s.sf s.cf
  then (s, (if s.upload then OOServer :: [] else to_helper s OOHelper))
  else (s, [])

(** val handle_server_output : coq_N list -> zstate -> res * bool **)

let handle_server_output buf s =
  if s.stopped
  then if s.cleaned then ((s, []), false) else ((reset_cleanup s), true)
  else (match s.hp with
        | HNone ->
          if (||) (has_cancel buf) (has_cannot buf)
          then (((set_stopped true (set_cleaned true s)), []), false)
          else ((s, []), true)
        | _ ->
          ((andthen
             (andthen (reset_server s) (fun s0 ->
               if (&&) (is_finish buf) (negb s0.sf)
               then ensure_over_and_out (set_sf true s0)
               else (s0, []))) (fun s0 -> (s0, (to_helper s0 (OHelper buf))))),
            true))

(** val reader_end : zstate -> res **)

let reader_end s =
  ((set_ksched true (set_reader false (set_tcl false s))),
    (app (if s.upload then (OStopT TClient) :: [] else []) (OKill :: [])))

(** val helper_out : bool -> coq_N list -> zstate -> res **)

let helper_out _ buf s =
  if negb s.reader
  then (s, [])
  else andthen (reset_client s) (fun s0 ->
         match buf with
         | [] -> (s0, [])
         | _ :: _ ->
           if (||) s0.eo ((&&) s0.sf s0.cf)
           then reader_end s0
           else andthen
                  (if (&&) (is_finish buf) (negb s0.cf)
                   then ensure_over_and_out (set_cf true s0)
                   else (s0, [])) (fun s1 -> (s1, ((OServer buf) :: []))))

(** val helper_eof : zstate -> res **)

let helper_eof s =
  if negb s.reader then (s, []) else andthen (reset_client s) reader_end

(** val helper_readerr : bool -> zstate -> res **)

let helper_readerr fixed s =
  if negb s.reader
  then (s, [])
  else andthen
         (andthen (reset_client s) (handle_error_gen fixed false MReadErr))
         reader_end

(** val helper_exit : coq_Z -> zstate -> res **)

let helper_exit code s =
  match s.hp with
  | HRun ->
    let s1 = set_stopped true (set_hp (HExit code) s) in
    if s1.upload
    then let o2 = [] in
         ((set_tcu true s1),
         (app o2 ((OMsg
           (if Z.eqb code Z0 then MSuccess else MExit code)) :: ((OArm
           TCleanup) :: (OCancelServer :: [])))))
    else let s2 = set_tsv false s1 in
         let o2 = (OStopT TServer) :: [] in
         ((set_tcu true s2),
         (app o2 ((OMsg
           (if Z.eqb code Z0 then MSuccess else MExit code)) :: ((OArm
           TCleanup) :: (OCancelServer :: [])))))
  | _ -> (s, [])

(** val grace_begin : zstate -> res **)

let grace_begin s =
  if (&&) s.lpend (negb s.gbegun) then ((set_gbegun true s), []) else (s, [])

(** val launch : bool -> launch_res -> zstate -> res **)

let launch fixed r s =
  if negb ((&&) s.lpend s.gbegun)
  then (s, [])
  else let s0 = set_lpend false s in
       if s0.stopped
       then (s0, [])
       else (match r with
             | LaunchOk ->
               andthen
                 (andthen ((set_reader true (set_hp HRun s0)),
                   (OLaunchHelper :: [])) reset_client) reset_server
             | LaunchFail -> handle_error fixed MLaunchFail s0
             | ChooserErr -> handle_error fixed MChooser s0)

(** val cleanup_fire : zstate -> res **)

let cleanup_fire s =
  if s.tcu
  then ((set_cleaned true (set_tcu false s)), ((OServer
         zmodem_cleanup_enter) :: []))
  else (s, [])

type fres = fstate * output list

(** val lift : bool -> res -> fres **)

let lift p r =
  ({ zs = (fst r); ptr = p }, (snd r))

(** val server_chunk : coq_N list -> fstate -> fres **)

let server_chunk buf f =
  if f.ptr
  then let (r, c) = handle_server_output buf f.zs in
       let p = ((fst r), (snd r)) in
       let (z1, o1) = p in
       if c
       then ({ zs = z1; ptr = true }, (OClaim :: o1))
       else let o2 =
              app o1
                (app (if f.ptr then OShow :: [] else []) (OForward :: ((OTerm
                  buf) :: [])))
            in
            (match detect_zmodem buf with
             | Some up ->
               ({ zs = (new_session up); ptr = true },
                 (app o2 (OHide :: ((OStart up) :: []))))
             | None -> ({ zs = z1; ptr = false }, o2))
  else let p = (f.zs, []) in
       let claimed = false in
       let (z1, o1) = p in
       if claimed
       then ({ zs = z1; ptr = true }, (OClaim :: o1))
       else let o2 =
              app o1
                (app (if f.ptr then OShow :: [] else []) (OForward :: ((OTerm
                  buf) :: [])))
            in
            (match detect_zmodem buf with
             | Some up ->
               ({ zs = (new_session up); ptr = true },
                 (app o2 (OHide :: ((OStart up) :: []))))
             | None -> ({ zs = z1; ptr = false }, o2))

(** val typed : bool -> coq_N list -> fstate -> fres **)

let typed fixed buf f =
  if f.ptr
  then let (z1, o1) =
         if list_eqb buf (zmodem_ctrl_c :: [])
         then handle_error fixed MStopped f.zs
         else (f.zs, [])
       in
       if is_transferring z1
       then ({ zs = z1; ptr = true }, (app o1 ((OInput false) :: [])))
       else ({ zs = z1; ptr = true },
              (app o1 ((OServer buf) :: ((OInput true) :: []))))
  else (f, ((OServer buf) :: ((OInput true) :: [])))

(** val step_gen : bool -> fstate -> event -> fres **)

let step_gen fixed f = function
| EvServer buf -> server_chunk buf f
| EvInput buf -> typed fixed buf f
| EvLaunch r -> lift f.ptr (launch fixed r f.zs)
| EvHelperOut buf -> lift f.ptr (helper_out fixed buf f.zs)
| EvHelperEOF -> lift f.ptr (helper_eof f.zs)
| EvHelperReadErr -> lift f.ptr (helper_readerr fixed f.zs)
| EvHelperExit c -> lift f.ptr (helper_exit c f.zs)
| EvCleanupFire -> lift f.ptr (cleanup_fire f.zs)
| EvClientFire ->
  lift f.ptr
    (if f.zs.tcl
     then handle_error fixed MClientTimeout (set_tcl false f.zs)
     else (f.zs, []))
| EvServerFire ->
  lift f.ptr
    (if f.zs.tsv
     then handle_error fixed MServerTimeout (set_tsv false f.zs)
     else (f.zs, []))
| EvGraceBegin -> lift f.ptr (grace_begin f.zs)

(** val run_gen : bool -> fstate -> event list -> fres **)

let rec run_gen fixed f = function
| [] -> (f, [])
| e :: r ->
  let (f1, o1) = step_gen fixed f e in
  let (f2, o2) = run_gen fixed f1 r in (f2, (app o1 o2))

type scripted =
| ScServer of coq_N list
| ScInput of coq_N list
| ScHelperOut of coq_N list
| ScHelperExit of coq_Z

type remote_spec = { r_t0 : coq_N; r_period : coq_N; r_max : nat;
                     r_hdr : coq_N list; r_prompt : coq_N list }

(** val remote_stopper : output -> bool **)

let remote_stopper = function
| OServer b -> finish_find b
| OCancelServer -> true
| OOServer -> true
| _ -> false

(** val remote_waiting : output list -> bool **)

let remote_waiting os =
  negb (existsb remote_stopper os)

(** val ends_in_cr : coq_N list -> bool **)

let ends_in_cr b =
  match rev b with
  | [] -> false
  | n :: _ ->
    (match n with
     | N0 -> false
     | Npos p ->
       (match p with
        | Coq_xI p0 ->
          (match p0 with
           | Coq_xO p1 ->
             (match p1 with
              | Coq_xI p2 -> (match p2 with
                              | Coq_xH -> true
                              | _ -> false)
              | _ -> false)
           | _ -> false)
        | _ -> false))

type scenario = { sc_launch : launch_res; sc_autoexit : coq_Z option;
                  sc_dlpath : bool; sc_greet : coq_N list;
                  sc_remote : remote_spec option; sc_readerr : bool list }

type pend = { p_launch : coq_N option; p_kill : coq_N option;
              p_cleanup : coq_N option; p_client : coq_N option;
              p_server : coq_N option }

(** val no_pend : pend **)

let no_pend =
  { p_launch = None; p_kill = None; p_cleanup = None; p_client = None;
    p_server = None }

(** val note : scenario -> coq_N -> pend -> output -> pend **)

let note sc t p = function
| OStart up ->
  { p_launch = (Some
    (N.add (N.add t zmodem_launch_delay_ms)
      (if (&&) sc.sc_dlpath (negb up)
       then zmodem_default_path_delay_ms
       else N0))); p_kill = None; p_cleanup = None; p_client = None;
    p_server = None }
| OArm t0 ->
  (match t0 with
   | TCleanup ->
     { p_launch = p.p_launch; p_kill = p.p_kill; p_cleanup = (Some
       (N.add t zmodem_cleanup_ms)); p_client = p.p_client; p_server =
       p.p_server }
   | TClient ->
     { p_launch = p.p_launch; p_kill = p.p_kill; p_cleanup = p.p_cleanup;
       p_client = (Some (N.add t zmodem_client_timeout_ms)); p_server =
       p.p_server }
   | TServer ->
     { p_launch = p.p_launch; p_kill = p.p_kill; p_cleanup = p.p_cleanup;
       p_client = p.p_client; p_server = (Some
       (N.add t zmodem_server_timeout_ms)) })
| OStopT t0 ->
  (match t0 with
   | TCleanup ->
     { p_launch = p.p_launch; p_kill = p.p_kill; p_cleanup = None; p_client =
       p.p_client; p_server = p.p_server }
   | TClient ->
     { p_launch = p.p_launch; p_kill = p.p_kill; p_cleanup = p.p_cleanup;
       p_client = None; p_server = p.p_server }
   | TServer ->
     { p_launch = p.p_launch; p_kill = p.p_kill; p_cleanup = p.p_cleanup;
       p_client = p.p_client; p_server = None })
| OKill ->
  { p_launch = p.p_launch; p_kill =
    (match p.p_kill with
     | Some k -> Some k
     | None -> Some (N.add t zmodem_kill_delay_ms)); p_cleanup = p.p_cleanup;
    p_client = p.p_client; p_server = p.p_server }
| _ -> p

type internal =
| ILaunch
| IKill
| ICleanup
| IClient
| IServer

(** val earlier :
    (coq_N * internal) option -> (coq_N * internal) option ->
    (coq_N * internal) option **)

let earlier a b =
  match a with
  | Some p ->
    let (ta, _) = p in
    (match b with
     | Some p0 -> let (tb, _) = p0 in if N.ltb tb ta then b else a
     | None -> a)
  | None -> b

(** val tag : internal -> coq_N option -> (coq_N * internal) option **)

let tag i = function
| Some t -> Some (t, i)
| None -> None

(** val next_internal : pend -> (coq_N * internal) option **)

let next_internal p =
  earlier
    (earlier
      (earlier (earlier (tag ILaunch p.p_launch) (tag IKill p.p_kill))
        (tag ICleanup p.p_cleanup)) (tag IClient p.p_client))
    (tag IServer p.p_server)

(** val clear : internal -> pend -> pend **)

let clear i p =
  match i with
  | ILaunch ->
    { p_launch = None; p_kill = p.p_kill; p_cleanup = p.p_cleanup; p_client =
      p.p_client; p_server = p.p_server }
  | IKill ->
    { p_launch = p.p_launch; p_kill = None; p_cleanup = p.p_cleanup;
      p_client = p.p_client; p_server = p.p_server }
  | ICleanup ->
    { p_launch = p.p_launch; p_kill = p.p_kill; p_cleanup = None; p_client =
      p.p_client; p_server = p.p_server }
  | IClient ->
    { p_launch = p.p_launch; p_kill = p.p_kill; p_cleanup = p.p_cleanup;
      p_client = None; p_server = p.p_server }
  | IServer ->
    { p_launch = p.p_launch; p_kill = p.p_kill; p_cleanup = p.p_cleanup;
      p_client = p.p_client; p_server = None }

(** val internal_events : scenario -> event -> internal -> event list **)

let internal_events sc eof = function
| ILaunch ->
  (EvLaunch
    sc.sc_launch) :: (match sc.sc_launch with
                      | LaunchOk ->
                        app
                          (match sc.sc_greet with
                           | [] -> []
                           | n :: l -> (EvHelperOut (n :: l)) :: [])
                          (match sc.sc_autoexit with
                           | Some c -> eof :: ((EvHelperExit c) :: [])
                           | None -> [])
                      | _ -> [])
| IKill -> eof :: ((EvHelperExit (Zneg Coq_xH)) :: [])
| ICleanup -> EvCleanupFire :: []
| IClient -> EvClientFire :: []
| IServer -> EvServerFire :: []

(** val scripted_events : event -> scripted -> event list **)

let scripted_events eof = function
| ScServer b -> (EvServer b) :: []
| ScInput b -> (EvInput b) :: []
| ScHelperOut b -> (EvHelperOut b) :: []
| ScHelperExit c -> eof :: ((EvHelperExit c) :: [])

type tstate = { t_f : fstate; t_p : pend; t_out : output list;
                t_evs : event list; t_rem : nat }

(** val sessions : output list -> nat **)

let sessions os =
  length (filter (fun o -> match o with
                           | OStart _ -> true
                           | _ -> false) os)

(** val eof_event : scenario -> tstate -> event **)

let eof_event sc st =
  if nth (pred (sessions st.t_out)) sc.sc_readerr false
  then EvHelperReadErr
  else EvHelperEOF

(** val has_start : output list -> bool **)

let has_start os =
  existsb (fun o -> match o with
                    | OStart _ -> true
                    | _ -> false) os

(** val apply_events1 :
    bool -> scenario -> coq_N -> event list -> tstate -> tstate * output list **)

let apply_events1 fixed sc t evs st =
  let (_, o0) = run_gen fixed st.t_f evs in
  let evs' = if has_start o0 then app evs (EvGraceBegin :: []) else evs in
  let (f', o) = run_gen fixed st.t_f evs' in
  ({ t_f = f'; t_p = (fold_left (note sc t) o st.t_p); t_out =
  (app st.t_out o); t_evs = (app st.t_evs evs'); t_rem = st.t_rem }, o)

(** val shell_answers :
    scenario -> output list -> output list -> event list **)

let shell_answers sc before o =
  match sc.sc_remote with
  | Some r ->
    if remote_waiting (app before o)
    then []
    else flat_map (fun x ->
           match x with
           | OServer b ->
             if ends_in_cr b then (EvServer r.r_prompt) :: [] else []
           | _ -> []) o
  | None -> []

(** val apply_events :
    bool -> scenario -> coq_N -> event list -> tstate -> tstate **)

let apply_events fixed sc t evs st =
  let (st1, o) = apply_events1 fixed sc t evs st in
  (match shell_answers sc st.t_out o with
   | [] -> st1
   | e :: l -> fst (apply_events1 fixed sc t (e :: l) st1))

(** val next_remote : scenario -> tstate -> (coq_N * remote_spec) option **)

let next_remote sc st =
  match sc.sc_remote with
  | Some r ->
    if Nat.ltb st.t_rem r.r_max
    then Some ((N.add r.r_t0 (N.mul (N.of_nat (S st.t_rem)) r.r_period)), r)
    else None
  | None -> None

(** val drain : nat -> bool -> scenario -> coq_N -> tstate -> tstate **)

let rec drain fuel fixed sc limit st =
  match fuel with
  | O -> st
  | S fuel' ->
    let fire_remote = fun tr r ->
      let st' = { t_f = st.t_f; t_p = st.t_p; t_out = st.t_out; t_evs =
        st.t_evs; t_rem = (S st.t_rem) }
      in
      drain fuel' fixed sc limit
        (if remote_waiting st.t_out
         then apply_events fixed sc tr ((EvServer r.r_hdr) :: []) st'
         else st')
    in
    let fire_internal = fun t i ->
      drain fuel' fixed sc limit
        (apply_events fixed sc t (internal_events sc (eof_event sc st) i)
          { t_f = st.t_f; t_p = (clear i st.t_p); t_out = st.t_out; t_evs =
          st.t_evs; t_rem = st.t_rem })
    in
    (match next_internal st.t_p with
     | Some p ->
       let (t, i) = p in
       (match next_remote sc st with
        | Some p0 ->
          let (tr, r) = p0 in
          if N.leb t tr
          then if N.leb t limit then fire_internal t i else st
          else if N.leb tr limit then fire_remote tr r else st
        | None -> if N.leb t limit then fire_internal t i else st)
     | None ->
       (match next_remote sc st with
        | Some p ->
          let (tr, r) = p in if N.leb tr limit then fire_remote tr r else st
        | None -> st))

(** val drain_fuel : nat **)

let drain_fuel =
  S (S (S (S (S (S (S (S (S (S (S (S (S (S (S (S (S (S (S (S (S (S (S (S (S
    (S (S (S (S (S (S (S (S (S (S (S (S (S (S (S (S (S (S (S (S (S (S (S (S
    (S (S (S (S (S (S (S (S (S (S (S (S (S (S (S
    O)))))))))))))))))))))))))))))))))))))))))))))))))))))))))))))))

(** val run_timed_from :
    bool -> scenario -> (coq_N * scripted) list -> coq_N -> tstate -> tstate **)

let rec run_timed_from fixed sc evs horizon st =
  match evs with
  | [] -> drain drain_fuel fixed sc horizon st
  | p :: r ->
    let (t, e) = p in
    run_timed_from fixed sc r horizon
      (let st1 = drain drain_fuel fixed sc t st in
       apply_events fixed sc t (scripted_events (eof_event sc st1) e) st1)

(** val run_timed :
    bool -> scenario -> (coq_N * scripted) list -> coq_N -> tstate **)

let run_timed fixed sc evs horizon =
  run_timed_from fixed sc evs horizon { t_f = idle; t_p = no_pend; t_out =
    []; t_evs = []; t_rem = O }

(** val zmodem_detect : coq_N list -> bool option **)

let zmodem_detect =
  detect_zmodem

(** val zmodem_finish_re : coq_N list -> bool **)

let zmodem_finish_re =
  finish_find

(** val msg_code : msg -> coq_N list **)

let msg_code = function
| MStopped -> N0 :: []
| MSuccess -> (Npos Coq_xH) :: []
| MExit c ->
  (Npos (Coq_xO
    Coq_xH)) :: ((if Z.ltb c Z0 then Npos Coq_xH else N0) :: ((Z.abs_N c) :: []))
| MLaunchFail -> (Npos (Coq_xI Coq_xH)) :: []
| MChooser -> (Npos (Coq_xO (Coq_xO Coq_xH))) :: []
| MClientTimeout -> (Npos (Coq_xI (Coq_xO Coq_xH))) :: []
| MServerTimeout -> (Npos (Coq_xO (Coq_xI Coq_xH))) :: []
| MReadErr -> (Npos (Coq_xI (Coq_xI Coq_xH))) :: []

(** val canon_item : output -> (coq_N * coq_N list) option **)

let canon_item = function
| OTerm b -> Some (N0, b)
| OHide -> Some ((Npos Coq_xH), [])
| OShow -> Some ((Npos (Coq_xO Coq_xH)), [])
| OMsg m -> Some ((Npos (Coq_xI Coq_xH)), (msg_code m))
| OServer b -> Some ((Npos (Coq_xO (Coq_xO Coq_xH))), b)
| OCancelServer -> Some ((Npos (Coq_xI (Coq_xO Coq_xH))), [])
| OOServer -> Some ((Npos (Coq_xO (Coq_xI Coq_xH))), [])
| _ -> None

(** val canon_items : output list -> (coq_N * coq_N list) list **)

let rec canon_items = function
| [] -> []
| o :: r ->
  (match canon_item o with
   | Some i -> i :: (canon_items r)
   | None -> canon_items r)

(** val helper_bytes : output list -> coq_N list **)

let rec helper_bytes = function
| [] -> []
| o :: r ->
  (match o with
   | OCancelHelper -> app zmodem_cancel_full (helper_bytes r)
   | OOHelper -> app zmodem_over_and_out (helper_bytes r)
   | OHelper b -> app b (helper_bytes r)
   | _ -> helper_bytes r)

(** val started : output list -> bool **)

let started os =
  existsb (fun o -> match o with
                    | OStart _ -> true
                    | _ -> false) os

(** val flags_of : zstate -> bool list **)

let flags_of s =
  s.upload :: (s.cf :: (s.sf :: (s.eo :: (s.stopped :: (s.cleaned :: ((
    match s.hp with
    | HNone -> false
    | _ -> true) :: []))))))

(** val decode_scripted : (coq_N * (coq_N list * coq_Z)) -> scripted **)

let decode_scripted = function
| (k, p) ->
  let (d, c) = p in
  if N.eqb k N0
  then ScServer d
  else if N.eqb k (Npos Coq_xH)
       then ScInput d
       else if N.eqb k (Npos (Coq_xO Coq_xH))
            then ScHelperOut d
            else ScHelperExit c

(** val launches : output list -> coq_N **)

let launches os =
  N.of_nat
    (length
      (filter (fun o -> match o with
                        | OLaunchHelper -> true
                        | _ -> false) os))

(** val zmodem_run_canon :
    bool -> coq_N -> coq_Z option -> bool -> coq_N list ->
    (coq_N * (coq_N * (nat * (coq_N list * coq_N list)))) option -> bool list
    -> coq_N -> (coq_N * (coq_N * (coq_N list * coq_Z))) list ->
    ((coq_N * coq_N list) list * coq_N list) * (bool
    list * (bool * (bool * (coq_N * bool)))) **)

let zmodem_run_canon fixed launch0 autoexit dl greet remote readerr horizon evs =
  let sc = { sc_launch =
    (if N.eqb launch0 N0
     then LaunchOk
     else if N.eqb launch0 (Npos Coq_xH) then LaunchFail else ChooserErr);
    sc_autoexit = autoexit; sc_dlpath = dl; sc_greet = greet; sc_remote =
    (match remote with
     | Some p0 ->
       let (t0, p1) = p0 in
       let (p, p2) = p1 in
       let (m, p3) = p2 in
       let (h, pr) = p3 in
       Some { r_t0 = t0; r_period = p; r_max = m; r_hdr = h; r_prompt = pr }
     | None -> None); sc_readerr = readerr }
  in
  let st =
    run_timed fixed sc
      (map (fun e -> ((fst e), (decode_scripted (snd e)))) evs) horizon
  in
  (((canon_items st.t_out), (helper_bytes st.t_out)), ((flags_of st.t_f.zs),
  (st.t_f.ptr, ((started st.t_out), ((launches st.t_out),
  (remote_waiting st.t_out))))))
