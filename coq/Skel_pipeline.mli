open Datatypes
open Proc

val ch_send_sendFileDataV2_0 : chan

val ch_send_ReadData_0 : chan

val ch_send_ReadData_1 : chan

val ch_send_CalculateMD5_0 : chan

val ch_send_EncodeData_0 : chan

val ch_send_transfer_bufInitCh : chan

val ch_send_SendData_0 : chan

val ch_send_RecvAck_0 : chan

val p_send_CalculateMD5 : pid

val p_send_RecvAck : pid

val p_send_ShowProgress : pid

val send_ReadData_body : stmt list

val send_ReadData_finally : stmt list

val send_ReadData_proc : proc

val send_CalculateMD5_body : stmt list

val send_CalculateMD5_finally : stmt list

val send_CalculateMD5_proc : proc

val send_EncodeData_body : stmt list

val send_EncodeData_finally : stmt list

val send_EncodeData_proc : proc

val send_SendData_body : stmt list

val send_SendData_finally : stmt list

val send_SendData_proc : proc

val send_RecvAck_body : stmt list

val send_RecvAck_finally : stmt list

val send_RecvAck_proc : proc

val send_ShowProgress_body : stmt list

val send_ShowProgress_finally : stmt list

val send_ShowProgress_proc : proc

val send_main_body : stmt list

val send_main_finally : stmt list

val send_main_proc : proc

val send_net : net

val ch_recv_recvFileDataV2_0 : chan

val ch_recv_RecvData_0 : chan

val ch_recv_RecvData_1 : chan

val ch_recv_SendAck_0 : chan

val ch_recv_DecodeData_0 : chan

val ch_recv_DecodeData_1 : chan

val ch_recv_CalculateMD5_0 : chan

val ch_recv_SaveData_0 : chan

val ch_recv_SaveData_1 : chan

val p_recv_SendAck : pid

val p_recv_CalculateMD5 : pid

val p_recv_SaveData : pid

val p_recv_ShowProgress : pid

val recv_RecvData_body : stmt list

val recv_RecvData_finally : stmt list

val recv_RecvData_proc : proc

val recv_SendAck_body : stmt list

val recv_SendAck_finally : stmt list

val recv_SendAck_proc : proc

val recv_DecodeData_body : stmt list

val recv_DecodeData_finally : stmt list

val recv_DecodeData_proc : proc

val recv_CalculateMD5_body : stmt list

val recv_CalculateMD5_finally : stmt list

val recv_CalculateMD5_proc : proc

val recv_SaveData_body : stmt list

val recv_SaveData_finally : stmt list

val recv_SaveData_proc : proc

val recv_ShowProgress_body : stmt list

val recv_ShowProgress_finally : stmt list

val recv_ShowProgress_proc : proc

val recv_main_body : stmt list

val recv_main_finally : stmt list

val recv_main_proc : proc

val recv_net : net

val ch_hash_RecvHashAck_0 : chan

val p_hash_SendHash : pid

val p_hash_RecvHashAck : pid

val hash_SendHash_body : stmt list

val hash_SendHash_finally : stmt list

val hash_SendHash_proc : proc

val hash_RecvHashAck_body : stmt list

val hash_RecvHashAck_finally : stmt list

val hash_RecvHashAck_proc : proc

val hash_main_body : stmt list

val hash_main_finally : stmt list

val hash_main_proc : proc

val hash_net : net
