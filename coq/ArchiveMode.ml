open Archive
open BinNat
open BinNums
open Bytes0
open Consts
open Datatypes
open List0
open PeanoNat

type amo_src = { amo_id : nat; amo_rel : apath; amo_isdir : bool;
                 amo_size : coq_Z; amo_data : byte list }

type amo_root = { amo_top : amo_src; amo_subs : amo_src list }

(** val amo_put :
    amo_root option list -> nat -> amo_src -> amo_root option list option **)

let rec amo_put slots i s =
  match slots with
  | [] -> None
  | x :: r ->
    (match i with
     | O ->
       Some
         ((match x with
           | Some rt ->
             Some { amo_top = rt.amo_top; amo_subs =
               (app rt.amo_subs (s :: [])) }
           | None -> Some { amo_top = s; amo_subs = [] }) :: r)
     | S j ->
       (match amo_put r j s with
        | Some r' -> Some (x :: r')
        | None -> None))

(** val amo_fill :
    amo_root option list -> amo_src list -> amo_root option list option **)

let rec amo_fill slots = function
| [] -> Some slots
| s :: r ->
  (match amo_put slots s.amo_id s with
   | Some sl -> amo_fill sl r
   | None -> None)

(** val amo_grouping : bool -> coq_N -> amo_src list -> bool **)

let amo_grouping overwrite proto scan =
  (&&) ((&&) (negb overwrite) (N.leb archive_min_protocol proto))
    (nonempty scan)

(** val amo_group :
    bool -> coq_N -> amo_src list -> amo_root option list option **)

let amo_group overwrite proto scan =
  if amo_grouping overwrite proto scan
  then amo_fill (repeat None (S (last (map (fun a -> a.amo_id) scan) O))) scan
  else Some (map (fun s -> Some { amo_top = s; amo_subs = [] }) scan)

type amo_name = { amn_id : nat; amn_rel : apath; amn_isdir : bool;
                  amn_archive : bool; amn_size : coq_Z }

(** val amo_flag : amo_root -> bool **)

let amo_flag r =
  Nat.ltb (N.to_nat archive_flag_gt) (length r.amo_subs)

(** val amo_name_of : amo_root -> amo_name **)

let amo_name_of r =
  { amn_id = r.amo_top.amo_id; amn_rel = r.amo_top.amo_rel; amn_isdir =
    r.amo_top.amo_isdir; amn_archive = (amo_flag r); amn_size =
    r.amo_top.amo_size }

type amo_skind =
| AmoSArchive
| AmoSNone
| AmoSFile

(** val amo_sender : coq_N -> amo_root -> amo_skind **)

let amo_sender proto r =
  if (&&) (N.leb archive_v3_protocol proto)
       (Nat.ltb (N.to_nat archive_send_gt) (length r.amo_subs))
  then AmoSArchive
  else if r.amo_top.amo_isdir then AmoSNone else AmoSFile

type amo_rkind =
| AmoRArchive
| AmoRNone
| AmoRFile
| AmoRErr

(** val amo_receiver : amo_name -> amo_rkind **)

let amo_receiver n =
  if n.amn_archive
  then if (&&) (negb n.amn_isdir)
            (N.eqb archive_writer_needs_dir (Npos Coq_xH))
       then AmoRErr
       else AmoRArchive
  else if n.amn_isdir then AmoRNone else AmoRFile

type amo_step =
| AmoNil
| AmoStep of amo_name * nat * amo_skind * amo_rkind

(** val amo_step_of : coq_N -> amo_root option -> amo_step **)

let amo_step_of proto = function
| Some r ->
  AmoStep ((amo_name_of r), (length r.amo_subs), (amo_sender proto r),
    (amo_receiver (amo_name_of r)))
| None -> AmoNil

(** val amo_plan : bool -> coq_N -> amo_src list -> amo_step list option **)

let amo_plan overwrite proto scan =
  match amo_group overwrite proto scan with
  | Some slots -> Some (map (amo_step_of proto) slots)
  | None -> None

(** val amo_rule_cond : coq_N -> coq_N -> coq_N -> coq_N -> coq_N -> bool **)

let amo_rule_cond kind value proto ctype size =
  if N.eqb kind N0
  then N.ltb proto value
  else if N.eqb kind (Npos Coq_xH)
       then N.eqb ctype value
       else if N.eqb kind (Npos (Coq_xO Coq_xH))
            then N.ltb size value
            else false

(** val amo_comp_val : coq_N -> bool -> bool **)

let amo_comp_val v binary =
  if N.eqb v N0
  then false
  else if N.eqb v (Npos Coq_xH) then true else negb binary

(** val amo_rules_eval :
    (((coq_N * coq_N) * bool) * coq_N) list -> coq_N -> coq_N -> bool ->
    coq_N -> bool * bool **)

let rec amo_rules_eval rules proto ctype binary size =
  match rules with
  | [] ->
    ((fst tr_compress_default),
      (amo_comp_val (snd tr_compress_default) binary))
  | p :: r ->
    let (p0, cv) = p in
    let (p1, fx) = p0 in
    let (k, v) = p1 in
    if amo_rule_cond k v proto ctype size
    then (fx, (amo_comp_val cv binary))
    else amo_rules_eval r proto ctype binary size

type amo_comp =
| AmoCompFixed of bool
| AmoCompProbed of bool
| AmoCompErr

(** val amo_archive_compress : coq_N -> coq_N -> bool -> coq_N -> amo_comp **)

let amo_archive_compress proto ctype binary size =
  let (b, c) = amo_rules_eval tr_compress_rules proto ctype binary size in
  if b
  then AmoCompFixed c
  else if (&&) archive_reader_file_nil archive_probe_guard_fires
       then AmoCompProbed archive_probe_nofile_compress
       else AmoCompErr
