open Datatypes

module Nat :
 sig
  val eqb : nat -> nat -> bool

  val leb : nat -> nat -> bool

  val ltb : nat -> nat -> bool

  val max : nat -> nat -> nat

  val min : nat -> nat -> nat
 end
