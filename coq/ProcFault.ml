open Datatypes
open List0
open Proc

(** val is_done : alt -> bool **)

let is_done = function
| DoneAlt -> true
| _ -> false

(** val ccS : bool -> bool -> stmt -> bool -> bool **)

let rec ccS strict qe s kr =
  match s with
  | Sel cs ->
    (&&) (negb strict)
      (let rec fa = function
       | [] -> true
       | c :: r ->
         (&&)
           (let (a, bd) = c in
            (||) (is_done a)
              (let rec go = function
               | [] -> kr
               | x :: t -> ccS strict qe x (go t)
               in go bd)) (fa r)
       in fa cs)
  | Io _ -> kr
  | IoE (_, h) ->
    (&&)
      (let rec go = function
       | [] -> kr
       | x :: t -> ccS strict qe x (go t)
       in go h) kr
  | Cancel -> true
  | IfCtxExit -> kr
  | Return -> qe
  | RecvClose _ -> (&&) (negb strict) kr
  | Join _ -> (&&) (negb strict) kr
  | WgWait _ -> (&&) (negb strict) kr
  | WgAdd _ -> kr
  | WgDone _ -> kr
  | Branch (a, b) ->
    (&&)
      (let rec go = function
       | [] -> kr
       | x :: t -> ccS strict qe x (go t)
       in go a)
      (let rec go = function
       | [] -> kr
       | x :: t -> ccS strict qe x (go t)
       in go b)
  | _ -> false

(** val cc : bool -> bool -> bool -> stmt list -> bool **)

let rec cc strict qe kb = function
| [] -> kb
| x :: t -> ccS strict qe x (cc strict qe kb t)

(** val allS : (stmt -> bool) -> stmt -> bool **)

let rec allS p s =
  (&&) (p s)
    (match s with
     | Sel cs ->
       let rec fa = function
       | [] -> true
       | c :: r ->
         (&&)
           (let (_, bd) = c in
            let rec al = function
            | [] -> true
            | x :: t -> (&&) (allS p x) (al t)
            in al bd) (fa r)
       in fa cs
     | IoE (_, bd) ->
       let rec al = function
       | [] -> true
       | x :: t -> (&&) (allS p x) (al t)
       in al bd
     | Branch (a, b) ->
       (&&)
         (let rec al = function
          | [] -> true
          | x :: t -> (&&) (allS p x) (al t)
          in al a)
         (let rec al = function
          | [] -> true
          | x :: t -> (&&) (allS p x) (al t)
          in al b)
     | LoopCtx bd ->
       let rec al = function
       | [] -> true
       | x :: t -> (&&) (allS p x) (al t)
       in al bd
     | LoopRange (_, bd) ->
       let rec al = function
       | [] -> true
       | x :: t -> (&&) (allS p x) (al t)
       in al bd
     | LoopData bd ->
       let rec al = function
       | [] -> true
       | x :: t -> (&&) (allS p x) (al t)
       in al bd
     | _ -> true)

(** val allL : (stmt -> bool) -> stmt list -> bool **)

let allL p l =
  forallb (allS p) l

(** val quiet_exit : proc -> bool **)

let quiet_exit p =
  (&&) p.exit_cancel (match p.finally with
                      | [] -> true
                      | _ :: _ -> false)

(** val fault_ok : bool -> bool -> stmt -> bool **)

let fault_ok strict qe = function
| Io _ -> false
| IoE (_, h) -> cc strict qe false h
| _ -> true

(** val faults_proc : bool -> proc -> bool **)

let faults_proc strict p =
  (&&) (allL (fault_ok strict (quiet_exit p)) p.body)
    (allL (fault_ok strict p.exit_cancel) p.finally)

(** val faults_cancel : net -> bool **)

let faults_cancel n =
  forallb (faults_proc false) n.procs_of

(** val collectS : (stmt -> bool) -> stmt -> stmt list **)

let rec collectS p s =
  app (if p s then [] else s :: [])
    (match s with
     | Sel cs ->
       let rec fa = function
       | [] -> []
       | c :: r ->
         app
           (let (_, bd) = c in
            let rec cl = function
            | [] -> []
            | x :: t -> app (collectS p x) (cl t)
            in cl bd) (fa r)
       in fa cs
     | IoE (_, bd) ->
       let rec cl = function
       | [] -> []
       | x :: t -> app (collectS p x) (cl t)
       in cl bd
     | Branch (a, b) ->
       app
         (let rec cl = function
          | [] -> []
          | x :: t -> app (collectS p x) (cl t)
          in cl a)
         (let rec cl = function
          | [] -> []
          | x :: t -> app (collectS p x) (cl t)
          in cl b)
     | LoopCtx bd ->
       let rec cl = function
       | [] -> []
       | x :: t -> app (collectS p x) (cl t)
       in cl bd
     | LoopRange (_, bd) ->
       let rec cl = function
       | [] -> []
       | x :: t -> app (collectS p x) (cl t)
       in cl bd
     | LoopData bd ->
       let rec cl = function
       | [] -> []
       | x :: t -> app (collectS p x) (cl t)
       in cl bd
     | _ -> [])

(** val collectL : (stmt -> bool) -> stmt list -> stmt list **)

let collectL p l =
  flat_map (collectS p) l

(** val violations_by : (bool -> stmt -> bool) -> net -> (pid * stmt) list **)

let violations_by p n =
  flat_map (fun i ->
    map (fun s -> (i, s))
      (app (collectL (p (quiet_exit (info n i))) (info n i).body)
        (collectL (p (info n i).exit_cancel) (info n i).finally)))
    (seq O (nprocs n))

(** val kind_of : stmt -> iokind **)

let kind_of = function
| Io k -> k
| IoE (k, _) -> k
| _ -> Unknown

(** val fault_waits : net -> (pid * iokind) list **)

let fault_waits n =
  map (fun x -> ((fst x), (kind_of (snd x))))
    (violations_by (fun qe s ->
      (||) (fault_ok true qe s) (negb (fault_ok false qe s))) n)

(** val is_ioe : stmt -> bool **)

let is_ioe = function
| IoE (_, _) -> true
| _ -> false

(** val is_cancel : stmt -> bool **)

let is_cancel = function
| Cancel -> true
| _ -> false

(** val fault_counts : net -> nat list **)

let fault_counts n =
  (list_sum (map (fun p -> count is_ioe (all_stmts p)) n.procs_of)) :: (
    (list_sum (map (fun p -> count is_cancel (all_stmts p)) n.procs_of)) :: (
    (length (filter (fun p -> p.exit_cancel) n.procs_of)) :: []))
