
type nat =
| O
| S of nat

(** val fst : ('a1 * 'a2) -> 'a1 **)

let fst = function
| (x, _) -> x

(** val snd : ('a1 * 'a2) -> 'a2 **)

let snd = function
| (_, y) -> y

(** val length : 'a1 list -> nat **)

let rec length = function
| [] -> O
| _ :: l' -> S (length l')

(** val app : 'a1 list -> 'a1 list -> 'a1 list **)

let rec app l m =
  match l with
  | [] -> m
  | a :: l1 -> a :: (app l1 m)

type comparison =
| Eq
| Lt
| Gt

(** val compOpp : comparison -> comparison **)

let compOpp = function
| Eq -> Eq
| Lt -> Gt
| Gt -> Lt

module Coq__1 = struct
 (** val add : nat -> nat -> nat **)
 let rec add n0 m =
   match n0 with
   | O -> m
   | S p -> S (add p m)
end
include Coq__1

(** val sub : nat -> nat -> nat **)

let rec sub n0 m =
  match n0 with
  | O -> n0
  | S k -> (match m with
            | O -> n0
            | S l -> sub k l)

type positive =
| XI of positive
| XO of positive
| XH

type n =
| N0
| Npos of positive

type z =
| Z0
| Zpos of positive
| Zneg of positive

module Nat =
 struct
  (** val leb : nat -> nat -> bool **)

  let rec leb n0 m =
    match n0 with
    | O -> true
    | S n' -> (match m with
               | O -> false
               | S m' -> leb n' m')
 end

module Pos =
 struct
  type mask =
  | IsNul
  | IsPos of positive
  | IsNeg
 end

module Coq_Pos =
 struct
  (** val succ : positive -> positive **)

  let rec succ = function
  | XI p -> XO (succ p)
  | XO p -> XI p
  | XH -> XO XH

  (** val add : positive -> positive -> positive **)

  let rec add x y =
    match x with
    | XI p ->
      (match y with
       | XI q -> XO (add_carry p q)
       | XO q -> XI (add p q)
       | XH -> XO (succ p))
    | XO p ->
      (match y with
       | XI q -> XI (add p q)
       | XO q -> XO (add p q)
       | XH -> XI p)
    | XH -> (match y with
             | XI q -> XO (succ q)
             | XO q -> XI q
             | XH -> XO XH)

  (** val add_carry : positive -> positive -> positive **)

  and add_carry x y =
    match x with
    | XI p ->
      (match y with
       | XI q -> XI (add_carry p q)
       | XO q -> XO (add_carry p q)
       | XH -> XI (succ p))
    | XO p ->
      (match y with
       | XI q -> XO (add_carry p q)
       | XO q -> XI (add p q)
       | XH -> XO (succ p))
    | XH ->
      (match y with
       | XI q -> XI (succ q)
       | XO q -> XO (succ q)
       | XH -> XI XH)

  (** val pred_double : positive -> positive **)

  let rec pred_double = function
  | XI p -> XI (XO p)
  | XO p -> XI (pred_double p)
  | XH -> XH

  type mask = Pos.mask =
  | IsNul
  | IsPos of positive
  | IsNeg

  (** val succ_double_mask : mask -> mask **)

  let succ_double_mask = function
  | IsNul -> IsPos XH
  | IsPos p -> IsPos (XI p)
  | IsNeg -> IsNeg

  (** val double_mask : mask -> mask **)

  let double_mask = function
  | IsPos p -> IsPos (XO p)
  | x0 -> x0

  (** val double_pred_mask : positive -> mask **)

  let double_pred_mask = function
  | XI p -> IsPos (XO (XO p))
  | XO p -> IsPos (XO (pred_double p))
  | XH -> IsNul

  (** val sub_mask : positive -> positive -> mask **)

  let rec sub_mask x y =
    match x with
    | XI p ->
      (match y with
       | XI q -> double_mask (sub_mask p q)
       | XO q -> succ_double_mask (sub_mask p q)
       | XH -> IsPos (XO p))
    | XO p ->
      (match y with
       | XI q -> succ_double_mask (sub_mask_carry p q)
       | XO q -> double_mask (sub_mask p q)
       | XH -> IsPos (pred_double p))
    | XH -> (match y with
             | XH -> IsNul
             | _ -> IsNeg)

  (** val sub_mask_carry : positive -> positive -> mask **)

  and sub_mask_carry x y =
    match x with
    | XI p ->
      (match y with
       | XI q -> succ_double_mask (sub_mask_carry p q)
       | XO q -> double_mask (sub_mask p q)
       | XH -> IsPos (pred_double p))
    | XO p ->
      (match y with
       | XI q -> double_mask (sub_mask_carry p q)
       | XO q -> succ_double_mask (sub_mask_carry p q)
       | XH -> double_pred_mask p)
    | XH -> IsNeg

  (** val mul : positive -> positive -> positive **)

  let rec mul x y =
    match x with
    | XI p -> add y (XO (mul p y))
    | XO p -> XO (mul p y)
    | XH -> y

  (** val compare_cont : comparison -> positive -> positive -> comparison **)

  let rec compare_cont r x y =
    match x with
    | XI p ->
      (match y with
       | XI q -> compare_cont r p q
       | XO q -> compare_cont Gt p q
       | XH -> Gt)
    | XO p ->
      (match y with
       | XI q -> compare_cont Lt p q
       | XO q -> compare_cont r p q
       | XH -> Gt)
    | XH -> (match y with
             | XH -> r
             | _ -> Lt)

  (** val compare : positive -> positive -> comparison **)

  let compare =
    compare_cont Eq

  (** val eqb : positive -> positive -> bool **)

  let rec eqb p q =
    match p with
    | XI p0 -> (match q with
                | XI q0 -> eqb p0 q0
                | _ -> false)
    | XO p0 -> (match q with
                | XO q0 -> eqb p0 q0
                | _ -> false)
    | XH -> (match q with
             | XH -> true
             | _ -> false)

  (** val iter_op : ('a1 -> 'a1 -> 'a1) -> positive -> 'a1 -> 'a1 **)

  let rec iter_op op p a =
    match p with
    | XI p0 -> op a (iter_op op p0 (op a a))
    | XO p0 -> iter_op op p0 (op a a)
    | XH -> a

  (** val to_nat : positive -> nat **)

  let to_nat x =
    iter_op Coq__1.add x (S O)

  (** val of_succ_nat : nat -> positive **)

  let rec of_succ_nat = function
  | O -> XH
  | S x -> succ (of_succ_nat x)
 end

module N =
 struct
  (** val succ_double : n -> n **)

  let succ_double = function
  | N0 -> Npos XH
  | Npos p -> Npos (XI p)

  (** val double : n -> n **)

  let double = function
  | N0 -> N0
  | Npos p -> Npos (XO p)

  (** val add : n -> n -> n **)

  let add n0 m =
    match n0 with
    | N0 -> m
    | Npos p -> (match m with
                 | N0 -> n0
                 | Npos q -> Npos (Coq_Pos.add p q))

  (** val sub : n -> n -> n **)

  let sub n0 m =
    match n0 with
    | N0 -> N0
    | Npos n' ->
      (match m with
       | N0 -> n0
       | Npos m' ->
         (match Coq_Pos.sub_mask n' m' with
          | Coq_Pos.IsPos p -> Npos p
          | _ -> N0))

  (** val mul : n -> n -> n **)

  let mul n0 m =
    match n0 with
    | N0 -> N0
    | Npos p -> (match m with
                 | N0 -> N0
                 | Npos q -> Npos (Coq_Pos.mul p q))

  (** val compare : n -> n -> comparison **)

  let compare n0 m =
    match n0 with
    | N0 -> (match m with
             | N0 -> Eq
             | Npos _ -> Lt)
    | Npos n' -> (match m with
                  | N0 -> Gt
                  | Npos m' -> Coq_Pos.compare n' m')

  (** val eqb : n -> n -> bool **)

  let eqb n0 m =
    match n0 with
    | N0 -> (match m with
             | N0 -> true
             | Npos _ -> false)
    | Npos p -> (match m with
                 | N0 -> false
                 | Npos q -> Coq_Pos.eqb p q)

  (** val leb : n -> n -> bool **)

  let leb x y =
    match compare x y with
    | Gt -> false
    | _ -> true

  (** val ltb : n -> n -> bool **)

  let ltb x y =
    match compare x y with
    | Lt -> true
    | _ -> false

  (** val pos_div_eucl : positive -> n -> n * n **)

  let rec pos_div_eucl a b =
    match a with
    | XI a' ->
      let (q, r) = pos_div_eucl a' b in
      let r' = succ_double r in
      if leb b r' then ((succ_double q), (sub r' b)) else ((double q), r')
    | XO a' ->
      let (q, r) = pos_div_eucl a' b in
      let r' = double r in
      if leb b r' then ((succ_double q), (sub r' b)) else ((double q), r')
    | XH ->
      (match b with
       | N0 -> (N0, (Npos XH))
       | Npos p -> (match p with
                    | XH -> ((Npos XH), N0)
                    | _ -> (N0, (Npos XH))))

  (** val div_eucl : n -> n -> n * n **)

  let div_eucl a b =
    match a with
    | N0 -> (N0, N0)
    | Npos na -> (match b with
                  | N0 -> (N0, a)
                  | Npos _ -> pos_div_eucl na b)

  (** val div : n -> n -> n **)

  let div a b =
    fst (div_eucl a b)

  (** val modulo : n -> n -> n **)

  let modulo a b =
    snd (div_eucl a b)

  (** val to_nat : n -> nat **)

  let to_nat = function
  | N0 -> O
  | Npos p -> Coq_Pos.to_nat p

  (** val of_nat : nat -> n **)

  let of_nat = function
  | O -> N0
  | S n' -> Npos (Coq_Pos.of_succ_nat n')
 end

module Z =
 struct
  (** val double : z -> z **)

  let double = function
  | Z0 -> Z0
  | Zpos p -> Zpos (XO p)
  | Zneg p -> Zneg (XO p)

  (** val succ_double : z -> z **)

  let succ_double = function
  | Z0 -> Zpos XH
  | Zpos p -> Zpos (XI p)
  | Zneg p -> Zneg (Coq_Pos.pred_double p)

  (** val pred_double : z -> z **)

  let pred_double = function
  | Z0 -> Zneg XH
  | Zpos p -> Zpos (Coq_Pos.pred_double p)
  | Zneg p -> Zneg (XI p)

  (** val pos_sub : positive -> positive -> z **)

  let rec pos_sub x y =
    match x with
    | XI p ->
      (match y with
       | XI q -> double (pos_sub p q)
       | XO q -> succ_double (pos_sub p q)
       | XH -> Zpos (XO p))
    | XO p ->
      (match y with
       | XI q -> pred_double (pos_sub p q)
       | XO q -> double (pos_sub p q)
       | XH -> Zpos (Coq_Pos.pred_double p))
    | XH ->
      (match y with
       | XI q -> Zneg (XO q)
       | XO q -> Zneg (Coq_Pos.pred_double q)
       | XH -> Z0)

  (** val add : z -> z -> z **)

  let add x y =
    match x with
    | Z0 -> y
    | Zpos x' ->
      (match y with
       | Z0 -> x
       | Zpos y' -> Zpos (Coq_Pos.add x' y')
       | Zneg y' -> pos_sub x' y')
    | Zneg x' ->
      (match y with
       | Z0 -> x
       | Zpos y' -> pos_sub y' x'
       | Zneg y' -> Zneg (Coq_Pos.add x' y'))

  (** val opp : z -> z **)

  let opp = function
  | Z0 -> Z0
  | Zpos x0 -> Zneg x0
  | Zneg x0 -> Zpos x0

  (** val sub : z -> z -> z **)

  let sub m n0 =
    add m (opp n0)

  (** val mul : z -> z -> z **)

  let mul x y =
    match x with
    | Z0 -> Z0
    | Zpos x' ->
      (match y with
       | Z0 -> Z0
       | Zpos y' -> Zpos (Coq_Pos.mul x' y')
       | Zneg y' -> Zneg (Coq_Pos.mul x' y'))
    | Zneg x' ->
      (match y with
       | Z0 -> Z0
       | Zpos y' -> Zneg (Coq_Pos.mul x' y')
       | Zneg y' -> Zpos (Coq_Pos.mul x' y'))

  (** val compare : z -> z -> comparison **)

  let compare x y =
    match x with
    | Z0 -> (match y with
             | Z0 -> Eq
             | Zpos _ -> Lt
             | Zneg _ -> Gt)
    | Zpos x' -> (match y with
                  | Zpos y' -> Coq_Pos.compare x' y'
                  | _ -> Gt)
    | Zneg x' ->
      (match y with
       | Zneg y' -> compOpp (Coq_Pos.compare x' y')
       | _ -> Lt)

  (** val leb : z -> z -> bool **)

  let leb x y =
    match compare x y with
    | Gt -> false
    | _ -> true

  (** val ltb : z -> z -> bool **)

  let ltb x y =
    match compare x y with
    | Lt -> true
    | _ -> false

  (** val to_nat : z -> nat **)

  let to_nat = function
  | Zpos p -> Coq_Pos.to_nat p
  | _ -> O

  (** val to_N : z -> n **)

  let to_N = function
  | Zpos p -> Npos p
  | _ -> N0

  (** val of_nat : nat -> z **)

  let of_nat = function
  | O -> Z0
  | S n1 -> Zpos (Coq_Pos.of_succ_nat n1)

  (** val of_N : n -> z **)

  let of_N = function
  | N0 -> Z0
  | Npos p -> Zpos p

  (** val pos_div_eucl : positive -> z -> z * z **)

  let rec pos_div_eucl a b =
    match a with
    | XI a' ->
      let (q, r) = pos_div_eucl a' b in
      let r' = add (mul (Zpos (XO XH)) r) (Zpos XH) in
      if ltb r' b
      then ((mul (Zpos (XO XH)) q), r')
      else ((add (mul (Zpos (XO XH)) q) (Zpos XH)), (sub r' b))
    | XO a' ->
      let (q, r) = pos_div_eucl a' b in
      let r' = mul (Zpos (XO XH)) r in
      if ltb r' b
      then ((mul (Zpos (XO XH)) q), r')
      else ((add (mul (Zpos (XO XH)) q) (Zpos XH)), (sub r' b))
    | XH -> if leb (Zpos (XO XH)) b then (Z0, (Zpos XH)) else ((Zpos XH), Z0)

  (** val div_eucl : z -> z -> z * z **)

  let div_eucl a b =
    match a with
    | Z0 -> (Z0, Z0)
    | Zpos a' ->
      (match b with
       | Z0 -> (Z0, a)
       | Zpos _ -> pos_div_eucl a' b
       | Zneg b' ->
         let (q, r) = pos_div_eucl a' (Zpos b') in
         (match r with
          | Z0 -> ((opp q), Z0)
          | _ -> ((opp (add q (Zpos XH))), (add b r))))
    | Zneg a' ->
      (match b with
       | Z0 -> (Z0, a)
       | Zpos _ ->
         let (q, r) = pos_div_eucl a' b in
         (match r with
          | Z0 -> ((opp q), Z0)
          | _ -> ((opp (add q (Zpos XH))), (sub b r)))
       | Zneg b' -> let (q, r) = pos_div_eucl a' (Zpos b') in (q, (opp r)))

  (** val div : z -> z -> z **)

  let div a b =
    let (q, _) = div_eucl a b in q

  (** val modulo : z -> z -> z **)

  let modulo a b =
    let (_, r) = div_eucl a b in r
 end

(** val concat : 'a1 list list -> 'a1 list **)

let rec concat = function
| [] -> []
| x :: l0 -> app x (concat l0)

(** val map : ('a1 -> 'a2) -> 'a1 list -> 'a2 list **)

let rec map f = function
| [] -> []
| a :: t -> (f a) :: (map f t)

(** val forallb : ('a1 -> bool) -> 'a1 list -> bool **)

let rec forallb f = function
| [] -> true
| a :: l0 -> (&&) (f a) (forallb f l0)

(** val firstn : nat -> 'a1 list -> 'a1 list **)

let rec firstn n0 l =
  match n0 with
  | O -> []
  | S n1 -> (match l with
             | [] -> []
             | a :: l0 -> a :: (firstn n1 l0))

(** val skipn : nat -> 'a1 list -> 'a1 list **)

let rec skipn n0 l =
  match n0 with
  | O -> l
  | S n1 -> (match l with
             | [] -> []
             | _ :: l0 -> skipn n1 l0)

type byte = n

(** val escape_leader : n **)

let escape_leader =
  Npos (XO (XI (XI (XI (XO (XI (XI XH)))))))

(** val escape_base_json : (n list * n list) list **)

let escape_base_json =
  (((Npos (XO (XI (XI (XI (XO (XI (XI XH)))))))) :: []), ((Npos (XO (XI (XI
    (XI (XO (XI (XI XH)))))))) :: ((Npos (XO (XI (XI (XI (XO (XI (XI
    XH)))))))) :: []))) :: ((((Npos (XO (XI (XI (XI (XI (XI XH))))))) :: []),
    ((Npos (XO (XI (XI (XI (XO (XI (XI XH)))))))) :: ((Npos (XI (XO (XO (XO
    (XI XH)))))) :: []))) :: [])

(** val escape_all_chars : n list **)

let escape_all_chars =
  (Npos (XO XH)) :: ((Npos (XI (XO (XI XH)))) :: ((Npos (XO (XO (XO (XO
    XH))))) :: ((Npos (XI (XO (XO (XO XH))))) :: ((Npos (XI (XI (XO (XO
    XH))))) :: ((Npos (XO (XO (XO (XI XH))))) :: ((Npos (XI (XI (XO (XI
    XH))))) :: ((Npos (XI (XO (XI (XI XH))))) :: ((Npos (XI (XO (XI (XI (XO
    (XO (XO XH)))))))) :: ((Npos (XO (XO (XO (XO (XI (XO (XO
    XH)))))))) :: ((Npos (XI (XO (XO (XO (XI (XO (XO XH)))))))) :: ((Npos (XI
    (XI (XO (XO (XI (XO (XO XH)))))))) :: ((Npos (XI (XO (XI (XI (XI (XO (XO
    XH)))))))) :: []))))))))))))

(** val escape_all_first_code : n **)

let escape_all_first_code =
  Npos (XI (XO (XO (XO (XO (XO XH))))))

(** val leader : byte **)

let leader =
  escape_leader

type table = (byte * byte) list

(** val esc_code : table -> byte -> byte option **)

let rec esc_code t b =
  match t with
  | [] -> None
  | p :: r ->
    let (s, c) = p in
    (match esc_code r b with
     | Some x -> Some x
     | None -> if N.eqb s b then Some c else None)

(** val unesc_code : table -> byte -> byte option **)

let rec unesc_code t c =
  match t with
  | [] -> None
  | p :: r ->
    let (s, c') = p in
    (match unesc_code r c with
     | Some x -> Some x
     | None -> if N.eqb c' c then Some s else None)

(** val escape : table -> byte list -> byte list **)

let rec escape t = function
| [] -> []
| b :: r ->
  (match esc_code t b with
   | Some c -> leader :: (c :: (escape t r))
   | None -> b :: (escape t r))

type ures =
| UOk of byte list * byte list
| UErr of byte

(** val ucons : byte -> ures -> ures **)

let ucons b = function
| UOk (o, rem) -> UOk ((b :: o), rem)
| UErr c -> UErr c

(** val unesc : table -> byte list -> nat -> ures **)

let rec unesc t data room =
  match data with
  | [] -> UOk ([], [])
  | b :: r ->
    if N.eqb b leader
    then (match r with
          | [] -> UOk ([], (b :: []))
          | c :: r' ->
            (match unesc_code t c with
             | Some s ->
               (match room with
                | O -> UOk ((s :: []), r')
                | S room' ->
                  (match room' with
                   | O -> UOk ((s :: []), r')
                   | S _ -> ucons s (unesc t r' room')))
             | None -> UErr c))
    else (match room with
          | O -> UOk ((b :: []), r)
          | S room' ->
            (match room' with
             | O -> UOk ((b :: []), r)
             | S _ -> ucons b (unesc t r room')))

(** val unescape_data : table -> byte list -> nat -> ures **)

let unescape_data t data dstlen =
  match t with
  | [] -> UOk (data, [])
  | _ :: _ ->
    unesc t data (match dstlen with
                  | O -> length data
                  | S _ -> dstlen)

type rres =
| RData of byte list
| REof
| RErr of byte

(** val er_read :
    table -> byte list -> byte list list -> nat -> rres * (byte list * byte
    list list) **)

let rec er_read t buffer cs size =
  match match buffer with
        | [] -> UOk ([], [])
        | _ :: _ -> unesc t buffer size with
  | UOk (out, rem) ->
    (match out with
     | [] ->
       (match cs with
        | [] -> (REof, (rem, []))
        | c :: cs' -> er_read t (app rem c) cs' size)
     | _ :: _ -> ((RData out), (rem, cs)))
  | UErr c -> ((RErr c), (buffer, cs))

(** val next_size : nat list -> nat -> nat * nat list **)

let next_size sizes dflt =
  match sizes with
  | [] -> (dflt, [])
  | s :: r -> (s, r)

type rend =
| EndEof of byte list
| EndErr of byte
| EndFuel

(** val er_run :
    nat -> table -> byte list -> byte list list -> nat list -> nat -> byte
    list list * rend **)

let rec er_run fuel t buffer cs sizes dflt =
  match fuel with
  | O -> ([], EndFuel)
  | S f ->
    let (size, sizes') = next_size sizes dflt in
    let (r, p) = er_read t buffer cs size in
    (match r with
     | RData out ->
       let (b', cs') = p in
       let (outs, e) = er_run f t b' cs' sizes' dflt in ((out :: outs), e)
     | REof -> let (b', _) = p in ([], (EndEof b'))
     | RErr c -> ([], (EndErr c)))

(** val er_fuel : byte list -> byte list list -> nat **)

let er_fuel buffer cs =
  S (add (length buffer) (length (concat cs)))

(** val ew_write : table -> byte list list -> byte list list **)

let ew_write t chunks =
  map (escape t) chunks

(** val latin1 : n list -> byte list option **)

let latin1 s =
  if forallb (fun c ->
       N.ltb c (Npos (XO (XO (XO (XO (XO (XO (XO (XO XH)))))))))) s
  then Some s
  else None

(** val table_of_json : n list list list -> table option **)

let rec table_of_json = function
| [] -> Some []
| e :: r ->
  (match e with
   | [] -> None
   | a :: l ->
     (match l with
      | [] -> None
      | b :: l0 ->
        (match l0 with
         | [] ->
           (match latin1 a with
            | Some l1 ->
              (match l1 with
               | [] -> None
               | s :: l2 ->
                 (match l2 with
                  | [] ->
                    (match latin1 b with
                     | Some l3 ->
                       (match l3 with
                        | [] -> None
                        | l4 :: l5 ->
                          (match l5 with
                           | [] -> None
                           | c :: l6 ->
                             (match l6 with
                              | [] ->
                                if N.eqb l4 leader
                                then (match table_of_json r with
                                      | Some t -> Some ((s, c) :: t)
                                      | None -> None)
                                else None
                              | _ :: _ -> None)))
                     | None -> None)
                  | _ :: _ -> None))
            | None -> None)
         | _ :: _ -> None)))

(** val escape_all_pairs : n list -> n -> n list list list **)

let rec escape_all_pairs chars code =
  match chars with
  | [] -> []
  | c :: r ->
    ((c :: []) :: ((leader :: (code :: [])) :: [])) :: (escape_all_pairs r
                                                         (N.add code (Npos
                                                           XH)))

(** val builtin_json : bool -> n list list list **)

let builtin_json escape_all =
  app (map (fun p -> (fst p) :: ((snd p) :: [])) escape_base_json)
    (if escape_all
     then escape_all_pairs escape_all_chars escape_all_first_code
     else [])

(** val builtin_table : bool -> table **)

let builtin_table escape_all =
  match table_of_json (builtin_json escape_all) with
  | Some t -> t
  | None -> []

type chunk = byte list

type status =
| StS
| StH
| StT

type owner =
| Free
| ByIn
| ByOut
| ByHs
| ByTl

type dev =
| Std
| Byp

type inpc =
| I0
| I1 of chunk
| I3 of chunk
| I4 of chunk
| I4a of chunk
| I4p
| I4u of chunk * bool
| I5 of chunk * bool
| I6 of bool

type outpc =
| O0
| O1 of chunk
| O3 of chunk
| O4 of chunk
| O4a of chunk
| O4p
| O4u of chunk * bool
| O5 of chunk * bool
| O5h of chunk * chunk
| O5g of chunk * chunk
| O5s of chunk * chunk
| O6

type hspc =
| HN
| H0
| H2
| H3
| H4
| HF1
| HF2
| HL of bool
| HP1 of bool
| HS1 of bool * chunk
| HP2 of bool
| HS2 of bool * chunk
| HD of bool

type evI =
| PassI of chunk
| EatI of chunk
| InsI of chunk

type evO =
| PassO of dev * chunk * chunk
| EatO of chunk
| InsO of dev * chunk

type state = { st : status; lk : owner; cin : chunk list; sin : chunk list;
               ibr : chunk; ibq : chunk list; obr : chunk; obq : chunk list;
               slog : byte list; clog : byte list; blog : byte list;
               ipc : inpc; opc : outpc; hpc : hspc; tlk : bool;
               hI : evI list; hO : evO list; trg : bool }

(** val set_st : state -> status -> state **)

let set_st s x =
  { st = x; lk = s.lk; cin = s.cin; sin = s.sin; ibr = s.ibr; ibq = s.ibq;
    obr = s.obr; obq = s.obq; slog = s.slog; clog = s.clog; blog = s.blog;
    ipc = s.ipc; opc = s.opc; hpc = s.hpc; tlk = s.tlk; hI = s.hI; hO = s.hO;
    trg = s.trg }

(** val set_lk : state -> owner -> state **)

let set_lk s x =
  { st = s.st; lk = x; cin = s.cin; sin = s.sin; ibr = s.ibr; ibq = s.ibq;
    obr = s.obr; obq = s.obq; slog = s.slog; clog = s.clog; blog = s.blog;
    ipc = s.ipc; opc = s.opc; hpc = s.hpc; tlk = s.tlk; hI = s.hI; hO = s.hO;
    trg = s.trg }

(** val set_cin : state -> chunk list -> state **)

let set_cin s x =
  { st = s.st; lk = s.lk; cin = x; sin = s.sin; ibr = s.ibr; ibq = s.ibq;
    obr = s.obr; obq = s.obq; slog = s.slog; clog = s.clog; blog = s.blog;
    ipc = s.ipc; opc = s.opc; hpc = s.hpc; tlk = s.tlk; hI = s.hI; hO = s.hO;
    trg = s.trg }

(** val set_sin : state -> chunk list -> state **)

let set_sin s x =
  { st = s.st; lk = s.lk; cin = s.cin; sin = x; ibr = s.ibr; ibq = s.ibq;
    obr = s.obr; obq = s.obq; slog = s.slog; clog = s.clog; blog = s.blog;
    ipc = s.ipc; opc = s.opc; hpc = s.hpc; tlk = s.tlk; hI = s.hI; hO = s.hO;
    trg = s.trg }

(** val set_ib : state -> chunk -> chunk list -> state **)

let set_ib s r q =
  { st = s.st; lk = s.lk; cin = s.cin; sin = s.sin; ibr = r; ibq = q; obr =
    s.obr; obq = s.obq; slog = s.slog; clog = s.clog; blog = s.blog; ipc =
    s.ipc; opc = s.opc; hpc = s.hpc; tlk = s.tlk; hI = s.hI; hO = s.hO; trg =
    s.trg }

(** val set_ob : state -> chunk -> chunk list -> state **)

let set_ob s r q =
  { st = s.st; lk = s.lk; cin = s.cin; sin = s.sin; ibr = s.ibr; ibq = s.ibq;
    obr = r; obq = q; slog = s.slog; clog = s.clog; blog = s.blog; ipc =
    s.ipc; opc = s.opc; hpc = s.hpc; tlk = s.tlk; hI = s.hI; hO = s.hO; trg =
    s.trg }

(** val set_slog : state -> byte list -> state **)

let set_slog s x =
  { st = s.st; lk = s.lk; cin = s.cin; sin = s.sin; ibr = s.ibr; ibq = s.ibq;
    obr = s.obr; obq = s.obq; slog = x; clog = s.clog; blog = s.blog; ipc =
    s.ipc; opc = s.opc; hpc = s.hpc; tlk = s.tlk; hI = s.hI; hO = s.hO; trg =
    s.trg }

(** val set_clog : state -> byte list -> state **)

let set_clog s x =
  { st = s.st; lk = s.lk; cin = s.cin; sin = s.sin; ibr = s.ibr; ibq = s.ibq;
    obr = s.obr; obq = s.obq; slog = s.slog; clog = x; blog = s.blog; ipc =
    s.ipc; opc = s.opc; hpc = s.hpc; tlk = s.tlk; hI = s.hI; hO = s.hO; trg =
    s.trg }

(** val set_blog : state -> byte list -> state **)

let set_blog s x =
  { st = s.st; lk = s.lk; cin = s.cin; sin = s.sin; ibr = s.ibr; ibq = s.ibq;
    obr = s.obr; obq = s.obq; slog = s.slog; clog = s.clog; blog = x; ipc =
    s.ipc; opc = s.opc; hpc = s.hpc; tlk = s.tlk; hI = s.hI; hO = s.hO; trg =
    s.trg }

(** val set_ipc : state -> inpc -> state **)

let set_ipc s x =
  { st = s.st; lk = s.lk; cin = s.cin; sin = s.sin; ibr = s.ibr; ibq = s.ibq;
    obr = s.obr; obq = s.obq; slog = s.slog; clog = s.clog; blog = s.blog;
    ipc = x; opc = s.opc; hpc = s.hpc; tlk = s.tlk; hI = s.hI; hO = s.hO;
    trg = s.trg }

(** val set_opc : state -> outpc -> state **)

let set_opc s x =
  { st = s.st; lk = s.lk; cin = s.cin; sin = s.sin; ibr = s.ibr; ibq = s.ibq;
    obr = s.obr; obq = s.obq; slog = s.slog; clog = s.clog; blog = s.blog;
    ipc = s.ipc; opc = x; hpc = s.hpc; tlk = s.tlk; hI = s.hI; hO = s.hO;
    trg = s.trg }

(** val set_hpc : state -> hspc -> state **)

let set_hpc s x =
  { st = s.st; lk = s.lk; cin = s.cin; sin = s.sin; ibr = s.ibr; ibq = s.ibq;
    obr = s.obr; obq = s.obq; slog = s.slog; clog = s.clog; blog = s.blog;
    ipc = s.ipc; opc = s.opc; hpc = x; tlk = s.tlk; hI = s.hI; hO = s.hO;
    trg = s.trg }

(** val set_tl : state -> bool -> state **)

let set_tl s x =
  { st = s.st; lk = s.lk; cin = s.cin; sin = s.sin; ibr = s.ibr; ibq = s.ibq;
    obr = s.obr; obq = s.obq; slog = s.slog; clog = s.clog; blog = s.blog;
    ipc = s.ipc; opc = s.opc; hpc = s.hpc; tlk = x; hI = s.hI; hO = s.hO;
    trg = s.trg }

(** val set_hI : state -> evI list -> state **)

let set_hI s x =
  { st = s.st; lk = s.lk; cin = s.cin; sin = s.sin; ibr = s.ibr; ibq = s.ibq;
    obr = s.obr; obq = s.obq; slog = s.slog; clog = s.clog; blog = s.blog;
    ipc = s.ipc; opc = s.opc; hpc = s.hpc; tlk = s.tlk; hI = x; hO = s.hO;
    trg = s.trg }

(** val set_hO : state -> evO list -> state **)

let set_hO s x =
  { st = s.st; lk = s.lk; cin = s.cin; sin = s.sin; ibr = s.ibr; ibq = s.ibq;
    obr = s.obr; obq = s.obq; slog = s.slog; clog = s.clog; blog = s.blog;
    ipc = s.ipc; opc = s.opc; hpc = s.hpc; tlk = s.tlk; hI = s.hI; hO = x;
    trg = s.trg }

(** val set_trg : state -> bool -> state **)

let set_trg s x =
  { st = s.st; lk = s.lk; cin = s.cin; sin = s.sin; ibr = s.ibr; ibq = s.ibq;
    obr = s.obr; obq = s.obq; slog = s.slog; clog = s.clog; blog = s.blog;
    ipc = s.ipc; opc = s.opc; hpc = s.hpc; tlk = s.tlk; hI = s.hI; hO = s.hO;
    trg = x }

(** val send_srv : state -> chunk -> evI -> state **)

let send_srv s b e =
  set_hI (set_slog s (app s.slog b)) (app s.hI (e :: []))

(** val send_cli : state -> dev -> chunk -> evO -> state **)

let send_cli s d b e =
  set_hO
    (match d with
     | Std -> set_clog s (app s.clog b)
     | Byp -> set_blog s (app s.blog b)) (app s.hO (e :: []))

(** val bdev : bool -> dev **)

let bdev = function
| true -> Byp
| false -> Std

(** val flat : chunk -> chunk list -> byte list **)

let flat r q =
  app r (concat q)

(** val drop_parked : nat -> chunk -> chunk list -> chunk * chunk list **)

let rec drop_parked n0 r q =
  if Nat.leb n0 (length r)
  then ((skipn n0 r), q)
  else (match q with
        | [] -> ([], [])
        | c :: q' -> drop_parked (sub n0 (length r)) c q')

(** val pop_buf :
    chunk -> chunk list -> (chunk option * chunk) * chunk list **)

let pop_buf r q =
  match r with
  | [] ->
    (match q with
     | [] -> ((None, []), [])
     | b :: q' -> (((Some b), []), q'))
  | _ :: _ -> (((Some r), []), q)

type rd_res =
| RdMore
| RdOk
| RdErr

type label =
| LInRead
| LInLoad
| LInLock
| LInReload
| LInAdd
| LInUnlockP
| LInUnlockU
| LInSend
| LInEnd of bool
| LOutRead
| LOutLoad
| LOutLock
| LOutReload
| LOutAdd
| LOutUnlockP
| LOutUnlockU
| LOutBypass
| LOutDetect of chunk * bool
| LOutStoreH
| LOutGo
| LOutSend
| LOutEnd of bool
| LHsAct of nat * rd_res
| LHsSendAct of chunk * bool
| LHsCfg of nat * rd_res
| LHsSendCfg of chunk
| LHsFail1 of chunk
| LHsFail2 of chunk
| LHsLock
| LHsPopI
| LHsSendI
| LHsPopO
| LHsSendO
| LHsDone
| LTlUnlock

(** val after_load_in : status -> chunk -> inpc **)

let after_load_in x c =
  match x with
  | StS -> I5 (c, false)
  | StH -> I3 c
  | StT -> I5 (c, true)

(** val after_reload_in : status -> chunk -> inpc **)

let after_reload_in x c =
  match x with
  | StS -> I4u (c, false)
  | StH -> I4a c
  | StT -> I4u (c, true)

(** val after_load_out : status -> chunk -> outpc **)

let after_load_out x c =
  match x with
  | StS -> O5 (c, false)
  | StH -> O3 c
  | StT -> O5 (c, true)

(** val after_reload_out : status -> chunk -> outpc **)

let after_reload_out x c =
  match x with
  | StS -> O4u (c, false)
  | StH -> O4a c
  | StT -> O4u (c, true)

(** val cas_t_s : state -> state **)

let cas_t_s s =
  match s.st with
  | StT -> set_st s StS
  | _ -> s

(** val step_fn : bool -> bool -> label -> state -> state option **)

let step_fn rc tm l s =
  match l with
  | LInRead ->
    (match s.ipc with
     | I0 ->
       (match s.cin with
        | [] -> None
        | c :: r -> Some (set_ipc (set_cin s r) (I1 c)))
     | _ -> None)
  | LInLoad ->
    (match s.ipc with
     | I1 c -> Some (set_ipc s (after_load_in s.st c))
     | _ -> None)
  | LInLock ->
    (match s.ipc with
     | I3 c ->
       (match s.lk with
        | Free -> Some (set_ipc (set_lk s ByIn) (I4 c))
        | _ -> None)
     | _ -> None)
  | LInReload ->
    (match s.ipc with
     | I4 c -> Some (set_ipc s (after_reload_in (if rc then s.st else StH) c))
     | _ -> None)
  | LInAdd ->
    (match s.ipc with
     | I4a c -> Some (set_ipc (set_ib s s.ibr (app s.ibq (c :: []))) I4p)
     | _ -> None)
  | LInUnlockP ->
    (match s.ipc with
     | I4p -> Some (set_ipc (set_lk s Free) I0)
     | _ -> None)
  | LInUnlockU ->
    (match s.ipc with
     | I4u (c, t) -> Some (set_ipc (set_lk s Free) (I5 (c, t)))
     | _ -> None)
  | LInSend ->
    (match s.ipc with
     | I5 (c, t) -> Some (set_ipc (send_srv s c (PassI c)) (I6 t))
     | _ -> None)
  | LInEnd cas ->
    (match s.ipc with
     | I6 t -> Some (set_ipc (if (&&) t cas then cas_t_s s else s) I0)
     | _ -> None)
  | LOutRead ->
    (match s.opc with
     | O0 ->
       (match s.sin with
        | [] -> None
        | c :: r -> Some (set_opc (set_sin s r) (O1 c)))
     | _ -> None)
  | LOutLoad ->
    (match s.opc with
     | O1 c -> Some (set_opc s (after_load_out s.st c))
     | _ -> None)
  | LOutLock ->
    (match s.opc with
     | O3 c ->
       (match s.lk with
        | Free -> Some (set_opc (set_lk s ByOut) (O4 c))
        | _ -> None)
     | _ -> None)
  | LOutReload ->
    (match s.opc with
     | O4 c ->
       Some (set_opc s (after_reload_out (if rc then s.st else StH) c))
     | _ -> None)
  | LOutAdd ->
    (match s.opc with
     | O4a c -> Some (set_opc (set_ob s s.obr (app s.obq (c :: []))) O4p)
     | _ -> None)
  | LOutUnlockP ->
    (match s.opc with
     | O4p -> Some (set_opc (set_lk s Free) O0)
     | _ -> None)
  | LOutUnlockU ->
    (match s.opc with
     | O4u (c, t) -> Some (set_opc (set_lk s Free) (O5 (c, t)))
     | _ -> None)
  | LOutBypass ->
    (match s.opc with
     | O5 (c, t) ->
       if t
       then Some
              (set_opc (send_cli s (bdev tm) c (PassO ((bdev tm), c, c))) O6)
       else None
     | _ -> None)
  | LOutDetect (c', trig) ->
    (match s.opc with
     | O5 (c, t) ->
       if t
       then None
       else Some
              (if trig
               then set_trg (set_opc s (O5h (c, c'))) true
               else set_opc s (O5s (c, c')))
     | _ -> None)
  | LOutStoreH ->
    (match s.opc with
     | O5h (c, c') -> Some (set_opc (set_st s StH) (O5g (c, c')))
     | _ -> None)
  | LOutGo ->
    (match s.opc with
     | O5g (c, c') -> Some (set_opc (set_hpc s H0) (O5s (c, c')))
     | _ -> None)
  | LOutSend ->
    (match s.opc with
     | O5s (c, c') ->
       Some (set_opc (send_cli s Std c' (PassO (Std, c, c'))) O0)
     | _ -> None)
  | LOutEnd cas ->
    (match s.opc with
     | O6 -> Some (set_opc (if cas then cas_t_s s else s) O0)
     | _ -> None)
  | LHsAct (n0, r) ->
    (match s.hpc with
     | H0 ->
       let (r', q') = drop_parked n0 s.ibr s.ibq in
       Some
       (set_hpc
         (set_hI (set_ib s r' q')
           (app s.hI ((EatI (firstn n0 (flat s.ibr s.ibq))) :: [])))
         (match r with
          | RdMore -> H0
          | RdOk -> H2
          | RdErr -> HF1))
     | _ -> None)
  | LHsSendAct (l0, cf) ->
    (match s.hpc with
     | H2 ->
       Some (set_hpc (send_srv s l0 (InsI l0)) (if cf then H3 else HL false))
     | _ -> None)
  | LHsCfg (n0, r) ->
    (match s.hpc with
     | H3 ->
       let (r', q') = drop_parked n0 s.obr s.obq in
       Some
       (set_hpc
         (set_hO (set_ob s r' q')
           (app s.hO ((EatO (firstn n0 (flat s.obr s.obq))) :: [])))
         (match r with
          | RdMore -> H3
          | RdOk -> H4
          | RdErr -> HF1))
     | _ -> None)
  | LHsSendCfg l0 ->
    (match s.hpc with
     | H4 ->
       Some
         (set_hpc (send_cli s (bdev tm) l0 (InsO ((bdev tm), l0))) (HL true))
     | _ -> None)
  | LHsFail1 l0 ->
    (match s.hpc with
     | HF1 ->
       Some (set_hpc (send_cli s (bdev tm) l0 (InsO ((bdev tm), l0))) HF2)
     | _ -> None)
  | LHsFail2 l0 ->
    (match s.hpc with
     | HF2 -> Some (set_hpc (send_srv s l0 (InsI l0)) (HL false))
     | _ -> None)
  | LHsLock ->
    (match s.hpc with
     | HL cf ->
       (match s.lk with
        | Free -> Some (set_hpc (set_lk s ByHs) (HP1 cf))
        | _ -> None)
     | _ -> None)
  | LHsPopI ->
    (match s.hpc with
     | HP1 cf ->
       let (p, q') = pop_buf s.ibr s.ibq in
       let (o, r') = p in
       (match o with
        | Some b -> Some (set_hpc (set_ib s r' q') (HS1 (cf, b)))
        | None -> Some (set_hpc (set_ib s r' q') (HP2 cf)))
     | _ -> None)
  | LHsSendI ->
    (match s.hpc with
     | HS1 (cf, b) -> Some (set_hpc (send_srv s b (PassI b)) (HP1 cf))
     | _ -> None)
  | LHsPopO ->
    (match s.hpc with
     | HP2 cf ->
       let (p, q') = pop_buf s.obr s.obq in
       let (o, r') = p in
       (match o with
        | Some b -> Some (set_hpc (set_ob s r' q') (HS2 (cf, b)))
        | None -> Some (set_hpc (set_ob s r' q') (HD cf)))
     | _ -> None)
  | LHsSendO ->
    (match s.hpc with
     | HS2 (cf, b) ->
       let d = if cf then bdev tm else Std in
       Some (set_hpc (send_cli s d b (PassO (d, b, b))) (HP2 cf))
     | _ -> None)
  | LHsDone ->
    (match s.hpc with
     | HD cf ->
       Some
         (set_tl
           (set_lk
             (set_hpc
               (if cf
                then set_st s StT
                else (match s.st with
                      | StH -> set_st s StS
                      | _ -> s)) HN) ByTl) true)
     | _ -> None)
  | LTlUnlock -> if s.tlk then Some (set_tl (set_lk s Free) false) else None

(** val init : chunk list -> chunk list -> state **)

let init cs ss =
  { st = StS; lk = Free; cin = cs; sin = ss; ibr = []; ibq = []; obr = [];
    obq = []; slog = []; clog = []; blog = []; ipc = I0; opc = O0; hpc = HN;
    tlk = false; hI = []; hO = []; trg = false }

(** val run : bool -> bool -> label list -> state -> state option **)

let rec run rc tm ls s =
  match ls with
  | [] -> Some s
  | l :: r ->
    (match step_fn rc tm l s with
     | Some s' -> run rc tm r s'
     | None -> None)
