
(** val negb : bool -> bool **)

let negb = function
| true -> false
| false -> true

type nat =
| O
| S of nat

(** val fst : ('a1 * 'a2) -> 'a1 **)

let fst = function
| (x, _) -> x

(** val snd : ('a1 * 'a2) -> 'a2 **)

let snd = function
| (_, y) -> y

(** val length : 'a1 list -> nat **)

let rec length = function
| [] -> O
| _ :: l' -> S (length l')

(** val app : 'a1 list -> 'a1 list -> 'a1 list **)

let rec app l m =
  match l with
  | [] -> m
  | a :: l1 -> a :: (app l1 m)

type comparison =
| Eq
| Lt
| Gt

(** val compOpp : comparison -> comparison **)

let compOpp = function
| Eq -> Eq
| Lt -> Gt
| Gt -> Lt

module Coq__1 = struct
 (** val add : nat -> nat -> nat **)
 let rec add n0 m =
   match n0 with
   | O -> m
   | S p -> S (add p m)
end
include Coq__1

type positive =
| XI of positive
| XO of positive
| XH

type n =
| N0
| Npos of positive

type z =
| Z0
| Zpos of positive
| Zneg of positive

module Nat =
 struct
  (** val leb : nat -> nat -> bool **)

  let rec leb n0 m =
    match n0 with
    | O -> true
    | S n' -> (match m with
               | O -> false
               | S m' -> leb n' m')

  (** val ltb : nat -> nat -> bool **)

  let ltb n0 m =
    leb (S n0) m

  (** val max : nat -> nat -> nat **)

  let rec max n0 m =
    match n0 with
    | O -> m
    | S n' -> (match m with
               | O -> n0
               | S m' -> S (max n' m'))
 end

module Pos =
 struct
  type mask =
  | IsNul
  | IsPos of positive
  | IsNeg
 end

module Coq_Pos =
 struct
  (** val succ : positive -> positive **)

  let rec succ = function
  | XI p -> XO (succ p)
  | XO p -> XI p
  | XH -> XO XH

  (** val add : positive -> positive -> positive **)

  let rec add x y =
    match x with
    | XI p ->
      (match y with
       | XI q -> XO (add_carry p q)
       | XO q -> XI (add p q)
       | XH -> XO (succ p))
    | XO p ->
      (match y with
       | XI q -> XI (add p q)
       | XO q -> XO (add p q)
       | XH -> XI p)
    | XH -> (match y with
             | XI q -> XO (succ q)
             | XO q -> XI q
             | XH -> XO XH)

  (** val add_carry : positive -> positive -> positive **)

  and add_carry x y =
    match x with
    | XI p ->
      (match y with
       | XI q -> XI (add_carry p q)
       | XO q -> XO (add_carry p q)
       | XH -> XI (succ p))
    | XO p ->
      (match y with
       | XI q -> XO (add_carry p q)
       | XO q -> XI (add p q)
       | XH -> XO (succ p))
    | XH ->
      (match y with
       | XI q -> XI (succ q)
       | XO q -> XO (succ q)
       | XH -> XI XH)

  (** val pred_double : positive -> positive **)

  let rec pred_double = function
  | XI p -> XI (XO p)
  | XO p -> XI (pred_double p)
  | XH -> XH

  type mask = Pos.mask =
  | IsNul
  | IsPos of positive
  | IsNeg

  (** val succ_double_mask : mask -> mask **)

  let succ_double_mask = function
  | IsNul -> IsPos XH
  | IsPos p -> IsPos (XI p)
  | IsNeg -> IsNeg

  (** val double_mask : mask -> mask **)

  let double_mask = function
  | IsPos p -> IsPos (XO p)
  | x0 -> x0

  (** val double_pred_mask : positive -> mask **)

  let double_pred_mask = function
  | XI p -> IsPos (XO (XO p))
  | XO p -> IsPos (XO (pred_double p))
  | XH -> IsNul

  (** val sub_mask : positive -> positive -> mask **)

  let rec sub_mask x y =
    match x with
    | XI p ->
      (match y with
       | XI q -> double_mask (sub_mask p q)
       | XO q -> succ_double_mask (sub_mask p q)
       | XH -> IsPos (XO p))
    | XO p ->
      (match y with
       | XI q -> succ_double_mask (sub_mask_carry p q)
       | XO q -> double_mask (sub_mask p q)
       | XH -> IsPos (pred_double p))
    | XH -> (match y with
             | XH -> IsNul
             | _ -> IsNeg)

  (** val sub_mask_carry : positive -> positive -> mask **)

  and sub_mask_carry x y =
    match x with
    | XI p ->
      (match y with
       | XI q -> succ_double_mask (sub_mask_carry p q)
       | XO q -> double_mask (sub_mask p q)
       | XH -> IsPos (pred_double p))
    | XO p ->
      (match y with
       | XI q -> double_mask (sub_mask_carry p q)
       | XO q -> succ_double_mask (sub_mask_carry p q)
       | XH -> double_pred_mask p)
    | XH -> IsNeg

  (** val mul : positive -> positive -> positive **)

  let rec mul x y =
    match x with
    | XI p -> add y (XO (mul p y))
    | XO p -> XO (mul p y)
    | XH -> y

  (** val compare_cont : comparison -> positive -> positive -> comparison **)

  let rec compare_cont r x y =
    match x with
    | XI p ->
      (match y with
       | XI q -> compare_cont r p q
       | XO q -> compare_cont Gt p q
       | XH -> Gt)
    | XO p ->
      (match y with
       | XI q -> compare_cont Lt p q
       | XO q -> compare_cont r p q
       | XH -> Gt)
    | XH -> (match y with
             | XH -> r
             | _ -> Lt)

  (** val compare : positive -> positive -> comparison **)

  let compare =
    compare_cont Eq

  (** val eqb : positive -> positive -> bool **)

  let rec eqb p q =
    match p with
    | XI p0 -> (match q with
                | XI q0 -> eqb p0 q0
                | _ -> false)
    | XO p0 -> (match q with
                | XO q0 -> eqb p0 q0
                | _ -> false)
    | XH -> (match q with
             | XH -> true
             | _ -> false)

  (** val iter_op : ('a1 -> 'a1 -> 'a1) -> positive -> 'a1 -> 'a1 **)

  let rec iter_op op p a =
    match p with
    | XI p0 -> op a (iter_op op p0 (op a a))
    | XO p0 -> iter_op op p0 (op a a)
    | XH -> a

  (** val to_nat : positive -> nat **)

  let to_nat x =
    iter_op Coq__1.add x (S O)

  (** val of_succ_nat : nat -> positive **)

  let rec of_succ_nat = function
  | O -> XH
  | S x -> succ (of_succ_nat x)
 end

module N =
 struct
  (** val succ_double : n -> n **)

  let succ_double = function
  | N0 -> Npos XH
  | Npos p -> Npos (XI p)

  (** val double : n -> n **)

  let double = function
  | N0 -> N0
  | Npos p -> Npos (XO p)

  (** val add : n -> n -> n **)

  let add n0 m =
    match n0 with
    | N0 -> m
    | Npos p -> (match m with
                 | N0 -> n0
                 | Npos q -> Npos (Coq_Pos.add p q))

  (** val sub : n -> n -> n **)

  let sub n0 m =
    match n0 with
    | N0 -> N0
    | Npos n' ->
      (match m with
       | N0 -> n0
       | Npos m' ->
         (match Coq_Pos.sub_mask n' m' with
          | Coq_Pos.IsPos p -> Npos p
          | _ -> N0))

  (** val mul : n -> n -> n **)

  let mul n0 m =
    match n0 with
    | N0 -> N0
    | Npos p -> (match m with
                 | N0 -> N0
                 | Npos q -> Npos (Coq_Pos.mul p q))

  (** val compare : n -> n -> comparison **)

  let compare n0 m =
    match n0 with
    | N0 -> (match m with
             | N0 -> Eq
             | Npos _ -> Lt)
    | Npos n' -> (match m with
                  | N0 -> Gt
                  | Npos m' -> Coq_Pos.compare n' m')

  (** val eqb : n -> n -> bool **)

  let eqb n0 m =
    match n0 with
    | N0 -> (match m with
             | N0 -> true
             | Npos _ -> false)
    | Npos p -> (match m with
                 | N0 -> false
                 | Npos q -> Coq_Pos.eqb p q)

  (** val leb : n -> n -> bool **)

  let leb x y =
    match compare x y with
    | Gt -> false
    | _ -> true

  (** val ltb : n -> n -> bool **)

  let ltb x y =
    match compare x y with
    | Lt -> true
    | _ -> false

  (** val pos_div_eucl : positive -> n -> n * n **)

  let rec pos_div_eucl a b =
    match a with
    | XI a' ->
      let (q, r) = pos_div_eucl a' b in
      let r' = succ_double r in
      if leb b r' then ((succ_double q), (sub r' b)) else ((double q), r')
    | XO a' ->
      let (q, r) = pos_div_eucl a' b in
      let r' = double r in
      if leb b r' then ((succ_double q), (sub r' b)) else ((double q), r')
    | XH ->
      (match b with
       | N0 -> (N0, (Npos XH))
       | Npos p -> (match p with
                    | XH -> ((Npos XH), N0)
                    | _ -> (N0, (Npos XH))))

  (** val div_eucl : n -> n -> n * n **)

  let div_eucl a b =
    match a with
    | N0 -> (N0, N0)
    | Npos na -> (match b with
                  | N0 -> (N0, a)
                  | Npos _ -> pos_div_eucl na b)

  (** val div : n -> n -> n **)

  let div a b =
    fst (div_eucl a b)

  (** val modulo : n -> n -> n **)

  let modulo a b =
    snd (div_eucl a b)

  (** val to_nat : n -> nat **)

  let to_nat = function
  | N0 -> O
  | Npos p -> Coq_Pos.to_nat p

  (** val of_nat : nat -> n **)

  let of_nat = function
  | O -> N0
  | S n' -> Npos (Coq_Pos.of_succ_nat n')
 end

module Z =
 struct
  (** val double : z -> z **)

  let double = function
  | Z0 -> Z0
  | Zpos p -> Zpos (XO p)
  | Zneg p -> Zneg (XO p)

  (** val succ_double : z -> z **)

  let succ_double = function
  | Z0 -> Zpos XH
  | Zpos p -> Zpos (XI p)
  | Zneg p -> Zneg (Coq_Pos.pred_double p)

  (** val pred_double : z -> z **)

  let pred_double = function
  | Z0 -> Zneg XH
  | Zpos p -> Zpos (Coq_Pos.pred_double p)
  | Zneg p -> Zneg (XI p)

  (** val pos_sub : positive -> positive -> z **)

  let rec pos_sub x y =
    match x with
    | XI p ->
      (match y with
       | XI q -> double (pos_sub p q)
       | XO q -> succ_double (pos_sub p q)
       | XH -> Zpos (XO p))
    | XO p ->
      (match y with
       | XI q -> pred_double (pos_sub p q)
       | XO q -> double (pos_sub p q)
       | XH -> Zpos (Coq_Pos.pred_double p))
    | XH ->
      (match y with
       | XI q -> Zneg (XO q)
       | XO q -> Zneg (Coq_Pos.pred_double q)
       | XH -> Z0)

  (** val add : z -> z -> z **)

  let add x y =
    match x with
    | Z0 -> y
    | Zpos x' ->
      (match y with
       | Z0 -> x
       | Zpos y' -> Zpos (Coq_Pos.add x' y')
       | Zneg y' -> pos_sub x' y')
    | Zneg x' ->
      (match y with
       | Z0 -> x
       | Zpos y' -> pos_sub y' x'
       | Zneg y' -> Zneg (Coq_Pos.add x' y'))

  (** val opp : z -> z **)

  let opp = function
  | Z0 -> Z0
  | Zpos x0 -> Zneg x0
  | Zneg x0 -> Zpos x0

  (** val sub : z -> z -> z **)

  let sub m n0 =
    add m (opp n0)

  (** val mul : z -> z -> z **)

  let mul x y =
    match x with
    | Z0 -> Z0
    | Zpos x' ->
      (match y with
       | Z0 -> Z0
       | Zpos y' -> Zpos (Coq_Pos.mul x' y')
       | Zneg y' -> Zneg (Coq_Pos.mul x' y'))
    | Zneg x' ->
      (match y with
       | Z0 -> Z0
       | Zpos y' -> Zneg (Coq_Pos.mul x' y')
       | Zneg y' -> Zpos (Coq_Pos.mul x' y'))

  (** val compare : z -> z -> comparison **)

  let compare x y =
    match x with
    | Z0 -> (match y with
             | Z0 -> Eq
             | Zpos _ -> Lt
             | Zneg _ -> Gt)
    | Zpos x' -> (match y with
                  | Zpos y' -> Coq_Pos.compare x' y'
                  | _ -> Gt)
    | Zneg x' ->
      (match y with
       | Zneg y' -> compOpp (Coq_Pos.compare x' y')
       | _ -> Lt)

  (** val leb : z -> z -> bool **)

  let leb x y =
    match compare x y with
    | Gt -> false
    | _ -> true

  (** val ltb : z -> z -> bool **)

  let ltb x y =
    match compare x y with
    | Lt -> true
    | _ -> false

  (** val to_nat : z -> nat **)

  let to_nat = function
  | Zpos p -> Coq_Pos.to_nat p
  | _ -> O

  (** val to_N : z -> n **)

  let to_N = function
  | Zpos p -> Npos p
  | _ -> N0

  (** val of_nat : nat -> z **)

  let of_nat = function
  | O -> Z0
  | S n1 -> Zpos (Coq_Pos.of_succ_nat n1)

  (** val of_N : n -> z **)

  let of_N = function
  | N0 -> Z0
  | Npos p -> Zpos p

  (** val pos_div_eucl : positive -> z -> z * z **)

  let rec pos_div_eucl a b =
    match a with
    | XI a' ->
      let (q, r) = pos_div_eucl a' b in
      let r' = add (mul (Zpos (XO XH)) r) (Zpos XH) in
      if ltb r' b
      then ((mul (Zpos (XO XH)) q), r')
      else ((add (mul (Zpos (XO XH)) q) (Zpos XH)), (sub r' b))
    | XO a' ->
      let (q, r) = pos_div_eucl a' b in
      let r' = mul (Zpos (XO XH)) r in
      if ltb r' b
      then ((mul (Zpos (XO XH)) q), r')
      else ((add (mul (Zpos (XO XH)) q) (Zpos XH)), (sub r' b))
    | XH -> if leb (Zpos (XO XH)) b then (Z0, (Zpos XH)) else ((Zpos XH), Z0)

  (** val div_eucl : z -> z -> z * z **)

  let div_eucl a b =
    match a with
    | Z0 -> (Z0, Z0)
    | Zpos a' ->
      (match b with
       | Z0 -> (Z0, a)
       | Zpos _ -> pos_div_eucl a' b
       | Zneg b' ->
         let (q, r) = pos_div_eucl a' (Zpos b') in
         (match r with
          | Z0 -> ((opp q), Z0)
          | _ -> ((opp (add q (Zpos XH))), (add b r))))
    | Zneg a' ->
      (match b with
       | Z0 -> (Z0, a)
       | Zpos _ ->
         let (q, r) = pos_div_eucl a' b in
         (match r with
          | Z0 -> ((opp q), Z0)
          | _ -> ((opp (add q (Zpos XH))), (sub b r)))
       | Zneg b' -> let (q, r) = pos_div_eucl a' (Zpos b') in (q, (opp r)))

  (** val div : z -> z -> z **)

  let div a b =
    let (q, _) = div_eucl a b in q

  (** val modulo : z -> z -> z **)

  let modulo a b =
    let (_, r) = div_eucl a b in r
 end

(** val concat : 'a1 list list -> 'a1 list **)

let rec concat = function
| [] -> []
| x :: l0 -> app x (concat l0)

(** val map : ('a1 -> 'a2) -> 'a1 list -> 'a2 list **)

let rec map f = function
| [] -> []
| a :: t -> (f a) :: (map f t)

(** val forallb : ('a1 -> bool) -> 'a1 list -> bool **)

let rec forallb f = function
| [] -> true
| a :: l0 -> (&&) (f a) (forallb f l0)

(** val filter : ('a1 -> bool) -> 'a1 list -> 'a1 list **)

let rec filter f = function
| [] -> []
| x :: l0 -> if f x then x :: (filter f l0) else filter f l0

(** val firstn : nat -> 'a1 list -> 'a1 list **)

let rec firstn n0 l =
  match n0 with
  | O -> []
  | S n1 -> (match l with
             | [] -> []
             | a :: l0 -> a :: (firstn n1 l0))

(** val skipn : nat -> 'a1 list -> 'a1 list **)

let rec skipn n0 l =
  match n0 with
  | O -> l
  | S n1 -> (match l with
             | [] -> []
             | _ :: l0 -> skipn n1 l0)

type byte = n

(** val list_eqb : n list -> n list -> bool **)

let rec list_eqb a b =
  match a with
  | [] -> (match b with
           | [] -> true
           | _ :: _ -> false)
  | x :: a' ->
    (match b with
     | [] -> false
     | y :: b' -> (&&) (N.eqb x y) (list_eqb a' b'))

(** val index_byte : n -> n list -> nat option **)

let rec index_byte b = function
| [] -> None
| x :: l' ->
  if N.eqb x b
  then Some O
  else (match index_byte b l' with
        | Some i -> Some (S i)
        | None -> None)

(** val escape_leader : n **)

let escape_leader =
  Npos (XO (XI (XI (XI (XO (XI (XI XH)))))))

(** val escape_base_json : (n list * n list) list **)

let escape_base_json =
  (((Npos (XO (XI (XI (XI (XO (XI (XI XH)))))))) :: []), ((Npos (XO (XI (XI
    (XI (XO (XI (XI XH)))))))) :: ((Npos (XO (XI (XI (XI (XO (XI (XI
    XH)))))))) :: []))) :: ((((Npos (XO (XI (XI (XI (XI (XI XH))))))) :: []),
    ((Npos (XO (XI (XI (XI (XO (XI (XI XH)))))))) :: ((Npos (XI (XO (XO (XO
    (XI XH)))))) :: []))) :: [])

(** val escape_all_chars : n list **)

let escape_all_chars =
  (Npos (XO XH)) :: ((Npos (XI (XO (XI XH)))) :: ((Npos (XO (XO (XO (XO
    XH))))) :: ((Npos (XI (XO (XO (XO XH))))) :: ((Npos (XI (XI (XO (XO
    XH))))) :: ((Npos (XO (XO (XO (XI XH))))) :: ((Npos (XI (XI (XO (XI
    XH))))) :: ((Npos (XI (XO (XI (XI XH))))) :: ((Npos (XI (XO (XI (XI (XO
    (XO (XO XH)))))))) :: ((Npos (XO (XO (XO (XO (XI (XO (XO
    XH)))))))) :: ((Npos (XI (XO (XO (XO (XI (XO (XO XH)))))))) :: ((Npos (XI
    (XI (XO (XO (XI (XO (XO XH)))))))) :: ((Npos (XI (XO (XI (XI (XI (XO (XO
    XH)))))))) :: []))))))))))))

(** val escape_all_first_code : n **)

let escape_all_first_code =
  Npos (XI (XO (XO (XO (XO (XO XH))))))

(** val pause_gate_sleep_ms : n **)

let pause_gate_sleep_ms =
  Npos (XO (XO (XI (XO (XO (XI XH))))))

(** val pause_reader_sleep_ms : n **)

let pause_reader_sleep_ms =
  Npos (XO (XO (XI (XO (XO (XI XH))))))

(** val pause_protocol3 : n **)

let pause_protocol3 =
  Npos (XI XH)

(** val pause_keepalive_written : n list **)

let pause_keepalive_written =
  (Npos (XI (XO (XI (XI (XI XH)))))) :: []

(** val pause_keepalive_tested : n list **)

let pause_keepalive_tested =
  (Npos (XI (XO (XI (XI (XI XH)))))) :: []

(** val pause_colon : n **)

let pause_colon =
  Npos (XO (XI (XO (XI (XI XH)))))

(** val pause_timeout_unit_ms : n **)

let pause_timeout_unit_ms =
  Npos (XO (XO (XO (XI (XO (XI (XI (XI (XI XH)))))))))

(** val leader : byte **)

let leader =
  escape_leader

type table = (byte * byte) list

(** val esc_code : table -> byte -> byte option **)

let rec esc_code t b =
  match t with
  | [] -> None
  | p :: r ->
    let (s, c) = p in
    (match esc_code r b with
     | Some x -> Some x
     | None -> if N.eqb s b then Some c else None)

(** val unesc_code : table -> byte -> byte option **)

let rec unesc_code t c =
  match t with
  | [] -> None
  | p :: r ->
    let (s, c') = p in
    (match unesc_code r c with
     | Some x -> Some x
     | None -> if N.eqb c' c then Some s else None)

(** val escape : table -> byte list -> byte list **)

let rec escape t = function
| [] -> []
| b :: r ->
  (match esc_code t b with
   | Some c -> leader :: (c :: (escape t r))
   | None -> b :: (escape t r))

type ures =
| UOk of byte list * byte list
| UErr of byte

(** val ucons : byte -> ures -> ures **)

let ucons b = function
| UOk (o, rem) -> UOk ((b :: o), rem)
| UErr c -> UErr c

(** val unesc : table -> byte list -> nat -> ures **)

let rec unesc t data room =
  match data with
  | [] -> UOk ([], [])
  | b :: r ->
    if N.eqb b leader
    then (match r with
          | [] -> UOk ([], (b :: []))
          | c :: r' ->
            (match unesc_code t c with
             | Some s ->
               (match room with
                | O -> UOk ((s :: []), r')
                | S room' ->
                  (match room' with
                   | O -> UOk ((s :: []), r')
                   | S _ -> ucons s (unesc t r' room')))
             | None -> UErr c))
    else (match room with
          | O -> UOk ((b :: []), r)
          | S room' ->
            (match room' with
             | O -> UOk ((b :: []), r)
             | S _ -> ucons b (unesc t r room')))

(** val unescape_data : table -> byte list -> nat -> ures **)

let unescape_data t data dstlen =
  match t with
  | [] -> UOk (data, [])
  | _ :: _ ->
    unesc t data (match dstlen with
                  | O -> length data
                  | S _ -> dstlen)

type rres =
| RData of byte list
| REof
| RErr of byte

(** val er_read :
    table -> byte list -> byte list list -> nat -> rres * (byte list * byte
    list list) **)

let rec er_read t buffer cs size =
  match match buffer with
        | [] -> UOk ([], [])
        | _ :: _ -> unesc t buffer size with
  | UOk (out0, rem) ->
    (match out0 with
     | [] ->
       (match cs with
        | [] -> (REof, (rem, []))
        | c :: cs' -> er_read t (app rem c) cs' size)
     | _ :: _ -> ((RData out0), (rem, cs)))
  | UErr c -> ((RErr c), (buffer, cs))

(** val next_size : nat list -> nat -> nat * nat list **)

let next_size sizes dflt =
  match sizes with
  | [] -> (dflt, [])
  | s :: r -> (s, r)

type rend =
| EndEof of byte list
| EndErr of byte
| EndFuel

(** val er_run :
    nat -> table -> byte list -> byte list list -> nat list -> nat -> byte
    list list * rend **)

let rec er_run fuel t buffer cs sizes dflt =
  match fuel with
  | O -> ([], EndFuel)
  | S f ->
    let (size, sizes') = next_size sizes dflt in
    let (r, p) = er_read t buffer cs size in
    (match r with
     | RData out0 ->
       let (b', cs') = p in
       let (outs, e) = er_run f t b' cs' sizes' dflt in ((out0 :: outs), e)
     | REof -> let (b', _) = p in ([], (EndEof b'))
     | RErr c -> ([], (EndErr c)))

(** val er_fuel : byte list -> byte list list -> nat **)

let er_fuel buffer cs =
  S (add (length buffer) (length (concat cs)))

(** val ew_write : table -> byte list list -> byte list list **)

let ew_write t chunks =
  map (escape t) chunks

(** val latin1 : n list -> byte list option **)

let latin1 s =
  if forallb (fun c ->
       N.ltb c (Npos (XO (XO (XO (XO (XO (XO (XO (XO XH)))))))))) s
  then Some s
  else None

(** val table_of_json : n list list list -> table option **)

let rec table_of_json = function
| [] -> Some []
| e :: r ->
  (match e with
   | [] -> None
   | a :: l ->
     (match l with
      | [] -> None
      | b :: l0 ->
        (match l0 with
         | [] ->
           (match latin1 a with
            | Some l1 ->
              (match l1 with
               | [] -> None
               | s :: l2 ->
                 (match l2 with
                  | [] ->
                    (match latin1 b with
                     | Some l3 ->
                       (match l3 with
                        | [] -> None
                        | l4 :: l5 ->
                          (match l5 with
                           | [] -> None
                           | c :: l6 ->
                             (match l6 with
                              | [] ->
                                if N.eqb l4 leader
                                then (match table_of_json r with
                                      | Some t -> Some ((s, c) :: t)
                                      | None -> None)
                                else None
                              | _ :: _ -> None)))
                     | None -> None)
                  | _ :: _ -> None))
            | None -> None)
         | _ :: _ -> None)))

(** val escape_all_pairs : n list -> n -> n list list list **)

let rec escape_all_pairs chars code =
  match chars with
  | [] -> []
  | c :: r ->
    ((c :: []) :: ((leader :: (code :: [])) :: [])) :: (escape_all_pairs r
                                                         (N.add code (Npos
                                                           XH)))

(** val builtin_json : bool -> n list list list **)

let builtin_json escape_all =
  app (map (fun p -> (fst p) :: ((snd p) :: [])) escape_base_json)
    (if escape_all
     then escape_all_pairs escape_all_chars escape_all_first_code
     else [])

(** val builtin_table : bool -> table **)

let builtin_table escape_all =
  match table_of_json (builtin_json escape_all) with
  | Some t -> t
  | None -> []

type cfg = { cT : nat; cSL : nat; cGL : nat; cP3 : bool }

(** val cfg_of : n -> z -> n -> cfg **)

let cfg_of unit_ms timeout_s protocol =
  { cT =
    (match timeout_s with
     | Zpos p ->
       N.to_nat (N.div (N.mul (Npos p) pause_timeout_unit_ms) unit_ms)
     | _ -> O); cSL = (N.to_nat (N.div pause_reader_sleep_ms unit_ms)); cGL =
    (N.to_nat (N.div pause_gate_sleep_ms unit_ms)); cP3 =
    (N.leb pause_protocol3 protocol) }

type timer = nat option

(** val fresh : cfg -> timer **)

let fresh cf =
  match cf.cT with
  | O -> None
  | S n0 -> Some (S n0)

(** val dec : timer -> timer **)

let dec t = match t with
| Some n0 -> (match n0 with
              | O -> t
              | S r -> Some r)
| None -> t

(** val fired : timer -> bool **)

let fired = function
| Some n0 -> (match n0 with
              | O -> true
              | S _ -> false)
| None -> false

type lclass =
| CKeep
| CGood
| CNoColon
| CWrongType

(** val classify : n list -> n list -> lclass **)

let classify expect line =
  match index_byte pause_colon line with
  | Some n0 ->
    (match n0 with
     | O -> CNoColon
     | S i ->
       if list_eqb (firstn i (skipn (S O) line)) expect
       then if list_eqb (skipn (S (S i)) line) pause_keepalive_tested
            then CKeep
            else CGood
       else CWrongType)
  | None -> CNoColon

(** val payload_of : n list -> n list **)

let payload_of line =
  match index_byte pause_colon line with
  | Some i -> skipn (S i) line
  | None -> []

(** val keepalive_line : n list -> n list **)

let keepalive_line typ =
  (Npos (XI (XI (XO (XO (XO
    XH)))))) :: (app typ (pause_colon :: pause_keepalive_written))

type rcore = { pausing : bool; pidx : nat; pbt : bool; stopped : bool;
               tmo : timer; ntmo : timer; rbt : bool; pflag : bool }

(** val upd_pflag : rcore -> bool -> rcore **)

let upd_pflag c b =
  { pausing = c.pausing; pidx = c.pidx; pbt = c.pbt; stopped = c.stopped;
    tmo = c.tmo; ntmo = c.ntmo; rbt = c.rbt; pflag = b }

(** val upd_stopped : rcore -> rcore **)

let upd_stopped c =
  { pausing = c.pausing; pidx = c.pidx; pbt = c.pbt; stopped = true; tmo =
    c.tmo; ntmo = c.ntmo; rbt = c.rbt; pflag = c.pflag }

(** val upd_timers : rcore -> timer -> timer -> rcore **)

let upd_timers c t nt =
  { pausing = c.pausing; pidx = c.pidx; pbt = c.pbt; stopped = c.stopped;
    tmo = t; ntmo = nt; rbt = c.rbt; pflag = c.pflag }

(** val consume_rbt : rcore -> rcore **)

let consume_rbt c =
  { pausing = c.pausing; pidx = c.pidx; pbt = c.pbt; stopped = c.stopped;
    tmo = c.tmo; ntmo = c.ntmo; rbt = false; pflag = true }

(** val do_pause : rcore -> rcore **)

let do_pause c =
  if c.pbt
  then { pausing = true; pidx = c.pidx; pbt = true; stopped = c.stopped;
         tmo = c.tmo; ntmo = c.ntmo; rbt = c.rbt; pflag = c.pflag }
  else { pausing = true; pidx = (S c.pidx); pbt = true; stopped = c.stopped;
         tmo = c.tmo; ntmo = c.ntmo; rbt = c.rbt; pflag = c.pflag }

(** val do_resume : cfg -> rcore -> bool -> rcore **)

let do_resume cf c reading =
  { pausing = false; pidx = c.pidx; pbt = false; stopped = c.stopped; tmo =
    c.tmo; ntmo = (fresh cf); rbt = reading; pflag = c.pflag }

type phase =
| PIdle
| PGate of nat * nat
| PRead of nat

(** val is_read : phase -> bool **)

let is_read = function
| PRead _ -> true
| _ -> false

type 'l ev =
| ETick
| EArrive of 'l
| EPause
| EResume
| EStop
| ECall

type 'l out =
| ODelivered of 'l * bool
| OTimeout of bool
| OStopped of bool
| OBadLine of bool

type 'l rstate = { core : rcore; queue : 'l list; ph : phase }

(** val arm : cfg -> rcore -> rcore **)

let arm cf c =
  { pausing = c.pausing; pidx = c.pidx; pbt = c.pbt; stopped = c.stopped;
    tmo = (fresh cf); ntmo = None; rbt = false; pflag = c.pflag }

type 'l pre_res =
| PExit of rcore * phase * 'l out option
| PGo of rcore * nat

(** val gate_check : cfg -> rcore -> nat -> 'a1 pre_res **)

let gate_check cf c snap =
  if (&&) cf.cP3 c.pausing
  then if c.stopped
       then PExit ((upd_pflag c true), PIdle, (Some (OStopped true)))
       else PExit ((upd_pflag c true), (PGate (snap, cf.cSL)), None)
  else if c.stopped
       then PExit (c, PIdle, (Some (OStopped c.pflag)))
       else PGo ((arm cf c), snap)

type entry =
| AtTop
| AfterGate of nat
| GotLine of nat

(** val pre : cfg -> entry -> rcore -> 'a1 pre_res **)

let pre cf e c =
  match e with
  | AtTop -> gate_check cf c (if cf.cP3 then c.pidx else O)
  | AfterGate snap -> gate_check cf c snap
  | GotLine snap -> PGo (c, snap)

(** val rd :
    ('a1 -> lclass) -> cfg -> 'a1 list -> entry -> rcore -> 'a1 rstate * 'a1
    out option **)

let rec rd cls cf q e c =
  match pre cf e c with
  | PExit (c', p, o) -> ({ core = c'; queue = q; ph = p }, o)
  | PGo (c', snap) ->
    (match q with
     | [] -> ({ core = c'; queue = []; ph = (PRead snap) }, None)
     | l :: q' ->
       (match cls l with
        | CKeep ->
          if cf.cP3
          then rd cls cf q' AtTop (upd_pflag c' true)
          else ({ core = c'; queue = q'; ph = PIdle }, (Some (ODelivered (l,
                 c'.pflag))))
        | CGood ->
          if (&&) cf.cP3 c'.rbt
          then ({ core = (consume_rbt c'); queue = q'; ph = PIdle }, (Some
                 (ODelivered (l, true))))
          else ({ core = c'; queue = q'; ph = PIdle }, (Some (ODelivered (l,
                 c'.pflag))))
        | _ ->
          ({ core = c'; queue = q'; ph = PIdle }, (Some (OBadLine c'.pflag)))))

(** val on_timeout :
    ('a1 -> lclass) -> cfg -> 'a1 list -> nat -> rcore -> 'a1 rstate * 'a1
    out option **)

let on_timeout cls cf q snap c =
  if c.stopped
  then ({ core = c; queue = q; ph = PIdle }, (Some (OStopped c.pflag)))
  else if (&&) cf.cP3 (Nat.ltb snap c.pidx)
       then rd cls cf q AtTop (upd_pflag c true)
       else ({ core = c; queue = q; ph = PIdle }, (Some (OTimeout c.pflag)))

(** val rtick :
    ('a1 -> lclass) -> cfg -> 'a1 rstate -> 'a1 rstate * 'a1 out option **)

let rtick cls cf s =
  let c = upd_timers s.core (dec s.core.tmo) (dec s.core.ntmo) in
  (match s.ph with
   | PIdle -> ({ core = c; queue = s.queue; ph = PIdle }, None)
   | PGate (snap, slp) ->
     (match slp with
      | O -> rd cls cf s.queue (AfterGate snap) c
      | S n0 ->
        (match n0 with
         | O -> rd cls cf s.queue (AfterGate snap) c
         | S k ->
           ({ core = c; queue = s.queue; ph = (PGate (snap, (S k))) }, None)))
   | PRead snap ->
     if fired c.tmo
     then (match c.ntmo with
           | Some r ->
             let c1 = upd_timers c (Some r) None in
             if fired c1.tmo
             then on_timeout cls cf s.queue snap c1
             else ({ core = c1; queue = s.queue; ph = (PRead snap) }, None)
           | None -> on_timeout cls cf s.queue snap c)
     else ({ core = c; queue = s.queue; ph = (PRead snap) }, None))

(** val rstep :
    ('a1 -> lclass) -> cfg -> 'a1 rstate -> 'a1 ev -> 'a1 rstate * 'a1 out
    option **)

let rstep cls cf s = function
| ETick -> rtick cls cf s
| EArrive l ->
  if s.core.stopped
  then (s, None)
  else (match s.ph with
        | PRead snap ->
          rd cls cf (app s.queue (l :: [])) (GotLine snap) s.core
        | x ->
          ({ core = s.core; queue = (app s.queue (l :: [])); ph = x }, None))
| EPause -> ({ core = (do_pause s.core); queue = s.queue; ph = s.ph }, None)
| EResume ->
  ({ core = (do_resume cf s.core (is_read s.ph)); queue = s.queue; ph =
    s.ph }, None)
| EStop ->
  if s.core.stopped
  then (s, None)
  else (match s.ph with
        | PRead _ ->
          ({ core = (upd_stopped s.core); queue = s.queue; ph = PIdle },
            (Some (OStopped s.core.pflag)))
        | x ->
          ({ core = (upd_stopped s.core); queue = s.queue; ph = x }, None))
| ECall ->
  (match s.ph with
   | PIdle -> rd cls cf s.queue AtTop (upd_pflag s.core false)
   | _ -> (s, None))

(** val rrun :
    ('a1 -> lclass) -> cfg -> 'a1 rstate -> 'a1 ev list -> 'a1 rstate * 'a1
    out option list **)

let rec rrun cls cf s = function
| [] -> (s, [])
| e :: es' ->
  let (s1, o) = rstep cls cf s e in
  let (s2, os) = rrun cls cf s1 es' in (s2, (o :: os))

(** val core0 : rcore **)

let core0 =
  { pausing = false; pidx = O; pbt = false; stopped = false; tmo = None;
    ntmo = None; rbt = false; pflag = false }

(** val rinit : 'a1 rstate **)

let rinit =
  { core = core0; queue = []; ph = PIdle }

type sphase =
| SIdle
| SSleep of nat
| SPassed

type wout =
| WKeep
| WFrame
| WStopErr

(** val gate_enter : cfg -> bool -> bool -> sphase * wout list **)

let gate_enter cf pausing0 stopped0 =
  if (&&) cf.cP3 pausing0
  then if stopped0
       then (SIdle, (WStopErr :: []))
       else ((SSleep cf.cGL), (WKeep :: []))
  else if stopped0 then (SIdle, (WStopErr :: [])) else (SPassed, [])

type sev =
| SCall
| STick
| SWrite
| SPauseEv
| SResumeEv
| SStopEv

type sstate = { s_pausing : bool; s_stopped : bool; s_ph : sphase }

(** val sphase_step :
    cfg -> bool -> bool -> sphase -> sev -> sphase * wout list **)

let sphase_step cf pausing0 stopped0 p = function
| SCall ->
  (match p with
   | SIdle -> gate_enter cf pausing0 stopped0
   | _ -> (p, []))
| STick ->
  (match p with
   | SSleep slp ->
     (match slp with
      | O -> gate_enter cf pausing0 stopped0
      | S n0 ->
        (match n0 with
         | O -> gate_enter cf pausing0 stopped0
         | S k -> ((SSleep (S k)), [])))
   | _ -> (p, []))
| SWrite -> (match p with
             | SPassed -> (SIdle, (WFrame :: []))
             | _ -> (p, []))
| _ -> (p, [])

(** val sstep : cfg -> sstate -> sev -> sstate * wout list **)

let sstep cf s e = match e with
| SPauseEv ->
  ({ s_pausing = true; s_stopped = s.s_stopped; s_ph = s.s_ph }, [])
| SResumeEv ->
  ({ s_pausing = false; s_stopped = s.s_stopped; s_ph = s.s_ph }, [])
| SStopEv ->
  ({ s_pausing = s.s_pausing; s_stopped = true; s_ph = s.s_ph }, [])
| _ ->
  let (p, w) = sphase_step cf s.s_pausing s.s_stopped s.s_ph e in
  ({ s_pausing = s.s_pausing; s_stopped = s.s_stopped; s_ph = p }, w)

(** val srun : cfg -> sstate -> sev list -> sstate * wout list **)

let rec srun cf s = function
| [] -> (s, [])
| e :: es' ->
  let (s1, w) = sstep cf s e in
  let (s2, ws) = srun cf s1 es' in (s2, (app w ws))

(** val count_keeps : wout list -> nat **)

let count_keeps ws =
  length (filter (fun w -> match w with
                           | WKeep -> true
                           | _ -> false) ws)

type wline =
| WLKeep
| WLData of nat

(** val cls_w : wline -> lclass **)

let cls_w = function
| WLKeep -> CKeep
| WLData _ -> CGood

(** val cls_a : nat -> lclass **)

let cls_a _ =
  CGood

type csph =
| CSGate of nat
| CSIn of nat * sphase
| CSPush of nat
| CSDone

type epi =
| EpNone
| EpPausing of nat
| EpResumed of nat * nat

type cstate = { cA : nat rstate; cAcked : nat; cS : csph; cCnt : nat;
                cR : wline rstate; cDeliv : nat list; cErrA : bool;
                cErrR : bool; cEp : epi }

type cev =
| XTick
| XPause
| XResume
| XSCall
| XSWrite
| XSPush
| XRCall
| XATake

(** val slack : cfg -> nat **)

let slack cf =
  Nat.max cf.cSL cf.cGL

(** val set_A : cstate -> nat rstate -> nat -> bool -> cstate **)

let set_A s a acked err =
  { cA = a; cAcked = acked; cS = s.cS; cCnt = s.cCnt; cR = s.cR; cDeliv =
    s.cDeliv; cErrA = err; cErrR = s.cErrR; cEp = s.cEp }

(** val feedA : cfg -> cstate -> nat ev -> cstate **)

let feedA cf s e =
  let (a, o) = rstep cls_a cf s.cA e in
  (match o with
   | Some o0 ->
     (match o0 with
      | ODelivered (_, _) -> set_A s a (S s.cAcked) s.cErrA
      | _ -> set_A s a s.cAcked true)
   | None -> set_A s a s.cAcked s.cErrA)

(** val feedR : cfg -> cstate -> wline ev -> cstate **)

let feedR cf s e =
  let (r, o) = rstep cls_w cf s.cR e in
  (match o with
   | Some o0 ->
     (match o0 with
      | ODelivered (l, _) ->
        (match l with
         | WLKeep ->
           { cA = s.cA; cAcked = s.cAcked; cS = s.cS; cCnt = s.cCnt; cR = r;
             cDeliv = s.cDeliv; cErrA = s.cErrA; cErrR = true; cEp = s.cEp }
         | WLData k ->
           feedA cf { cA = s.cA; cAcked = s.cAcked; cS = s.cS; cCnt = s.cCnt;
             cR = r; cDeliv = (app s.cDeliv (k :: [])); cErrA = s.cErrA;
             cErrR = s.cErrR; cEp = s.cEp } (EArrive k))
      | _ ->
        { cA = s.cA; cAcked = s.cAcked; cS = s.cS; cCnt = s.cCnt; cR = r;
          cDeliv = s.cDeliv; cErrA = s.cErrA; cErrR = true; cEp = s.cEp })
   | None ->
     { cA = s.cA; cAcked = s.cAcked; cS = s.cS; cCnt = s.cCnt; cR = r;
       cDeliv = s.cDeliv; cErrA = s.cErrA; cErrR = s.cErrR; cEp = s.cEp })

(** val set_S : cstate -> csph -> cstate **)

let set_S s p =
  { cA = s.cA; cAcked = s.cAcked; cS = p; cCnt = s.cCnt; cR = s.cR; cDeliv =
    s.cDeliv; cErrA = s.cErrA; cErrR = s.cErrR; cEp = s.cEp }

(** val set_cnt : cstate -> nat -> cstate **)

let set_cnt s c =
  { cA = s.cA; cAcked = s.cAcked; cS = s.cS; cCnt = c; cR = s.cR; cDeliv =
    s.cDeliv; cErrA = s.cErrA; cErrR = s.cErrR; cEp = s.cEp }

(** val set_ep : cstate -> epi -> cstate **)

let set_ep s e =
  { cA = s.cA; cAcked = s.cAcked; cS = s.cS; cCnt = s.cCnt; cR = s.cR;
    cDeliv = s.cDeliv; cErrA = s.cErrA; cErrR = s.cErrR; cEp = e }

(** val emit : cfg -> cstate -> nat -> wout list -> cstate **)

let rec emit cf s k = function
| [] -> s
| w :: ws' ->
  (match w with
   | WKeep -> emit cf (feedR cf s (EArrive WLKeep)) k ws'
   | WFrame -> emit cf (feedR cf s (EArrive (WLData k))) k ws'
   | WStopErr -> emit cf s k ws')

(** val our_pausing : cstate -> bool **)

let our_pausing s =
  s.cA.core.pausing

(** val our_stopped : cstate -> bool **)

let our_stopped s =
  s.cA.core.stopped

(** val s_move : cfg -> cstate -> nat -> sphase -> sev -> cstate **)

let s_move cf s k p e =
  let (p', ws) = sphase_step cf (our_pausing s) (our_stopped s) p e in
  let s1 = emit cf s k ws in
  (match p' with
   | SIdle ->
     (match e with
      | SWrite -> set_S s1 (CSPush k)
      | _ -> set_S s1 (CSIn (k, p')))
   | _ -> set_S s1 (CSIn (k, p')))

(** val r_live : nat -> cstate -> bool **)

let r_live n0 s =
  Nat.ltb (length s.cDeliv) n0

(** val quiescent : nat -> nat -> cstate -> bool **)

let quiescent n0 w s =
  (&&)
    ((&&)
      (match s.cS with
       | CSGate _ -> false
       | CSIn (_, p) -> (match p with
                         | SSleep _ -> true
                         | _ -> false)
       | CSPush _ -> Nat.leb w s.cCnt
       | CSDone -> true)
      (negb (match s.cR.ph with
             | PIdle -> r_live n0 s
             | _ -> false)))
    (negb (match s.cA.ph with
           | PIdle -> Nat.ltb O s.cCnt
           | _ -> false))

(** val ep_pause : epi -> epi **)

let ep_pause = function
| EpNone -> EpPausing O
| EpPausing e0 -> EpPausing e0
| EpResumed (e0, j) -> EpPausing (add e0 j)

(** val ep_tick : cfg -> epi -> epi **)

let ep_tick cf = function
| EpNone -> EpNone
| EpPausing e0 -> EpPausing (S e0)
| EpResumed (e0, j) ->
  if Nat.ltb (S j) (slack cf) then EpResumed (e0, (S j)) else EpNone

(** val cstep : cfg -> nat -> nat -> nat -> cstate -> cev -> cstate option **)

let cstep cf n0 w p s = function
| XTick ->
  if (&&) (quiescent n0 w s)
       (match s.cEp with
        | EpPausing e -> Nat.ltb e p
        | _ -> true)
  then let s1 = feedA cf (feedR cf s ETick) ETick in
       let s2 =
         match s1.cS with
         | CSIn (k, p0) ->
           (match p0 with
            | SSleep j -> s_move cf s1 k (SSleep j) STick
            | _ -> s1)
         | _ -> s1
       in
       Some (set_ep s2 (ep_tick cf s.cEp))
  else None
| XPause ->
  (match s.cEp with
   | EpResumed (_, _) -> None
   | _ -> Some (set_ep (feedA cf s EPause) (ep_pause s.cEp)))
| XResume ->
  (match s.cEp with
   | EpPausing e ->
     if our_pausing s
     then Some (set_ep (feedA cf s EResume) (EpResumed (e, O)))
     else None
   | _ -> None)
| XSCall ->
  (match s.cS with
   | CSGate k -> Some (s_move cf s k SIdle SCall)
   | _ -> None)
| XSWrite ->
  (match s.cS with
   | CSIn (k, p0) ->
     (match p0 with
      | SPassed -> Some (s_move cf s k SPassed SWrite)
      | _ -> None)
   | _ -> None)
| XSPush ->
  (match s.cS with
   | CSPush k ->
     if Nat.ltb s.cCnt w
     then Some
            (set_S (set_cnt s (S s.cCnt))
              (if Nat.ltb (S k) n0 then CSGate (S k) else CSDone))
     else None
   | _ -> None)
| XRCall ->
  (match s.cR.ph with
   | PIdle -> if r_live n0 s then Some (feedR cf s ECall) else None
   | _ -> None)
| XATake ->
  (match s.cA.ph with
   | PIdle ->
     (match s.cCnt with
      | O -> None
      | S c -> Some (feedA cf (set_cnt s c) ECall))
   | _ -> None)

(** val crun :
    cfg -> nat -> nat -> nat -> cstate -> cev list -> cstate option **)

let rec crun cf n0 w p s = function
| [] -> Some s
| x :: xs' ->
  (match cstep cf n0 w p s x with
   | Some s' -> crun cf n0 w p s' xs'
   | None -> None)

(** val cinit : nat -> cstate **)

let cinit n0 =
  { cA = rinit; cAcked = O; cS =
    (match n0 with
     | O -> CSDone
     | S _ -> CSGate O); cCnt = O; cR = rinit; cDeliv = []; cErrA = false;
    cErrR = false; cEp = EpNone }

type aph =
| AIdle
| AGate of nat
| ARead

type rph =
| RIdle
| RRead of nat

type ast = { xPausing : bool; xA : aph; xAq : nat; xAcked : nat; xS : 
             csph; xCnt : nat; xR : rph; xRq : wline list; xDeliv : nat list;
             xBad : bool; xEp : epi }

(** val first_data : wline list -> (nat * wline list) option **)

let rec first_data = function
| [] -> None
| w :: q' -> (match w with
              | WLKeep -> first_data q'
              | WLData k -> Some (k, q'))

(** val x_ack : ast -> ast **)

let x_ack a =
  match a.xA with
  | ARead ->
    { xPausing = a.xPausing; xA = AIdle; xAq = a.xAq; xAcked = (S a.xAcked);
      xS = a.xS; xCnt = a.xCnt; xR = a.xR; xRq = a.xRq; xDeliv = a.xDeliv;
      xBad = a.xBad; xEp = a.xEp }
  | _ ->
    { xPausing = a.xPausing; xA = a.xA; xAq = (S a.xAq); xAcked = a.xAcked;
      xS = a.xS; xCnt = a.xCnt; xR = a.xR; xRq = a.xRq; xDeliv = a.xDeliv;
      xBad = a.xBad; xEp = a.xEp }

(** val x_deliver : ast -> rph -> wline list -> nat -> ast **)

let x_deliver a r q k =
  x_ack { xPausing = a.xPausing; xA = a.xA; xAq = a.xAq; xAcked = a.xAcked;
    xS = a.xS; xCnt = a.xCnt; xR = r; xRq = q; xDeliv =
    (app a.xDeliv (k :: [])); xBad = a.xBad; xEp = a.xEp }

(** val x_setR : ast -> rph -> wline list -> ast **)

let x_setR a r q =
  { xPausing = a.xPausing; xA = a.xA; xAq = a.xAq; xAcked = a.xAcked; xS =
    a.xS; xCnt = a.xCnt; xR = r; xRq = q; xDeliv = a.xDeliv; xBad = a.xBad;
    xEp = a.xEp }

(** val x_rarrive : cfg -> ast -> wline -> ast **)

let x_rarrive cf a l =
  match a.xR with
  | RIdle -> x_setR a RIdle (app a.xRq (l :: []))
  | RRead _ ->
    (match l with
     | WLKeep -> x_setR a (RRead cf.cT) a.xRq
     | WLData k -> x_deliver a RIdle a.xRq k)

(** val x_rcall : cfg -> ast -> ast **)

let x_rcall cf a =
  match first_data a.xRq with
  | Some p -> let (k, q') = p in x_deliver a RIdle q' k
  | None -> x_setR a (RRead cf.cT) []

(** val x_setA : ast -> aph -> nat -> nat -> ast **)

let x_setA a p q acked =
  { xPausing = a.xPausing; xA = p; xAq = q; xAcked = acked; xS = a.xS; xCnt =
    a.xCnt; xR = a.xR; xRq = a.xRq; xDeliv = a.xDeliv; xBad = a.xBad; xEp =
    a.xEp }

(** val x_aread : ast -> ast **)

let x_aread a =
  match a.xAq with
  | O -> x_setA a ARead O a.xAcked
  | S q -> x_setA a AIdle q (S a.xAcked)

(** val x_acall : cfg -> ast -> ast **)

let x_acall cf a =
  if a.xPausing then x_setA a (AGate cf.cSL) a.xAq a.xAcked else x_aread a

(** val x_setS : ast -> csph -> ast **)

let x_setS a p =
  { xPausing = a.xPausing; xA = a.xA; xAq = a.xAq; xAcked = a.xAcked; xS = p;
    xCnt = a.xCnt; xR = a.xR; xRq = a.xRq; xDeliv = a.xDeliv; xBad = a.xBad;
    xEp = a.xEp }

(** val x_setCnt : ast -> nat -> ast **)

let x_setCnt a c =
  { xPausing = a.xPausing; xA = a.xA; xAq = a.xAq; xAcked = a.xAcked; xS =
    a.xS; xCnt = c; xR = a.xR; xRq = a.xRq; xDeliv = a.xDeliv; xBad = a.xBad;
    xEp = a.xEp }

(** val x_bad : ast -> ast **)

let x_bad a =
  { xPausing = a.xPausing; xA = a.xA; xAq = a.xAq; xAcked = a.xAcked; xS =
    a.xS; xCnt = a.xCnt; xR = a.xR; xRq = a.xRq; xDeliv = a.xDeliv; xBad =
    true; xEp = a.xEp }

(** val x_flags : ast -> bool -> epi -> ast **)

let x_flags a pa e =
  { xPausing = pa; xA = a.xA; xAq = a.xAq; xAcked = a.xAcked; xS = a.xS;
    xCnt = a.xCnt; xR = a.xR; xRq = a.xRq; xDeliv = a.xDeliv; xBad = a.xBad;
    xEp = e }

(** val x_gate : cfg -> ast -> nat -> ast **)

let x_gate cf a k =
  if a.xPausing
  then x_rarrive cf (x_setS a (CSIn (k, (SSleep cf.cGL)))) WLKeep
  else x_setS a (CSIn (k, SPassed))

(** val x_live : nat -> ast -> bool **)

let x_live n0 a =
  Nat.ltb (length a.xDeliv) n0

(** val x_quiescent : nat -> nat -> ast -> bool **)

let x_quiescent n0 w a =
  (&&)
    ((&&)
      (match a.xS with
       | CSGate _ -> false
       | CSIn (_, p) -> (match p with
                         | SSleep _ -> true
                         | _ -> false)
       | CSPush _ -> Nat.leb w a.xCnt
       | CSDone -> true)
      (negb (match a.xR with
             | RIdle -> x_live n0 a
             | RRead _ -> false)))
    (negb (match a.xA with
           | AIdle -> Nat.ltb O a.xCnt
           | _ -> false))

(** val x_tickR : ast -> ast **)

let x_tickR a =
  match a.xR with
  | RIdle -> a
  | RRead t0 ->
    (match t0 with
     | O -> x_bad a
     | S n0 ->
       (match n0 with
        | O -> x_bad a
        | S t -> x_setR a (RRead (S t)) a.xRq))

(** val x_tickA : cfg -> ast -> ast **)

let x_tickA cf a =
  match a.xA with
  | AIdle -> a
  | AGate j0 ->
    (match j0 with
     | O -> x_acall cf a
     | S n0 ->
       (match n0 with
        | O -> x_acall cf a
        | S j -> x_setA a (AGate (S j)) a.xAq a.xAcked))
  | ARead -> x_bad a

(** val x_tickS : cfg -> ast -> ast **)

let x_tickS cf a =
  match a.xS with
  | CSIn (k, p) ->
    (match p with
     | SSleep slp ->
       (match slp with
        | O -> x_gate cf a k
        | S n0 ->
          (match n0 with
           | O -> x_gate cf a k
           | S j -> x_setS a (CSIn (k, (SSleep (S j))))))
     | _ -> a)
  | _ -> a

(** val astep : cfg -> nat -> nat -> nat -> ast -> cev -> ast option **)

let astep cf n0 w p a = function
| XTick ->
  if (&&) (x_quiescent n0 w a)
       (match a.xEp with
        | EpPausing e -> Nat.ltb e p
        | _ -> true)
  then let a3 = x_tickS cf (x_tickA cf (x_tickR a)) in
       Some (x_flags a3 a3.xPausing (ep_tick cf a.xEp))
  else None
| XPause ->
  (match a.xEp with
   | EpResumed (_, _) -> None
   | x0 -> Some (x_flags a true (ep_pause x0)))
| XResume ->
  (match a.xEp with
   | EpPausing e ->
     if a.xPausing then Some (x_flags a false (EpResumed (e, O))) else None
   | _ -> None)
| XSCall -> (match a.xS with
             | CSGate k -> Some (x_gate cf a k)
             | _ -> None)
| XSWrite ->
  (match a.xS with
   | CSIn (k, p0) ->
     (match p0 with
      | SPassed -> Some (x_rarrive cf (x_setS a (CSPush k)) (WLData k))
      | _ -> None)
   | _ -> None)
| XSPush ->
  (match a.xS with
   | CSPush k ->
     if Nat.ltb a.xCnt w
     then Some
            (x_setS (x_setCnt a (S a.xCnt))
              (if Nat.ltb (S k) n0 then CSGate (S k) else CSDone))
     else None
   | _ -> None)
| XRCall ->
  (match a.xR with
   | RIdle -> if x_live n0 a then Some (x_rcall cf a) else None
   | RRead _ -> None)
| XATake ->
  (match a.xA with
   | AIdle ->
     (match a.xCnt with
      | O -> None
      | S c -> Some (x_acall cf (x_setCnt a c)))
   | _ -> None)

(** val arun : cfg -> nat -> nat -> nat -> ast -> cev list -> ast option **)

let rec arun cf n0 w p a = function
| [] -> Some a
| x :: xs' ->
  (match astep cf n0 w p a x with
   | Some a' -> arun cf n0 w p a' xs'
   | None -> None)

(** val ainit : nat -> ast **)

let ainit n0 =
  { xPausing = false; xA = AIdle; xAq = O; xAcked = O; xS =
    (match n0 with
     | O -> CSDone
     | S _ -> CSGate O); xCnt = O; xR = RIdle; xRq = []; xDeliv = []; xBad =
    false; xEp = EpNone }

(** val abs_of : cstate -> ast **)

let abs_of s =
  { xPausing = s.cA.core.pausing; xA =
    (match s.cA.ph with
     | PIdle -> AIdle
     | PGate (_, j) -> AGate j
     | PRead _ -> ARead); xAq = (length s.cA.queue); xAcked = s.cAcked; xS =
    s.cS; xCnt = s.cCnt; xR =
    (match s.cR.ph with
     | PRead _ -> RRead (match s.cR.core.tmo with
                         | Some t -> t
                         | None -> O)
     | _ -> RIdle); xRq = s.cR.queue; xDeliv = s.cDeliv; xBad =
    ((||) s.cErrA s.cErrR); xEp = s.cEp }
