
(** val negb : bool -> bool **)

let negb = function
| true -> false
| false -> true

type nat =
| O
| S of nat

(** val fst : ('a1 * 'a2) -> 'a1 **)

let fst = function
| (x, _) -> x

(** val snd : ('a1 * 'a2) -> 'a2 **)

let snd = function
| (_, y) -> y

(** val length : 'a1 list -> nat **)

let rec length = function
| [] -> O
| _ :: l' -> S (length l')

(** val app : 'a1 list -> 'a1 list -> 'a1 list **)

let rec app l m =
  match l with
  | [] -> m
  | a :: l1 -> a :: (app l1 m)

type comparison =
| Eq
| Lt
| Gt

(** val compOpp : comparison -> comparison **)

let compOpp = function
| Eq -> Eq
| Lt -> Gt
| Gt -> Lt

module Coq__1 = struct
 (** val add : nat -> nat -> nat **)
 let rec add n0 m =
   match n0 with
   | O -> m
   | S p -> S (add p m)
end
include Coq__1

type positive =
| XI of positive
| XO of positive
| XH

type n =
| N0
| Npos of positive

type z =
| Z0
| Zpos of positive
| Zneg of positive

module Nat =
 struct
  (** val leb : nat -> nat -> bool **)

  let rec leb n0 m =
    match n0 with
    | O -> true
    | S n' -> (match m with
               | O -> false
               | S m' -> leb n' m')
 end

module Pos =
 struct
  type mask =
  | IsNul
  | IsPos of positive
  | IsNeg
 end

module Coq_Pos =
 struct
  (** val succ : positive -> positive **)

  let rec succ = function
  | XI p -> XO (succ p)
  | XO p -> XI p
  | XH -> XO XH

  (** val add : positive -> positive -> positive **)

  let rec add x y =
    match x with
    | XI p ->
      (match y with
       | XI q -> XO (add_carry p q)
       | XO q -> XI (add p q)
       | XH -> XO (succ p))
    | XO p ->
      (match y with
       | XI q -> XI (add p q)
       | XO q -> XO (add p q)
       | XH -> XI p)
    | XH -> (match y with
             | XI q -> XO (succ q)
             | XO q -> XI q
             | XH -> XO XH)

  (** val add_carry : positive -> positive -> positive **)

  and add_carry x y =
    match x with
    | XI p ->
      (match y with
       | XI q -> XI (add_carry p q)
       | XO q -> XO (add_carry p q)
       | XH -> XI (succ p))
    | XO p ->
      (match y with
       | XI q -> XO (add_carry p q)
       | XO q -> XI (add p q)
       | XH -> XO (succ p))
    | XH ->
      (match y with
       | XI q -> XI (succ q)
       | XO q -> XO (succ q)
       | XH -> XI XH)

  (** val pred_double : positive -> positive **)

  let rec pred_double = function
  | XI p -> XI (XO p)
  | XO p -> XI (pred_double p)
  | XH -> XH

  type mask = Pos.mask =
  | IsNul
  | IsPos of positive
  | IsNeg

  (** val succ_double_mask : mask -> mask **)

  let succ_double_mask = function
  | IsNul -> IsPos XH
  | IsPos p -> IsPos (XI p)
  | IsNeg -> IsNeg

  (** val double_mask : mask -> mask **)

  let double_mask = function
  | IsPos p -> IsPos (XO p)
  | x0 -> x0

  (** val double_pred_mask : positive -> mask **)

  let double_pred_mask = function
  | XI p -> IsPos (XO (XO p))
  | XO p -> IsPos (XO (pred_double p))
  | XH -> IsNul

  (** val sub_mask : positive -> positive -> mask **)

  let rec sub_mask x y =
    match x with
    | XI p ->
      (match y with
       | XI q -> double_mask (sub_mask p q)
       | XO q -> succ_double_mask (sub_mask p q)
       | XH -> IsPos (XO p))
    | XO p ->
      (match y with
       | XI q -> succ_double_mask (sub_mask_carry p q)
       | XO q -> double_mask (sub_mask p q)
       | XH -> IsPos (pred_double p))
    | XH -> (match y with
             | XH -> IsNul
             | _ -> IsNeg)

  (** val sub_mask_carry : positive -> positive -> mask **)

  and sub_mask_carry x y =
    match x with
    | XI p ->
      (match y with
       | XI q -> succ_double_mask (sub_mask_carry p q)
       | XO q -> double_mask (sub_mask p q)
       | XH -> IsPos (pred_double p))
    | XO p ->
      (match y with
       | XI q -> double_mask (sub_mask_carry p q)
       | XO q -> succ_double_mask (sub_mask_carry p q)
       | XH -> double_pred_mask p)
    | XH -> IsNeg

  (** val mul : positive -> positive -> positive **)

  let rec mul x y =
    match x with
    | XI p -> add y (XO (mul p y))
    | XO p -> XO (mul p y)
    | XH -> y

  (** val size : positive -> positive **)

  let rec size = function
  | XI p0 -> succ (size p0)
  | XO p0 -> succ (size p0)
  | XH -> XH

  (** val compare_cont : comparison -> positive -> positive -> comparison **)

  let rec compare_cont r x y =
    match x with
    | XI p ->
      (match y with
       | XI q -> compare_cont r p q
       | XO q -> compare_cont Gt p q
       | XH -> Gt)
    | XO p ->
      (match y with
       | XI q -> compare_cont Lt p q
       | XO q -> compare_cont r p q
       | XH -> Gt)
    | XH -> (match y with
             | XH -> r
             | _ -> Lt)

  (** val compare : positive -> positive -> comparison **)

  let compare =
    compare_cont Eq

  (** val eqb : positive -> positive -> bool **)

  let rec eqb p q =
    match p with
    | XI p0 -> (match q with
                | XI q0 -> eqb p0 q0
                | _ -> false)
    | XO p0 -> (match q with
                | XO q0 -> eqb p0 q0
                | _ -> false)
    | XH -> (match q with
             | XH -> true
             | _ -> false)

  (** val iter_op : ('a1 -> 'a1 -> 'a1) -> positive -> 'a1 -> 'a1 **)

  let rec iter_op op p a =
    match p with
    | XI p0 -> op a (iter_op op p0 (op a a))
    | XO p0 -> iter_op op p0 (op a a)
    | XH -> a

  (** val to_nat : positive -> nat **)

  let to_nat x =
    iter_op Coq__1.add x (S O)

  (** val of_succ_nat : nat -> positive **)

  let rec of_succ_nat = function
  | O -> XH
  | S x -> succ (of_succ_nat x)
 end

module N =
 struct
  (** val succ_double : n -> n **)

  let succ_double = function
  | N0 -> Npos XH
  | Npos p -> Npos (XI p)

  (** val double : n -> n **)

  let double = function
  | N0 -> N0
  | Npos p -> Npos (XO p)

  (** val add : n -> n -> n **)

  let add n0 m =
    match n0 with
    | N0 -> m
    | Npos p -> (match m with
                 | N0 -> n0
                 | Npos q -> Npos (Coq_Pos.add p q))

  (** val sub : n -> n -> n **)

  let sub n0 m =
    match n0 with
    | N0 -> N0
    | Npos n' ->
      (match m with
       | N0 -> n0
       | Npos m' ->
         (match Coq_Pos.sub_mask n' m' with
          | Coq_Pos.IsPos p -> Npos p
          | _ -> N0))

  (** val mul : n -> n -> n **)

  let mul n0 m =
    match n0 with
    | N0 -> N0
    | Npos p -> (match m with
                 | N0 -> N0
                 | Npos q -> Npos (Coq_Pos.mul p q))

  (** val compare : n -> n -> comparison **)

  let compare n0 m =
    match n0 with
    | N0 -> (match m with
             | N0 -> Eq
             | Npos _ -> Lt)
    | Npos n' -> (match m with
                  | N0 -> Gt
                  | Npos m' -> Coq_Pos.compare n' m')

  (** val eqb : n -> n -> bool **)

  let eqb n0 m =
    match n0 with
    | N0 -> (match m with
             | N0 -> true
             | Npos _ -> false)
    | Npos p -> (match m with
                 | N0 -> false
                 | Npos q -> Coq_Pos.eqb p q)

  (** val leb : n -> n -> bool **)

  let leb x y =
    match compare x y with
    | Gt -> false
    | _ -> true

  (** val ltb : n -> n -> bool **)

  let ltb x y =
    match compare x y with
    | Lt -> true
    | _ -> false

  (** val log2 : n -> n **)

  let log2 = function
  | N0 -> N0
  | Npos p0 ->
    (match p0 with
     | XI p -> Npos (Coq_Pos.size p)
     | XO p -> Npos (Coq_Pos.size p)
     | XH -> N0)

  (** val pos_div_eucl : positive -> n -> n * n **)

  let rec pos_div_eucl a b =
    match a with
    | XI a' ->
      let (q, r) = pos_div_eucl a' b in
      let r' = succ_double r in
      if leb b r' then ((succ_double q), (sub r' b)) else ((double q), r')
    | XO a' ->
      let (q, r) = pos_div_eucl a' b in
      let r' = double r in
      if leb b r' then ((succ_double q), (sub r' b)) else ((double q), r')
    | XH ->
      (match b with
       | N0 -> (N0, (Npos XH))
       | Npos p -> (match p with
                    | XH -> ((Npos XH), N0)
                    | _ -> (N0, (Npos XH))))

  (** val div_eucl : n -> n -> n * n **)

  let div_eucl a b =
    match a with
    | N0 -> (N0, N0)
    | Npos na -> (match b with
                  | N0 -> (N0, a)
                  | Npos _ -> pos_div_eucl na b)

  (** val div : n -> n -> n **)

  let div a b =
    fst (div_eucl a b)

  (** val modulo : n -> n -> n **)

  let modulo a b =
    snd (div_eucl a b)

  (** val to_nat : n -> nat **)

  let to_nat = function
  | N0 -> O
  | Npos p -> Coq_Pos.to_nat p

  (** val of_nat : nat -> n **)

  let of_nat = function
  | O -> N0
  | S n' -> Npos (Coq_Pos.of_succ_nat n')
 end

module Z =
 struct
  (** val double : z -> z **)

  let double = function
  | Z0 -> Z0
  | Zpos p -> Zpos (XO p)
  | Zneg p -> Zneg (XO p)

  (** val succ_double : z -> z **)

  let succ_double = function
  | Z0 -> Zpos XH
  | Zpos p -> Zpos (XI p)
  | Zneg p -> Zneg (Coq_Pos.pred_double p)

  (** val pred_double : z -> z **)

  let pred_double = function
  | Z0 -> Zneg XH
  | Zpos p -> Zpos (Coq_Pos.pred_double p)
  | Zneg p -> Zneg (XI p)

  (** val pos_sub : positive -> positive -> z **)

  let rec pos_sub x y =
    match x with
    | XI p ->
      (match y with
       | XI q -> double (pos_sub p q)
       | XO q -> succ_double (pos_sub p q)
       | XH -> Zpos (XO p))
    | XO p ->
      (match y with
       | XI q -> pred_double (pos_sub p q)
       | XO q -> double (pos_sub p q)
       | XH -> Zpos (Coq_Pos.pred_double p))
    | XH ->
      (match y with
       | XI q -> Zneg (XO q)
       | XO q -> Zneg (Coq_Pos.pred_double q)
       | XH -> Z0)

  (** val add : z -> z -> z **)

  let add x y =
    match x with
    | Z0 -> y
    | Zpos x' ->
      (match y with
       | Z0 -> x
       | Zpos y' -> Zpos (Coq_Pos.add x' y')
       | Zneg y' -> pos_sub x' y')
    | Zneg x' ->
      (match y with
       | Z0 -> x
       | Zpos y' -> pos_sub y' x'
       | Zneg y' -> Zneg (Coq_Pos.add x' y'))

  (** val opp : z -> z **)

  let opp = function
  | Z0 -> Z0
  | Zpos x0 -> Zneg x0
  | Zneg x0 -> Zpos x0

  (** val sub : z -> z -> z **)

  let sub m n0 =
    add m (opp n0)

  (** val mul : z -> z -> z **)

  let mul x y =
    match x with
    | Z0 -> Z0
    | Zpos x' ->
      (match y with
       | Z0 -> Z0
       | Zpos y' -> Zpos (Coq_Pos.mul x' y')
       | Zneg y' -> Zneg (Coq_Pos.mul x' y'))
    | Zneg x' ->
      (match y with
       | Z0 -> Z0
       | Zpos y' -> Zneg (Coq_Pos.mul x' y')
       | Zneg y' -> Zpos (Coq_Pos.mul x' y'))

  (** val compare : z -> z -> comparison **)

  let compare x y =
    match x with
    | Z0 -> (match y with
             | Z0 -> Eq
             | Zpos _ -> Lt
             | Zneg _ -> Gt)
    | Zpos x' -> (match y with
                  | Zpos y' -> Coq_Pos.compare x' y'
                  | _ -> Gt)
    | Zneg x' ->
      (match y with
       | Zneg y' -> compOpp (Coq_Pos.compare x' y')
       | _ -> Lt)

  (** val leb : z -> z -> bool **)

  let leb x y =
    match compare x y with
    | Gt -> false
    | _ -> true

  (** val ltb : z -> z -> bool **)

  let ltb x y =
    match compare x y with
    | Lt -> true
    | _ -> false

  (** val to_nat : z -> nat **)

  let to_nat = function
  | Zpos p -> Coq_Pos.to_nat p
  | _ -> O

  (** val to_N : z -> n **)

  let to_N = function
  | Zpos p -> Npos p
  | _ -> N0

  (** val of_nat : nat -> z **)

  let of_nat = function
  | O -> Z0
  | S n1 -> Zpos (Coq_Pos.of_succ_nat n1)

  (** val of_N : n -> z **)

  let of_N = function
  | N0 -> Z0
  | Npos p -> Zpos p

  (** val pos_div_eucl : positive -> z -> z * z **)

  let rec pos_div_eucl a b =
    match a with
    | XI a' ->
      let (q, r) = pos_div_eucl a' b in
      let r' = add (mul (Zpos (XO XH)) r) (Zpos XH) in
      if ltb r' b
      then ((mul (Zpos (XO XH)) q), r')
      else ((add (mul (Zpos (XO XH)) q) (Zpos XH)), (sub r' b))
    | XO a' ->
      let (q, r) = pos_div_eucl a' b in
      let r' = mul (Zpos (XO XH)) r in
      if ltb r' b
      then ((mul (Zpos (XO XH)) q), r')
      else ((add (mul (Zpos (XO XH)) q) (Zpos XH)), (sub r' b))
    | XH -> if leb (Zpos (XO XH)) b then (Z0, (Zpos XH)) else ((Zpos XH), Z0)

  (** val div_eucl : z -> z -> z * z **)

  let div_eucl a b =
    match a with
    | Z0 -> (Z0, Z0)
    | Zpos a' ->
      (match b with
       | Z0 -> (Z0, a)
       | Zpos _ -> pos_div_eucl a' b
       | Zneg b' ->
         let (q, r) = pos_div_eucl a' (Zpos b') in
         (match r with
          | Z0 -> ((opp q), Z0)
          | _ -> ((opp (add q (Zpos XH))), (add b r))))
    | Zneg a' ->
      (match b with
       | Z0 -> (Z0, a)
       | Zpos _ ->
         let (q, r) = pos_div_eucl a' b in
         (match r with
          | Z0 -> ((opp q), Z0)
          | _ -> ((opp (add q (Zpos XH))), (sub b r)))
       | Zneg b' -> let (q, r) = pos_div_eucl a' (Zpos b') in (q, (opp r)))

  (** val div : z -> z -> z **)

  let div a b =
    let (q, _) = div_eucl a b in q

  (** val modulo : z -> z -> z **)

  let modulo a b =
    let (_, r) = div_eucl a b in r
 end

(** val nth : nat -> 'a1 list -> 'a1 -> 'a1 **)

let rec nth n0 l default =
  match n0 with
  | O -> (match l with
          | [] -> default
          | x :: _ -> x)
  | S m -> (match l with
            | [] -> default
            | _ :: t -> nth m t default)

(** val rev : 'a1 list -> 'a1 list **)

let rec rev = function
| [] -> []
| x :: l' -> app (rev l') (x :: [])

(** val concat : 'a1 list list -> 'a1 list **)

let rec concat = function
| [] -> []
| x :: l0 -> app x (concat l0)

(** val map : ('a1 -> 'a2) -> 'a1 list -> 'a2 list **)

let rec map f = function
| [] -> []
| a :: t -> (f a) :: (map f t)

(** val existsb : ('a1 -> bool) -> 'a1 list -> bool **)

let rec existsb f = function
| [] -> false
| a :: l0 -> (||) (f a) (existsb f l0)

(** val forallb : ('a1 -> bool) -> 'a1 list -> bool **)

let rec forallb f = function
| [] -> true
| a :: l0 -> (&&) (f a) (forallb f l0)

(** val filter : ('a1 -> bool) -> 'a1 list -> 'a1 list **)

let rec filter f = function
| [] -> []
| x :: l0 -> if f x then x :: (filter f l0) else filter f l0

(** val firstn : nat -> 'a1 list -> 'a1 list **)

let rec firstn n0 l =
  match n0 with
  | O -> []
  | S n1 -> (match l with
             | [] -> []
             | a :: l0 -> a :: (firstn n1 l0))

(** val skipn : nat -> 'a1 list -> 'a1 list **)

let rec skipn n0 l =
  match n0 with
  | O -> l
  | S n1 -> (match l with
             | [] -> []
             | _ :: l0 -> skipn n1 l0)

type byte = n

(** val lF : byte **)

let lF =
  Npos (XO (XI (XO XH)))

(** val cR : byte **)

let cR =
  Npos (XI (XO (XI XH)))

(** val list_eqb : n list -> n list -> bool **)

let rec list_eqb a b =
  match a with
  | [] -> (match b with
           | [] -> true
           | _ :: _ -> false)
  | x :: a' ->
    (match b with
     | [] -> false
     | y :: b' -> (&&) (N.eqb x y) (list_eqb a' b'))

(** val is_digit : n -> bool **)

let is_digit b =
  (&&) (N.leb (Npos (XO (XO (XO (XO (XI XH)))))) b)
    (N.leb b (Npos (XI (XO (XO (XI (XI XH)))))))

(** val b64_alphabet : byte list **)

let b64_alphabet =
  (Npos (XI (XO (XO (XO (XO (XO XH))))))) :: ((Npos (XO (XI (XO (XO (XO (XO
    XH))))))) :: ((Npos (XI (XI (XO (XO (XO (XO XH))))))) :: ((Npos (XO (XO
    (XI (XO (XO (XO XH))))))) :: ((Npos (XI (XO (XI (XO (XO (XO
    XH))))))) :: ((Npos (XO (XI (XI (XO (XO (XO XH))))))) :: ((Npos (XI (XI
    (XI (XO (XO (XO XH))))))) :: ((Npos (XO (XO (XO (XI (XO (XO
    XH))))))) :: ((Npos (XI (XO (XO (XI (XO (XO XH))))))) :: ((Npos (XO (XI
    (XO (XI (XO (XO XH))))))) :: ((Npos (XI (XI (XO (XI (XO (XO
    XH))))))) :: ((Npos (XO (XO (XI (XI (XO (XO XH))))))) :: ((Npos (XI (XO
    (XI (XI (XO (XO XH))))))) :: ((Npos (XO (XI (XI (XI (XO (XO
    XH))))))) :: ((Npos (XI (XI (XI (XI (XO (XO XH))))))) :: ((Npos (XO (XO
    (XO (XO (XI (XO XH))))))) :: ((Npos (XI (XO (XO (XO (XI (XO
    XH))))))) :: ((Npos (XO (XI (XO (XO (XI (XO XH))))))) :: ((Npos (XI (XI
    (XO (XO (XI (XO XH))))))) :: ((Npos (XO (XO (XI (XO (XI (XO
    XH))))))) :: ((Npos (XI (XO (XI (XO (XI (XO XH))))))) :: ((Npos (XO (XI
    (XI (XO (XI (XO XH))))))) :: ((Npos (XI (XI (XI (XO (XI (XO
    XH))))))) :: ((Npos (XO (XO (XO (XI (XI (XO XH))))))) :: ((Npos (XI (XO
    (XO (XI (XI (XO XH))))))) :: ((Npos (XO (XI (XO (XI (XI (XO
    XH))))))) :: ((Npos (XI (XO (XO (XO (XO (XI XH))))))) :: ((Npos (XO (XI
    (XO (XO (XO (XI XH))))))) :: ((Npos (XI (XI (XO (XO (XO (XI
    XH))))))) :: ((Npos (XO (XO (XI (XO (XO (XI XH))))))) :: ((Npos (XI (XO
    (XI (XO (XO (XI XH))))))) :: ((Npos (XO (XI (XI (XO (XO (XI
    XH))))))) :: ((Npos (XI (XI (XI (XO (XO (XI XH))))))) :: ((Npos (XO (XO
    (XO (XI (XO (XI XH))))))) :: ((Npos (XI (XO (XO (XI (XO (XI
    XH))))))) :: ((Npos (XO (XI (XO (XI (XO (XI XH))))))) :: ((Npos (XI (XI
    (XO (XI (XO (XI XH))))))) :: ((Npos (XO (XO (XI (XI (XO (XI
    XH))))))) :: ((Npos (XI (XO (XI (XI (XO (XI XH))))))) :: ((Npos (XO (XI
    (XI (XI (XO (XI XH))))))) :: ((Npos (XI (XI (XI (XI (XO (XI
    XH))))))) :: ((Npos (XO (XO (XO (XO (XI (XI XH))))))) :: ((Npos (XI (XO
    (XO (XO (XI (XI XH))))))) :: ((Npos (XO (XI (XO (XO (XI (XI
    XH))))))) :: ((Npos (XI (XI (XO (XO (XI (XI XH))))))) :: ((Npos (XO (XO
    (XI (XO (XI (XI XH))))))) :: ((Npos (XI (XO (XI (XO (XI (XI
    XH))))))) :: ((Npos (XO (XI (XI (XO (XI (XI XH))))))) :: ((Npos (XI (XI
    (XI (XO (XI (XI XH))))))) :: ((Npos (XO (XO (XO (XI (XI (XI
    XH))))))) :: ((Npos (XI (XO (XO (XI (XI (XI XH))))))) :: ((Npos (XO (XI
    (XO (XI (XI (XI XH))))))) :: ((Npos (XO (XO (XO (XO (XI
    XH)))))) :: ((Npos (XI (XO (XO (XO (XI XH)))))) :: ((Npos (XO (XI (XO (XO
    (XI XH)))))) :: ((Npos (XI (XI (XO (XO (XI XH)))))) :: ((Npos (XO (XO (XI
    (XO (XI XH)))))) :: ((Npos (XI (XO (XI (XO (XI XH)))))) :: ((Npos (XO (XI
    (XI (XO (XI XH)))))) :: ((Npos (XI (XI (XI (XO (XI XH)))))) :: ((Npos (XO
    (XO (XO (XI (XI XH)))))) :: ((Npos (XI (XO (XO (XI (XI XH)))))) :: ((Npos
    (XI (XI (XO (XI (XO XH)))))) :: ((Npos (XI (XI (XI (XI (XO
    XH)))))) :: [])))))))))))))))))))))))))))))))))))))))))))))))))))))))))))))))

(** val b64_pad : byte **)

let b64_pad =
  Npos (XI (XO (XI (XI (XI XH)))))

(** val b64_char : n -> byte **)

let b64_char s =
  nth (N.to_nat s) b64_alphabet N0

(** val b64_index_from : byte list -> n -> byte -> n option **)

let rec b64_index_from l i c =
  match l with
  | [] -> None
  | x :: r ->
    if N.eqb x c then Some i else b64_index_from r (N.add i (Npos XH)) c

(** val b64_index : byte -> n option **)

let b64_index c =
  b64_index_from b64_alphabet N0 c

(** val is_b64_byte : byte -> bool **)

let is_b64_byte c =
  (||) (existsb (N.eqb c) b64_alphabet) (N.eqb c b64_pad)

(** val b64_enc3 : byte -> byte -> byte -> byte list **)

let b64_enc3 a b c =
  let v =
    N.add
      (N.add
        (N.mul a (Npos (XO (XO (XO (XO (XO (XO (XO (XO (XO (XO (XO (XO (XO
          (XO (XO (XO XH))))))))))))))))))
        (N.mul b (Npos (XO (XO (XO (XO (XO (XO (XO (XO XH))))))))))) c
  in
  (b64_char
    (N.modulo
      (N.div v (Npos (XO (XO (XO (XO (XO (XO (XO (XO (XO (XO (XO (XO (XO (XO
        (XO (XO (XO (XO XH)))))))))))))))))))) (Npos (XO (XO (XO (XO (XO (XO
      XH))))))))) :: ((b64_char
                        (N.modulo
                          (N.div v (Npos (XO (XO (XO (XO (XO (XO (XO (XO (XO
                            (XO (XO (XO XH)))))))))))))) (Npos (XO (XO (XO
                          (XO (XO (XO XH))))))))) :: ((b64_char
                                                        (N.modulo
                                                          (N.div v (Npos (XO
                                                            (XO (XO (XO (XO
                                                            (XO XH))))))))
                                                          (Npos (XO (XO (XO
                                                          (XO (XO (XO
                                                          XH))))))))) :: (
  (b64_char (N.modulo v (Npos (XO (XO (XO (XO (XO (XO XH))))))))) :: [])))

(** val b64_groups : byte list -> byte list * byte list **)

let rec b64_groups d = match d with
| [] -> ([], d)
| a :: l ->
  (match l with
   | [] -> ([], d)
   | b :: l0 ->
     (match l0 with
      | [] -> ([], d)
      | c :: r ->
        let (o, rest) = b64_groups r in ((app (b64_enc3 a b c) o), rest)))

(** val b64_tail : byte list -> byte list **)

let b64_tail = function
| [] -> []
| a :: l ->
  (match l with
   | [] ->
     let v =
       N.mul a (Npos (XO (XO (XO (XO (XO (XO (XO (XO (XO (XO (XO (XO (XO (XO
         (XO (XO XH)))))))))))))))))
     in
     (b64_char
       (N.modulo
         (N.div v (Npos (XO (XO (XO (XO (XO (XO (XO (XO (XO (XO (XO (XO (XO
           (XO (XO (XO (XO (XO XH)))))))))))))))))))) (Npos (XO (XO (XO (XO
         (XO (XO XH))))))))) :: ((b64_char
                                   (N.modulo
                                     (N.div v (Npos (XO (XO (XO (XO (XO (XO
                                       (XO (XO (XO (XO (XO (XO
                                       XH)))))))))))))) (Npos (XO (XO (XO (XO
                                     (XO (XO XH))))))))) :: (b64_pad :: (b64_pad :: [])))
   | b :: l0 ->
     (match l0 with
      | [] ->
        let v =
          N.add
            (N.mul a (Npos (XO (XO (XO (XO (XO (XO (XO (XO (XO (XO (XO (XO
              (XO (XO (XO (XO XH))))))))))))))))))
            (N.mul b (Npos (XO (XO (XO (XO (XO (XO (XO (XO XH))))))))))
        in
        (b64_char
          (N.modulo
            (N.div v (Npos (XO (XO (XO (XO (XO (XO (XO (XO (XO (XO (XO (XO
              (XO (XO (XO (XO (XO (XO XH)))))))))))))))))))) (Npos (XO (XO
            (XO (XO (XO (XO XH))))))))) :: ((b64_char
                                              (N.modulo
                                                (N.div v (Npos (XO (XO (XO
                                                  (XO (XO (XO (XO (XO (XO (XO
                                                  (XO (XO XH))))))))))))))
                                                (Npos (XO (XO (XO (XO (XO (XO
                                                XH))))))))) :: ((b64_char
                                                                  (N.modulo
                                                                    (N.div v
                                                                    (Npos (XO
                                                                    (XO (XO
                                                                    (XO (XO
                                                                    (XO
                                                                    XH))))))))
                                                                    (Npos (XO
                                                                    (XO (XO
                                                                    (XO (XO
                                                                    (XO
                                                                    XH))))))))) :: (b64_pad :: [])))
      | _ :: _ -> []))

(** val b64_encode : byte list -> byte list **)

let b64_encode d =
  let (o, r) = b64_groups d in app o (b64_tail r)

(** val b64_writer_go :
    byte list -> byte list list -> byte list list * byte list **)

let rec b64_writer_go buf = function
| [] -> ([], (b64_tail buf))
| p :: r ->
  let (o, buf') = b64_groups (app buf p) in
  let (os, cl) = b64_writer_go buf' r in ((o :: os), cl)

(** val b64_writer : byte list list -> byte list list * byte list **)

let b64_writer chunks =
  b64_writer_go [] chunks

(** val is_newline : byte -> bool **)

let is_newline c =
  (||) (N.eqb c lF) (N.eqb c cR)

(** val b64_dec4 : n -> n -> n -> n -> byte list **)

let b64_dec4 s0 s1 s2 s3 =
  let v =
    N.add
      (N.add
        (N.add
          (N.mul s0 (Npos (XO (XO (XO (XO (XO (XO (XO (XO (XO (XO (XO (XO (XO
            (XO (XO (XO (XO (XO XH))))))))))))))))))))
          (N.mul s1 (Npos (XO (XO (XO (XO (XO (XO (XO (XO (XO (XO (XO (XO
            XH)))))))))))))))
        (N.mul s2 (Npos (XO (XO (XO (XO (XO (XO XH))))))))) s3
  in
  (N.modulo
    (N.div v (Npos (XO (XO (XO (XO (XO (XO (XO (XO (XO (XO (XO (XO (XO (XO
      (XO (XO XH)))))))))))))))))) (Npos (XO (XO (XO (XO (XO (XO (XO (XO
    XH)))))))))) :: ((N.modulo
                       (N.div v (Npos (XO (XO (XO (XO (XO (XO (XO (XO
                         XH)))))))))) (Npos (XO (XO (XO (XO (XO (XO (XO (XO
                       XH)))))))))) :: ((N.modulo v (Npos (XO (XO (XO (XO (XO
                                          (XO (XO (XO XH)))))))))) :: []))

(** val is_nil : 'a1 list -> bool **)

let is_nil = function
| [] -> true
| _ :: _ -> false

(** val b64_quanta : byte list -> byte list option **)

let rec b64_quanta = function
| [] -> Some []
| c0 :: l ->
  (match l with
   | [] -> None
   | c1 :: l0 ->
     (match l0 with
      | [] -> None
      | c2 :: l1 ->
        (match l1 with
         | [] -> None
         | c3 :: r ->
           (match b64_index c0 with
            | Some s0 ->
              (match b64_index c1 with
               | Some s1 ->
                 (match b64_index c2 with
                  | Some s2 ->
                    (match b64_index c3 with
                     | Some s3 ->
                       (match b64_quanta r with
                        | Some o -> Some (app (b64_dec4 s0 s1 s2 s3) o)
                        | None -> None)
                     | None ->
                       if (&&) (N.eqb c3 b64_pad) (is_nil r)
                       then Some (firstn (S (S O)) (b64_dec4 s0 s1 s2 N0))
                       else None)
                  | None ->
                    if (&&) ((&&) (N.eqb c2 b64_pad) (N.eqb c3 b64_pad))
                         (is_nil r)
                    then Some (firstn (S O) (b64_dec4 s0 s1 N0 N0))
                    else None)
               | None -> None)
            | None -> None))))

(** val b64_strip : byte list -> byte list **)

let b64_strip s =
  filter (fun c -> negb (is_newline c)) s

(** val b64_decode : byte list -> byte list option **)

let b64_decode s =
  b64_quanta (b64_strip s)

(** val escape_leader : n **)

let escape_leader =
  Npos (XO (XI (XI (XI (XO (XI (XI XH)))))))

(** val escape_base_json : (n list * n list) list **)

let escape_base_json =
  (((Npos (XO (XI (XI (XI (XO (XI (XI XH)))))))) :: []), ((Npos (XO (XI (XI
    (XI (XO (XI (XI XH)))))))) :: ((Npos (XO (XI (XI (XI (XO (XI (XI
    XH)))))))) :: []))) :: ((((Npos (XO (XI (XI (XI (XI (XI XH))))))) :: []),
    ((Npos (XO (XI (XI (XI (XO (XI (XI XH)))))))) :: ((Npos (XI (XO (XO (XO
    (XI XH)))))) :: []))) :: [])

(** val escape_all_chars : n list **)

let escape_all_chars =
  (Npos (XO XH)) :: ((Npos (XI (XO (XI XH)))) :: ((Npos (XO (XO (XO (XO
    XH))))) :: ((Npos (XI (XO (XO (XO XH))))) :: ((Npos (XI (XI (XO (XO
    XH))))) :: ((Npos (XO (XO (XO (XI XH))))) :: ((Npos (XI (XI (XO (XI
    XH))))) :: ((Npos (XI (XO (XI (XI XH))))) :: ((Npos (XI (XO (XI (XI (XO
    (XO (XO XH)))))))) :: ((Npos (XO (XO (XO (XO (XI (XO (XO
    XH)))))))) :: ((Npos (XI (XO (XO (XO (XI (XO (XO XH)))))))) :: ((Npos (XI
    (XI (XO (XO (XI (XO (XO XH)))))))) :: ((Npos (XI (XO (XI (XI (XI (XO (XO
    XH)))))))) :: []))))))))))))

(** val escape_all_first_code : n **)

let escape_all_first_code =
  Npos (XI (XO (XO (XO (XO (XO XH))))))

(** val trzsz_letter_ranges : (n * n) list **)

let trzsz_letter_ranges =
  ((Npos (XI (XO (XO (XO (XO (XI XH))))))), (Npos (XO (XI (XO (XI (XI (XI
    XH)))))))) :: (((Npos (XI (XO (XO (XO (XO (XO XH))))))), (Npos (XO (XI
    (XO (XI (XI (XO XH)))))))) :: (((Npos (XO (XO (XO (XO (XI XH)))))), (Npos
    (XI (XO (XO (XI (XI XH))))))) :: []))

(** val trzsz_letter_chars : n list **)

let trzsz_letter_chars =
  (Npos (XI (XI (XO (XO (XO XH)))))) :: ((Npos (XO (XI (XO (XI (XI
    XH)))))) :: ((Npos (XI (XI (XO (XI (XO XH)))))) :: ((Npos (XI (XI (XI (XI
    (XO XH)))))) :: ((Npos (XI (XO (XI (XI (XI XH)))))) :: []))))

(** val send_line_format : n list **)

let send_line_format =
  (Npos (XI (XI (XO (XO (XO XH)))))) :: ((Npos (XI (XO (XI (XO (XO
    XH)))))) :: ((Npos (XI (XI (XO (XO (XI (XI XH))))))) :: ((Npos (XO (XI
    (XO (XI (XI XH)))))) :: ((Npos (XI (XO (XI (XO (XO XH)))))) :: ((Npos (XI
    (XI (XO (XO (XI (XI XH))))))) :: ((Npos (XI (XO (XI (XO (XO
    XH)))))) :: ((Npos (XI (XI (XO (XO (XI (XI XH))))))) :: [])))))))

(** val deliver_data_prefix : n list **)

let deliver_data_prefix =
  (Npos (XI (XI (XO (XO (XO XH)))))) :: ((Npos (XO (XO (XI (XO (XO (XO
    XH))))))) :: ((Npos (XI (XO (XO (XO (XO (XO XH))))))) :: ((Npos (XO (XO
    (XI (XO (XI (XO XH))))))) :: ((Npos (XI (XO (XO (XO (XO (XO
    XH))))))) :: ((Npos (XO (XI (XO (XI (XI XH)))))) :: [])))))

(** val data_v2_binary_format : n list **)

let data_v2_binary_format =
  (Npos (XI (XI (XO (XO (XO XH)))))) :: ((Npos (XO (XO (XI (XO (XO (XO
    XH))))))) :: ((Npos (XI (XO (XO (XO (XO (XO XH))))))) :: ((Npos (XO (XO
    (XI (XO (XI (XO XH))))))) :: ((Npos (XI (XO (XO (XO (XO (XO
    XH))))))) :: ((Npos (XO (XI (XO (XI (XI XH)))))) :: ((Npos (XI (XO (XI
    (XO (XO XH)))))) :: ((Npos (XO (XO (XI (XO (XO (XI XH))))))) :: ((Npos
    (XI (XO (XI (XO (XO XH)))))) :: ((Npos (XI (XI (XO (XO (XI (XI
    XH))))))) :: [])))))))))

(** val data_v2_base64_prefix : n list **)

let data_v2_base64_prefix =
  (Npos (XI (XI (XO (XO (XO XH)))))) :: ((Npos (XO (XO (XI (XO (XO (XO
    XH))))))) :: ((Npos (XI (XO (XO (XO (XO (XO XH))))))) :: ((Npos (XO (XO
    (XI (XO (XI (XO XH))))))) :: ((Npos (XI (XO (XO (XO (XO (XO
    XH))))))) :: ((Npos (XO (XI (XO (XI (XI XH)))))) :: [])))))

(** val data_v1_binary_format : n list **)

let data_v1_binary_format =
  (Npos (XI (XI (XO (XO (XO XH)))))) :: ((Npos (XO (XO (XI (XO (XO (XO
    XH))))))) :: ((Npos (XI (XO (XO (XO (XO (XO XH))))))) :: ((Npos (XO (XO
    (XI (XO (XI (XO XH))))))) :: ((Npos (XI (XO (XO (XO (XO (XO
    XH))))))) :: ((Npos (XO (XI (XO (XI (XI XH)))))) :: ((Npos (XI (XO (XI
    (XO (XO XH)))))) :: ((Npos (XO (XO (XI (XO (XO (XI XH))))))) :: ((Npos
    (XO (XI (XO XH)))) :: []))))))))

(** val pause_line_format : n list **)

let pause_line_format =
  (Npos (XI (XI (XO (XO (XO XH)))))) :: ((Npos (XI (XO (XI (XO (XO
    XH)))))) :: ((Npos (XI (XI (XO (XO (XI (XI XH))))))) :: ((Npos (XO (XI
    (XO (XI (XI XH)))))) :: ((Npos (XI (XO (XI (XI (XI XH)))))) :: ((Npos (XI
    (XO (XI (XO (XO XH)))))) :: ((Npos (XI (XI (XO (XO (XI (XI
    XH))))))) :: []))))))

(** val ack_line_format : n list **)

let ack_line_format =
  (Npos (XI (XI (XO (XO (XO XH)))))) :: ((Npos (XI (XI (XO (XO (XI (XO
    XH))))))) :: ((Npos (XI (XO (XI (XO (XI (XO XH))))))) :: ((Npos (XI (XI
    (XO (XO (XO (XO XH))))))) :: ((Npos (XI (XI (XO (XO (XO (XO
    XH))))))) :: ((Npos (XO (XI (XO (XI (XI XH)))))) :: ((Npos (XI (XO (XI
    (XO (XO XH)))))) :: ((Npos (XO (XO (XI (XO (XO (XI XH))))))) :: ((Npos
    (XI (XI (XI (XI (XO XH)))))) :: ((Npos (XI (XO (XI (XO (XO
    XH)))))) :: ((Npos (XO (XO (XI (XO (XO (XI XH))))))) :: ((Npos (XI (XO
    (XI (XO (XO XH)))))) :: ((Npos (XI (XI (XO (XO (XI (XI
    XH))))))) :: []))))))))))))

(** val leader : byte **)

let leader =
  escape_leader

type table = (byte * byte) list

(** val esc_code : table -> byte -> byte option **)

let rec esc_code t b =
  match t with
  | [] -> None
  | p :: r ->
    let (s, c) = p in
    (match esc_code r b with
     | Some x -> Some x
     | None -> if N.eqb s b then Some c else None)

(** val unesc_code : table -> byte -> byte option **)

let rec unesc_code t c =
  match t with
  | [] -> None
  | p :: r ->
    let (s, c') = p in
    (match unesc_code r c with
     | Some x -> Some x
     | None -> if N.eqb c' c then Some s else None)

(** val escape : table -> byte list -> byte list **)

let rec escape t = function
| [] -> []
| b :: r ->
  (match esc_code t b with
   | Some c -> leader :: (c :: (escape t r))
   | None -> b :: (escape t r))

type ures =
| UOk of byte list * byte list
| UErr of byte

(** val ucons : byte -> ures -> ures **)

let ucons b = function
| UOk (o, rem) -> UOk ((b :: o), rem)
| UErr c -> UErr c

(** val unesc : table -> byte list -> nat -> ures **)

let rec unesc t data room =
  match data with
  | [] -> UOk ([], [])
  | b :: r ->
    if N.eqb b leader
    then (match r with
          | [] -> UOk ([], (b :: []))
          | c :: r' ->
            (match unesc_code t c with
             | Some s ->
               (match room with
                | O -> UOk ((s :: []), r')
                | S room' ->
                  (match room' with
                   | O -> UOk ((s :: []), r')
                   | S _ -> ucons s (unesc t r' room')))
             | None -> UErr c))
    else (match room with
          | O -> UOk ((b :: []), r)
          | S room' ->
            (match room' with
             | O -> UOk ((b :: []), r)
             | S _ -> ucons b (unesc t r room')))

(** val unescape_data : table -> byte list -> nat -> ures **)

let unescape_data t data dstlen =
  match t with
  | [] -> UOk (data, [])
  | _ :: _ ->
    unesc t data (match dstlen with
                  | O -> length data
                  | S _ -> dstlen)

type rres =
| RData of byte list
| REof
| RErr of byte

(** val er_read :
    table -> byte list -> byte list list -> nat -> rres * (byte list * byte
    list list) **)

let rec er_read t buffer cs size0 =
  match match buffer with
        | [] -> UOk ([], [])
        | _ :: _ -> unesc t buffer size0 with
  | UOk (out, rem) ->
    (match out with
     | [] ->
       (match cs with
        | [] -> (REof, (rem, []))
        | c :: cs' -> er_read t (app rem c) cs' size0)
     | _ :: _ -> ((RData out), (rem, cs)))
  | UErr c -> ((RErr c), (buffer, cs))

(** val next_size : nat list -> nat -> nat * nat list **)

let next_size sizes dflt =
  match sizes with
  | [] -> (dflt, [])
  | s :: r -> (s, r)

type rend =
| EndEof of byte list
| EndErr of byte
| EndFuel

(** val er_run :
    nat -> table -> byte list -> byte list list -> nat list -> nat -> byte
    list list * rend **)

let rec er_run fuel t buffer cs sizes dflt =
  match fuel with
  | O -> ([], EndFuel)
  | S f ->
    let (size0, sizes') = next_size sizes dflt in
    let (r, p) = er_read t buffer cs size0 in
    (match r with
     | RData out ->
       let (b', cs') = p in
       let (outs, e) = er_run f t b' cs' sizes' dflt in ((out :: outs), e)
     | REof -> let (b', _) = p in ([], (EndEof b'))
     | RErr c -> ([], (EndErr c)))

(** val er_fuel : byte list -> byte list list -> nat **)

let er_fuel buffer cs =
  S (add (length buffer) (length (concat cs)))

(** val ew_write : table -> byte list list -> byte list list **)

let ew_write t chunks =
  map (escape t) chunks

(** val latin1 : n list -> byte list option **)

let latin1 s =
  if forallb (fun c ->
       N.ltb c (Npos (XO (XO (XO (XO (XO (XO (XO (XO XH)))))))))) s
  then Some s
  else None

(** val table_of_json : n list list list -> table option **)

let rec table_of_json = function
| [] -> Some []
| e :: r ->
  (match e with
   | [] -> None
   | a :: l ->
     (match l with
      | [] -> None
      | b :: l0 ->
        (match l0 with
         | [] ->
           (match latin1 a with
            | Some l1 ->
              (match l1 with
               | [] -> None
               | s :: l2 ->
                 (match l2 with
                  | [] ->
                    (match latin1 b with
                     | Some l3 ->
                       (match l3 with
                        | [] -> None
                        | l4 :: l5 ->
                          (match l5 with
                           | [] -> None
                           | c :: l6 ->
                             (match l6 with
                              | [] ->
                                if N.eqb l4 leader
                                then (match table_of_json r with
                                      | Some t -> Some ((s, c) :: t)
                                      | None -> None)
                                else None
                              | _ :: _ -> None)))
                     | None -> None)
                  | _ :: _ -> None))
            | None -> None)
         | _ :: _ -> None)))

(** val escape_all_pairs : n list -> n -> n list list list **)

let rec escape_all_pairs chars code =
  match chars with
  | [] -> []
  | c :: r ->
    ((c :: []) :: ((leader :: (code :: [])) :: [])) :: (escape_all_pairs r
                                                         (N.add code (Npos
                                                           XH)))

(** val builtin_json : bool -> n list list list **)

let builtin_json escape_all =
  app (map (fun p -> (fst p) :: ((snd p) :: [])) escape_base_json)
    (if escape_all
     then escape_all_pairs escape_all_chars escape_all_first_code
     else [])

(** val builtin_table : bool -> table **)

let builtin_table escape_all =
  match table_of_json (builtin_json escape_all) with
  | Some t -> t
  | None -> []

(** val wire_letter : byte -> bool **)

let wire_letter b =
  (||)
    (existsb (fun r -> (&&) (N.leb (fst r) b) (N.leb b (snd r)))
      trzsz_letter_ranges) (existsb (N.eqb b) trzsz_letter_chars)

(** val wire_fmt : byte list -> byte list list -> byte list **)

let rec wire_fmt f args =
  match f with
  | [] -> []
  | c :: r ->
    if N.eqb c (Npos (XI (XO (XI (XO (XO XH))))))
    then (match r with
          | [] -> c :: []
          | _ :: r' ->
            (match args with
             | [] -> wire_fmt r' []
             | a :: args' -> app a (wire_fmt r' args')))
    else c :: (wire_fmt r args)

(** val wire_dec_go : nat -> n -> byte list -> byte list **)

let rec wire_dec_go fuel n0 acc =
  let acc' =
    (N.add (Npos (XO (XO (XO (XO (XI XH))))))
      (N.modulo n0 (Npos (XO (XI (XO XH)))))) :: acc
  in
  (match fuel with
   | O -> acc'
   | S f ->
     if N.eqb (N.div n0 (Npos (XO (XI (XO XH))))) N0
     then acc'
     else wire_dec_go f (N.div n0 (Npos (XO (XI (XO XH))))) acc')

(** val wire_dec : n -> byte list **)

let wire_dec n0 =
  wire_dec_go (N.to_nat (N.log2 n0)) n0 []

(** val wire_undec_go : n -> byte list -> n option **)

let rec wire_undec_go acc = function
| [] -> Some acc
| c :: r ->
  if is_digit c
  then wire_undec_go
         (N.add (N.mul acc (Npos (XO (XI (XO XH)))))
           (N.sub c (Npos (XO (XO (XO (XO (XI XH)))))))) r
  else None

(** val wire_undec : byte list -> n option **)

let wire_undec l = match l with
| [] -> None
| _ :: _ -> wire_undec_go N0 l

(** val wire_line : byte list -> byte list -> byte list -> byte list **)

let wire_line typ payload newline =
  wire_fmt send_line_format (typ :: (payload :: (newline :: [])))

(** val wire_int_line : byte list -> n -> byte list -> byte list **)

let wire_int_line typ n0 newline =
  wire_line typ (wire_dec n0) newline

(** val wire_pause_line : byte list -> byte list -> byte list **)

let wire_pause_line typ newline =
  wire_fmt pause_line_format (typ :: (newline :: []))

(** val wire_ack_line : n -> n -> byte list -> byte list **)

let wire_ack_line len step newline =
  wire_fmt ack_line_format
    ((wire_dec len) :: ((wire_dec step) :: (newline :: [])))

(** val wire_data_frame : bool -> byte list -> byte list -> byte list **)

let wire_data_frame binary newline frame =
  if binary
  then app deliver_data_prefix
         (app (wire_dec (N.of_nat (length frame))) (app newline frame))
  else app deliver_data_prefix (app frame newline)

(** val wire_data_piece : bool -> byte list -> byte list -> byte list **)

let wire_data_piece binary newline piece =
  if binary
  then app
         (wire_fmt data_v2_binary_format
           ((wire_dec (N.of_nat (length piece))) :: (newline :: []))) piece
  else app data_v2_base64_prefix (app piece newline)

(** val wire_frames_go :
    byte list -> byte list -> nat -> nat list -> nat -> byte list list **)

let rec wire_frames_go s acc room sizes dflt =
  match s with
  | [] -> (match acc with
           | [] -> []
           | _ :: _ -> (rev acc) :: [])
  | b :: r ->
    (match room with
     | O ->
       let (n0, sizes') = next_size sizes dflt in
       (rev (b :: acc)) :: (wire_frames_go r [] n0 sizes' dflt)
     | S room' ->
       (match room' with
        | O ->
          let (n0, sizes') = next_size sizes dflt in
          (rev (b :: acc)) :: (wire_frames_go r [] n0 sizes' dflt)
        | S _ -> wire_frames_go r (b :: acc) room' sizes dflt))

(** val wire_frames : nat list -> nat -> byte list -> byte list list **)

let wire_frames sizes dflt s =
  let (n0, sizes') = next_size sizes dflt in
  wire_frames_go s [] n0 sizes' dflt

(** val wire_resplit :
    byte list list -> nat list -> nat -> (bool * byte list) list **)

let rec wire_resplit fs sizes dflt =
  match fs with
  | [] -> []
  | f :: r ->
    let (n0, sizes') = next_size sizes dflt in
    if Nat.leb (length f) n0
    then (true, f) :: (wire_resplit r sizes' dflt)
    else let pieces = wire_frames sizes' dflt f in
         app (map (fun p -> (false, p)) pieces)
           (wire_resplit r (skipn (length pieces) sizes') dflt)

(** val wire_render_piece :
    bool -> byte list -> (bool * byte list) -> byte list **)

let wire_render_piece binary newline p =
  if fst p
  then wire_data_frame binary newline (snd p)
  else wire_data_piece binary newline (snd p)

(** val wire_split_lf : byte list -> (byte list * byte list) option **)

let rec wire_split_lf = function
| [] -> None
| c :: r ->
  if N.eqb c lF
  then Some ([], r)
  else (match wire_split_lf r with
        | Some p -> let (l, rest) = p in Some ((c :: l), rest)
        | None -> None)

(** val wire_split_colon : byte list -> (byte list * byte list) option **)

let rec wire_split_colon = function
| [] -> None
| c :: r ->
  if N.eqb c (Npos (XO (XI (XO (XI (XI XH))))))
  then Some ([], r)
  else (match wire_split_colon r with
        | Some p -> let (a, b) = p in Some ((c :: a), b)
        | None -> None)

(** val wire_check : byte list -> byte list -> byte list option **)

let wire_check typ line =
  match wire_split_colon line with
  | Some p ->
    let (l, buf) = p in
    (match l with
     | [] -> None
     | _ :: t -> if list_eqb t typ then Some buf else None)
  | None -> None

(** val wire_DATA : byte list **)

let wire_DATA =
  (Npos (XO (XO (XI (XO (XO (XO XH))))))) :: ((Npos (XI (XO (XO (XO (XO (XO
    XH))))))) :: ((Npos (XO (XO (XI (XO (XI (XO XH))))))) :: ((Npos (XI (XO
    (XO (XO (XO (XO XH))))))) :: [])))

(** val wire_recv :
    nat -> bool -> byte list -> (byte list list * byte list) option **)

let rec wire_recv fuel binary w =
  match fuel with
  | O -> None
  | S f ->
    (match wire_split_lf w with
     | Some p ->
       let (line, rest) = p in
       (match wire_check wire_DATA line with
        | Some buf ->
          if binary
          then (match wire_undec buf with
                | Some n0 ->
                  if N.eqb n0 N0
                  then Some ([], rest)
                  else if Nat.leb (N.to_nat n0) (length rest)
                       then (match wire_recv f binary
                                     (skipn (N.to_nat n0) rest) with
                             | Some p0 ->
                               let (fs, rest') = p0 in
                               Some (((firstn (N.to_nat n0) rest) :: fs),
                               rest')
                             | None -> None)
                       else None
                | None -> None)
          else (match buf with
                | [] -> Some ([], rest)
                | _ :: _ ->
                  (match wire_recv f binary rest with
                   | Some p0 ->
                     let (fs, rest') = p0 in Some ((buf :: fs), rest')
                   | None -> None))
        | None -> None)
     | None -> None)

(** val wire_encode_bytes :
    (byte list -> byte list) -> byte list -> byte list **)

let wire_encode_bytes zl d =
  b64_encode (zl d)

(** val wire_decode_string :
    (byte list -> byte list option) -> byte list -> byte list option **)

let wire_decode_string unzl s =
  match b64_decode s with
  | Some z0 -> unzl z0
  | None -> None

(** val wire_v1_chunk :
    (byte list -> byte list) -> bool -> table -> byte list -> byte list ->
    byte list **)

let wire_v1_chunk zl binary t newline chunk =
  if binary
  then let buf = escape t chunk in
       app
         (wire_fmt data_v1_binary_format
           ((wire_dec (N.of_nat (length buf))) :: [])) buf
  else wire_line wire_DATA (wire_encode_bytes zl chunk) newline

(** val wire_v1_decode :
    (byte list -> byte list option) -> bool -> table -> byte list -> byte
    list option **)

let wire_v1_decode unzl binary t payload =
  if binary
  then (match unescape_data t payload O with
        | UOk (o, rem) -> (match rem with
                           | [] -> Some o
                           | _ :: _ -> None)
        | UErr _ -> None)
  else wire_decode_string unzl payload

(** val wire_v1_recv :
    (byte list -> byte list option) -> bool -> table -> byte list -> (byte
    list * byte list) option **)

let wire_v1_recv unzl binary t w =
  match wire_split_lf w with
  | Some p ->
    let (line, rest) = p in
    (match wire_check wire_DATA line with
     | Some buf ->
       if binary
       then (match wire_undec buf with
             | Some n0 ->
               if Nat.leb (N.to_nat n0) (length rest)
               then (match wire_v1_decode unzl true t
                             (firstn (N.to_nat n0) rest) with
                     | Some c -> Some (c, (skipn (N.to_nat n0) rest))
                     | None -> None)
               else None
             | None -> None)
       else (match wire_v1_decode unzl false t buf with
             | Some c -> Some (c, rest)
             | None -> None)
     | None -> None)
  | None -> None
