
(** val negb : bool -> bool **)

let negb = function
| true -> false
| false -> true

type nat =
| O
| S of nat

(** val fst : ('a1 * 'a2) -> 'a1 **)

let fst = function
| (x, _) -> x

(** val snd : ('a1 * 'a2) -> 'a2 **)

let snd = function
| (_, y) -> y

(** val length : 'a1 list -> nat **)

let rec length = function
| [] -> O
| _ :: l' -> S (length l')

(** val app : 'a1 list -> 'a1 list -> 'a1 list **)

let rec app l m =
  match l with
  | [] -> m
  | a :: l1 -> a :: (app l1 m)

type comparison =
| Eq
| Lt
| Gt

(** val compOpp : comparison -> comparison **)

let compOpp = function
| Eq -> Eq
| Lt -> Gt
| Gt -> Lt

module Coq__1 = struct
 (** val add : nat -> nat -> nat **)
 let rec add n0 m =
   match n0 with
   | O -> m
   | S p -> S (add p m)
end
include Coq__1

(** val sub : nat -> nat -> nat **)

let rec sub n0 m =
  match n0 with
  | O -> n0
  | S k -> (match m with
            | O -> n0
            | S l -> sub k l)

type positive =
| XI of positive
| XO of positive
| XH

type n =
| N0
| Npos of positive

type z =
| Z0
| Zpos of positive
| Zneg of positive

module Nat =
 struct
  (** val leb : nat -> nat -> bool **)

  let rec leb n0 m =
    match n0 with
    | O -> true
    | S n' -> (match m with
               | O -> false
               | S m' -> leb n' m')

  (** val ltb : nat -> nat -> bool **)

  let ltb n0 m =
    leb (S n0) m
 end

module Pos =
 struct
  type mask =
  | IsNul
  | IsPos of positive
  | IsNeg
 end

module Coq_Pos =
 struct
  (** val succ : positive -> positive **)

  let rec succ = function
  | XI p -> XO (succ p)
  | XO p -> XI p
  | XH -> XO XH

  (** val add : positive -> positive -> positive **)

  let rec add x y =
    match x with
    | XI p ->
      (match y with
       | XI q -> XO (add_carry p q)
       | XO q -> XI (add p q)
       | XH -> XO (succ p))
    | XO p ->
      (match y with
       | XI q -> XI (add p q)
       | XO q -> XO (add p q)
       | XH -> XI p)
    | XH -> (match y with
             | XI q -> XO (succ q)
             | XO q -> XI q
             | XH -> XO XH)

  (** val add_carry : positive -> positive -> positive **)

  and add_carry x y =
    match x with
    | XI p ->
      (match y with
       | XI q -> XI (add_carry p q)
       | XO q -> XO (add_carry p q)
       | XH -> XI (succ p))
    | XO p ->
      (match y with
       | XI q -> XO (add_carry p q)
       | XO q -> XI (add p q)
       | XH -> XO (succ p))
    | XH ->
      (match y with
       | XI q -> XI (succ q)
       | XO q -> XO (succ q)
       | XH -> XI XH)

  (** val pred_double : positive -> positive **)

  let rec pred_double = function
  | XI p -> XI (XO p)
  | XO p -> XI (pred_double p)
  | XH -> XH

  type mask = Pos.mask =
  | IsNul
  | IsPos of positive
  | IsNeg

  (** val succ_double_mask : mask -> mask **)

  let succ_double_mask = function
  | IsNul -> IsPos XH
  | IsPos p -> IsPos (XI p)
  | IsNeg -> IsNeg

  (** val double_mask : mask -> mask **)

  let double_mask = function
  | IsPos p -> IsPos (XO p)
  | x0 -> x0

  (** val double_pred_mask : positive -> mask **)

  let double_pred_mask = function
  | XI p -> IsPos (XO (XO p))
  | XO p -> IsPos (XO (pred_double p))
  | XH -> IsNul

  (** val sub_mask : positive -> positive -> mask **)

  let rec sub_mask x y =
    match x with
    | XI p ->
      (match y with
       | XI q -> double_mask (sub_mask p q)
       | XO q -> succ_double_mask (sub_mask p q)
       | XH -> IsPos (XO p))
    | XO p ->
      (match y with
       | XI q -> succ_double_mask (sub_mask_carry p q)
       | XO q -> double_mask (sub_mask p q)
       | XH -> IsPos (pred_double p))
    | XH -> (match y with
             | XH -> IsNul
             | _ -> IsNeg)

  (** val sub_mask_carry : positive -> positive -> mask **)

  and sub_mask_carry x y =
    match x with
    | XI p ->
      (match y with
       | XI q -> succ_double_mask (sub_mask_carry p q)
       | XO q -> double_mask (sub_mask p q)
       | XH -> IsPos (pred_double p))
    | XO p ->
      (match y with
       | XI q -> double_mask (sub_mask_carry p q)
       | XO q -> succ_double_mask (sub_mask_carry p q)
       | XH -> double_pred_mask p)
    | XH -> IsNeg

  (** val mul : positive -> positive -> positive **)

  let rec mul x y =
    match x with
    | XI p -> add y (XO (mul p y))
    | XO p -> XO (mul p y)
    | XH -> y

  (** val compare_cont : comparison -> positive -> positive -> comparison **)

  let rec compare_cont r x y =
    match x with
    | XI p ->
      (match y with
       | XI q -> compare_cont r p q
       | XO q -> compare_cont Gt p q
       | XH -> Gt)
    | XO p ->
      (match y with
       | XI q -> compare_cont Lt p q
       | XO q -> compare_cont r p q
       | XH -> Gt)
    | XH -> (match y with
             | XH -> r
             | _ -> Lt)

  (** val compare : positive -> positive -> comparison **)

  let compare =
    compare_cont Eq

  (** val eqb : positive -> positive -> bool **)

  let rec eqb p q =
    match p with
    | XI p0 -> (match q with
                | XI q0 -> eqb p0 q0
                | _ -> false)
    | XO p0 -> (match q with
                | XO q0 -> eqb p0 q0
                | _ -> false)
    | XH -> (match q with
             | XH -> true
             | _ -> false)

  (** val iter_op : ('a1 -> 'a1 -> 'a1) -> positive -> 'a1 -> 'a1 **)

  let rec iter_op op0 p a =
    match p with
    | XI p0 -> op0 a (iter_op op0 p0 (op0 a a))
    | XO p0 -> iter_op op0 p0 (op0 a a)
    | XH -> a

  (** val to_nat : positive -> nat **)

  let to_nat x =
    iter_op Coq__1.add x (S O)

  (** val of_succ_nat : nat -> positive **)

  let rec of_succ_nat = function
  | O -> XH
  | S x -> succ (of_succ_nat x)
 end

module N =
 struct
  (** val succ_double : n -> n **)

  let succ_double = function
  | N0 -> Npos XH
  | Npos p -> Npos (XI p)

  (** val double : n -> n **)

  let double = function
  | N0 -> N0
  | Npos p -> Npos (XO p)

  (** val add : n -> n -> n **)

  let add n0 m =
    match n0 with
    | N0 -> m
    | Npos p -> (match m with
                 | N0 -> n0
                 | Npos q -> Npos (Coq_Pos.add p q))

  (** val sub : n -> n -> n **)

  let sub n0 m =
    match n0 with
    | N0 -> N0
    | Npos n' ->
      (match m with
       | N0 -> n0
       | Npos m' ->
         (match Coq_Pos.sub_mask n' m' with
          | Coq_Pos.IsPos p -> Npos p
          | _ -> N0))

  (** val mul : n -> n -> n **)

  let mul n0 m =
    match n0 with
    | N0 -> N0
    | Npos p -> (match m with
                 | N0 -> N0
                 | Npos q -> Npos (Coq_Pos.mul p q))

  (** val compare : n -> n -> comparison **)

  let compare n0 m =
    match n0 with
    | N0 -> (match m with
             | N0 -> Eq
             | Npos _ -> Lt)
    | Npos n' -> (match m with
                  | N0 -> Gt
                  | Npos m' -> Coq_Pos.compare n' m')

  (** val eqb : n -> n -> bool **)

  let eqb n0 m =
    match n0 with
    | N0 -> (match m with
             | N0 -> true
             | Npos _ -> false)
    | Npos p -> (match m with
                 | N0 -> false
                 | Npos q -> Coq_Pos.eqb p q)

  (** val leb : n -> n -> bool **)

  let leb x y =
    match compare x y with
    | Gt -> false
    | _ -> true

  (** val ltb : n -> n -> bool **)

  let ltb x y =
    match compare x y with
    | Lt -> true
    | _ -> false

  (** val pos_div_eucl : positive -> n -> n * n **)

  let rec pos_div_eucl a b =
    match a with
    | XI a' ->
      let (q, r) = pos_div_eucl a' b in
      let r' = succ_double r in
      if leb b r' then ((succ_double q), (sub r' b)) else ((double q), r')
    | XO a' ->
      let (q, r) = pos_div_eucl a' b in
      let r' = double r in
      if leb b r' then ((succ_double q), (sub r' b)) else ((double q), r')
    | XH ->
      (match b with
       | N0 -> (N0, (Npos XH))
       | Npos p -> (match p with
                    | XH -> ((Npos XH), N0)
                    | _ -> (N0, (Npos XH))))

  (** val div_eucl : n -> n -> n * n **)

  let div_eucl a b =
    match a with
    | N0 -> (N0, N0)
    | Npos na -> (match b with
                  | N0 -> (N0, a)
                  | Npos _ -> pos_div_eucl na b)

  (** val div : n -> n -> n **)

  let div a b =
    fst (div_eucl a b)

  (** val modulo : n -> n -> n **)

  let modulo a b =
    snd (div_eucl a b)

  (** val to_nat : n -> nat **)

  let to_nat = function
  | N0 -> O
  | Npos p -> Coq_Pos.to_nat p

  (** val of_nat : nat -> n **)

  let of_nat = function
  | O -> N0
  | S n' -> Npos (Coq_Pos.of_succ_nat n')
 end

module Z =
 struct
  (** val double : z -> z **)

  let double = function
  | Z0 -> Z0
  | Zpos p -> Zpos (XO p)
  | Zneg p -> Zneg (XO p)

  (** val succ_double : z -> z **)

  let succ_double = function
  | Z0 -> Zpos XH
  | Zpos p -> Zpos (XI p)
  | Zneg p -> Zneg (Coq_Pos.pred_double p)

  (** val pred_double : z -> z **)

  let pred_double = function
  | Z0 -> Zneg XH
  | Zpos p -> Zpos (Coq_Pos.pred_double p)
  | Zneg p -> Zneg (XI p)

  (** val pos_sub : positive -> positive -> z **)

  let rec pos_sub x y =
    match x with
    | XI p ->
      (match y with
       | XI q -> double (pos_sub p q)
       | XO q -> succ_double (pos_sub p q)
       | XH -> Zpos (XO p))
    | XO p ->
      (match y with
       | XI q -> pred_double (pos_sub p q)
       | XO q -> double (pos_sub p q)
       | XH -> Zpos (Coq_Pos.pred_double p))
    | XH ->
      (match y with
       | XI q -> Zneg (XO q)
       | XO q -> Zneg (Coq_Pos.pred_double q)
       | XH -> Z0)

  (** val add : z -> z -> z **)

  let add x y =
    match x with
    | Z0 -> y
    | Zpos x' ->
      (match y with
       | Z0 -> x
       | Zpos y' -> Zpos (Coq_Pos.add x' y')
       | Zneg y' -> pos_sub x' y')
    | Zneg x' ->
      (match y with
       | Z0 -> x
       | Zpos y' -> pos_sub y' x'
       | Zneg y' -> Zneg (Coq_Pos.add x' y'))

  (** val opp : z -> z **)

  let opp = function
  | Z0 -> Z0
  | Zpos x0 -> Zneg x0
  | Zneg x0 -> Zpos x0

  (** val sub : z -> z -> z **)

  let sub m n0 =
    add m (opp n0)

  (** val mul : z -> z -> z **)

  let mul x y =
    match x with
    | Z0 -> Z0
    | Zpos x' ->
      (match y with
       | Z0 -> Z0
       | Zpos y' -> Zpos (Coq_Pos.mul x' y')
       | Zneg y' -> Zneg (Coq_Pos.mul x' y'))
    | Zneg x' ->
      (match y with
       | Z0 -> Z0
       | Zpos y' -> Zneg (Coq_Pos.mul x' y')
       | Zneg y' -> Zpos (Coq_Pos.mul x' y'))

  (** val compare : z -> z -> comparison **)

  let compare x y =
    match x with
    | Z0 -> (match y with
             | Z0 -> Eq
             | Zpos _ -> Lt
             | Zneg _ -> Gt)
    | Zpos x' -> (match y with
                  | Zpos y' -> Coq_Pos.compare x' y'
                  | _ -> Gt)
    | Zneg x' ->
      (match y with
       | Zneg y' -> compOpp (Coq_Pos.compare x' y')
       | _ -> Lt)

  (** val leb : z -> z -> bool **)

  let leb x y =
    match compare x y with
    | Gt -> false
    | _ -> true

  (** val ltb : z -> z -> bool **)

  let ltb x y =
    match compare x y with
    | Lt -> true
    | _ -> false

  (** val to_nat : z -> nat **)

  let to_nat = function
  | Zpos p -> Coq_Pos.to_nat p
  | _ -> O

  (** val to_N : z -> n **)

  let to_N = function
  | Zpos p -> Npos p
  | _ -> N0

  (** val of_nat : nat -> z **)

  let of_nat = function
  | O -> Z0
  | S n1 -> Zpos (Coq_Pos.of_succ_nat n1)

  (** val of_N : n -> z **)

  let of_N = function
  | N0 -> Z0
  | Npos p -> Zpos p

  (** val pos_div_eucl : positive -> z -> z * z **)

  let rec pos_div_eucl a b =
    match a with
    | XI a' ->
      let (q, r) = pos_div_eucl a' b in
      let r' = add (mul (Zpos (XO XH)) r) (Zpos XH) in
      if ltb r' b
      then ((mul (Zpos (XO XH)) q), r')
      else ((add (mul (Zpos (XO XH)) q) (Zpos XH)), (sub r' b))
    | XO a' ->
      let (q, r) = pos_div_eucl a' b in
      let r' = mul (Zpos (XO XH)) r in
      if ltb r' b
      then ((mul (Zpos (XO XH)) q), r')
      else ((add (mul (Zpos (XO XH)) q) (Zpos XH)), (sub r' b))
    | XH -> if leb (Zpos (XO XH)) b then (Z0, (Zpos XH)) else ((Zpos XH), Z0)

  (** val div_eucl : z -> z -> z * z **)

  let div_eucl a b =
    match a with
    | Z0 -> (Z0, Z0)
    | Zpos a' ->
      (match b with
       | Z0 -> (Z0, a)
       | Zpos _ -> pos_div_eucl a' b
       | Zneg b' ->
         let (q, r) = pos_div_eucl a' (Zpos b') in
         (match r with
          | Z0 -> ((opp q), Z0)
          | _ -> ((opp (add q (Zpos XH))), (add b r))))
    | Zneg a' ->
      (match b with
       | Z0 -> (Z0, a)
       | Zpos _ ->
         let (q, r) = pos_div_eucl a' b in
         (match r with
          | Z0 -> ((opp q), Z0)
          | _ -> ((opp (add q (Zpos XH))), (sub b r)))
       | Zneg b' -> let (q, r) = pos_div_eucl a' (Zpos b') in (q, (opp r)))

  (** val div : z -> z -> z **)

  let div a b =
    let (q, _) = div_eucl a b in q

  (** val modulo : z -> z -> z **)

  let modulo a b =
    let (_, r) = div_eucl a b in r
 end

(** val nth : nat -> 'a1 list -> 'a1 -> 'a1 **)

let rec nth n0 l default =
  match n0 with
  | O -> (match l with
          | [] -> default
          | x :: _ -> x)
  | S m -> (match l with
            | [] -> default
            | _ :: t -> nth m t default)

(** val removelast : 'a1 list -> 'a1 list **)

let rec removelast = function
| [] -> []
| a :: l0 -> (match l0 with
              | [] -> []
              | _ :: _ -> a :: (removelast l0))

(** val rev : 'a1 list -> 'a1 list **)

let rec rev = function
| [] -> []
| x :: l' -> app (rev l') (x :: [])

(** val concat : 'a1 list list -> 'a1 list **)

let rec concat = function
| [] -> []
| x :: l0 -> app x (concat l0)

(** val map : ('a1 -> 'a2) -> 'a1 list -> 'a2 list **)

let rec map f = function
| [] -> []
| a :: t -> (f a) :: (map f t)

(** val existsb : ('a1 -> bool) -> 'a1 list -> bool **)

let rec existsb f = function
| [] -> false
| a :: l0 -> (||) (f a) (existsb f l0)

(** val forallb : ('a1 -> bool) -> 'a1 list -> bool **)

let rec forallb f = function
| [] -> true
| a :: l0 -> (&&) (f a) (forallb f l0)

(** val firstn : nat -> 'a1 list -> 'a1 list **)

let rec firstn n0 l =
  match n0 with
  | O -> []
  | S n1 -> (match l with
             | [] -> []
             | a :: l0 -> a :: (firstn n1 l0))

(** val skipn : nat -> 'a1 list -> 'a1 list **)

let rec skipn n0 l =
  match n0 with
  | O -> l
  | S n1 -> (match l with
             | [] -> []
             | _ :: l0 -> skipn n1 l0)

type byte = n

(** val nonempty : 'a1 list -> bool **)

let nonempty = function
| [] -> false
| _ :: _ -> true

(** val has_prefix : n list -> n list -> bool **)

let rec has_prefix p l =
  match p with
  | [] -> true
  | x :: p' ->
    (match l with
     | [] -> false
     | y :: l' -> (&&) (N.eqb x y) (has_prefix p' l'))

(** val index_of : n list -> n list -> nat option **)

let rec index_of pat l =
  if has_prefix pat l
  then Some O
  else (match l with
        | [] -> None
        | _ :: l' ->
          (match index_of pat l' with
           | Some i -> Some (S i)
           | None -> None))

(** val last_index_of : n list -> n list -> nat option **)

let rec last_index_of pat l = match l with
| [] -> if has_prefix pat [] then Some O else None
| _ :: l' ->
  (match last_index_of pat l' with
   | Some i -> Some (S i)
   | None -> if has_prefix pat l then Some O else None)

(** val index_byte : n -> n list -> nat option **)

let rec index_byte b = function
| [] -> None
| x :: l' ->
  if N.eqb x b
  then Some O
  else (match index_byte b l' with
        | Some i -> Some (S i)
        | None -> None)

(** val buffer_line_newline : n **)

let buffer_line_newline =
  Npos (XO (XI (XO XH)))

(** val buffer_line_interrupt : n **)

let buffer_line_interrupt =
  Npos (XI XH)

(** val buffer_line_cr : n **)

let buffer_line_cr =
  Npos (XI (XO (XI XH)))

(** val escape_leader : n **)

let escape_leader =
  Npos (XO (XI (XI (XI (XO (XI (XI XH)))))))

(** val escape_base_json : (n list * n list) list **)

let escape_base_json =
  (((Npos (XO (XI (XI (XI (XO (XI (XI XH)))))))) :: []), ((Npos (XO (XI (XI
    (XI (XO (XI (XI XH)))))))) :: ((Npos (XO (XI (XI (XI (XO (XI (XI
    XH)))))))) :: []))) :: ((((Npos (XO (XI (XI (XI (XI (XI XH))))))) :: []),
    ((Npos (XO (XI (XI (XI (XO (XI (XI XH)))))))) :: ((Npos (XI (XO (XO (XO
    (XI XH)))))) :: []))) :: [])

(** val escape_all_chars : n list **)

let escape_all_chars =
  (Npos (XO XH)) :: ((Npos (XI (XO (XI XH)))) :: ((Npos (XO (XO (XO (XO
    XH))))) :: ((Npos (XI (XO (XO (XO XH))))) :: ((Npos (XI (XI (XO (XO
    XH))))) :: ((Npos (XO (XO (XO (XI XH))))) :: ((Npos (XI (XI (XO (XI
    XH))))) :: ((Npos (XI (XO (XI (XI XH))))) :: ((Npos (XI (XO (XI (XI (XO
    (XO (XO XH)))))))) :: ((Npos (XO (XO (XO (XO (XI (XO (XO
    XH)))))))) :: ((Npos (XI (XO (XO (XO (XI (XO (XO XH)))))))) :: ((Npos (XI
    (XI (XO (XO (XI (XO (XO XH)))))))) :: ((Npos (XI (XO (XI (XI (XI (XO (XO
    XH)))))))) :: []))))))))))))

(** val escape_all_first_code : n **)

let escape_all_first_code =
  Npos (XI (XO (XO (XO (XO (XO XH))))))

(** val win_init_last : n **)

let win_init_last =
  Npos (XI (XI (XO (XI XH))))

(** val win_terminator : n **)

let win_terminator =
  Npos (XI (XO (XO (XO (XO XH)))))

(** val win_after_terminator : n **)

let win_after_terminator =
  Npos (XO (XI (XO XH)))

(** val win_interrupt : n **)

let win_interrupt =
  Npos (XI XH)

(** val win_newline : n **)

let win_newline =
  Npos (XO (XI (XO XH)))

(** val win_move_final : n **)

let win_move_final =
  Npos (XO (XO (XO (XI (XO (XO XH))))))

(** val win_digit_lo : n **)

let win_digit_lo =
  Npos (XO (XO (XO (XO (XI XH)))))

(** val win_digit_hi : n **)

let win_digit_hi =
  Npos (XI (XO (XO (XI (XI XH)))))

(** val win_home_prev : n **)

let win_home_prev =
  Npos (XI (XI (XO (XI (XI (XO XH))))))

(** val win_home_final : n **)

let win_home_final =
  Npos (XO (XO (XO (XI (XO (XO XH))))))

(** val win_esc : n **)

let win_esc =
  Npos (XI (XI (XO (XI XH))))

(** val trzsz_letter_ranges : (n * n) list **)

let trzsz_letter_ranges =
  ((Npos (XI (XO (XO (XO (XO (XI XH))))))), (Npos (XO (XI (XO (XI (XI (XI
    XH)))))))) :: (((Npos (XI (XO (XO (XO (XO (XO XH))))))), (Npos (XO (XI
    (XO (XI (XI (XO XH)))))))) :: (((Npos (XO (XO (XO (XO (XI XH)))))), (Npos
    (XI (XO (XO (XI (XI XH))))))) :: []))

(** val trzsz_letter_singles : n list **)

let trzsz_letter_singles =
  (Npos (XI (XI (XO (XO (XO XH)))))) :: ((Npos (XO (XI (XO (XI (XI
    XH)))))) :: ((Npos (XI (XI (XO (XI (XO XH)))))) :: ((Npos (XI (XI (XI (XI
    (XO XH)))))) :: ((Npos (XI (XO (XI (XI (XI XH)))))) :: []))))

(** val vt100_end_ranges : (n * n) list **)

let vt100_end_ranges =
  ((Npos (XI (XO (XO (XO (XO (XI XH))))))), (Npos (XO (XI (XO (XI (XI (XI
    XH)))))))) :: (((Npos (XI (XO (XO (XO (XO (XO XH))))))), (Npos (XO (XI
    (XO (XI (XI (XO XH)))))))) :: [])

(** val recv_marker_open : n list **)

let recv_marker_open =
  (Npos (XI (XI (XO (XO (XO XH)))))) :: []

(** val recv_marker_close : n list **)

let recv_marker_close =
  (Npos (XO (XI (XO (XI (XI XH)))))) :: []

(** val recv_fallback_byte : n **)

let recv_fallback_byte =
  Npos (XI (XI (XO (XO (XO XH)))))

(** val tmux_status_begin : n list **)

let tmux_status_begin =
  (Npos (XI (XI (XO (XI XH))))) :: ((Npos (XO (XO (XO (XO (XI (XO
    XH))))))) :: ((Npos (XI (XO (XI (XI (XI XH)))))) :: []))

(** val tmux_status_begin_skip : n **)

let tmux_status_begin_skip =
  Npos (XI XH)

(** val tmux_status_mid : n list **)

let tmux_status_mid =
  (Npos (XI (XI (XO (XI XH))))) :: ((Npos (XO (XO (XO (XO (XI (XO
    XH))))))) :: ((Npos (XI (XO (XI (XI (XI XH)))))) :: []))

(** val tmux_status_mid_skip : n **)

let tmux_status_mid_skip =
  Npos (XI XH)

(** val tmux_status_end : n list **)

let tmux_status_end =
  (Npos (XI (XI (XO (XI XH))))) :: ((Npos (XO (XO (XI (XI (XI (XO
    XH))))))) :: [])

(** val tmux_status_end_skip : n **)

let tmux_status_end_skip =
  Npos (XO XH)

(** val nl : byte **)

let nl =
  buffer_line_newline

(** val intr : byte **)

let intr =
  buffer_line_interrupt

(** val cr : byte **)

let cr =
  buffer_line_cr

type pending = byte list list

type rres =
| Done of byte list * pending
| Blocked
| Interrupted of pending

(** val has_byte : byte -> byte list -> bool **)

let has_byte b l =
  existsb (N.eqb b) l

(** val ends_cr : byte list -> bool **)

let ends_cr l =
  match rev l with
  | [] -> false
  | b :: _ -> N.eqb b cr

type cres =
| CLine of byte list * byte list
| CIntr of byte list
| CMore of byte list

(** val in_chunk : nat -> bool -> byte list -> byte list -> cres **)

let rec in_chunk fuel junk acc buf =
  match fuel with
  | O -> CMore acc
  | S f ->
    (match index_byte nl buf with
     | Some i ->
       let post = skipn (add i (S O)) buf in
       let pre = firstn i buf in
       if has_byte intr pre
       then CIntr post
       else let acc' = app acc pre in
            if (&&) junk (ends_cr acc')
            then (match post with
                  | [] -> CMore (removelast acc')
                  | _ :: _ -> in_chunk f junk (removelast acc') post)
            else CLine (acc', post)
     | None -> if has_byte intr buf then CIntr [] else CMore (app acc buf))

(** val read_line : bool -> byte list -> pending -> rres **)

let rec read_line junk acc = function
| [] -> Blocked
| c :: rest ->
  (match in_chunk (S (length c)) junk acc c with
   | CLine (l, post) -> Done (l, (post :: rest))
   | CIntr post -> Interrupted (post :: rest)
   | CMore acc' -> read_line junk acc' rest)

(** val read_binary : nat -> byte list -> pending -> rres **)

let rec read_binary left acc = function
| [] -> Blocked
| c :: rest ->
  if Nat.leb left (length c)
  then Done ((app acc (firstn left c)), ((skipn left c) :: rest))
  else read_binary (sub left (length c)) (app acc c) rest

(** val read_binary_op : z -> pending -> rres **)

let read_binary_op size pend =
  match Z.to_nat size with
  | O -> Done ([], pend)
  | S n0 -> read_binary (S n0) [] pend

(** val pop_buffer : pending -> byte list option * pending **)

let pop_buffer = function
| [] -> (None, [])
| l :: q ->
  (match l with
   | [] -> (match q with
            | [] -> (None, [])
            | c :: q0 -> ((Some c), ([] :: q0)))
   | b :: c -> ((Some (b :: c)), ([] :: q)))

(** val pop_all : nat -> pending -> byte list list **)

let rec pop_all fuel pend =
  match fuel with
  | O -> []
  | S f ->
    let (o, p') = pop_buffer pend in
    (match o with
     | Some c -> c :: (pop_all f p')
     | None -> [])

(** val pop_all_fuel : pending -> nat **)

let pop_all_fuel pend =
  S (length pend)

type op =
| OpLine of bool
| OpBinary of z

type result =
| RData of byte list
| RBlocked
| RInterrupted

(** val step : op -> pending -> rres **)

let step o pend =
  match o with
  | OpLine junk -> read_line junk [] pend
  | OpBinary size -> read_binary_op size pend

(** val run_st : op list -> pending -> result list * pending **)

let rec run_st ops pend =
  match ops with
  | [] -> ([], pend)
  | o :: r ->
    (match step o pend with
     | Done (d, p') -> let (rs, e) = run_st r p' in (((RData d) :: rs), e)
     | Blocked -> ((RBlocked :: []), pend)
     | Interrupted _ -> ((RInterrupted :: []), pend))

(** val run : op list -> pending -> result list **)

let run ops pend =
  fst (run_st ops pend)

(** val run_cont : op list -> pending -> result list * pending **)

let rec run_cont ops pend =
  match ops with
  | [] -> ([], pend)
  | o :: r ->
    (match step o pend with
     | Done (d, p') -> let (rs, e) = run_cont r p' in (((RData d) :: rs), e)
     | Blocked -> ((RBlocked :: []), [])
     | Interrupted p' ->
       let (rs, e) = run_cont r p' in ((RInterrupted :: rs), e))

(** val split_at : byte -> byte list -> byte list * byte list option **)

let rec split_at b = function
| [] -> ([], None)
| x :: t ->
  if N.eqb x b
  then ([], (Some t))
  else let (p, r) = split_at b t in ((x :: p), r)

type fres =
| FDone of byte list * byte list
| FBlocked
| FInterrupted

(** val ref_line : byte list -> fres **)

let ref_line s =
  let (pre, o) = split_at nl s in
  (match o with
   | Some post ->
     if has_byte intr pre then FInterrupted else FDone (pre, post)
   | None -> if has_byte intr pre then FInterrupted else FBlocked)

(** val ref_junk_line : nat -> byte list -> byte list -> fres **)

let rec ref_junk_line fuel acc s =
  match fuel with
  | O -> FBlocked
  | S f ->
    let (pre, o) = split_at nl s in
    (match o with
     | Some post ->
       if has_byte intr pre
       then FInterrupted
       else if ends_cr (app acc pre)
            then ref_junk_line f (removelast (app acc pre)) post
            else FDone ((app acc pre), post)
     | None -> if has_byte intr pre then FInterrupted else FBlocked)

(** val ref_binary : z -> byte list -> fres **)

let ref_binary size s =
  let n0 = Z.to_nat size in
  if Nat.leb n0 (length s)
  then FDone ((firstn n0 s), (skipn n0 s))
  else FBlocked

(** val ref_step : op -> byte list -> fres **)

let ref_step o s =
  match o with
  | OpLine junk ->
    if junk then ref_junk_line (S (length s)) [] s else ref_line s
  | OpBinary size -> ref_binary size s

(** val ref_run_st : op list -> byte list -> result list * byte list **)

let rec ref_run_st ops s =
  match ops with
  | [] -> ([], s)
  | o :: r ->
    (match ref_step o s with
     | FDone (d, s') ->
       let (rs, e) = ref_run_st r s' in (((RData d) :: rs), e)
     | FBlocked -> ((RBlocked :: []), s)
     | FInterrupted -> ((RInterrupted :: []), s))

(** val ref_run : op list -> byte list -> result list **)

let ref_run ops s =
  fst (ref_run_st ops s)

(** val leader : byte **)

let leader =
  escape_leader

type table = (byte * byte) list

(** val esc_code : table -> byte -> byte option **)

let rec esc_code t b =
  match t with
  | [] -> None
  | p :: r ->
    let (s, c) = p in
    (match esc_code r b with
     | Some x -> Some x
     | None -> if N.eqb s b then Some c else None)

(** val unesc_code : table -> byte -> byte option **)

let rec unesc_code t c =
  match t with
  | [] -> None
  | p :: r ->
    let (s, c') = p in
    (match unesc_code r c with
     | Some x -> Some x
     | None -> if N.eqb c' c then Some s else None)

(** val escape : table -> byte list -> byte list **)

let rec escape t = function
| [] -> []
| b :: r ->
  (match esc_code t b with
   | Some c -> leader :: (c :: (escape t r))
   | None -> b :: (escape t r))

type ures =
| UOk of byte list * byte list
| UErr of byte

(** val ucons : byte -> ures -> ures **)

let ucons b = function
| UOk (o, rem) -> UOk ((b :: o), rem)
| UErr c -> UErr c

(** val unesc : table -> byte list -> nat -> ures **)

let rec unesc t data room =
  match data with
  | [] -> UOk ([], [])
  | b :: r ->
    if N.eqb b leader
    then (match r with
          | [] -> UOk ([], (b :: []))
          | c :: r' ->
            (match unesc_code t c with
             | Some s ->
               (match room with
                | O -> UOk ((s :: []), r')
                | S room' ->
                  (match room' with
                   | O -> UOk ((s :: []), r')
                   | S _ -> ucons s (unesc t r' room')))
             | None -> UErr c))
    else (match room with
          | O -> UOk ((b :: []), r)
          | S room' ->
            (match room' with
             | O -> UOk ((b :: []), r)
             | S _ -> ucons b (unesc t r room')))

(** val unescape_data : table -> byte list -> nat -> ures **)

let unescape_data t data dstlen =
  match t with
  | [] -> UOk (data, [])
  | _ :: _ ->
    unesc t data (match dstlen with
                  | O -> length data
                  | S _ -> dstlen)

type rres0 =
| RData0 of byte list
| REof
| RErr of byte

(** val er_read :
    table -> byte list -> byte list list -> nat -> rres0 * (byte list * byte
    list list) **)

let rec er_read t buffer cs size =
  match match buffer with
        | [] -> UOk ([], [])
        | _ :: _ -> unesc t buffer size with
  | UOk (out, rem) ->
    (match out with
     | [] ->
       (match cs with
        | [] -> (REof, (rem, []))
        | c :: cs' -> er_read t (app rem c) cs' size)
     | _ :: _ -> ((RData0 out), (rem, cs)))
  | UErr c -> ((RErr c), (buffer, cs))

(** val next_size : nat list -> nat -> nat * nat list **)

let next_size sizes dflt =
  match sizes with
  | [] -> (dflt, [])
  | s :: r -> (s, r)

type rend =
| EndEof of byte list
| EndErr of byte
| EndFuel

(** val er_run :
    nat -> table -> byte list -> byte list list -> nat list -> nat -> byte
    list list * rend **)

let rec er_run fuel t buffer cs sizes dflt =
  match fuel with
  | O -> ([], EndFuel)
  | S f ->
    let (size, sizes') = next_size sizes dflt in
    let (r, p) = er_read t buffer cs size in
    (match r with
     | RData0 out ->
       let (b', cs') = p in
       let (outs, e) = er_run f t b' cs' sizes' dflt in ((out :: outs), e)
     | REof -> let (b', _) = p in ([], (EndEof b'))
     | RErr c -> ([], (EndErr c)))

(** val er_fuel : byte list -> byte list list -> nat **)

let er_fuel buffer cs =
  S (add (length buffer) (length (concat cs)))

(** val ew_write : table -> byte list list -> byte list list **)

let ew_write t chunks =
  map (escape t) chunks

(** val latin1 : n list -> byte list option **)

let latin1 s =
  if forallb (fun c ->
       N.ltb c (Npos (XO (XO (XO (XO (XO (XO (XO (XO XH)))))))))) s
  then Some s
  else None

(** val table_of_json : n list list list -> table option **)

let rec table_of_json = function
| [] -> Some []
| e :: r ->
  (match e with
   | [] -> None
   | a :: l ->
     (match l with
      | [] -> None
      | b :: l0 ->
        (match l0 with
         | [] ->
           (match latin1 a with
            | Some l1 ->
              (match l1 with
               | [] -> None
               | s :: l2 ->
                 (match l2 with
                  | [] ->
                    (match latin1 b with
                     | Some l3 ->
                       (match l3 with
                        | [] -> None
                        | l4 :: l5 ->
                          (match l5 with
                           | [] -> None
                           | c :: l6 ->
                             (match l6 with
                              | [] ->
                                if N.eqb l4 leader
                                then (match table_of_json r with
                                      | Some t -> Some ((s, c) :: t)
                                      | None -> None)
                                else None
                              | _ :: _ -> None)))
                     | None -> None)
                  | _ :: _ -> None))
            | None -> None)
         | _ :: _ -> None)))

(** val escape_all_pairs : n list -> n -> n list list list **)

let rec escape_all_pairs chars code =
  match chars with
  | [] -> []
  | c :: r ->
    ((c :: []) :: ((leader :: (code :: [])) :: [])) :: (escape_all_pairs r
                                                         (N.add code (Npos
                                                           XH)))

(** val builtin_json : bool -> n list list list **)

let builtin_json escape_all =
  app (map (fun p -> (fst p) :: ((snd p) :: [])) escape_base_json)
    (if escape_all
     then escape_all_pairs escape_all_chars escape_all_first_code
     else [])

(** val builtin_table : bool -> table **)

let builtin_table escape_all =
  match table_of_json (builtin_json escape_all) with
  | Some t -> t
  | None -> []

(** val marker : byte list -> byte list **)

let marker ty =
  app recv_marker_open (app ty recv_marker_close)

(** val marker_cut : byte list -> byte list -> byte list **)

let marker_cut ty line =
  match last_index_of (marker ty) line with
  | Some i -> skipn i line
  | None ->
    (match last_index_of (recv_fallback_byte :: []) line with
     | Some n0 -> (match n0 with
                   | O -> line
                   | S i -> skipn (S i) line)
     | None -> line)

(** val strip_tmux : nat -> byte list -> byte list **)

let rec strip_tmux fuel buf =
  match fuel with
  | O -> buf
  | S f ->
    (match index_of tmux_status_begin buf with
     | Some b ->
       let i1 = add b (N.to_nat tmux_status_begin_skip) in
       (match index_of tmux_status_mid (skipn i1 buf) with
        | Some m ->
          let i2 = add (add i1 m) (N.to_nat tmux_status_mid_skip) in
          (match index_of tmux_status_end (skipn i2 buf) with
           | Some e ->
             let i3 = add (add i2 e) (N.to_nat tmux_status_end_skip) in
             strip_tmux f (app (firstn b buf) (skipn i3 buf))
           | None -> firstn b buf)
        | None -> firstn b buf)
     | None -> buf)

(** val strip_tmux_status : byte list -> byte list **)

let strip_tmux_status buf =
  strip_tmux (S (length buf)) buf

(** val recv_line : byte list -> bool -> pending -> rres **)

let recv_line ty junk pend =
  match read_line junk [] pend with
  | Done (line, p') ->
    Done ((if junk then strip_tmux_status (marker_cut ty line) else line), p')
  | x -> x

(** val in_ranges : (n * n) list -> byte -> bool **)

let in_ranges rs b =
  existsb (fun r -> (&&) (N.leb (fst r) b) (N.leb b (snd r))) rs

(** val is_trzsz_letter : byte -> bool **)

let is_trzsz_letter b =
  (||) (in_ranges trzsz_letter_ranges b)
    (existsb (N.eqb b) trzsz_letter_singles)

(** val is_vt100_end : byte -> bool **)

let is_vt100_end b =
  in_ranges vt100_end_ranges b

type wst = { w_last : byte; w_skip : bool; w_nl : bool; w_dup : bool;
             w_home : bool; w_prehome : bool }

(** val w_init : wst **)

let w_init =
  { w_last = win_init_last; w_skip = false; w_nl = false; w_dup = false;
    w_home = false; w_prehome = false }

(** val last_is : byte list -> byte -> bool **)

let last_is l c =
  match rev l with
  | [] -> false
  | x :: _ -> N.eqb c x

(** val set_last : byte list -> byte -> byte list **)

let set_last l c =
  app (removelast l) (c :: [])

(** val win_byte : wst -> byte list -> byte -> (wst * byte list) option **)

let win_byte st acc c =
  if N.eqb c win_interrupt
  then None
  else let nl0 = if N.eqb c win_newline then true else st.w_nl in
       if st.w_skip
       then let ends = is_vt100_end c in
            let dup =
              if (&&)
                   ((&&) ((&&) ends (N.eqb c win_move_final))
                     (N.leb win_digit_lo st.w_last))
                   (N.leb st.w_last win_digit_hi)
              then true
              else st.w_dup
            in
            let home =
              if (&&) (N.eqb st.w_last win_home_prev) (N.eqb c win_home_final)
              then true
              else st.w_home
            in
            Some ({ w_last = c; w_skip = (negb ends); w_nl = nl0; w_dup =
            dup; w_home = home; w_prehome = st.w_prehome }, acc)
       else if N.eqb c win_esc
            then Some ({ w_last = c; w_skip = true; w_nl = nl0; w_dup =
                   st.w_dup; w_home = st.w_home; w_prehome = st.w_prehome },
                   acc)
            else if is_trzsz_letter c
                 then if (&&) ((&&) ((&&) st.w_dup nl0) (nonempty acc))
                           ((||) (last_is acc c) st.w_prehome)
                      then Some ({ w_last = st.w_last; w_skip = false; w_nl =
                             nl0; w_dup = false; w_home = st.w_home;
                             w_prehome = st.w_prehome }, (set_last acc c))
                      else Some ({ w_last = st.w_last; w_skip = false; w_nl =
                             false; w_dup = false; w_home = false;
                             w_prehome = st.w_home }, (app acc (c :: [])))
                 else Some ({ w_last = st.w_last; w_skip = false; w_nl = nl0;
                        w_dup = st.w_dup; w_home = st.w_home; w_prehome =
                        st.w_prehome }, acc)

(** val win_fold :
    wst -> byte list -> byte list -> (wst * byte list) option **)

let rec win_fold st acc = function
| [] -> Some (st, acc)
| c :: t ->
  (match win_byte st acc c with
   | Some p -> let (st', acc') = p in win_fold st' acc' t
   | None -> None)

type wcres =
| WCLine of byte list * nat * byte list
| WCIntr of nat * byte list
| WCMore of wst * byte list

(** val win_chunk : nat -> wst -> byte list -> nat -> byte list -> wcres **)

let rec win_chunk fuel st acc off buf =
  match fuel with
  | O -> WCMore (st, acc)
  | S f ->
    (match index_byte win_terminator buf with
     | Some i ->
       let k = add i (S O) in
       let off1 = add off k in
       let used =
         if (&&) (Nat.ltb off1 (length buf))
              (N.eqb (nth off1 buf N0) win_after_terminator)
         then add k (S O)
         else k
       in
       let post = skipn used buf in
       (match win_fold st acc (firstn i buf) with
        | Some p ->
          let (st', acc') = p in
          if (&&) (nonempty acc') (negb st'.w_skip)
          then WCLine (acc', (add off used), post)
          else (match post with
                | [] -> WCMore (st', acc')
                | _ :: _ -> win_chunk f st' acc' (add off used) post)
        | None -> WCIntr ((add off used), post))
     | None ->
       (match win_fold st acc buf with
        | Some p -> let (st', acc') = p in WCMore (st', acc')
        | None -> WCIntr ((add off (length buf)), [])))

type wres =
| WDone of byte list * nat * pending
| WBlocked
| WInterrupted of nat * pending

(** val win_read : wst -> byte list -> nat -> pending -> wres **)

let rec win_read st acc off = function
| [] -> WBlocked
| c :: rest ->
  (match win_chunk (S (length c)) st acc off c with
   | WCLine (l, o, post) -> WDone (l, o, (post :: rest))
   | WCIntr (o, post) -> WInterrupted (o, (post :: rest))
   | WCMore (st', acc') -> win_read st' acc' O rest)

(** val read_line_windows : nat -> pending -> wres **)

let read_line_windows off pend =
  win_read w_init [] off pend

(** val recv_line_windows : byte list -> nat -> pending -> wres **)

let recv_line_windows ty off pend =
  match read_line_windows off pend with
  | WDone (line, o, p') -> WDone ((marker_cut ty line), o, p')
  | x -> x

(** val win_run : byte list list -> nat -> pending -> result list **)

let rec win_run tys off pend =
  match tys with
  | [] -> []
  | ty :: r ->
    (match recv_line_windows ty off pend with
     | WDone (l, o, p') -> (RData l) :: (win_run r o p')
     | WBlocked -> RBlocked :: []
     | WInterrupted (o, p') -> RInterrupted :: (win_run r o p'))

(** val junk_run : byte list list -> bool -> pending -> result list **)

let rec junk_run tys junk pend =
  match tys with
  | [] -> []
  | ty :: r ->
    (match recv_line ty junk pend with
     | Done (l, p') -> (RData l) :: (junk_run r junk p')
     | Blocked -> RBlocked :: []
     | Interrupted p' -> RInterrupted :: (junk_run r junk p'))
