
(** val negb : bool -> bool **)

let negb = function
| true -> false
| false -> true

type nat =
| O
| S of nat

(** val fst : ('a1 * 'a2) -> 'a1 **)

let fst = function
| (x, _) -> x

(** val snd : ('a1 * 'a2) -> 'a2 **)

let snd = function
| (_, y) -> y

(** val length : 'a1 list -> nat **)

let rec length = function
| [] -> O
| _ :: l' -> S (length l')

(** val app : 'a1 list -> 'a1 list -> 'a1 list **)

let rec app l m =
  match l with
  | [] -> m
  | a :: l1 -> a :: (app l1 m)

type comparison =
| Eq
| Lt
| Gt

(** val compOpp : comparison -> comparison **)

let compOpp = function
| Eq -> Eq
| Lt -> Gt
| Gt -> Lt

module Coq__1 = struct
 (** val add : nat -> nat -> nat **)
 let rec add n0 m =
   match n0 with
   | O -> m
   | S p -> S (add p m)
end
include Coq__1

(** val mul : nat -> nat -> nat **)

let rec mul n0 m =
  match n0 with
  | O -> O
  | S p -> add m (mul p m)

(** val sub : nat -> nat -> nat **)

let rec sub n0 m =
  match n0 with
  | O -> n0
  | S k -> (match m with
            | O -> n0
            | S l -> sub k l)

type positive =
| XI of positive
| XO of positive
| XH

type n =
| N0
| Npos of positive

type z =
| Z0
| Zpos of positive
| Zneg of positive

module Nat =
 struct
  (** val leb : nat -> nat -> bool **)

  let rec leb n0 m =
    match n0 with
    | O -> true
    | S n' -> (match m with
               | O -> false
               | S m' -> leb n' m')

  (** val min : nat -> nat -> nat **)

  let rec min n0 m =
    match n0 with
    | O -> O
    | S n' -> (match m with
               | O -> O
               | S m' -> S (min n' m'))
 end

module Pos =
 struct
  type mask =
  | IsNul
  | IsPos of positive
  | IsNeg
 end

module Coq_Pos =
 struct
  (** val succ : positive -> positive **)

  let rec succ = function
  | XI p -> XO (succ p)
  | XO p -> XI p
  | XH -> XO XH

  (** val add : positive -> positive -> positive **)

  let rec add x y =
    match x with
    | XI p ->
      (match y with
       | XI q -> XO (add_carry p q)
       | XO q -> XI (add p q)
       | XH -> XO (succ p))
    | XO p ->
      (match y with
       | XI q -> XI (add p q)
       | XO q -> XO (add p q)
       | XH -> XI p)
    | XH -> (match y with
             | XI q -> XO (succ q)
             | XO q -> XI q
             | XH -> XO XH)

  (** val add_carry : positive -> positive -> positive **)

  and add_carry x y =
    match x with
    | XI p ->
      (match y with
       | XI q -> XI (add_carry p q)
       | XO q -> XO (add_carry p q)
       | XH -> XI (succ p))
    | XO p ->
      (match y with
       | XI q -> XO (add_carry p q)
       | XO q -> XI (add p q)
       | XH -> XO (succ p))
    | XH ->
      (match y with
       | XI q -> XI (succ q)
       | XO q -> XO (succ q)
       | XH -> XI XH)

  (** val pred_double : positive -> positive **)

  let rec pred_double = function
  | XI p -> XI (XO p)
  | XO p -> XI (pred_double p)
  | XH -> XH

  type mask = Pos.mask =
  | IsNul
  | IsPos of positive
  | IsNeg

  (** val succ_double_mask : mask -> mask **)

  let succ_double_mask = function
  | IsNul -> IsPos XH
  | IsPos p -> IsPos (XI p)
  | IsNeg -> IsNeg

  (** val double_mask : mask -> mask **)

  let double_mask = function
  | IsPos p -> IsPos (XO p)
  | x0 -> x0

  (** val double_pred_mask : positive -> mask **)

  let double_pred_mask = function
  | XI p -> IsPos (XO (XO p))
  | XO p -> IsPos (XO (pred_double p))
  | XH -> IsNul

  (** val sub_mask : positive -> positive -> mask **)

  let rec sub_mask x y =
    match x with
    | XI p ->
      (match y with
       | XI q -> double_mask (sub_mask p q)
       | XO q -> succ_double_mask (sub_mask p q)
       | XH -> IsPos (XO p))
    | XO p ->
      (match y with
       | XI q -> succ_double_mask (sub_mask_carry p q)
       | XO q -> double_mask (sub_mask p q)
       | XH -> IsPos (pred_double p))
    | XH -> (match y with
             | XH -> IsNul
             | _ -> IsNeg)

  (** val sub_mask_carry : positive -> positive -> mask **)

  and sub_mask_carry x y =
    match x with
    | XI p ->
      (match y with
       | XI q -> succ_double_mask (sub_mask_carry p q)
       | XO q -> double_mask (sub_mask p q)
       | XH -> IsPos (pred_double p))
    | XO p ->
      (match y with
       | XI q -> double_mask (sub_mask_carry p q)
       | XO q -> succ_double_mask (sub_mask_carry p q)
       | XH -> double_pred_mask p)
    | XH -> IsNeg

  (** val mul : positive -> positive -> positive **)

  let rec mul x y =
    match x with
    | XI p -> add y (XO (mul p y))
    | XO p -> XO (mul p y)
    | XH -> y

  (** val size_nat : positive -> nat **)

  let rec size_nat = function
  | XI p0 -> S (size_nat p0)
  | XO p0 -> S (size_nat p0)
  | XH -> S O

  (** val compare_cont : comparison -> positive -> positive -> comparison **)

  let rec compare_cont r x y =
    match x with
    | XI p ->
      (match y with
       | XI q -> compare_cont r p q
       | XO q -> compare_cont Gt p q
       | XH -> Gt)
    | XO p ->
      (match y with
       | XI q -> compare_cont Lt p q
       | XO q -> compare_cont r p q
       | XH -> Gt)
    | XH -> (match y with
             | XH -> r
             | _ -> Lt)

  (** val compare : positive -> positive -> comparison **)

  let compare =
    compare_cont Eq

  (** val eqb : positive -> positive -> bool **)

  let rec eqb p q =
    match p with
    | XI p0 -> (match q with
                | XI q0 -> eqb p0 q0
                | _ -> false)
    | XO p0 -> (match q with
                | XO q0 -> eqb p0 q0
                | _ -> false)
    | XH -> (match q with
             | XH -> true
             | _ -> false)

  (** val iter_op : ('a1 -> 'a1 -> 'a1) -> positive -> 'a1 -> 'a1 **)

  let rec iter_op op p a =
    match p with
    | XI p0 -> op a (iter_op op p0 (op a a))
    | XO p0 -> iter_op op p0 (op a a)
    | XH -> a

  (** val to_nat : positive -> nat **)

  let to_nat x =
    iter_op Coq__1.add x (S O)

  (** val of_succ_nat : nat -> positive **)

  let rec of_succ_nat = function
  | O -> XH
  | S x -> succ (of_succ_nat x)
 end

module N =
 struct
  (** val succ_double : n -> n **)

  let succ_double = function
  | N0 -> Npos XH
  | Npos p -> Npos (XI p)

  (** val double : n -> n **)

  let double = function
  | N0 -> N0
  | Npos p -> Npos (XO p)

  (** val add : n -> n -> n **)

  let add n0 m =
    match n0 with
    | N0 -> m
    | Npos p -> (match m with
                 | N0 -> n0
                 | Npos q -> Npos (Coq_Pos.add p q))

  (** val sub : n -> n -> n **)

  let sub n0 m =
    match n0 with
    | N0 -> N0
    | Npos n' ->
      (match m with
       | N0 -> n0
       | Npos m' ->
         (match Coq_Pos.sub_mask n' m' with
          | Coq_Pos.IsPos p -> Npos p
          | _ -> N0))

  (** val mul : n -> n -> n **)

  let mul n0 m =
    match n0 with
    | N0 -> N0
    | Npos p -> (match m with
                 | N0 -> N0
                 | Npos q -> Npos (Coq_Pos.mul p q))

  (** val compare : n -> n -> comparison **)

  let compare n0 m =
    match n0 with
    | N0 -> (match m with
             | N0 -> Eq
             | Npos _ -> Lt)
    | Npos n' -> (match m with
                  | N0 -> Gt
                  | Npos m' -> Coq_Pos.compare n' m')

  (** val eqb : n -> n -> bool **)

  let eqb n0 m =
    match n0 with
    | N0 -> (match m with
             | N0 -> true
             | Npos _ -> false)
    | Npos p -> (match m with
                 | N0 -> false
                 | Npos q -> Coq_Pos.eqb p q)

  (** val leb : n -> n -> bool **)

  let leb x y =
    match compare x y with
    | Gt -> false
    | _ -> true

  (** val ltb : n -> n -> bool **)

  let ltb x y =
    match compare x y with
    | Lt -> true
    | _ -> false

  (** val size_nat : n -> nat **)

  let size_nat = function
  | N0 -> O
  | Npos p -> Coq_Pos.size_nat p

  (** val pos_div_eucl : positive -> n -> n * n **)

  let rec pos_div_eucl a b =
    match a with
    | XI a' ->
      let (q, r) = pos_div_eucl a' b in
      let r' = succ_double r in
      if leb b r' then ((succ_double q), (sub r' b)) else ((double q), r')
    | XO a' ->
      let (q, r) = pos_div_eucl a' b in
      let r' = double r in
      if leb b r' then ((succ_double q), (sub r' b)) else ((double q), r')
    | XH ->
      (match b with
       | N0 -> (N0, (Npos XH))
       | Npos p -> (match p with
                    | XH -> ((Npos XH), N0)
                    | _ -> (N0, (Npos XH))))

  (** val div_eucl : n -> n -> n * n **)

  let div_eucl a b =
    match a with
    | N0 -> (N0, N0)
    | Npos na -> (match b with
                  | N0 -> (N0, a)
                  | Npos _ -> pos_div_eucl na b)

  (** val div : n -> n -> n **)

  let div a b =
    fst (div_eucl a b)

  (** val modulo : n -> n -> n **)

  let modulo a b =
    snd (div_eucl a b)

  (** val to_nat : n -> nat **)

  let to_nat = function
  | N0 -> O
  | Npos p -> Coq_Pos.to_nat p

  (** val of_nat : nat -> n **)

  let of_nat = function
  | O -> N0
  | S n' -> Npos (Coq_Pos.of_succ_nat n')
 end

module Z =
 struct
  (** val double : z -> z **)

  let double = function
  | Z0 -> Z0
  | Zpos p -> Zpos (XO p)
  | Zneg p -> Zneg (XO p)

  (** val succ_double : z -> z **)

  let succ_double = function
  | Z0 -> Zpos XH
  | Zpos p -> Zpos (XI p)
  | Zneg p -> Zneg (Coq_Pos.pred_double p)

  (** val pred_double : z -> z **)

  let pred_double = function
  | Z0 -> Zneg XH
  | Zpos p -> Zpos (Coq_Pos.pred_double p)
  | Zneg p -> Zneg (XI p)

  (** val pos_sub : positive -> positive -> z **)

  let rec pos_sub x y =
    match x with
    | XI p ->
      (match y with
       | XI q -> double (pos_sub p q)
       | XO q -> succ_double (pos_sub p q)
       | XH -> Zpos (XO p))
    | XO p ->
      (match y with
       | XI q -> pred_double (pos_sub p q)
       | XO q -> double (pos_sub p q)
       | XH -> Zpos (Coq_Pos.pred_double p))
    | XH ->
      (match y with
       | XI q -> Zneg (XO q)
       | XO q -> Zneg (Coq_Pos.pred_double q)
       | XH -> Z0)

  (** val add : z -> z -> z **)

  let add x y =
    match x with
    | Z0 -> y
    | Zpos x' ->
      (match y with
       | Z0 -> x
       | Zpos y' -> Zpos (Coq_Pos.add x' y')
       | Zneg y' -> pos_sub x' y')
    | Zneg x' ->
      (match y with
       | Z0 -> x
       | Zpos y' -> pos_sub y' x'
       | Zneg y' -> Zneg (Coq_Pos.add x' y'))

  (** val opp : z -> z **)

  let opp = function
  | Z0 -> Z0
  | Zpos x0 -> Zneg x0
  | Zneg x0 -> Zpos x0

  (** val sub : z -> z -> z **)

  let sub m n0 =
    add m (opp n0)

  (** val mul : z -> z -> z **)

  let mul x y =
    match x with
    | Z0 -> Z0
    | Zpos x' ->
      (match y with
       | Z0 -> Z0
       | Zpos y' -> Zpos (Coq_Pos.mul x' y')
       | Zneg y' -> Zneg (Coq_Pos.mul x' y'))
    | Zneg x' ->
      (match y with
       | Z0 -> Z0
       | Zpos y' -> Zneg (Coq_Pos.mul x' y')
       | Zneg y' -> Zpos (Coq_Pos.mul x' y'))

  (** val compare : z -> z -> comparison **)

  let compare x y =
    match x with
    | Z0 -> (match y with
             | Z0 -> Eq
             | Zpos _ -> Lt
             | Zneg _ -> Gt)
    | Zpos x' -> (match y with
                  | Zpos y' -> Coq_Pos.compare x' y'
                  | _ -> Gt)
    | Zneg x' ->
      (match y with
       | Zneg y' -> compOpp (Coq_Pos.compare x' y')
       | _ -> Lt)

  (** val leb : z -> z -> bool **)

  let leb x y =
    match compare x y with
    | Gt -> false
    | _ -> true

  (** val ltb : z -> z -> bool **)

  let ltb x y =
    match compare x y with
    | Lt -> true
    | _ -> false

  (** val to_nat : z -> nat **)

  let to_nat = function
  | Zpos p -> Coq_Pos.to_nat p
  | _ -> O

  (** val to_N : z -> n **)

  let to_N = function
  | Zpos p -> Npos p
  | _ -> N0

  (** val of_nat : nat -> z **)

  let of_nat = function
  | O -> Z0
  | S n1 -> Zpos (Coq_Pos.of_succ_nat n1)

  (** val of_N : n -> z **)

  let of_N = function
  | N0 -> Z0
  | Npos p -> Zpos p

  (** val pos_div_eucl : positive -> z -> z * z **)

  let rec pos_div_eucl a b =
    match a with
    | XI a' ->
      let (q, r) = pos_div_eucl a' b in
      let r' = add (mul (Zpos (XO XH)) r) (Zpos XH) in
      if ltb r' b
      then ((mul (Zpos (XO XH)) q), r')
      else ((add (mul (Zpos (XO XH)) q) (Zpos XH)), (sub r' b))
    | XO a' ->
      let (q, r) = pos_div_eucl a' b in
      let r' = mul (Zpos (XO XH)) r in
      if ltb r' b
      then ((mul (Zpos (XO XH)) q), r')
      else ((add (mul (Zpos (XO XH)) q) (Zpos XH)), (sub r' b))
    | XH -> if leb (Zpos (XO XH)) b then (Z0, (Zpos XH)) else ((Zpos XH), Z0)

  (** val div_eucl : z -> z -> z * z **)

  let div_eucl a b =
    match a with
    | Z0 -> (Z0, Z0)
    | Zpos a' ->
      (match b with
       | Z0 -> (Z0, a)
       | Zpos _ -> pos_div_eucl a' b
       | Zneg b' ->
         let (q, r) = pos_div_eucl a' (Zpos b') in
         (match r with
          | Z0 -> ((opp q), Z0)
          | _ -> ((opp (add q (Zpos XH))), (add b r))))
    | Zneg a' ->
      (match b with
       | Z0 -> (Z0, a)
       | Zpos _ ->
         let (q, r) = pos_div_eucl a' b in
         (match r with
          | Z0 -> ((opp q), Z0)
          | _ -> ((opp (add q (Zpos XH))), (sub b r)))
       | Zneg b' -> let (q, r) = pos_div_eucl a' (Zpos b') in (q, (opp r)))

  (** val div : z -> z -> z **)

  let div a b =
    let (q, _) = div_eucl a b in q

  (** val modulo : z -> z -> z **)

  let modulo a b =
    let (_, r) = div_eucl a b in r
 end

(** val nth_error : 'a1 list -> nat -> 'a1 option **)

let rec nth_error l = function
| O -> (match l with
        | [] -> None
        | x :: _ -> Some x)
| S n1 -> (match l with
           | [] -> None
           | _ :: l0 -> nth_error l0 n1)

(** val concat : 'a1 list list -> 'a1 list **)

let rec concat = function
| [] -> []
| x :: l0 -> app x (concat l0)

(** val map : ('a1 -> 'a2) -> 'a1 list -> 'a2 list **)

let rec map f = function
| [] -> []
| a :: t -> (f a) :: (map f t)

(** val fold_left : ('a1 -> 'a2 -> 'a1) -> 'a2 list -> 'a1 -> 'a1 **)

let rec fold_left f l a0 =
  match l with
  | [] -> a0
  | b :: t -> fold_left f t (f a0 b)

(** val forallb : ('a1 -> bool) -> 'a1 list -> bool **)

let rec forallb f = function
| [] -> true
| a :: l0 -> (&&) (f a) (forallb f l0)

(** val filter : ('a1 -> bool) -> 'a1 list -> 'a1 list **)

let rec filter f = function
| [] -> []
| x :: l0 -> if f x then x :: (filter f l0) else filter f l0

(** val firstn : nat -> 'a1 list -> 'a1 list **)

let rec firstn n0 l =
  match n0 with
  | O -> []
  | S n1 -> (match l with
             | [] -> []
             | a :: l0 -> a :: (firstn n1 l0))

(** val skipn : nat -> 'a1 list -> 'a1 list **)

let rec skipn n0 l =
  match n0 with
  | O -> l
  | S n1 -> (match l with
             | [] -> []
             | _ :: l0 -> skipn n1 l0)

(** val seq : nat -> nat -> nat list **)

let rec seq start = function
| O -> []
| S len0 -> start :: (seq (S start) len0)

type byte = n

(** val list_eqb : n list -> n list -> bool **)

let rec list_eqb a b =
  match a with
  | [] -> (match b with
           | [] -> true
           | _ :: _ -> false)
  | x :: a' ->
    (match b with
     | [] -> false
     | y :: b' -> (&&) (N.eqb x y) (list_eqb a' b'))

(** val escape_leader : n **)

let escape_leader =
  Npos (XO (XI (XI (XI (XO (XI (XI XH)))))))

(** val escape_base_json : (n list * n list) list **)

let escape_base_json =
  (((Npos (XO (XI (XI (XI (XO (XI (XI XH)))))))) :: []), ((Npos (XO (XI (XI
    (XI (XO (XI (XI XH)))))))) :: ((Npos (XO (XI (XI (XI (XO (XI (XI
    XH)))))))) :: []))) :: ((((Npos (XO (XI (XI (XI (XI (XI XH))))))) :: []),
    ((Npos (XO (XI (XI (XI (XO (XI (XI XH)))))))) :: ((Npos (XI (XO (XO (XO
    (XI XH)))))) :: []))) :: [])

(** val escape_all_chars : n list **)

let escape_all_chars =
  (Npos (XO XH)) :: ((Npos (XI (XO (XI XH)))) :: ((Npos (XO (XO (XO (XO
    XH))))) :: ((Npos (XI (XO (XO (XO XH))))) :: ((Npos (XI (XI (XO (XO
    XH))))) :: ((Npos (XO (XO (XO (XI XH))))) :: ((Npos (XI (XI (XO (XI
    XH))))) :: ((Npos (XI (XO (XI (XI XH))))) :: ((Npos (XI (XO (XI (XI (XO
    (XO (XO XH)))))))) :: ((Npos (XO (XO (XO (XO (XI (XO (XO
    XH)))))))) :: ((Npos (XI (XO (XO (XO (XI (XO (XO XH)))))))) :: ((Npos (XI
    (XI (XO (XO (XI (XO (XO XH)))))))) :: ((Npos (XI (XO (XI (XI (XI (XO (XO
    XH)))))))) :: []))))))))))))

(** val escape_all_first_code : n **)

let escape_all_first_code =
  Npos (XI (XO (XO (XO (XO (XO XH))))))

(** val tunnel_uid_cut_if_longer : n **)

let tunnel_uid_cut_if_longer =
  Npos (XO XH)

(** val tunnel_uid_cut : n **)

let tunnel_uid_cut =
  Npos (XO XH)

(** val tunnel_client_hello_fmt : n list **)

let tunnel_client_hello_fmt =
  (Npos (XO (XI (XO (XI (XI XH)))))) :: ((Npos (XO (XI (XO (XI (XI
    XH)))))) :: ((Npos (XO (XO (XI (XO (XI (XO XH))))))) :: ((Npos (XO (XI
    (XO (XO (XI (XO XH))))))) :: ((Npos (XO (XI (XO (XI (XI (XO
    XH))))))) :: ((Npos (XI (XI (XO (XO (XI (XO XH))))))) :: ((Npos (XO (XI
    (XO (XI (XI (XO XH))))))) :: ((Npos (XO (XI (XO (XI (XI
    XH)))))) :: ((Npos (XO (XI (XO (XI (XI XH)))))) :: ((Npos (XI (XI (XO (XO
    (XO (XO XH))))))) :: ((Npos (XO (XO (XI (XI (XO (XO XH))))))) :: ((Npos
    (XI (XO (XO (XI (XO (XO XH))))))) :: ((Npos (XI (XO (XI (XO (XO (XO
    XH))))))) :: ((Npos (XO (XI (XI (XI (XO (XO XH))))))) :: ((Npos (XO (XO
    (XI (XO (XI (XO XH))))))) :: ((Npos (XO (XI (XO (XI (XI
    XH)))))) :: ((Npos (XO (XI (XO (XI (XI XH)))))) :: ((Npos (XO (XO (XO (XI
    (XO (XO XH))))))) :: ((Npos (XI (XO (XI (XO (XO (XO XH))))))) :: ((Npos
    (XO (XO (XI (XI (XO (XO XH))))))) :: ((Npos (XO (XO (XI (XI (XO (XO
    XH))))))) :: ((Npos (XI (XI (XI (XI (XO (XO XH))))))) :: ((Npos (XO (XI
    (XO (XI (XI XH)))))) :: ((Npos (XO (XI (XO (XI (XI XH)))))) :: ((Npos (XI
    (XO (XI (XO (XO XH)))))) :: ((Npos (XI (XI (XO (XO (XI (XI
    XH))))))) :: ((Npos (XO (XI (XO (XI (XI XH)))))) :: ((Npos (XI (XO (XI
    (XO (XO XH)))))) :: ((Npos (XO (XO (XI (XO (XO (XI
    XH))))))) :: []))))))))))))))))))))))))))))

(** val tunnel_server_hello_fmt : n list **)

let tunnel_server_hello_fmt =
  (Npos (XO (XI (XO (XI (XI XH)))))) :: ((Npos (XO (XI (XO (XI (XI
    XH)))))) :: ((Npos (XO (XO (XI (XO (XI (XO XH))))))) :: ((Npos (XO (XI
    (XO (XO (XI (XO XH))))))) :: ((Npos (XO (XI (XO (XI (XI (XO
    XH))))))) :: ((Npos (XI (XI (XO (XO (XI (XO XH))))))) :: ((Npos (XO (XI
    (XO (XI (XI (XO XH))))))) :: ((Npos (XO (XI (XO (XI (XI
    XH)))))) :: ((Npos (XO (XI (XO (XI (XI XH)))))) :: ((Npos (XI (XI (XO (XO
    (XI (XO XH))))))) :: ((Npos (XI (XO (XI (XO (XO (XO XH))))))) :: ((Npos
    (XO (XI (XO (XO (XI (XO XH))))))) :: ((Npos (XO (XI (XI (XO (XI (XO
    XH))))))) :: ((Npos (XI (XO (XI (XO (XO (XO XH))))))) :: ((Npos (XO (XI
    (XO (XO (XI (XO XH))))))) :: ((Npos (XO (XI (XO (XI (XI
    XH)))))) :: ((Npos (XO (XI (XO (XI (XI XH)))))) :: ((Npos (XO (XO (XO (XI
    (XO (XO XH))))))) :: ((Npos (XI (XO (XI (XO (XO (XO XH))))))) :: ((Npos
    (XO (XO (XI (XI (XO (XO XH))))))) :: ((Npos (XO (XO (XI (XI (XO (XO
    XH))))))) :: ((Npos (XI (XI (XI (XI (XO (XO XH))))))) :: ((Npos (XO (XI
    (XO (XI (XI XH)))))) :: ((Npos (XO (XI (XO (XI (XI XH)))))) :: ((Npos (XI
    (XO (XI (XO (XO XH)))))) :: ((Npos (XI (XI (XO (XO (XI (XI
    XH))))))) :: ((Npos (XO (XI (XO (XI (XI XH)))))) :: ((Npos (XI (XO (XI
    (XO (XO XH)))))) :: ((Npos (XO (XO (XI (XO (XO (XI
    XH))))))) :: []))))))))))))))))))))))))))))

(** val tunnel_hello_read_size : n **)

let tunnel_hello_read_size =
  Npos (XO (XO (XI (XO (XO (XI XH))))))

(** val tunnel_reply_read_size : n **)

let tunnel_reply_read_size =
  Npos (XO (XO (XI (XO (XO (XI XH))))))

(** val tunnel_pump_bufsize : n **)

let tunnel_pump_bufsize =
  Npos (XO (XO (XO (XO (XO (XO (XO (XO (XO (XO (XO (XO (XO (XO (XO
    XH)))))))))))))))

(** val leader : byte **)

let leader =
  escape_leader

type table = (byte * byte) list

(** val esc_code : table -> byte -> byte option **)

let rec esc_code t b =
  match t with
  | [] -> None
  | p :: r ->
    let (s, c) = p in
    (match esc_code r b with
     | Some x -> Some x
     | None -> if N.eqb s b then Some c else None)

(** val unesc_code : table -> byte -> byte option **)

let rec unesc_code t c =
  match t with
  | [] -> None
  | p :: r ->
    let (s, c') = p in
    (match unesc_code r c with
     | Some x -> Some x
     | None -> if N.eqb c' c then Some s else None)

(** val escape : table -> byte list -> byte list **)

let rec escape t = function
| [] -> []
| b :: r ->
  (match esc_code t b with
   | Some c -> leader :: (c :: (escape t r))
   | None -> b :: (escape t r))

type ures =
| UOk of byte list * byte list
| UErr of byte

(** val ucons : byte -> ures -> ures **)

let ucons b = function
| UOk (o, rem) -> UOk ((b :: o), rem)
| UErr c -> UErr c

(** val unesc : table -> byte list -> nat -> ures **)

let rec unesc t data room =
  match data with
  | [] -> UOk ([], [])
  | b :: r ->
    if N.eqb b leader
    then (match r with
          | [] -> UOk ([], (b :: []))
          | c :: r' ->
            (match unesc_code t c with
             | Some s ->
               (match room with
                | O -> UOk ((s :: []), r')
                | S room' ->
                  (match room' with
                   | O -> UOk ((s :: []), r')
                   | S _ -> ucons s (unesc t r' room')))
             | None -> UErr c))
    else (match room with
          | O -> UOk ((b :: []), r)
          | S room' ->
            (match room' with
             | O -> UOk ((b :: []), r)
             | S _ -> ucons b (unesc t r room')))

(** val unescape_data : table -> byte list -> nat -> ures **)

let unescape_data t data dstlen =
  match t with
  | [] -> UOk (data, [])
  | _ :: _ ->
    unesc t data (match dstlen with
                  | O -> length data
                  | S _ -> dstlen)

type rres =
| RData of byte list
| REof
| RErr of byte

(** val er_read :
    table -> byte list -> byte list list -> nat -> rres * (byte list * byte
    list list) **)

let rec er_read t buffer cs size =
  match match buffer with
        | [] -> UOk ([], [])
        | _ :: _ -> unesc t buffer size with
  | UOk (out, rem) ->
    (match out with
     | [] ->
       (match cs with
        | [] -> (REof, (rem, []))
        | c :: cs' -> er_read t (app rem c) cs' size)
     | _ :: _ -> ((RData out), (rem, cs)))
  | UErr c -> ((RErr c), (buffer, cs))

(** val next_size : nat list -> nat -> nat * nat list **)

let next_size sizes dflt =
  match sizes with
  | [] -> (dflt, [])
  | s :: r -> (s, r)

type rend =
| EndEof of byte list
| EndErr of byte
| EndFuel

(** val er_run :
    nat -> table -> byte list -> byte list list -> nat list -> nat -> byte
    list list * rend **)

let rec er_run fuel t buffer cs sizes dflt =
  match fuel with
  | O -> ([], EndFuel)
  | S f ->
    let (size, sizes') = next_size sizes dflt in
    let (r, p) = er_read t buffer cs size in
    (match r with
     | RData out ->
       let (b', cs') = p in
       let (outs, e) = er_run f t b' cs' sizes' dflt in ((out :: outs), e)
     | REof -> let (b', _) = p in ([], (EndEof b'))
     | RErr c -> ([], (EndErr c)))

(** val er_fuel : byte list -> byte list list -> nat **)

let er_fuel buffer cs =
  S (add (length buffer) (length (concat cs)))

(** val ew_write : table -> byte list list -> byte list list **)

let ew_write t chunks =
  map (escape t) chunks

(** val latin1 : n list -> byte list option **)

let latin1 s =
  if forallb (fun c ->
       N.ltb c (Npos (XO (XO (XO (XO (XO (XO (XO (XO XH)))))))))) s
  then Some s
  else None

(** val table_of_json : n list list list -> table option **)

let rec table_of_json = function
| [] -> Some []
| e :: r ->
  (match e with
   | [] -> None
   | a :: l ->
     (match l with
      | [] -> None
      | b :: l0 ->
        (match l0 with
         | [] ->
           (match latin1 a with
            | Some l1 ->
              (match l1 with
               | [] -> None
               | s :: l2 ->
                 (match l2 with
                  | [] ->
                    (match latin1 b with
                     | Some l3 ->
                       (match l3 with
                        | [] -> None
                        | l4 :: l5 ->
                          (match l5 with
                           | [] -> None
                           | c :: l6 ->
                             (match l6 with
                              | [] ->
                                if N.eqb l4 leader
                                then (match table_of_json r with
                                      | Some t -> Some ((s, c) :: t)
                                      | None -> None)
                                else None
                              | _ :: _ -> None)))
                     | None -> None)
                  | _ :: _ -> None))
            | None -> None)
         | _ :: _ -> None)))

(** val escape_all_pairs : n list -> n -> n list list list **)

let rec escape_all_pairs chars code =
  match chars with
  | [] -> []
  | c :: r ->
    ((c :: []) :: ((leader :: (code :: [])) :: [])) :: (escape_all_pairs r
                                                         (N.add code (Npos
                                                           XH)))

(** val builtin_json : bool -> n list list list **)

let builtin_json escape_all =
  app (map (fun p -> (fst p) :: ((snd p) :: [])) escape_base_json)
    (if escape_all
     then escape_all_pairs escape_all_chars escape_all_first_code
     else [])

(** val builtin_table : bool -> table **)

let builtin_table escape_all =
  match table_of_json (builtin_json escape_all) with
  | Some t -> t
  | None -> []

(** val dec_fuel : nat -> n -> n list -> n list **)

let rec dec_fuel fuel n0 acc =
  match fuel with
  | O -> acc
  | S f ->
    let d =
      N.add (Npos (XO (XO (XO (XO (XI XH))))))
        (N.modulo n0 (Npos (XO (XI (XO XH)))))
    in
    let q = N.div n0 (Npos (XO (XI (XO XH)))) in
    if N.eqb q N0 then d :: acc else dec_fuel f q (d :: acc)

(** val dec_N : n -> n list **)

let dec_N n0 =
  dec_fuel (S (N.size_nat n0)) n0 []

(** val dec_Z : z -> n list **)

let dec_Z z0 = match z0 with
| Zneg p -> (Npos (XI (XO (XI (XI (XO XH)))))) :: (dec_N (Npos p))
| _ -> dec_N (Z.to_N z0)

type farg =
| FStr of n list
| FInt of z

(** val sprintf : n list -> farg list -> n list **)

let rec sprintf fmt args =
  match fmt with
  | [] -> []
  | c :: r ->
    if N.eqb c (Npos (XI (XO (XI (XO (XO XH))))))
    then (match r with
          | [] -> c :: []
          | v :: r' ->
            if N.eqb v (Npos (XI (XI (XO (XO (XI (XI XH)))))))
            then (match args with
                  | [] -> c :: (v :: (sprintf r' args))
                  | f :: a ->
                    (match f with
                     | FStr s -> app s (sprintf r' a)
                     | FInt _ -> c :: (v :: (sprintf r' args))))
            else if N.eqb v (Npos (XO (XO (XI (XO (XO (XI XH)))))))
                 then (match args with
                       | [] -> c :: (v :: (sprintf r' args))
                       | f :: a ->
                         (match f with
                          | FStr _ -> c :: (v :: (sprintf r' args))
                          | FInt z0 -> app (dec_Z z0) (sprintf r' a)))
                 else c :: (v :: (sprintf r' args)))
    else c :: (sprintf r args)

(** val cut_uid : n list -> n list **)

let cut_uid uid =
  if N.ltb tunnel_uid_cut_if_longer (N.of_nat (length uid))
  then firstn (sub (length uid) (N.to_nat tunnel_uid_cut)) uid
  else uid

(** val client_hello : n list -> z -> n list **)

let client_hello uid port =
  sprintf tunnel_client_hello_fmt ((FStr (cut_uid uid)) :: ((FInt
    port) :: []))

(** val server_hello : n list -> z -> n list **)

let server_hello uid port =
  sprintf tunnel_server_hello_fmt ((FStr (cut_uid uid)) :: ((FInt
    port) :: []))

(** val hello_matches : n list -> n list -> bool **)

let hello_matches =
  list_eqb

type pev =
| PWrite of n list
| PClose

type src =
| SrcInband
| SrcConn of nat

type hpc =
| HRefused
| HPending
| HAccepted
| HRead
| HCompare of n list option
| HReply
| HCas
| HPumpStart
| HCloseListener
| HDone

type conn = { k_script : pev list; k_rx : n list; k_eof : bool; k_pc : 
              hpc; k_first : n list option; k_tx : n list; k_closed : 
              bool; k_won : bool; k_pump : bool }

(** val k_first : conn -> n list option **)

let k_first c =
  c.k_first

(** val k_tx : conn -> n list **)

let k_tx c =
  c.k_tx

(** val k_closed : conn -> bool **)

let k_closed c =
  c.k_closed

(** val k_won : conn -> bool **)

let k_won c =
  c.k_won

(** val k_pump : conn -> bool **)

let k_pump c =
  c.k_pump

(** val new_conn : pev list -> hpc -> conn **)

let new_conn script pc =
  { k_script = script; k_rx = []; k_eof = false; k_pc = pc; k_first = None;
    k_tx = []; k_closed = false; k_won = false; k_pump = false }

(** val set_pc : hpc -> conn -> conn **)

let set_pc pc k =
  { k_script = k.k_script; k_rx = k.k_rx; k_eof = k.k_eof; k_pc = pc;
    k_first = k.k_first; k_tx = k.k_tx; k_closed = k.k_closed; k_won =
    k.k_won; k_pump = k.k_pump }

(** val set_closed : conn -> conn **)

let set_closed k =
  { k_script = k.k_script; k_rx = k.k_rx; k_eof = k.k_eof; k_pc = k.k_pc;
    k_first = k.k_first; k_tx = k.k_tx; k_closed = true; k_won = k.k_won;
    k_pump = k.k_pump }

(** val set_rx : n list -> conn -> conn **)

let set_rx rx k =
  { k_script = k.k_script; k_rx = rx; k_eof = k.k_eof; k_pc = k.k_pc;
    k_first = k.k_first; k_tx = k.k_tx; k_closed = k.k_closed; k_won =
    k.k_won; k_pump = k.k_pump }

(** val upd : nat -> ('a1 -> 'a1) -> 'a1 list -> 'a1 list **)

let rec upd c f = function
| [] -> []
| k :: r -> (match c with
             | O -> (f k) :: r
             | S c' -> k :: (upd c' f r))

(** val peer_step : conn -> conn option **)

let peer_step k =
  match k.k_script with
  | [] -> None
  | p :: r ->
    (match p with
     | PWrite bs ->
       Some { k_script = r; k_rx =
         (if k.k_eof then k.k_rx else app k.k_rx bs); k_eof = k.k_eof; k_pc =
         k.k_pc; k_first = k.k_first; k_tx = k.k_tx; k_closed = k.k_closed;
         k_won = k.k_won; k_pump = k.k_pump }
     | PClose ->
       Some { k_script = r; k_rx = k.k_rx; k_eof = true; k_pc = k.k_pc;
         k_first = k.k_first; k_tx = k.k_tx; k_closed = k.k_closed; k_won =
         k.k_won; k_pump = k.k_pump })

type apc =
| AAccept
| ACheck of nat
| ADone

type actst =
| ActWaiting
| ActOk
| ActErr

type sstate = { s_conns : conn list; s_lis : bool; s_apc : apc;
                s_tconn : nat option; s_tconnected : bool;
                s_writer : nat option; s_act : actst;
                s_inbuf : (src * n list) list; s_dropped : n list list }

(** val s_conns : sstate -> conn list **)

let s_conns s =
  s.s_conns

(** val s_lis : sstate -> bool **)

let s_lis s =
  s.s_lis

(** val s_tconn : sstate -> nat option **)

let s_tconn s =
  s.s_tconn

(** val s_tconnected : sstate -> bool **)

let s_tconnected s =
  s.s_tconnected

(** val s_writer : sstate -> nat option **)

let s_writer s =
  s.s_writer

(** val s_act : sstate -> actst **)

let s_act s =
  s.s_act

(** val s_inbuf : sstate -> (src * n list) list **)

let s_inbuf s =
  s.s_inbuf

(** val s_dropped : sstate -> n list list **)

let s_dropped s =
  s.s_dropped

(** val s_init : sstate **)

let s_init =
  { s_conns = []; s_lis = true; s_apc = AAccept; s_tconn = None;
    s_tconnected = false; s_writer = None; s_act = ActWaiting; s_inbuf = [];
    s_dropped = [] }

(** val with_conns : sstate -> conn list -> sstate **)

let with_conns s cs =
  { s_conns = cs; s_lis = s.s_lis; s_apc = s.s_apc; s_tconn = s.s_tconn;
    s_tconnected = s.s_tconnected; s_writer = s.s_writer; s_act = s.s_act;
    s_inbuf = s.s_inbuf; s_dropped = s.s_dropped }

type slabel =
| LConnect of pev list
| LPeer of nat
| LAccept of nat
| LAcceptErr
| LCheck
| LHandler of nat
| LWriteFail of nat
| LPump of nat * nat
| LInband of n list
| LAct of bool
| LCleanup

(** val add_received :
    bool -> src -> n list -> (src * n list) list -> n list list -> (src * n
    list) list * n list list **)

let add_received tconnected from bs inbuf dropped =
  match from with
  | SrcInband ->
    if tconnected
    then (inbuf, (app dropped (bs :: [])))
    else ((app inbuf ((from, bs) :: [])), dropped)
  | SrcConn _ -> ((app inbuf ((from, bs) :: [])), dropped)

(** val sstep : n list -> n list -> sstate -> slabel -> sstate option **)

let sstep ch sh s = function
| LConnect script ->
  Some
    (with_conns s
      (app s.s_conns
        ((new_conn script (if s.s_lis then HPending else HRefused)) :: [])))
| LPeer c ->
  (match nth_error s.s_conns c with
   | Some k ->
     (match peer_step k with
      | Some k' -> Some (with_conns s (upd c (fun _ -> k') s.s_conns))
      | None -> None)
   | None -> None)
| LAccept c ->
  (match s.s_apc with
   | AAccept ->
     if s.s_lis
     then (match nth_error s.s_conns c with
           | Some k ->
             (match k.k_pc with
              | HPending ->
                Some { s_conns = (upd c (set_pc HAccepted) s.s_conns);
                  s_lis = s.s_lis; s_apc = (ACheck c); s_tconn = s.s_tconn;
                  s_tconnected = s.s_tconnected; s_writer = s.s_writer;
                  s_act = s.s_act; s_inbuf = s.s_inbuf; s_dropped =
                  s.s_dropped }
              | _ -> None)
           | None -> None)
     else None
   | _ -> None)
| LAcceptErr ->
  (match s.s_apc with
   | AAccept ->
     if s.s_lis
     then None
     else Some { s_conns = s.s_conns; s_lis = false; s_apc = ADone; s_tconn =
            s.s_tconn; s_tconnected = s.s_tconnected; s_writer = s.s_writer;
            s_act = s.s_act; s_inbuf = s.s_inbuf; s_dropped = s.s_dropped }
   | _ -> None)
| LCheck ->
  (match s.s_apc with
   | ACheck c ->
     (match s.s_tconn with
      | Some _ ->
        Some { s_conns =
          (upd c (fun k -> set_closed (set_pc HDone k)) s.s_conns); s_lis =
          false; s_apc = ADone; s_tconn = s.s_tconn; s_tconnected =
          s.s_tconnected; s_writer = s.s_writer; s_act = s.s_act; s_inbuf =
          s.s_inbuf; s_dropped = s.s_dropped }
      | None ->
        Some { s_conns = (upd c (set_pc HRead) s.s_conns); s_lis = s.s_lis;
          s_apc = AAccept; s_tconn = s.s_tconn; s_tconnected =
          s.s_tconnected; s_writer = s.s_writer; s_act = s.s_act; s_inbuf =
          s.s_inbuf; s_dropped = s.s_dropped })
   | _ -> None)
| LHandler c ->
  (match nth_error s.s_conns c with
   | Some k ->
     (match k.k_pc with
      | HRead ->
        (match k.k_rx with
         | [] ->
           if k.k_eof
           then Some (with_conns s (upd c (set_pc (HCompare None)) s.s_conns))
           else None
         | _ :: _ ->
           let n0 = N.to_nat tunnel_hello_read_size in
           let got = firstn n0 k.k_rx in
           Some
           (with_conns s
             (upd c (fun _ -> { k_script = k.k_script; k_rx =
               (skipn n0 k.k_rx); k_eof = k.k_eof; k_pc = (HCompare (Some
               got)); k_first = (Some got); k_tx = k.k_tx; k_closed =
               k.k_closed; k_won = k.k_won; k_pump = k.k_pump }) s.s_conns)))
      | HCompare r ->
        (match r with
         | Some got ->
           if hello_matches got ch
           then Some (with_conns s (upd c (set_pc HReply) s.s_conns))
           else Some
                  (with_conns s
                    (upd c (fun k0 -> set_closed (set_pc HDone k0)) s.s_conns))
         | None ->
           Some
             (with_conns s
               (upd c (fun k0 -> set_closed (set_pc HDone k0)) s.s_conns)))
      | HReply ->
        Some
          (with_conns s
            (upd c (fun _ -> { k_script = k.k_script; k_rx = k.k_rx; k_eof =
              k.k_eof; k_pc = HCas; k_first = k.k_first; k_tx =
              (app k.k_tx sh); k_closed = k.k_closed; k_won = k.k_won;
              k_pump = k.k_pump }) s.s_conns))
      | HCas ->
        (match s.s_tconn with
         | Some _ -> Some (with_conns s (upd c (set_pc HDone) s.s_conns))
         | None ->
           Some { s_conns =
             (upd c (fun _ -> { k_script = k.k_script; k_rx = k.k_rx; k_eof =
               k.k_eof; k_pc = HPumpStart; k_first = k.k_first; k_tx =
               k.k_tx; k_closed = k.k_closed; k_won = true; k_pump =
               k.k_pump }) s.s_conns); s_lis = s.s_lis; s_apc = s.s_apc;
             s_tconn = (Some c); s_tconnected = s.s_tconnected; s_writer =
             s.s_writer; s_act = s.s_act; s_inbuf = s.s_inbuf; s_dropped =
             s.s_dropped })
      | HPumpStart ->
        Some
          (with_conns s
            (upd c (fun _ -> { k_script = k.k_script; k_rx = k.k_rx; k_eof =
              k.k_eof; k_pc = HCloseListener; k_first = k.k_first; k_tx =
              k.k_tx; k_closed = k.k_closed; k_won = k.k_won; k_pump =
              true }) s.s_conns))
      | HCloseListener ->
        Some { s_conns = (upd c (set_pc HDone) s.s_conns); s_lis = false;
          s_apc = s.s_apc; s_tconn = s.s_tconn; s_tconnected =
          s.s_tconnected; s_writer = s.s_writer; s_act = s.s_act; s_inbuf =
          s.s_inbuf; s_dropped = s.s_dropped }
      | _ -> None)
   | None -> None)
| LWriteFail c ->
  (match nth_error s.s_conns c with
   | Some k ->
     (match k.k_pc with
      | HReply ->
        if k.k_eof
        then Some
               (with_conns s
                 (upd c (fun k0 -> set_closed (set_pc HDone k0)) s.s_conns))
        else None
      | _ -> None)
   | None -> None)
| LPump (c, n0) ->
  (match nth_error s.s_conns c with
   | Some k ->
     if (&&)
          ((&&) ((&&) ((&&) k.k_pump (negb k.k_closed)) (Nat.leb (S O) n0))
            (Nat.leb n0 (length k.k_rx)))
          (N.leb (N.of_nat n0) tunnel_pump_bufsize)
     then let (ib, dr) =
            add_received s.s_tconnected (SrcConn c) (firstn n0 k.k_rx)
              s.s_inbuf s.s_dropped
          in
          Some { s_conns = (upd c (set_rx (skipn n0 k.k_rx)) s.s_conns);
          s_lis = s.s_lis; s_apc = s.s_apc; s_tconn = s.s_tconn;
          s_tconnected = s.s_tconnected; s_writer = s.s_writer; s_act =
          s.s_act; s_inbuf = ib; s_dropped = dr }
     else None
   | None -> None)
| LInband bs ->
  let (ib, dr) =
    add_received s.s_tconnected SrcInband bs s.s_inbuf s.s_dropped
  in
  Some { s_conns = s.s_conns; s_lis = s.s_lis; s_apc = s.s_apc; s_tconn =
  s.s_tconn; s_tconnected = s.s_tconnected; s_writer = s.s_writer; s_act =
  s.s_act; s_inbuf = ib; s_dropped = dr }
| LAct tun ->
  (match s.s_act with
   | ActWaiting ->
     if tun
     then (match s.s_tconn with
           | Some c ->
             Some { s_conns = s.s_conns; s_lis = s.s_lis; s_apc = s.s_apc;
               s_tconn = s.s_tconn; s_tconnected = true; s_writer = (Some c);
               s_act = ActOk; s_inbuf = s.s_inbuf; s_dropped = s.s_dropped }
           | None ->
             Some { s_conns = s.s_conns; s_lis = s.s_lis; s_apc = s.s_apc;
               s_tconn = s.s_tconn; s_tconnected = true; s_writer =
               s.s_writer; s_act = ActErr; s_inbuf = s.s_inbuf; s_dropped =
               s.s_dropped })
     else Some { s_conns = s.s_conns; s_lis = s.s_lis; s_apc = s.s_apc;
            s_tconn = s.s_tconn; s_tconnected = s.s_tconnected; s_writer =
            s.s_writer; s_act = ActOk; s_inbuf = s.s_inbuf; s_dropped =
            s.s_dropped }
   | _ -> None)
| LCleanup ->
  (match s.s_tconn with
   | Some c -> Some (with_conns s (upd c set_closed s.s_conns))
   | None -> Some s)

type kpc =
| KCall
| KChk
| KWrite
| KRead
| KCmp of n list option
| KSend
| KDone

type spc =
| SSelect
| SStore
| SPump
| SDone

type mpc =
| MWait
| MLoad
| MSent of bool

type cstate = { c_conn : conn option; c_kpc : kpc; c_chan : bool option;
                c_spc : spc; c_timer : bool; c_timedout : bool;
                c_wg_done : bool; c_mpc : mpc; c_tconn : bool;
                c_tconnected : bool; c_writer_tunnel : bool; c_pump : 
                bool; c_inbuf : (src * n list) list; c_dropped : n list list }

(** val c_init : cstate **)

let c_init =
  { c_conn = None; c_kpc = KCall; c_chan = None; c_spc = SSelect; c_timer =
    false; c_timedout = false; c_wg_done = false; c_mpc = MWait; c_tconn =
    false; c_tconnected = false; c_writer_tunnel = false; c_pump = false;
    c_inbuf = []; c_dropped = [] }

type clabel =
| CConnector of pev list option
| CK of bool * bool
| CPeer
| CTimer
| CSelChan
| CSelTimer
| CS
| CMain
| CPumpRead of nat
| CInband of n list
| CCleanup

(** val cset : cstate -> conn option -> kpc -> bool option -> cstate **)

let cset s k kp ch =
  { c_conn = k; c_kpc = kp; c_chan = ch; c_spc = s.c_spc; c_timer =
    s.c_timer; c_timedout = s.c_timedout; c_wg_done = s.c_wg_done; c_mpc =
    s.c_mpc; c_tconn = s.c_tconn; c_tconnected = s.c_tconnected;
    c_writer_tunnel = s.c_writer_tunnel; c_pump = s.c_pump; c_inbuf =
    s.c_inbuf; c_dropped = s.c_dropped }

(** val cgive_up : cstate -> conn -> cstate **)

let cgive_up s k =
  cset s (Some (set_closed k)) KDone (Some false)

(** val cstep : n list -> n list -> cstate -> clabel -> cstate option **)

let cstep ch sh s = function
| CConnector o ->
  (match s.c_kpc with
   | KCall ->
     (match o with
      | Some script ->
        Some (cset s (Some (new_conn script HDone)) KChk s.c_chan)
      | None -> Some (cset s None KDone (Some false)))
   | _ -> None)
| CK (tmo, wfail) ->
  (match s.c_conn with
   | Some k ->
     (match s.c_kpc with
      | KChk ->
        if tmo
        then Some (cgive_up s k)
        else Some (cset s (Some k) KWrite s.c_chan)
      | KWrite ->
        if wfail
        then Some (cgive_up s k)
        else let k' = { k_script = k.k_script; k_rx = k.k_rx; k_eof =
               k.k_eof; k_pc = k.k_pc; k_first = k.k_first; k_tx =
               (app k.k_tx ch); k_closed = k.k_closed; k_won = k.k_won;
               k_pump = k.k_pump }
             in
             if tmo
             then Some (cgive_up s k')
             else Some (cset s (Some k') KRead s.c_chan)
      | KRead ->
        (match k.k_rx with
         | [] ->
           if k.k_eof
           then Some (cset s (Some k) (KCmp None) s.c_chan)
           else None
         | _ :: _ ->
           let n0 = N.to_nat tunnel_reply_read_size in
           let got = firstn n0 k.k_rx in
           Some
           (cset s (Some { k_script = k.k_script; k_rx = (skipn n0 k.k_rx);
             k_eof = k.k_eof; k_pc = k.k_pc; k_first = (Some got); k_tx =
             k.k_tx; k_closed = k.k_closed; k_won = k.k_won; k_pump =
             k.k_pump }) (KCmp (Some got)) s.c_chan))
      | KCmp r ->
        (match r with
         | Some got ->
           if (&&) (hello_matches got sh) (negb tmo)
           then Some (cset s (Some k) KSend s.c_chan)
           else Some (cgive_up s k)
         | None -> Some (cgive_up s k))
      | KSend -> Some (cset s (Some k) KDone (Some true))
      | _ -> None)
   | None -> None)
| CPeer ->
  (match s.c_conn with
   | Some k ->
     (match peer_step k with
      | Some k' -> Some (cset s (Some k') s.c_kpc s.c_chan)
      | None -> None)
   | None -> None)
| CTimer ->
  Some { c_conn = s.c_conn; c_kpc = s.c_kpc; c_chan = s.c_chan; c_spc =
    s.c_spc; c_timer = true; c_timedout = s.c_timedout; c_wg_done =
    s.c_wg_done; c_mpc = s.c_mpc; c_tconn = s.c_tconn; c_tconnected =
    s.c_tconnected; c_writer_tunnel = s.c_writer_tunnel; c_pump = s.c_pump;
    c_inbuf = s.c_inbuf; c_dropped = s.c_dropped }
| CSelChan ->
  (match s.c_spc with
   | SSelect ->
     (match s.c_chan with
      | Some v ->
        Some { c_conn = s.c_conn; c_kpc = s.c_kpc; c_chan = None; c_spc =
          (if v then SStore else SDone); c_timer = s.c_timer; c_timedout =
          s.c_timedout; c_wg_done = (if v then s.c_wg_done else true);
          c_mpc = s.c_mpc; c_tconn = s.c_tconn; c_tconnected =
          s.c_tconnected; c_writer_tunnel = s.c_writer_tunnel; c_pump =
          s.c_pump; c_inbuf = s.c_inbuf; c_dropped = s.c_dropped }
      | None -> None)
   | _ -> None)
| CSelTimer ->
  (match s.c_spc with
   | SSelect ->
     if s.c_timer
     then Some { c_conn = s.c_conn; c_kpc = s.c_kpc; c_chan = s.c_chan;
            c_spc = SDone; c_timer = s.c_timer; c_timedout = true;
            c_wg_done = true; c_mpc = s.c_mpc; c_tconn = s.c_tconn;
            c_tconnected = s.c_tconnected; c_writer_tunnel =
            s.c_writer_tunnel; c_pump = s.c_pump; c_inbuf = s.c_inbuf;
            c_dropped = s.c_dropped }
     else None
   | _ -> None)
| CS ->
  (match s.c_spc with
   | SStore ->
     Some { c_conn = s.c_conn; c_kpc = s.c_kpc; c_chan = s.c_chan; c_spc =
       SPump; c_timer = s.c_timer; c_timedout = s.c_timedout; c_wg_done =
       s.c_wg_done; c_mpc = s.c_mpc; c_tconn = true; c_tconnected =
       s.c_tconnected; c_writer_tunnel = s.c_writer_tunnel; c_pump =
       s.c_pump; c_inbuf = s.c_inbuf; c_dropped = s.c_dropped }
   | SPump ->
     Some { c_conn = s.c_conn; c_kpc = s.c_kpc; c_chan = s.c_chan; c_spc =
       SDone; c_timer = s.c_timer; c_timedout = s.c_timedout; c_wg_done =
       true; c_mpc = s.c_mpc; c_tconn = s.c_tconn; c_tconnected =
       s.c_tconnected; c_writer_tunnel = s.c_writer_tunnel; c_pump = true;
       c_inbuf = s.c_inbuf; c_dropped = s.c_dropped }
   | _ -> None)
| CMain ->
  (match s.c_mpc with
   | MWait ->
     if s.c_wg_done
     then Some { c_conn = s.c_conn; c_kpc = s.c_kpc; c_chan = s.c_chan;
            c_spc = s.c_spc; c_timer = s.c_timer; c_timedout = s.c_timedout;
            c_wg_done = s.c_wg_done; c_mpc = MLoad; c_tconn = s.c_tconn;
            c_tconnected = s.c_tconnected; c_writer_tunnel =
            s.c_writer_tunnel; c_pump = s.c_pump; c_inbuf = s.c_inbuf;
            c_dropped = s.c_dropped }
     else None
   | MLoad ->
     Some { c_conn = s.c_conn; c_kpc = s.c_kpc; c_chan = s.c_chan; c_spc =
       s.c_spc; c_timer = s.c_timer; c_timedout = s.c_timedout; c_wg_done =
       s.c_wg_done; c_mpc = (MSent s.c_tconn); c_tconn = s.c_tconn;
       c_tconnected = s.c_tconn; c_writer_tunnel = s.c_tconn; c_pump =
       s.c_pump; c_inbuf = s.c_inbuf; c_dropped = s.c_dropped }
   | MSent _ -> None)
| CPumpRead n0 ->
  (match s.c_conn with
   | Some k ->
     if (&&)
          ((&&) ((&&) ((&&) s.c_pump (negb k.k_closed)) (Nat.leb (S O) n0))
            (Nat.leb n0 (length k.k_rx)))
          (N.leb (N.of_nat n0) tunnel_pump_bufsize)
     then let (ib, dr) =
            add_received s.c_tconnected (SrcConn O) (firstn n0 k.k_rx)
              s.c_inbuf s.c_dropped
          in
          Some { c_conn = (Some (set_rx (skipn n0 k.k_rx) k)); c_kpc =
          s.c_kpc; c_chan = s.c_chan; c_spc = s.c_spc; c_timer = s.c_timer;
          c_timedout = s.c_timedout; c_wg_done = s.c_wg_done; c_mpc =
          s.c_mpc; c_tconn = s.c_tconn; c_tconnected = s.c_tconnected;
          c_writer_tunnel = s.c_writer_tunnel; c_pump = s.c_pump; c_inbuf =
          ib; c_dropped = dr }
     else None
   | None -> None)
| CInband bs ->
  let (ib, dr) =
    add_received s.c_tconnected SrcInband bs s.c_inbuf s.c_dropped
  in
  Some { c_conn = s.c_conn; c_kpc = s.c_kpc; c_chan = s.c_chan; c_spc =
  s.c_spc; c_timer = s.c_timer; c_timedout = s.c_timedout; c_wg_done =
  s.c_wg_done; c_mpc = s.c_mpc; c_tconn = s.c_tconn; c_tconnected =
  s.c_tconnected; c_writer_tunnel = s.c_writer_tunnel; c_pump = s.c_pump;
  c_inbuf = ib; c_dropped = dr }
| CCleanup ->
  if s.c_tconn
  then (match s.c_conn with
        | Some k -> Some (cset s (Some (set_closed k)) s.c_kpc s.c_chan)
        | None -> Some s)
  else Some s

(** val first_some : (nat -> 'a1 option) -> nat list -> 'a1 option **)

let rec first_some f = function
| [] -> None
| c :: r -> (match f c with
             | Some x -> Some x
             | None -> first_some f r)

(** val pending_idx : sstate -> nat list **)

let pending_idx s =
  filter (fun c ->
    match nth_error s.s_conns c with
    | Some k -> (match k.k_pc with
                 | HPending -> true
                 | _ -> false)
    | None -> false) (seq O (length s.s_conns))

(** val sched_once : n list -> n list -> sstate -> sstate option **)

let sched_once ch sh s =
  match sstep ch sh s LCheck with
  | Some s' -> Some s'
  | None ->
    (match first_some (fun c -> sstep ch sh s (LAccept c)) (pending_idx s) with
     | Some s' -> Some s'
     | None ->
       (match sstep ch sh s LAcceptErr with
        | Some s' -> Some s'
        | None ->
          first_some (fun c -> sstep ch sh s (LHandler c))
            (seq O (length s.s_conns))))

(** val settle_fuel : sstate -> nat **)

let settle_fuel s =
  add (S (S (S (S (S (S (S (S (S (S (S (S (S (S (S (S O))))))))))))))))
    (mul (S (S (S (S (S (S (S (S O)))))))) (length s.s_conns))

type cobs =
| ObsRefused
| ObsOpenSilent
| ObsClosedSilent
| ObsReplied of n list * bool

(** val observe : conn -> cobs **)

let observe k =
  match k.k_pc with
  | HRefused -> ObsRefused
  | _ ->
    (match k.k_tx with
     | [] -> if k.k_closed then ObsClosedSilent else ObsOpenSilent
     | n0 :: l -> ObsReplied ((n0 :: l), k.k_closed))

type coutcome =
| CoNil
| CoConn of bool * bool * n list option

(** val client_labels : coutcome -> clabel list **)

let client_labels = function
| CoNil -> (CConnector None) :: (CSelChan :: (CMain :: (CMain :: [])))
| CoConn (late, wfail, reply) ->
  if late
  then CTimer :: (CSelTimer :: (CMain :: (CMain :: [])))
  else if wfail
       then (CConnector (Some [])) :: ((CK (false, false)) :: ((CK (false,
              true)) :: (CSelChan :: (CMain :: (CMain :: [])))))
       else (match reply with
             | Some r ->
               (CConnector (Some ((PWrite r) :: []))) :: ((CK (false,
                 false)) :: ((CK (false, false)) :: (CPeer :: ((CK (false,
                 false)) :: ((CK (false, false)) :: ((CK (false,
                 false)) :: (CSelChan :: (CS :: (CS :: (CMain :: (CMain :: [])))))))))))
             | None ->
               (CConnector (Some (PClose :: []))) :: ((CK (false,
                 false)) :: ((CK (false, false)) :: (CPeer :: ((CK (false,
                 false)) :: ((CK (false,
                 false)) :: (CSelChan :: (CMain :: (CMain :: [])))))))))

(** val crun_skip : n list -> n list -> cstate -> clabel list -> cstate **)

let rec crun_skip ch sh s = function
| [] -> s
| l :: r ->
  (match cstep ch sh s l with
   | Some s' -> crun_skip ch sh s' r
   | None -> crun_skip ch sh s r)

(** val client_decides : n list -> z -> coutcome -> bool option **)

let client_decides uid port o =
  match (crun_skip (client_hello uid port) (server_hello uid port) c_init
          (client_labels o)).c_mpc with
  | MSent tun -> Some tun
  | _ -> None

type rev =
| RConnect
| RWrite of nat * n list
| RClose of nat
| RInband of n list
| RAct of bool
| RCleanup

(** val pump_all : n list -> n list -> sstate -> nat -> sstate option **)

let pump_all ch sh s c =
  match nth_error s.s_conns c with
  | Some k ->
    sstep ch sh s (LPump (c,
      (Nat.min (length k.k_rx) (N.to_nat tunnel_pump_bufsize))))
  | None -> None

(** val rsched_once : n list -> n list -> sstate -> sstate option **)

let rsched_once ch sh s =
  match sched_once ch sh s with
  | Some s' -> Some s'
  | None -> first_some (pump_all ch sh s) (seq O (length s.s_conns))

(** val rsettle : nat -> n list -> n list -> sstate -> sstate **)

let rec rsettle fuel ch sh s =
  match fuel with
  | O -> s
  | S f ->
    (match rsched_once ch sh s with
     | Some s' -> rsettle f ch sh s'
     | None -> s)

(** val push_script : nat -> pev -> sstate -> sstate **)

let push_script c e s =
  with_conns s
    (upd c (fun k -> { k_script = (app k.k_script (e :: [])); k_rx = k.k_rx;
      k_eof = k.k_eof; k_pc = k.k_pc; k_first = k.k_first; k_tx = k.k_tx;
      k_closed = k.k_closed; k_won = k.k_won; k_pump = k.k_pump }) s.s_conns)

(** val or_same : sstate -> sstate option -> sstate **)

let or_same s = function
| Some s' -> s'
| None -> s

(** val rapply : n list -> n list -> sstate -> rev -> sstate **)

let rapply ch sh s e =
  let s1 =
    match e with
    | RConnect -> or_same s (sstep ch sh s (LConnect []))
    | RWrite (c, bs) ->
      let s0 = push_script c (PWrite bs) s in
      or_same s0 (sstep ch sh s0 (LPeer c))
    | RClose c ->
      let s0 = push_script c PClose s in or_same s0 (sstep ch sh s0 (LPeer c))
    | RInband bs -> or_same s (sstep ch sh s (LInband bs))
    | RAct tun -> or_same s (sstep ch sh s (LAct tun))
    | RCleanup -> or_same s (sstep ch sh s LCleanup)
  in
  rsettle
    (add (settle_fuel s1)
      (mul (S (S (S (S O))))
        (length (concat (map (fun c -> c.k_rx) s1.s_conns))))) ch sh s1

(** val rreplay : n list -> z -> rev list -> sstate **)

let rreplay uid port evs =
  fold_left (rapply (client_hello uid port) (server_hello uid port)) evs
    s_init
