
(** val negb : bool -> bool **)

let negb = function
| true -> false
| false -> true

type nat =
| O
| S of nat

type ('a, 'b) sum =
| Inl of 'a
| Inr of 'b

(** val fst : ('a1 * 'a2) -> 'a1 **)

let fst = function
| (x, _) -> x

(** val snd : ('a1 * 'a2) -> 'a2 **)

let snd = function
| (_, y) -> y

(** val length : 'a1 list -> nat **)

let rec length = function
| [] -> O
| _ :: l' -> S (length l')

(** val app : 'a1 list -> 'a1 list -> 'a1 list **)

let rec app l m =
  match l with
  | [] -> m
  | a :: l1 -> a :: (app l1 m)

type comparison =
| Eq
| Lt
| Gt

(** val compOpp : comparison -> comparison **)

let compOpp = function
| Eq -> Eq
| Lt -> Gt
| Gt -> Lt

module Coq__1 = struct
 (** val add : nat -> nat -> nat **)
 let rec add n0 m =
   match n0 with
   | O -> m
   | S p -> S (add p m)
end
include Coq__1

type positive =
| XI of positive
| XO of positive
| XH

type n =
| N0
| Npos of positive

type z =
| Z0
| Zpos of positive
| Zneg of positive

module Nat =
 struct
  (** val leb : nat -> nat -> bool **)

  let rec leb n0 m =
    match n0 with
    | O -> true
    | S n' -> (match m with
               | O -> false
               | S m' -> leb n' m')

  (** val ltb : nat -> nat -> bool **)

  let ltb n0 m =
    leb (S n0) m
 end

module Pos =
 struct
  type mask =
  | IsNul
  | IsPos of positive
  | IsNeg
 end

module Coq_Pos =
 struct
  (** val succ : positive -> positive **)

  let rec succ = function
  | XI p -> XO (succ p)
  | XO p -> XI p
  | XH -> XO XH

  (** val add : positive -> positive -> positive **)

  let rec add x y =
    match x with
    | XI p ->
      (match y with
       | XI q -> XO (add_carry p q)
       | XO q -> XI (add p q)
       | XH -> XO (succ p))
    | XO p ->
      (match y with
       | XI q -> XI (add p q)
       | XO q -> XO (add p q)
       | XH -> XI p)
    | XH -> (match y with
             | XI q -> XO (succ q)
             | XO q -> XI q
             | XH -> XO XH)

  (** val add_carry : positive -> positive -> positive **)

  and add_carry x y =
    match x with
    | XI p ->
      (match y with
       | XI q -> XI (add_carry p q)
       | XO q -> XO (add_carry p q)
       | XH -> XI (succ p))
    | XO p ->
      (match y with
       | XI q -> XO (add_carry p q)
       | XO q -> XI (add p q)
       | XH -> XO (succ p))
    | XH ->
      (match y with
       | XI q -> XI (succ q)
       | XO q -> XO (succ q)
       | XH -> XI XH)

  (** val pred_double : positive -> positive **)

  let rec pred_double = function
  | XI p -> XI (XO p)
  | XO p -> XI (pred_double p)
  | XH -> XH

  type mask = Pos.mask =
  | IsNul
  | IsPos of positive
  | IsNeg

  (** val succ_double_mask : mask -> mask **)

  let succ_double_mask = function
  | IsNul -> IsPos XH
  | IsPos p -> IsPos (XI p)
  | IsNeg -> IsNeg

  (** val double_mask : mask -> mask **)

  let double_mask = function
  | IsPos p -> IsPos (XO p)
  | x0 -> x0

  (** val double_pred_mask : positive -> mask **)

  let double_pred_mask = function
  | XI p -> IsPos (XO (XO p))
  | XO p -> IsPos (XO (pred_double p))
  | XH -> IsNul

  (** val sub_mask : positive -> positive -> mask **)

  let rec sub_mask x y =
    match x with
    | XI p ->
      (match y with
       | XI q -> double_mask (sub_mask p q)
       | XO q -> succ_double_mask (sub_mask p q)
       | XH -> IsPos (XO p))
    | XO p ->
      (match y with
       | XI q -> succ_double_mask (sub_mask_carry p q)
       | XO q -> double_mask (sub_mask p q)
       | XH -> IsPos (pred_double p))
    | XH -> (match y with
             | XH -> IsNul
             | _ -> IsNeg)

  (** val sub_mask_carry : positive -> positive -> mask **)

  and sub_mask_carry x y =
    match x with
    | XI p ->
      (match y with
       | XI q -> succ_double_mask (sub_mask_carry p q)
       | XO q -> double_mask (sub_mask p q)
       | XH -> IsPos (pred_double p))
    | XO p ->
      (match y with
       | XI q -> double_mask (sub_mask_carry p q)
       | XO q -> succ_double_mask (sub_mask_carry p q)
       | XH -> double_pred_mask p)
    | XH -> IsNeg

  (** val mul : positive -> positive -> positive **)

  let rec mul x y =
    match x with
    | XI p -> add y (XO (mul p y))
    | XO p -> XO (mul p y)
    | XH -> y

  (** val compare_cont : comparison -> positive -> positive -> comparison **)

  let rec compare_cont r x y =
    match x with
    | XI p ->
      (match y with
       | XI q -> compare_cont r p q
       | XO q -> compare_cont Gt p q
       | XH -> Gt)
    | XO p ->
      (match y with
       | XI q -> compare_cont Lt p q
       | XO q -> compare_cont r p q
       | XH -> Gt)
    | XH -> (match y with
             | XH -> r
             | _ -> Lt)

  (** val compare : positive -> positive -> comparison **)

  let compare =
    compare_cont Eq

  (** val eqb : positive -> positive -> bool **)

  let rec eqb p q =
    match p with
    | XI p0 -> (match q with
                | XI q0 -> eqb p0 q0
                | _ -> false)
    | XO p0 -> (match q with
                | XO q0 -> eqb p0 q0
                | _ -> false)
    | XH -> (match q with
             | XH -> true
             | _ -> false)

  (** val iter_op : ('a1 -> 'a1 -> 'a1) -> positive -> 'a1 -> 'a1 **)

  let rec iter_op op p a =
    match p with
    | XI p0 -> op a (iter_op op p0 (op a a))
    | XO p0 -> iter_op op p0 (op a a)
    | XH -> a

  (** val to_nat : positive -> nat **)

  let to_nat x =
    iter_op Coq__1.add x (S O)

  (** val of_succ_nat : nat -> positive **)

  let rec of_succ_nat = function
  | O -> XH
  | S x -> succ (of_succ_nat x)
 end

module N =
 struct
  (** val succ_double : n -> n **)

  let succ_double = function
  | N0 -> Npos XH
  | Npos p -> Npos (XI p)

  (** val double : n -> n **)

  let double = function
  | N0 -> N0
  | Npos p -> Npos (XO p)

  (** val add : n -> n -> n **)

  let add n0 m =
    match n0 with
    | N0 -> m
    | Npos p -> (match m with
                 | N0 -> n0
                 | Npos q -> Npos (Coq_Pos.add p q))

  (** val sub : n -> n -> n **)

  let sub n0 m =
    match n0 with
    | N0 -> N0
    | Npos n' ->
      (match m with
       | N0 -> n0
       | Npos m' ->
         (match Coq_Pos.sub_mask n' m' with
          | Coq_Pos.IsPos p -> Npos p
          | _ -> N0))

  (** val mul : n -> n -> n **)

  let mul n0 m =
    match n0 with
    | N0 -> N0
    | Npos p -> (match m with
                 | N0 -> N0
                 | Npos q -> Npos (Coq_Pos.mul p q))

  (** val compare : n -> n -> comparison **)

  let compare n0 m =
    match n0 with
    | N0 -> (match m with
             | N0 -> Eq
             | Npos _ -> Lt)
    | Npos n' -> (match m with
                  | N0 -> Gt
                  | Npos m' -> Coq_Pos.compare n' m')

  (** val eqb : n -> n -> bool **)

  let eqb n0 m =
    match n0 with
    | N0 -> (match m with
             | N0 -> true
             | Npos _ -> false)
    | Npos p -> (match m with
                 | N0 -> false
                 | Npos q -> Coq_Pos.eqb p q)

  (** val leb : n -> n -> bool **)

  let leb x y =
    match compare x y with
    | Gt -> false
    | _ -> true

  (** val ltb : n -> n -> bool **)

  let ltb x y =
    match compare x y with
    | Lt -> true
    | _ -> false

  (** val pos_div_eucl : positive -> n -> n * n **)

  let rec pos_div_eucl a b =
    match a with
    | XI a' ->
      let (q, r) = pos_div_eucl a' b in
      let r' = succ_double r in
      if leb b r' then ((succ_double q), (sub r' b)) else ((double q), r')
    | XO a' ->
      let (q, r) = pos_div_eucl a' b in
      let r' = double r in
      if leb b r' then ((succ_double q), (sub r' b)) else ((double q), r')
    | XH ->
      (match b with
       | N0 -> (N0, (Npos XH))
       | Npos p -> (match p with
                    | XH -> ((Npos XH), N0)
                    | _ -> (N0, (Npos XH))))

  (** val div_eucl : n -> n -> n * n **)

  let div_eucl a b =
    match a with
    | N0 -> (N0, N0)
    | Npos na -> (match b with
                  | N0 -> (N0, a)
                  | Npos _ -> pos_div_eucl na b)

  (** val div : n -> n -> n **)

  let div a b =
    fst (div_eucl a b)

  (** val modulo : n -> n -> n **)

  let modulo a b =
    snd (div_eucl a b)

  (** val to_nat : n -> nat **)

  let to_nat = function
  | N0 -> O
  | Npos p -> Coq_Pos.to_nat p

  (** val of_nat : nat -> n **)

  let of_nat = function
  | O -> N0
  | S n' -> Npos (Coq_Pos.of_succ_nat n')
 end

module Z =
 struct
  (** val double : z -> z **)

  let double = function
  | Z0 -> Z0
  | Zpos p -> Zpos (XO p)
  | Zneg p -> Zneg (XO p)

  (** val succ_double : z -> z **)

  let succ_double = function
  | Z0 -> Zpos XH
  | Zpos p -> Zpos (XI p)
  | Zneg p -> Zneg (Coq_Pos.pred_double p)

  (** val pred_double : z -> z **)

  let pred_double = function
  | Z0 -> Zneg XH
  | Zpos p -> Zpos (Coq_Pos.pred_double p)
  | Zneg p -> Zneg (XI p)

  (** val pos_sub : positive -> positive -> z **)

  let rec pos_sub x y =
    match x with
    | XI p ->
      (match y with
       | XI q -> double (pos_sub p q)
       | XO q -> succ_double (pos_sub p q)
       | XH -> Zpos (XO p))
    | XO p ->
      (match y with
       | XI q -> pred_double (pos_sub p q)
       | XO q -> double (pos_sub p q)
       | XH -> Zpos (Coq_Pos.pred_double p))
    | XH ->
      (match y with
       | XI q -> Zneg (XO q)
       | XO q -> Zneg (Coq_Pos.pred_double q)
       | XH -> Z0)

  (** val add : z -> z -> z **)

  let add x y =
    match x with
    | Z0 -> y
    | Zpos x' ->
      (match y with
       | Z0 -> x
       | Zpos y' -> Zpos (Coq_Pos.add x' y')
       | Zneg y' -> pos_sub x' y')
    | Zneg x' ->
      (match y with
       | Z0 -> x
       | Zpos y' -> pos_sub y' x'
       | Zneg y' -> Zneg (Coq_Pos.add x' y'))

  (** val opp : z -> z **)

  let opp = function
  | Z0 -> Z0
  | Zpos x0 -> Zneg x0
  | Zneg x0 -> Zpos x0

  (** val sub : z -> z -> z **)

  let sub m n0 =
    add m (opp n0)

  (** val mul : z -> z -> z **)

  let mul x y =
    match x with
    | Z0 -> Z0
    | Zpos x' ->
      (match y with
       | Z0 -> Z0
       | Zpos y' -> Zpos (Coq_Pos.mul x' y')
       | Zneg y' -> Zneg (Coq_Pos.mul x' y'))
    | Zneg x' ->
      (match y with
       | Z0 -> Z0
       | Zpos y' -> Zneg (Coq_Pos.mul x' y')
       | Zneg y' -> Zpos (Coq_Pos.mul x' y'))

  (** val compare : z -> z -> comparison **)

  let compare x y =
    match x with
    | Z0 -> (match y with
             | Z0 -> Eq
             | Zpos _ -> Lt
             | Zneg _ -> Gt)
    | Zpos x' -> (match y with
                  | Zpos y' -> Coq_Pos.compare x' y'
                  | _ -> Gt)
    | Zneg x' ->
      (match y with
       | Zneg y' -> compOpp (Coq_Pos.compare x' y')
       | _ -> Lt)

  (** val leb : z -> z -> bool **)

  let leb x y =
    match compare x y with
    | Gt -> false
    | _ -> true

  (** val ltb : z -> z -> bool **)

  let ltb x y =
    match compare x y with
    | Lt -> true
    | _ -> false

  (** val to_nat : z -> nat **)

  let to_nat = function
  | Zpos p -> Coq_Pos.to_nat p
  | _ -> O

  (** val to_N : z -> n **)

  let to_N = function
  | Zpos p -> Npos p
  | _ -> N0

  (** val of_nat : nat -> z **)

  let of_nat = function
  | O -> Z0
  | S n1 -> Zpos (Coq_Pos.of_succ_nat n1)

  (** val of_N : n -> z **)

  let of_N = function
  | N0 -> Z0
  | Npos p -> Zpos p

  (** val pos_div_eucl : positive -> z -> z * z **)

  let rec pos_div_eucl a b =
    match a with
    | XI a' ->
      let (q, r) = pos_div_eucl a' b in
      let r' = add (mul (Zpos (XO XH)) r) (Zpos XH) in
      if ltb r' b
      then ((mul (Zpos (XO XH)) q), r')
      else ((add (mul (Zpos (XO XH)) q) (Zpos XH)), (sub r' b))
    | XO a' ->
      let (q, r) = pos_div_eucl a' b in
      let r' = mul (Zpos (XO XH)) r in
      if ltb r' b
      then ((mul (Zpos (XO XH)) q), r')
      else ((add (mul (Zpos (XO XH)) q) (Zpos XH)), (sub r' b))
    | XH -> if leb (Zpos (XO XH)) b then (Z0, (Zpos XH)) else ((Zpos XH), Z0)

  (** val div_eucl : z -> z -> z * z **)

  let div_eucl a b =
    match a with
    | Z0 -> (Z0, Z0)
    | Zpos a' ->
      (match b with
       | Z0 -> (Z0, a)
       | Zpos _ -> pos_div_eucl a' b
       | Zneg b' ->
         let (q, r) = pos_div_eucl a' (Zpos b') in
         (match r with
          | Z0 -> ((opp q), Z0)
          | _ -> ((opp (add q (Zpos XH))), (add b r))))
    | Zneg a' ->
      (match b with
       | Z0 -> (Z0, a)
       | Zpos _ ->
         let (q, r) = pos_div_eucl a' b in
         (match r with
          | Z0 -> ((opp q), Z0)
          | _ -> ((opp (add q (Zpos XH))), (sub b r)))
       | Zneg b' -> let (q, r) = pos_div_eucl a' (Zpos b') in (q, (opp r)))

  (** val div : z -> z -> z **)

  let div a b =
    let (q, _) = div_eucl a b in q

  (** val modulo : z -> z -> z **)

  let modulo a b =
    let (_, r) = div_eucl a b in r
 end

(** val tl : 'a1 list -> 'a1 list **)

let tl = function
| [] -> []
| _ :: m -> m

(** val nth_error : 'a1 list -> nat -> 'a1 option **)

let rec nth_error l = function
| O -> (match l with
        | [] -> None
        | x :: _ -> Some x)
| S n1 -> (match l with
           | [] -> None
           | _ :: l0 -> nth_error l0 n1)

(** val rev : 'a1 list -> 'a1 list **)

let rec rev = function
| [] -> []
| x :: l' -> app (rev l') (x :: [])

(** val concat : 'a1 list list -> 'a1 list **)

let rec concat = function
| [] -> []
| x :: l0 -> app x (concat l0)

(** val map : ('a1 -> 'a2) -> 'a1 list -> 'a2 list **)

let rec map f = function
| [] -> []
| a :: t -> (f a) :: (map f t)

(** val existsb : ('a1 -> bool) -> 'a1 list -> bool **)

let rec existsb f = function
| [] -> false
| a :: l0 -> (||) (f a) (existsb f l0)

(** val forallb : ('a1 -> bool) -> 'a1 list -> bool **)

let rec forallb f = function
| [] -> true
| a :: l0 -> (&&) (f a) (forallb f l0)

(** val firstn : nat -> 'a1 list -> 'a1 list **)

let rec firstn n0 l =
  match n0 with
  | O -> []
  | S n1 -> (match l with
             | [] -> []
             | a :: l0 -> a :: (firstn n1 l0))

(** val skipn : nat -> 'a1 list -> 'a1 list **)

let rec skipn n0 l =
  match n0 with
  | O -> l
  | S n1 -> (match l with
             | [] -> []
             | _ :: l0 -> skipn n1 l0)

type byte = n

(** val list_eqb : n list -> n list -> bool **)

let rec list_eqb a b =
  match a with
  | [] -> (match b with
           | [] -> true
           | _ :: _ -> false)
  | x :: a' ->
    (match b with
     | [] -> false
     | y :: b' -> (&&) (N.eqb x y) (list_eqb a' b'))

(** val has_prefix : n list -> n list -> bool **)

let rec has_prefix p l =
  match p with
  | [] -> true
  | x :: p' ->
    (match l with
     | [] -> false
     | y :: l' -> (&&) (N.eqb x y) (has_prefix p' l'))

(** val index_of : n list -> n list -> nat option **)

let rec index_of pat l =
  if has_prefix pat l
  then Some O
  else (match l with
        | [] -> None
        | _ :: l' ->
          (match index_of pat l' with
           | Some i -> Some (S i)
           | None -> None))

(** val contains : n list -> n list -> bool **)

let contains pat l =
  match index_of pat l with
  | Some _ -> true
  | None -> false

(** val index_byte : n -> n list -> nat option **)

let rec index_byte b = function
| [] -> None
| x :: l' ->
  if N.eqb x b
  then Some O
  else (match index_byte b l' with
        | Some i -> Some (S i)
        | None -> None)

(** val escape_leader : n **)

let escape_leader =
  Npos (XO (XI (XI (XI (XO (XI (XI XH)))))))

(** val escape_base_json : (n list * n list) list **)

let escape_base_json =
  (((Npos (XO (XI (XI (XI (XO (XI (XI XH)))))))) :: []), ((Npos (XO (XI (XI
    (XI (XO (XI (XI XH)))))))) :: ((Npos (XO (XI (XI (XI (XO (XI (XI
    XH)))))))) :: []))) :: ((((Npos (XO (XI (XI (XI (XI (XI XH))))))) :: []),
    ((Npos (XO (XI (XI (XI (XO (XI (XI XH)))))))) :: ((Npos (XI (XO (XO (XO
    (XI XH)))))) :: []))) :: [])

(** val escape_all_chars : n list **)

let escape_all_chars =
  (Npos (XO XH)) :: ((Npos (XI (XO (XI XH)))) :: ((Npos (XO (XO (XO (XO
    XH))))) :: ((Npos (XI (XO (XO (XO XH))))) :: ((Npos (XI (XI (XO (XO
    XH))))) :: ((Npos (XO (XO (XO (XI XH))))) :: ((Npos (XI (XI (XO (XI
    XH))))) :: ((Npos (XI (XO (XI (XI XH))))) :: ((Npos (XI (XO (XI (XI (XO
    (XO (XO XH)))))))) :: ((Npos (XO (XO (XO (XO (XI (XO (XO
    XH)))))))) :: ((Npos (XI (XO (XO (XO (XI (XO (XO XH)))))))) :: ((Npos (XI
    (XI (XO (XO (XI (XO (XO XH)))))))) :: ((Npos (XI (XO (XI (XI (XI (XO (XO
    XH)))))))) :: []))))))))))))

(** val escape_all_first_code : n **)

let escape_all_first_code =
  Npos (XI (XO (XO (XO (XO (XO XH))))))

(** val osc52_prefix : n list **)

let osc52_prefix =
  (Npos (XI (XI (XO (XI XH))))) :: ((Npos (XI (XO (XI (XI (XI (XO
    XH))))))) :: ((Npos (XI (XO (XI (XO (XI XH)))))) :: ((Npos (XO (XI (XO
    (XO (XI XH)))))) :: ((Npos (XI (XI (XO (XI (XI XH)))))) :: []))))

(** val osc52_terms : n list **)

let osc52_terms =
  (Npos (XI (XI XH))) :: ((Npos (XI (XI (XO (XI XH))))) :: [])

(** val osc52_kind_c : n **)

let osc52_kind_c =
  Npos (XI (XI (XO (XO (XO (XI XH))))))

(** val osc52_kind_p : n **)

let osc52_kind_p =
  Npos (XO (XO (XO (XO (XI (XI XH))))))

(** val osc52_sep : n **)

let osc52_sep =
  Npos (XI (XI (XO (XI (XI XH)))))

(** val osc52_limit : n **)

let osc52_limit =
  Npos (XO (XO (XO (XO (XO (XI (XO (XI (XO (XI (XI (XO (XO (XO (XO (XI
    XH))))))))))))))))

(** val osc52_hdr_skip : n **)

let osc52_hdr_skip =
  Npos (XI (XO XH))

(** val osc52_kind_len : n **)

let osc52_kind_len =
  Npos (XO XH)

(** val osc52_b64_ranges : (n * n) list **)

let osc52_b64_ranges =
  ((Npos (XI (XO (XO (XO (XO (XO XH))))))), (Npos (XO (XI (XO (XI (XI (XO
    XH)))))))) :: (((Npos (XI (XO (XO (XO (XO (XI XH))))))), (Npos (XO (XI
    (XO (XI (XI (XI XH)))))))) :: (((Npos (XO (XO (XO (XO (XI XH)))))), (Npos
    (XI (XO (XO (XI (XI XH))))))) :: (((Npos (XI (XI (XO (XI (XO XH)))))),
    (Npos (XI (XI (XO (XI (XO XH))))))) :: (((Npos (XI (XI (XI (XI (XO
    XH)))))), (Npos (XI (XI (XI (XI (XO XH))))))) :: (((Npos (XI (XO (XI (XI
    (XI XH)))))), (Npos (XI (XO (XI (XI (XI XH))))))) :: [])))))

(** val drag_paste_probe : n list **)

let drag_paste_probe =
  (Npos (XI (XI (XO (XI XH))))) :: ((Npos (XI (XI (XO (XI (XI (XO
    XH))))))) :: ((Npos (XO (XI (XO (XO (XI XH)))))) :: ((Npos (XO (XO (XO
    (XO (XI XH)))))) :: [])))

(** val drag_paste_begin : n list **)

let drag_paste_begin =
  (Npos (XI (XI (XO (XI XH))))) :: ((Npos (XI (XI (XO (XI (XI (XO
    XH))))))) :: ((Npos (XO (XI (XO (XO (XI XH)))))) :: ((Npos (XO (XO (XO
    (XO (XI XH)))))) :: ((Npos (XO (XO (XO (XO (XI XH)))))) :: ((Npos (XO (XI
    (XI (XI (XI (XI XH))))))) :: [])))))

(** val drag_paste_end : n list **)

let drag_paste_end =
  (Npos (XI (XI (XO (XI XH))))) :: ((Npos (XI (XI (XO (XI (XI (XO
    XH))))))) :: ((Npos (XO (XI (XO (XO (XI XH)))))) :: ((Npos (XO (XO (XO
    (XO (XI XH)))))) :: ((Npos (XI (XO (XO (XO (XI XH)))))) :: ((Npos (XO (XI
    (XI (XI (XI (XI XH))))))) :: [])))))

(** val drag_paste_minlen : n **)

let drag_paste_minlen =
  Npos (XI (XO XH))

(** val drag_quote : n **)

let drag_quote =
  Npos (XI (XI (XI (XO (XO XH)))))

(** val drag_slash : n **)

let drag_slash =
  Npos (XI (XI (XI (XI (XO XH)))))

(** val drag_space : n **)

let drag_space =
  Npos (XO (XO (XO (XO (XO XH)))))

(** val drag_min_len : n **)

let drag_min_len =
  Npos (XI XH)

(** val trace_enable_marker : n list **)

let trace_enable_marker =
  (Npos (XO (XO (XI (XI (XI XH)))))) :: ((Npos (XI (XO (XI (XO (XO (XO
    XH))))))) :: ((Npos (XO (XI (XI (XI (XO (XO XH))))))) :: ((Npos (XI (XO
    (XO (XO (XO (XO XH))))))) :: ((Npos (XO (XI (XO (XO (XO (XO
    XH))))))) :: ((Npos (XO (XO (XI (XI (XO (XO XH))))))) :: ((Npos (XI (XO
    (XI (XO (XO (XO XH))))))) :: ((Npos (XI (XI (XI (XI (XI (XO
    XH))))))) :: ((Npos (XO (XO (XI (XO (XI (XO XH))))))) :: ((Npos (XO (XI
    (XO (XO (XI (XO XH))))))) :: ((Npos (XO (XI (XO (XI (XI (XO
    XH))))))) :: ((Npos (XI (XI (XO (XO (XI (XO XH))))))) :: ((Npos (XO (XI
    (XO (XI (XI (XO XH))))))) :: ((Npos (XI (XI (XI (XI (XI (XO
    XH))))))) :: ((Npos (XO (XO (XI (XO (XI (XO XH))))))) :: ((Npos (XO (XI
    (XO (XO (XI (XO XH))))))) :: ((Npos (XI (XO (XO (XO (XO (XO
    XH))))))) :: ((Npos (XI (XI (XO (XO (XO (XO XH))))))) :: ((Npos (XI (XO
    (XI (XO (XO (XO XH))))))) :: ((Npos (XI (XI (XI (XI (XI (XO
    XH))))))) :: ((Npos (XO (XO (XI (XI (XO (XO XH))))))) :: ((Npos (XI (XI
    (XI (XI (XO (XO XH))))))) :: ((Npos (XI (XI (XI (XO (XO (XO
    XH))))))) :: ((Npos (XO (XI (XI (XI (XI
    XH)))))) :: [])))))))))))))))))))))))

(** val trace_disable_marker : n list **)

let trace_disable_marker =
  (Npos (XO (XO (XI (XI (XI XH)))))) :: ((Npos (XO (XO (XI (XO (XO (XO
    XH))))))) :: ((Npos (XI (XO (XO (XI (XO (XO XH))))))) :: ((Npos (XI (XI
    (XO (XO (XI (XO XH))))))) :: ((Npos (XI (XO (XO (XO (XO (XO
    XH))))))) :: ((Npos (XO (XI (XO (XO (XO (XO XH))))))) :: ((Npos (XO (XO
    (XI (XI (XO (XO XH))))))) :: ((Npos (XI (XO (XI (XO (XO (XO
    XH))))))) :: ((Npos (XI (XI (XI (XI (XI (XO XH))))))) :: ((Npos (XO (XO
    (XI (XO (XI (XO XH))))))) :: ((Npos (XO (XI (XO (XO (XI (XO
    XH))))))) :: ((Npos (XO (XI (XO (XI (XI (XO XH))))))) :: ((Npos (XI (XI
    (XO (XO (XI (XO XH))))))) :: ((Npos (XO (XI (XO (XI (XI (XO
    XH))))))) :: ((Npos (XI (XI (XI (XI (XI (XO XH))))))) :: ((Npos (XO (XO
    (XI (XO (XI (XO XH))))))) :: ((Npos (XO (XI (XO (XO (XI (XO
    XH))))))) :: ((Npos (XI (XO (XO (XO (XO (XO XH))))))) :: ((Npos (XI (XI
    (XO (XO (XO (XO XH))))))) :: ((Npos (XI (XO (XI (XO (XO (XO
    XH))))))) :: ((Npos (XI (XI (XI (XI (XI (XO XH))))))) :: ((Npos (XO (XO
    (XI (XI (XO (XO XH))))))) :: ((Npos (XI (XI (XI (XI (XO (XO
    XH))))))) :: ((Npos (XI (XI (XI (XO (XO (XO XH))))))) :: ((Npos (XO (XI
    (XI (XI (XI XH)))))) :: []))))))))))))))))))))))))

(** val show_cursor_seq : n list **)

let show_cursor_seq =
  (Npos (XI (XI (XO (XI XH))))) :: ((Npos (XI (XI (XO (XI (XI (XO
    XH))))))) :: ((Npos (XI (XI (XI (XI (XI XH)))))) :: ((Npos (XO (XI (XO
    (XO (XI XH)))))) :: ((Npos (XI (XO (XI (XO (XI XH)))))) :: ((Npos (XO (XO
    (XO (XI (XO (XI XH))))))) :: [])))))

(** val hide_cursor_seq : n list **)

let hide_cursor_seq =
  (Npos (XI (XI (XO (XI XH))))) :: ((Npos (XI (XI (XO (XI (XI (XO
    XH))))))) :: ((Npos (XI (XI (XI (XI (XI XH)))))) :: ((Npos (XO (XI (XO
    (XO (XI XH)))))) :: ((Npos (XI (XO (XI (XO (XI XH)))))) :: ((Npos (XO (XO
    (XI (XI (XO (XI XH))))))) :: [])))))

(** val drag_default_cmd : n list **)

let drag_default_cmd =
  (Npos (XO (XO (XI (XO (XI (XI XH))))))) :: ((Npos (XO (XI (XO (XO (XI (XI
    XH))))))) :: ((Npos (XO (XI (XO (XI (XI (XI XH))))))) :: []))

(** val drag_dir_flag : n list **)

let drag_dir_flag =
  (Npos (XO (XO (XO (XO (XO XH)))))) :: ((Npos (XI (XO (XI (XI (XO
    XH)))))) :: ((Npos (XO (XO (XI (XO (XO (XI XH))))))) :: []))

(** val drag_cmd_end : n list **)

let drag_cmd_end =
  (Npos (XI (XO (XI XH)))) :: []

(** val drag_interrupt_byte : n **)

let drag_interrupt_byte =
  Npos (XI XH)

(** val skip_trim_cutset : n list **)

let skip_trim_cutset =
  (Npos (XI (XO (XI XH)))) :: ((Npos (XO (XI (XO XH)))) :: [])

(** val skip_echo_repl : n list **)

let skip_echo_repl =
  (Npos (XI (XO (XI XH)))) :: ((Npos (XO (XI (XO XH)))) :: [])

(** val vt100_esc : n **)

let vt100_esc =
  Npos (XI (XI (XO (XI XH))))

(** val vt100_end_ranges : (n * n) list **)

let vt100_end_ranges =
  ((Npos (XI (XO (XO (XO (XO (XI XH))))))), (Npos (XO (XI (XO (XI (XI (XI
    XH)))))))) :: (((Npos (XI (XO (XO (XO (XO (XO XH))))))), (Npos (XO (XI
    (XO (XI (XI (XO XH)))))))) :: [])

(** val leader : byte **)

let leader =
  escape_leader

type table = (byte * byte) list

(** val esc_code : table -> byte -> byte option **)

let rec esc_code t b =
  match t with
  | [] -> None
  | p :: r ->
    let (s, c) = p in
    (match esc_code r b with
     | Some x -> Some x
     | None -> if N.eqb s b then Some c else None)

(** val unesc_code : table -> byte -> byte option **)

let rec unesc_code t c =
  match t with
  | [] -> None
  | p :: r ->
    let (s, c') = p in
    (match unesc_code r c with
     | Some x -> Some x
     | None -> if N.eqb c' c then Some s else None)

(** val escape : table -> byte list -> byte list **)

let rec escape t = function
| [] -> []
| b :: r ->
  (match esc_code t b with
   | Some c -> leader :: (c :: (escape t r))
   | None -> b :: (escape t r))

type ures =
| UOk of byte list * byte list
| UErr of byte

(** val ucons : byte -> ures -> ures **)

let ucons b = function
| UOk (o, rem) -> UOk ((b :: o), rem)
| UErr c -> UErr c

(** val unesc : table -> byte list -> nat -> ures **)

let rec unesc t data room =
  match data with
  | [] -> UOk ([], [])
  | b :: r ->
    if N.eqb b leader
    then (match r with
          | [] -> UOk ([], (b :: []))
          | c :: r' ->
            (match unesc_code t c with
             | Some s ->
               (match room with
                | O -> UOk ((s :: []), r')
                | S room' ->
                  (match room' with
                   | O -> UOk ((s :: []), r')
                   | S _ -> ucons s (unesc t r' room')))
             | None -> UErr c))
    else (match room with
          | O -> UOk ((b :: []), r)
          | S room' ->
            (match room' with
             | O -> UOk ((b :: []), r)
             | S _ -> ucons b (unesc t r room')))

(** val unescape_data : table -> byte list -> nat -> ures **)

let unescape_data t data dstlen =
  match t with
  | [] -> UOk (data, [])
  | _ :: _ ->
    unesc t data (match dstlen with
                  | O -> length data
                  | S _ -> dstlen)

type rres =
| RData of byte list
| REof
| RErr of byte

(** val er_read :
    table -> byte list -> byte list list -> nat -> rres * (byte list * byte
    list list) **)

let rec er_read t buffer cs size =
  match match buffer with
        | [] -> UOk ([], [])
        | _ :: _ -> unesc t buffer size with
  | UOk (out, rem) ->
    (match out with
     | [] ->
       (match cs with
        | [] -> (REof, (rem, []))
        | c :: cs' -> er_read t (app rem c) cs' size)
     | _ :: _ -> ((RData out), (rem, cs)))
  | UErr c -> ((RErr c), (buffer, cs))

(** val next_size : nat list -> nat -> nat * nat list **)

let next_size sizes dflt =
  match sizes with
  | [] -> (dflt, [])
  | s :: r -> (s, r)

type rend =
| EndEof of byte list
| EndErr of byte
| EndFuel

(** val er_run :
    nat -> table -> byte list -> byte list list -> nat list -> nat -> byte
    list list * rend **)

let rec er_run fuel t buffer cs sizes dflt =
  match fuel with
  | O -> ([], EndFuel)
  | S f ->
    let (size, sizes') = next_size sizes dflt in
    let (r, p) = er_read t buffer cs size in
    (match r with
     | RData out ->
       let (b', cs') = p in
       let (outs, e) = er_run f t b' cs' sizes' dflt in ((out :: outs), e)
     | REof -> let (b', _) = p in ([], (EndEof b'))
     | RErr c -> ([], (EndErr c)))

(** val er_fuel : byte list -> byte list list -> nat **)

let er_fuel buffer cs =
  S (add (length buffer) (length (concat cs)))

(** val ew_write : table -> byte list list -> byte list list **)

let ew_write t chunks =
  map (escape t) chunks

(** val latin1 : n list -> byte list option **)

let latin1 s =
  if forallb (fun c ->
       N.ltb c (Npos (XO (XO (XO (XO (XO (XO (XO (XO XH)))))))))) s
  then Some s
  else None

(** val table_of_json : n list list list -> table option **)

let rec table_of_json = function
| [] -> Some []
| e :: r ->
  (match e with
   | [] -> None
   | a :: l ->
     (match l with
      | [] -> None
      | b :: l0 ->
        (match l0 with
         | [] ->
           (match latin1 a with
            | Some l1 ->
              (match l1 with
               | [] -> None
               | s :: l2 ->
                 (match l2 with
                  | [] ->
                    (match latin1 b with
                     | Some l3 ->
                       (match l3 with
                        | [] -> None
                        | l4 :: l5 ->
                          (match l5 with
                           | [] -> None
                           | c :: l6 ->
                             (match l6 with
                              | [] ->
                                if N.eqb l4 leader
                                then (match table_of_json r with
                                      | Some t -> Some ((s, c) :: t)
                                      | None -> None)
                                else None
                              | _ :: _ -> None)))
                     | None -> None)
                  | _ :: _ -> None))
            | None -> None)
         | _ :: _ -> None)))

(** val escape_all_pairs : n list -> n -> n list list list **)

let rec escape_all_pairs chars code =
  match chars with
  | [] -> []
  | c :: r ->
    ((c :: []) :: ((leader :: (code :: [])) :: [])) :: (escape_all_pairs r
                                                         (N.add code (Npos
                                                           XH)))

(** val builtin_json : bool -> n list list list **)

let builtin_json escape_all =
  app (map (fun p -> (fst p) :: ((snd p) :: [])) escape_base_json)
    (if escape_all
     then escape_all_pairs escape_all_chars escape_all_first_code
     else [])

(** val builtin_table : bool -> table **)

let builtin_table escape_all =
  match table_of_json (builtin_json escape_all) with
  | Some t -> t
  | None -> []

type chunk = n list

type path = n list

type kind =
| KDir
| KRegular
| KOther

(** val in_ranges : (n * n) list -> n -> bool **)

let in_ranges rs b =
  existsb (fun r -> (&&) (N.leb (fst r) b) (N.leb b (snd r))) rs

(** val index_any : n list -> n list -> nat option **)

let rec index_any set = function
| [] -> None
| x :: l' ->
  if existsb (N.eqb x) set
  then Some O
  else (match index_any set l' with
        | Some i -> Some (S i)
        | None -> None)

(** val replace_all_f : nat -> n list -> n list -> n list -> n list **)

let rec replace_all_f fuel pat rep l =
  match fuel with
  | O -> l
  | S f ->
    (match l with
     | [] -> []
     | x :: l' ->
       if has_prefix pat l
       then app rep (replace_all_f f pat rep (skipn (length pat) l))
       else x :: (replace_all_f f pat rep l'))

(** val replace_all : n list -> n list -> n list -> n list **)

let replace_all pat rep l =
  replace_all_f (length l) pat rep l

(** val trim_vt100_f : bool -> n list -> n list **)

let rec trim_vt100_f skip = function
| [] -> []
| c :: l' ->
  if skip
  then trim_vt100_f (negb (in_ranges vt100_end_ranges c)) l'
  else if N.eqb c vt100_esc
       then trim_vt100_f true l'
       else c :: (trim_vt100_f false l')

(** val trim_vt100 : n list -> n list **)

let trim_vt100 l =
  trim_vt100_f false l

(** val trim_right : n list -> n list -> n list **)

let rec trim_right cut = function
| [] -> []
| x :: l' ->
  (match trim_right cut l' with
   | [] -> if existsb (N.eqb x) cut then [] else x :: []
   | n0 :: l0 -> x :: (n0 :: l0))

(** val osc52_bad_b64 : n list -> bool **)

let osc52_bad_b64 l =
  existsb (fun b -> negb (in_ranges osc52_b64_ranges b)) l

(** val osc52_header : nat -> n list -> n list option **)

let rec osc52_header fuel buf =
  match fuel with
  | O -> None
  | S f ->
    (match index_of osc52_prefix buf with
     | Some pos ->
       let b = skipn (add pos (N.to_nat osc52_hdr_skip)) buf in
       if Nat.ltb (length b) (N.to_nat osc52_kind_len)
       then None
       else (match b with
             | [] -> None
             | k :: l ->
               (match l with
                | [] -> None
                | s :: _ ->
                  if (&&)
                       ((||) (N.eqb k osc52_kind_c) (N.eqb k osc52_kind_p))
                       (N.eqb s osc52_sep)
                  then Some (skipn (N.to_nat osc52_kind_len) b)
                  else osc52_header f (skipn (N.to_nat osc52_kind_len) b)))
     | None -> None)

(** val osc52_loop :
    nat -> n list option -> n list -> n list list -> n list option * n list
    list **)

let rec osc52_loop fuel seq buf clips =
  match fuel with
  | O -> (seq, clips)
  | S f ->
    (match buf with
     | [] -> (seq, clips)
     | _ :: _ ->
       (match seq with
        | Some sq ->
          (match index_any osc52_terms buf with
           | Some pos ->
             osc52_loop f None (skipn (S pos) buf)
               (app clips ((app sq (firstn pos buf)) :: []))
           | None ->
             let sq' = app sq buf in
             if (&&) (N.ltb osc52_limit (N.of_nat (length sq')))
                  (osc52_bad_b64 buf)
             then (None, clips)
             else ((Some sq'), clips))
        | None ->
          (match osc52_header (S (length buf)) buf with
           | Some b ->
             (match index_any osc52_terms b with
              | Some pos ->
                osc52_loop f None (skipn (S pos) b)
                  (app clips ((firstn pos b) :: []))
              | None -> ((Some b), clips))
           | None -> (None, clips))))

(** val detect_osc52 :
    n list option -> n list -> n list option * n list list **)

let detect_osc52 seq buf =
  osc52_loop (S (length buf)) seq buf []

type dres = { d_files : (path list * bool) option; d_ignore : bool;
              d_win : bool }

(** val strip_paste : n list -> n list option **)

let strip_paste buf =
  if (&&) (Nat.ltb (N.to_nat drag_paste_minlen) (length buf))
       (contains drag_paste_probe buf)
  then let b =
         replace_all drag_paste_end [] (replace_all drag_paste_begin [] buf)
       in
       (match b with
        | [] -> None
        | _ :: _ -> Some b)
  else Some buf

(** val next_linux_path : n list -> (path * nat) option **)

let next_linux_path buf =
  if Nat.ltb (length buf) (N.to_nat drag_min_len)
  then None
  else (match buf with
        | [] -> None
        | q :: l ->
          (match l with
           | [] -> None
           | s :: _ ->
             if (&&) (N.eqb q drag_quote) (N.eqb s drag_slash)
             then (match index_byte drag_quote (tl buf) with
                   | Some i ->
                     (match nth_error buf (S (S i)) with
                      | Some c ->
                        if N.eqb c drag_space
                        then Some ((firstn i (tl buf)), (add i (S (S (S O)))))
                        else None
                      | None -> None)
                   | None -> None)
             else if N.eqb q drag_slash
                  then (match index_byte drag_space buf with
                        | Some i -> Some ((firstn i buf), (S i))
                        | None -> None)
                  else None))

(** val file_path_ok : (path -> kind option) -> path -> bool option **)

let file_path_ok exists_ p =
  match exists_ p with
  | Some k ->
    (match k with
     | KDir -> Some true
     | KRegular -> Some false
     | KOther -> None)
  | None -> None

(** val linux_loop :
    (path -> kind option) -> nat -> n list -> path list -> bool -> (path
    list * bool) option **)

let rec linux_loop exists_ fuel rest acc has_dir =
  match fuel with
  | O -> None
  | S f ->
    (match rest with
     | [] -> Some ((rev acc), has_dir)
     | _ :: _ ->
       (match next_linux_path rest with
        | Some p0 ->
          let (p, i) = p0 in
          (match p with
           | [] -> None
           | _ :: _ ->
             (match file_path_ok exists_ p with
              | Some d ->
                linux_loop exists_ f (skipn i rest) (p :: acc)
                  ((||) has_dir d)
              | None -> None))
        | None -> None))

(** val last_is : n -> n list -> bool **)

let last_is b l =
  match rev l with
  | [] -> false
  | x :: _ -> N.eqb x b

(** val detect_drag_files_on_linux :
    (path -> kind option) -> n list -> (path list * bool) option **)

let detect_drag_files_on_linux exists_ buf =
  if Nat.ltb (length buf) (N.to_nat drag_min_len)
  then None
  else (match buf with
        | [] -> None
        | q :: l ->
          (match l with
           | [] -> None
           | s :: _ ->
             if (&&)
                  ((||) ((&&) (N.eqb q drag_quote) (N.eqb s drag_slash))
                    (N.eqb q drag_slash)) (last_is drag_space buf)
             then linux_loop exists_ (S (length buf)) buf [] false
             else None))

(** val detect_drag_linux : (path -> kind option) -> n list -> dres **)

let detect_drag_linux exists_ buf =
  match strip_paste buf with
  | Some b ->
    { d_files = (detect_drag_files_on_linux exists_ b); d_ignore = false;
      d_win = false }
  | None -> { d_files = None; d_ignore = true; d_win = false }

type opts = { o_drag : bool; o_trace : bool; o_zmodem : bool; o_osc52 : 
              bool; o_cmd : n list; o_cmd_not_trz : bool }

type dphase =
| DWait
| DInterrupt
| DCmd

type hphase =
| HChoosing
| HOwning

type haction =
| HIo of n list * n list
| HTakeDrag
| HRefuse
| HFailEarly
| HAccept
| HDone
| HError
| HStop
| HBackground

type obs =
| ToTerm of n list
| ToServer of n list
| Clip of n list

type ('dstate, 'zstate) state = { transfer : bool; zmodem : 'zstate option;
                                  prompt : bool; prompts : bool;
                                  trace_on : bool; interrupting : bool;
                                  skip_cmd : bool; cur_cmd : n list option;
                                  osc : n list option; detect_on : bool;
                                  dragging : bool; drag_has_dir : bool;
                                  drag_files : path list option;
                                  held : n list option; det : 'dstate;
                                  drag_procs : dphase list;
                                  handlers : hphase list }

(** val init : 'a1 -> ('a1, 'a2) state **)

let init d =
  { transfer = false; zmodem = None; prompt = false; prompts = false;
    trace_on = false; interrupting = false; skip_cmd = false; cur_cmd = None;
    osc = None; detect_on = false; dragging = false; drag_has_dir = false;
    drag_files = None; held = None; det = d; drag_procs = []; handlers = [] }

(** val set_transfer : bool -> ('a1, 'a2) state -> ('a1, 'a2) state **)

let set_transfer v s =
  { transfer = v; zmodem = s.zmodem; prompt = s.prompt; prompts = s.prompts;
    trace_on = s.trace_on; interrupting = s.interrupting; skip_cmd =
    s.skip_cmd; cur_cmd = s.cur_cmd; osc = s.osc; detect_on = s.detect_on;
    dragging = s.dragging; drag_has_dir = s.drag_has_dir; drag_files =
    s.drag_files; held = s.held; det = s.det; drag_procs = s.drag_procs;
    handlers = s.handlers }

(** val set_zmodem : 'a2 option -> ('a1, 'a2) state -> ('a1, 'a2) state **)

let set_zmodem v s =
  { transfer = s.transfer; zmodem = v; prompt = s.prompt; prompts =
    s.prompts; trace_on = s.trace_on; interrupting = s.interrupting;
    skip_cmd = s.skip_cmd; cur_cmd = s.cur_cmd; osc = s.osc; detect_on =
    s.detect_on; dragging = s.dragging; drag_has_dir = s.drag_has_dir;
    drag_files = s.drag_files; held = s.held; det = s.det; drag_procs =
    s.drag_procs; handlers = s.handlers }

(** val set_prompt : bool -> ('a1, 'a2) state -> ('a1, 'a2) state **)

let set_prompt v s =
  { transfer = s.transfer; zmodem = s.zmodem; prompt = v; prompts =
    s.prompts; trace_on = s.trace_on; interrupting = s.interrupting;
    skip_cmd = s.skip_cmd; cur_cmd = s.cur_cmd; osc = s.osc; detect_on =
    s.detect_on; dragging = s.dragging; drag_has_dir = s.drag_has_dir;
    drag_files = s.drag_files; held = s.held; det = s.det; drag_procs =
    s.drag_procs; handlers = s.handlers }

(** val set_prompts : bool -> ('a1, 'a2) state -> ('a1, 'a2) state **)

let set_prompts v s =
  { transfer = s.transfer; zmodem = s.zmodem; prompt = s.prompt; prompts = v;
    trace_on = s.trace_on; interrupting = s.interrupting; skip_cmd =
    s.skip_cmd; cur_cmd = s.cur_cmd; osc = s.osc; detect_on = s.detect_on;
    dragging = s.dragging; drag_has_dir = s.drag_has_dir; drag_files =
    s.drag_files; held = s.held; det = s.det; drag_procs = s.drag_procs;
    handlers = s.handlers }

(** val set_trace_on : bool -> ('a1, 'a2) state -> ('a1, 'a2) state **)

let set_trace_on v s =
  { transfer = s.transfer; zmodem = s.zmodem; prompt = s.prompt; prompts =
    s.prompts; trace_on = v; interrupting = s.interrupting; skip_cmd =
    s.skip_cmd; cur_cmd = s.cur_cmd; osc = s.osc; detect_on = s.detect_on;
    dragging = s.dragging; drag_has_dir = s.drag_has_dir; drag_files =
    s.drag_files; held = s.held; det = s.det; drag_procs = s.drag_procs;
    handlers = s.handlers }

(** val set_interrupting : bool -> ('a1, 'a2) state -> ('a1, 'a2) state **)

let set_interrupting v s =
  { transfer = s.transfer; zmodem = s.zmodem; prompt = s.prompt; prompts =
    s.prompts; trace_on = s.trace_on; interrupting = v; skip_cmd =
    s.skip_cmd; cur_cmd = s.cur_cmd; osc = s.osc; detect_on = s.detect_on;
    dragging = s.dragging; drag_has_dir = s.drag_has_dir; drag_files =
    s.drag_files; held = s.held; det = s.det; drag_procs = s.drag_procs;
    handlers = s.handlers }

(** val set_skip_cmd : bool -> ('a1, 'a2) state -> ('a1, 'a2) state **)

let set_skip_cmd v s =
  { transfer = s.transfer; zmodem = s.zmodem; prompt = s.prompt; prompts =
    s.prompts; trace_on = s.trace_on; interrupting = s.interrupting;
    skip_cmd = v; cur_cmd = s.cur_cmd; osc = s.osc; detect_on = s.detect_on;
    dragging = s.dragging; drag_has_dir = s.drag_has_dir; drag_files =
    s.drag_files; held = s.held; det = s.det; drag_procs = s.drag_procs;
    handlers = s.handlers }

(** val set_cur_cmd :
    n list option -> ('a1, 'a2) state -> ('a1, 'a2) state **)

let set_cur_cmd v s =
  { transfer = s.transfer; zmodem = s.zmodem; prompt = s.prompt; prompts =
    s.prompts; trace_on = s.trace_on; interrupting = s.interrupting;
    skip_cmd = s.skip_cmd; cur_cmd = v; osc = s.osc; detect_on = s.detect_on;
    dragging = s.dragging; drag_has_dir = s.drag_has_dir; drag_files =
    s.drag_files; held = s.held; det = s.det; drag_procs = s.drag_procs;
    handlers = s.handlers }

(** val set_osc : n list option -> ('a1, 'a2) state -> ('a1, 'a2) state **)

let set_osc v s =
  { transfer = s.transfer; zmodem = s.zmodem; prompt = s.prompt; prompts =
    s.prompts; trace_on = s.trace_on; interrupting = s.interrupting;
    skip_cmd = s.skip_cmd; cur_cmd = s.cur_cmd; osc = v; detect_on =
    s.detect_on; dragging = s.dragging; drag_has_dir = s.drag_has_dir;
    drag_files = s.drag_files; held = s.held; det = s.det; drag_procs =
    s.drag_procs; handlers = s.handlers }

(** val set_detect_on : bool -> ('a1, 'a2) state -> ('a1, 'a2) state **)

let set_detect_on v s =
  { transfer = s.transfer; zmodem = s.zmodem; prompt = s.prompt; prompts =
    s.prompts; trace_on = s.trace_on; interrupting = s.interrupting;
    skip_cmd = s.skip_cmd; cur_cmd = s.cur_cmd; osc = s.osc; detect_on = v;
    dragging = s.dragging; drag_has_dir = s.drag_has_dir; drag_files =
    s.drag_files; held = s.held; det = s.det; drag_procs = s.drag_procs;
    handlers = s.handlers }

(** val set_drag :
    bool -> bool -> path list option -> ('a1, 'a2) state -> ('a1, 'a2) state **)

let set_drag dg hd fs s =
  { transfer = s.transfer; zmodem = s.zmodem; prompt = s.prompt; prompts =
    s.prompts; trace_on = s.trace_on; interrupting = s.interrupting;
    skip_cmd = s.skip_cmd; cur_cmd = s.cur_cmd; osc = s.osc; detect_on =
    s.detect_on; dragging = dg; drag_has_dir = hd; drag_files = fs; held =
    s.held; det = s.det; drag_procs = s.drag_procs; handlers = s.handlers }

(** val set_held : n list option -> ('a1, 'a2) state -> ('a1, 'a2) state **)

let set_held v s =
  { transfer = s.transfer; zmodem = s.zmodem; prompt = s.prompt; prompts =
    s.prompts; trace_on = s.trace_on; interrupting = s.interrupting;
    skip_cmd = s.skip_cmd; cur_cmd = s.cur_cmd; osc = s.osc; detect_on =
    s.detect_on; dragging = s.dragging; drag_has_dir = s.drag_has_dir;
    drag_files = s.drag_files; held = v; det = s.det; drag_procs =
    s.drag_procs; handlers = s.handlers }

(** val set_det : 'a1 -> ('a1, 'a2) state -> ('a1, 'a2) state **)

let set_det v s =
  { transfer = s.transfer; zmodem = s.zmodem; prompt = s.prompt; prompts =
    s.prompts; trace_on = s.trace_on; interrupting = s.interrupting;
    skip_cmd = s.skip_cmd; cur_cmd = s.cur_cmd; osc = s.osc; detect_on =
    s.detect_on; dragging = s.dragging; drag_has_dir = s.drag_has_dir;
    drag_files = s.drag_files; held = s.held; det = v; drag_procs =
    s.drag_procs; handlers = s.handlers }

(** val set_drag_procs :
    dphase list -> ('a1, 'a2) state -> ('a1, 'a2) state **)

let set_drag_procs v s =
  { transfer = s.transfer; zmodem = s.zmodem; prompt = s.prompt; prompts =
    s.prompts; trace_on = s.trace_on; interrupting = s.interrupting;
    skip_cmd = s.skip_cmd; cur_cmd = s.cur_cmd; osc = s.osc; detect_on =
    s.detect_on; dragging = s.dragging; drag_has_dir = s.drag_has_dir;
    drag_files = s.drag_files; held = s.held; det = s.det; drag_procs = v;
    handlers = s.handlers }

(** val set_handlers : hphase list -> ('a1, 'a2) state -> ('a1, 'a2) state **)

let set_handlers v s =
  { transfer = s.transfer; zmodem = s.zmodem; prompt = s.prompt; prompts =
    s.prompts; trace_on = s.trace_on; interrupting = s.interrupting;
    skip_cmd = s.skip_cmd; cur_cmd = s.cur_cmd; osc = s.osc; detect_on =
    s.detect_on; dragging = s.dragging; drag_has_dir = s.drag_has_dir;
    drag_files = s.drag_files; held = s.held; det = s.det; drag_procs =
    s.drag_procs; handlers = v }

(** val reset_drag : ('a1, 'a2) state -> ('a1, 'a2) state **)

let reset_drag s =
  if s.dragging then set_drag false false None s else s

(** val add_drag :
    path list -> bool -> ('a1, 'a2) state -> ('a1, 'a2) state **)

let add_drag fs hd s =
  let hd' = if hd then true else s.drag_has_dir in
  (match s.drag_files with
   | Some old -> set_drag true hd' (Some (app old fs)) s
   | None ->
     set_drag_procs (app s.drag_procs (DWait :: []))
       (set_drag true hd' (Some fs) s))

(** val trace_log :
    n list -> n list -> opts -> ('a1, 'a2) state -> n list -> n list * ('a1,
    'a2) state **)

let trace_log msg_on msg_off o s buf =
  if o.o_trace
  then if s.trace_on
       then if contains trace_disable_marker buf
            then ((replace_all trace_disable_marker msg_off buf),
                   (set_trace_on false s))
            else (buf, s)
       else if contains trace_enable_marker buf
            then ((replace_all trace_enable_marker msg_on buf),
                   (set_trace_on true s))
            else (buf, s)
  else (buf, s)

(** val drag_command : opts -> ('a1, 'a2) state -> n list **)

let drag_command o s =
  app (match o.o_cmd with
       | [] -> drag_default_cmd
       | n0 :: l -> n0 :: l)
    (if (&&) s.drag_has_dir (negb o.o_cmd_not_trz) then drag_dir_flag else [])

(** val out_forward :
    (n list -> bool) -> (n list -> 'a2) -> opts -> ('a1, 'a2) state -> obs
    list -> n list -> ('a1, 'a2) state * obs list **)

let out_forward zmodem_detect zm_init o s pre buf =
  if s.interrupting
  then (s, pre)
  else let skip = s.skip_cmd in
       let s0 = if skip then set_skip_cmd false s else s in
       if (&&) skip
            (match s0.cur_cmd with
             | Some c ->
               list_eqb c (trim_right skip_trim_cutset (trim_vt100 buf))
             | None -> false)
       then (s0, (app pre ((ToTerm skip_echo_repl) :: [])))
       else if (&&) o.o_zmodem (zmodem_detect buf)
            then (match s0.zmodem with
                  | Some _ ->
                    (s0, (app pre ((ToTerm buf) :: ((ToTerm buf) :: []))))
                  | None ->
                    ((set_zmodem (Some (zm_init buf)) s0),
                      (app pre ((ToTerm buf) :: ((ToTerm
                        hide_cursor_seq) :: [])))))
            else (s0, (app pre ((ToTerm buf) :: [])))

(** val out_detect :
    ('a1 -> n list -> (n list * 'a2 option) * 'a1) -> ('a2 -> bool) -> (n
    list -> bool) -> (n list -> 'a3) -> opts -> ('a1, 'a3) state -> obs list
    -> n list -> ('a1, 'a3) state * obs list **)

let out_detect detect trig_prompts zmodem_detect zm_init o s pre buf =
  let (q, cl) = if o.o_osc52 then detect_osc52 s.osc buf else (s.osc, []) in
  let s0 = set_osc q s in
  let pre0 = app pre (map (fun x -> Clip x) cl) in
  let (p, d') = detect s0.det buf in
  let (buf', o0) = p in
  (match o0 with
   | Some t ->
     ((set_handlers (app s0.handlers (HChoosing :: []))
        (set_prompts (trig_prompts t) (set_det d' s0))),
       (app pre0 ((ToTerm buf') :: [])))
   | None -> out_forward zmodem_detect zm_init o (set_det d' s0) pre0 buf')

(** val out_zmodem :
    ('a2 -> n list -> bool * 'a2) -> opts -> ('a1, 'a2) state -> n list ->
    (('a1, 'a2) state, ('a1, 'a2) state * obs list) sum **)

let out_zmodem zm_handle o s buf =
  if o.o_zmodem
  then (match s.zmodem with
        | Some z0 ->
          let (h, z') = zm_handle z0 buf in
          if h
          then Inl (set_zmodem (Some z') s)
          else Inr ((set_zmodem None s), ((ToTerm show_cursor_seq) :: []))
        | None -> Inr (s, []))
  else Inr (s, [])

(** val out_step :
    ('a1 -> n list -> (n list * 'a2 option) * 'a1) -> ('a2 -> bool) -> (n
    list -> bool) -> (n list -> 'a3) -> ('a3 -> n list -> bool * 'a3) -> n
    list -> n list -> opts -> ('a1, 'a3) state -> n list -> ('a1, 'a3)
    state * obs list **)

let out_step detect trig_prompts zmodem_detect zm_init zm_handle msg_on msg_off o s buf0 =
  if s.transfer
  then (s, [])
  else let (buf, s0) = trace_log msg_on msg_off o s buf0 in
       (match out_zmodem zm_handle o s0 buf with
        | Inl s' -> (s', [])
        | Inr p ->
          let (s1, pre) = p in
          out_detect detect trig_prompts zmodem_detect zm_init o s1 pre buf)

(** val drag_verdict :
    (n list -> dres) -> bool -> ('a1, 'a2) state -> n list -> ('a1, 'a2)
    state * obs list **)

let drag_verdict drag_detect timer s buf =
  let r = drag_detect buf in
  (match r.d_files with
   | Some p -> let (fs, hd) = p in ((add_drag fs hd s), [])
   | None ->
     if (&&) (negb timer) r.d_win
     then ((set_held (Some buf) s), [])
     else ((if r.d_ignore then s else reset_drag s), ((ToServer buf) :: [])))

(** val in_step :
    ('a2 -> bool) -> ('a2 -> 'a2) -> (n list -> dres) -> (n list -> bool) ->
    opts -> ('a1, 'a2) state -> n list -> ('a1, 'a2) state * obs list **)

let in_step zm_busy zm_stop drag_detect is_stop_key o s buf =
  if s.prompt
  then (s, [])
  else if s.transfer
       then ((if (&&) (is_stop_key buf) s.prompts
              then set_prompt true s
              else s), [])
       else let s0 =
              if o.o_zmodem
              then (match s.zmodem with
                    | Some z0 ->
                      if list_eqb buf (drag_interrupt_byte :: [])
                      then set_zmodem (Some (zm_stop z0)) s
                      else s
                    | None -> s)
              else s
            in
            if (&&) o.o_zmodem
                 (match s0.zmodem with
                  | Some z0 -> zm_busy z0
                  | None -> false)
            then (s0, [])
            else if s0.detect_on
                 then (match s0.held with
                       | Some b -> ((set_held (Some (app b buf)) s0), [])
                       | None -> drag_verdict drag_detect false s0 buf)
                 else (s0, ((ToServer buf) :: []))

(** val hold_timer :
    (n list -> dres) -> ('a1, 'a2) state -> ('a1, 'a2) state * obs list **)

let hold_timer drag_detect s =
  match s.held with
  | Some b -> drag_verdict drag_detect true (set_held None s) b
  | None -> (s, [])

(** val remove_nth : nat -> 'a1 list -> 'a1 list **)

let rec remove_nth i = function
| [] -> []
| x :: l' -> (match i with
              | O -> l'
              | S j -> x :: (remove_nth j l'))

(** val set_nth : nat -> 'a1 -> 'a1 list -> 'a1 list **)

let rec set_nth i v = function
| [] -> []
| x :: l' -> (match i with
              | O -> v :: l'
              | S j -> x :: (set_nth j v l'))

(** val drag_step :
    opts -> ('a1, 'a2) state -> nat -> ('a1, 'a2) state * obs list **)

let drag_step o s i =
  match nth_error s.drag_procs i with
  | Some d ->
    (match d with
     | DWait ->
       if s.dragging
       then ((set_drag_procs (set_nth i DInterrupt s.drag_procs)
               (set_interrupting true s)), ((ToServer
              (drag_interrupt_byte :: [])) :: []))
       else ((set_drag_procs (remove_nth i s.drag_procs) s), [])
     | DInterrupt ->
       let cmd = drag_command o s in
       ((set_drag_procs (set_nth i DCmd s.drag_procs)
          (set_cur_cmd (Some cmd)
            (set_skip_cmd true (set_interrupting false s)))), ((ToServer
       (app cmd drag_cmd_end)) :: []))
     | DCmd ->
       ((set_drag_procs (remove_nth i s.drag_procs) (reset_drag s)), []))
  | None -> (s, [])

(** val handler_exit :
    ('a1, 'a2) state -> nat -> hphase -> ('a1, 'a2) state **)

let handler_exit s i ph =
  let s0 = set_handlers (remove_nth i s.handlers) s in
  (match ph with
   | HChoosing -> s0
   | HOwning -> set_transfer false s0)

(** val handler_step :
    ('a1, 'a2) state -> nat -> haction -> ('a1, 'a2) state * obs list **)

let handler_step s i a =
  match nth_error s.handlers i with
  | Some ph ->
    (match a with
     | HIo (sv, tm) -> (s, ((ToServer sv) :: ((ToTerm tm) :: [])))
     | HTakeDrag ->
       (match ph with
        | HChoosing -> ((reset_drag s), [])
        | HOwning -> (s, []))
     | HRefuse ->
       (match ph with
        | HChoosing -> ((handler_exit s i ph), [])
        | HOwning -> (s, []))
     | HFailEarly ->
       (match ph with
        | HChoosing -> ((handler_exit s i ph), [])
        | HOwning -> (s, []))
     | HAccept ->
       (match ph with
        | HChoosing ->
          if s.transfer
          then ((handler_exit s i ph), [])
          else ((set_handlers (set_nth i HOwning s.handlers)
                  (set_transfer true s)), [])
        | HOwning -> (s, []))
     | _ ->
       (match ph with
        | HChoosing -> (s, [])
        | HOwning -> ((handler_exit s i ph), [])))
  | None -> (s, [])

type 'zstate event =
| EvOut of chunk
| EvIn of chunk
| EvDetectOn
| EvHoldTimer
| EvDrag of nat
| EvHandler of nat * haction
| EvPromptEnd
| EvZmodem of 'zstate

(** val step :
    ('a1 -> n list -> (n list * 'a2 option) * 'a1) -> ('a2 -> bool) -> (n
    list -> bool) -> (n list -> 'a3) -> ('a3 -> n list -> bool * 'a3) -> ('a3
    -> bool) -> ('a3 -> 'a3) -> (n list -> dres) -> n list -> n list -> (n
    list -> bool) -> opts -> ('a1, 'a3) state -> 'a3 event -> ('a1, 'a3)
    state * obs list **)

let step detect trig_prompts zmodem_detect zm_init zm_handle zm_busy zm_stop drag_detect msg_on msg_off is_stop_key o s = function
| EvOut c ->
  out_step detect trig_prompts zmodem_detect zm_init zm_handle msg_on msg_off
    o s c
| EvIn c -> in_step zm_busy zm_stop drag_detect is_stop_key o s c
| EvDetectOn -> ((if o.o_drag then set_detect_on true s else s), [])
| EvHoldTimer -> hold_timer drag_detect s
| EvDrag i -> drag_step o s i
| EvHandler (i, a) -> handler_step s i a
| EvPromptEnd -> ((set_prompt false s), [])
| EvZmodem z0 ->
  ((match s.zmodem with
    | Some _ -> set_zmodem (Some z0) s
    | None -> s), [])

(** val run :
    ('a1 -> n list -> (n list * 'a2 option) * 'a1) -> ('a2 -> bool) -> (n
    list -> bool) -> (n list -> 'a3) -> ('a3 -> n list -> bool * 'a3) -> ('a3
    -> bool) -> ('a3 -> 'a3) -> (n list -> dres) -> n list -> n list -> (n
    list -> bool) -> opts -> ('a1, 'a3) state -> 'a3 event list -> ('a1, 'a3)
    state * obs list **)

let rec run detect trig_prompts zmodem_detect zm_init zm_handle zm_busy zm_stop drag_detect msg_on msg_off is_stop_key o s = function
| [] -> (s, [])
| e :: es' ->
  let (s1, o1) =
    step detect trig_prompts zmodem_detect zm_init zm_handle zm_busy zm_stop
      drag_detect msg_on msg_off is_stop_key o s e
  in
  let (s2, o2) =
    run detect trig_prompts zmodem_detect zm_init zm_handle zm_busy zm_stop
      drag_detect msg_on msg_off is_stop_key o s1 es'
  in
  (s2, (app o1 o2))

(** val silent_detect : unit -> n list -> (n list * unit option) * unit **)

let silent_detect d c =
  ((c, None), d)

(** val corr_run :
    (path -> kind option) -> (n list -> bool) -> n list -> n list -> opts ->
    bool -> unit event list -> obs list **)

let corr_run ex zdet msg_on msg_off o detect_on0 es =
  let s0 = set_detect_on detect_on0 (init ()) in
  snd
    (run silent_detect (fun _ -> false) zdet (fun _ -> ()) (fun z0 _ ->
      (true, z0)) (fun _ -> true) (fun z0 -> z0) (detect_drag_linux ex)
      msg_on msg_off (fun _ -> false) o s0 es)
