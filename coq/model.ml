
(** val negb : bool -> bool **)

let negb = function
| true -> false
| false -> true

type nat =
| O
| S of nat

(** val fst : ('a1 * 'a2) -> 'a1 **)

let fst = function
| (x, _) -> x

(** val snd : ('a1 * 'a2) -> 'a2 **)

let snd = function
| (_, y) -> y

(** val length : 'a1 list -> nat **)

let rec length = function
| [] -> O
| _ :: l' -> S (length l')

(** val app : 'a1 list -> 'a1 list -> 'a1 list **)

let rec app l m =
  match l with
  | [] -> m
  | a :: l1 -> a :: (app l1 m)

type comparison =
| Eq
| Lt
| Gt

(** val compOpp : comparison -> comparison **)

let compOpp = function
| Eq -> Eq
| Lt -> Gt
| Gt -> Lt

module Coq__1 = struct
 (** val add : nat -> nat -> nat **)
 let rec add n0 m =
   match n0 with
   | O -> m
   | S p -> S (add p m)
end
include Coq__1

type positive =
| XI of positive
| XO of positive
| XH

type n =
| N0
| Npos of positive

type z =
| Z0
| Zpos of positive
| Zneg of positive

module Nat =
 struct
  (** val eqb : nat -> nat -> bool **)

  let rec eqb n0 m =
    match n0 with
    | O -> (match m with
            | O -> true
            | S _ -> false)
    | S n' -> (match m with
               | O -> false
               | S m' -> eqb n' m')

  (** val leb : nat -> nat -> bool **)

  let rec leb n0 m =
    match n0 with
    | O -> true
    | S n' -> (match m with
               | O -> false
               | S m' -> leb n' m')

  (** val ltb : nat -> nat -> bool **)

  let ltb n0 m =
    leb (S n0) m
 end

module Pos =
 struct
  type mask =
  | IsNul
  | IsPos of positive
  | IsNeg
 end

module Coq_Pos =
 struct
  (** val succ : positive -> positive **)

  let rec succ = function
  | XI p -> XO (succ p)
  | XO p -> XI p
  | XH -> XO XH

  (** val add : positive -> positive -> positive **)

  let rec add x y =
    match x with
    | XI p ->
      (match y with
       | XI q -> XO (add_carry p q)
       | XO q -> XI (add p q)
       | XH -> XO (succ p))
    | XO p ->
      (match y with
       | XI q -> XI (add p q)
       | XO q -> XO (add p q)
       | XH -> XI p)
    | XH -> (match y with
             | XI q -> XO (succ q)
             | XO q -> XI q
             | XH -> XO XH)

  (** val add_carry : positive -> positive -> positive **)

  and add_carry x y =
    match x with
    | XI p ->
      (match y with
       | XI q -> XI (add_carry p q)
       | XO q -> XO (add_carry p q)
       | XH -> XI (succ p))
    | XO p ->
      (match y with
       | XI q -> XO (add_carry p q)
       | XO q -> XI (add p q)
       | XH -> XO (succ p))
    | XH ->
      (match y with
       | XI q -> XI (succ q)
       | XO q -> XO (succ q)
       | XH -> XI XH)

  (** val pred_double : positive -> positive **)

  let rec pred_double = function
  | XI p -> XI (XO p)
  | XO p -> XI (pred_double p)
  | XH -> XH

  type mask = Pos.mask =
  | IsNul
  | IsPos of positive
  | IsNeg

  (** val succ_double_mask : mask -> mask **)

  let succ_double_mask = function
  | IsNul -> IsPos XH
  | IsPos p -> IsPos (XI p)
  | IsNeg -> IsNeg

  (** val double_mask : mask -> mask **)

  let double_mask = function
  | IsPos p -> IsPos (XO p)
  | x0 -> x0

  (** val double_pred_mask : positive -> mask **)

  let double_pred_mask = function
  | XI p -> IsPos (XO (XO p))
  | XO p -> IsPos (XO (pred_double p))
  | XH -> IsNul

  (** val sub_mask : positive -> positive -> mask **)

  let rec sub_mask x y =
    match x with
    | XI p ->
      (match y with
       | XI q -> double_mask (sub_mask p q)
       | XO q -> succ_double_mask (sub_mask p q)
       | XH -> IsPos (XO p))
    | XO p ->
      (match y with
       | XI q -> succ_double_mask (sub_mask_carry p q)
       | XO q -> double_mask (sub_mask p q)
       | XH -> IsPos (pred_double p))
    | XH -> (match y with
             | XH -> IsNul
             | _ -> IsNeg)

  (** val sub_mask_carry : positive -> positive -> mask **)

  and sub_mask_carry x y =
    match x with
    | XI p ->
      (match y with
       | XI q -> succ_double_mask (sub_mask_carry p q)
       | XO q -> double_mask (sub_mask p q)
       | XH -> IsPos (pred_double p))
    | XO p ->
      (match y with
       | XI q -> double_mask (sub_mask_carry p q)
       | XO q -> succ_double_mask (sub_mask_carry p q)
       | XH -> double_pred_mask p)
    | XH -> IsNeg

  (** val mul : positive -> positive -> positive **)

  let rec mul x y =
    match x with
    | XI p -> add y (XO (mul p y))
    | XO p -> XO (mul p y)
    | XH -> y

  (** val compare_cont : comparison -> positive -> positive -> comparison **)

  let rec compare_cont r x y =
    match x with
    | XI p ->
      (match y with
       | XI q -> compare_cont r p q
       | XO q -> compare_cont Gt p q
       | XH -> Gt)
    | XO p ->
      (match y with
       | XI q -> compare_cont Lt p q
       | XO q -> compare_cont r p q
       | XH -> Gt)
    | XH -> (match y with
             | XH -> r
             | _ -> Lt)

  (** val compare : positive -> positive -> comparison **)

  let compare =
    compare_cont Eq

  (** val eqb : positive -> positive -> bool **)

  let rec eqb p q =
    match p with
    | XI p0 -> (match q with
                | XI q0 -> eqb p0 q0
                | _ -> false)
    | XO p0 -> (match q with
                | XO q0 -> eqb p0 q0
                | _ -> false)
    | XH -> (match q with
             | XH -> true
             | _ -> false)

  (** val iter_op : ('a1 -> 'a1 -> 'a1) -> positive -> 'a1 -> 'a1 **)

  let rec iter_op op p a =
    match p with
    | XI p0 -> op a (iter_op op p0 (op a a))
    | XO p0 -> iter_op op p0 (op a a)
    | XH -> a

  (** val to_nat : positive -> nat **)

  let to_nat x =
    iter_op Coq__1.add x (S O)

  (** val of_succ_nat : nat -> positive **)

  let rec of_succ_nat = function
  | O -> XH
  | S x -> succ (of_succ_nat x)
 end

module N =
 struct
  (** val succ_double : n -> n **)

  let succ_double = function
  | N0 -> Npos XH
  | Npos p -> Npos (XI p)

  (** val double : n -> n **)

  let double = function
  | N0 -> N0
  | Npos p -> Npos (XO p)

  (** val add : n -> n -> n **)

  let add n0 m =
    match n0 with
    | N0 -> m
    | Npos p -> (match m with
                 | N0 -> n0
                 | Npos q -> Npos (Coq_Pos.add p q))

  (** val sub : n -> n -> n **)

  let sub n0 m =
    match n0 with
    | N0 -> N0
    | Npos n' ->
      (match m with
       | N0 -> n0
       | Npos m' ->
         (match Coq_Pos.sub_mask n' m' with
          | Coq_Pos.IsPos p -> Npos p
          | _ -> N0))

  (** val mul : n -> n -> n **)

  let mul n0 m =
    match n0 with
    | N0 -> N0
    | Npos p -> (match m with
                 | N0 -> N0
                 | Npos q -> Npos (Coq_Pos.mul p q))

  (** val compare : n -> n -> comparison **)

  let compare n0 m =
    match n0 with
    | N0 -> (match m with
             | N0 -> Eq
             | Npos _ -> Lt)
    | Npos n' -> (match m with
                  | N0 -> Gt
                  | Npos m' -> Coq_Pos.compare n' m')

  (** val eqb : n -> n -> bool **)

  let eqb n0 m =
    match n0 with
    | N0 -> (match m with
             | N0 -> true
             | Npos _ -> false)
    | Npos p -> (match m with
                 | N0 -> false
                 | Npos q -> Coq_Pos.eqb p q)

  (** val leb : n -> n -> bool **)

  let leb x y =
    match compare x y with
    | Gt -> false
    | _ -> true

  (** val ltb : n -> n -> bool **)

  let ltb x y =
    match compare x y with
    | Lt -> true
    | _ -> false

  (** val pos_div_eucl : positive -> n -> n * n **)

  let rec pos_div_eucl a b =
    match a with
    | XI a' ->
      let (q, r) = pos_div_eucl a' b in
      let r' = succ_double r in
      if leb b r' then ((succ_double q), (sub r' b)) else ((double q), r')
    | XO a' ->
      let (q, r) = pos_div_eucl a' b in
      let r' = double r in
      if leb b r' then ((succ_double q), (sub r' b)) else ((double q), r')
    | XH ->
      (match b with
       | N0 -> (N0, (Npos XH))
       | Npos p -> (match p with
                    | XH -> ((Npos XH), N0)
                    | _ -> (N0, (Npos XH))))

  (** val div_eucl : n -> n -> n * n **)

  let div_eucl a b =
    match a with
    | N0 -> (N0, N0)
    | Npos na -> (match b with
                  | N0 -> (N0, a)
                  | Npos _ -> pos_div_eucl na b)

  (** val div : n -> n -> n **)

  let div a b =
    fst (div_eucl a b)

  (** val modulo : n -> n -> n **)

  let modulo a b =
    snd (div_eucl a b)

  (** val to_nat : n -> nat **)

  let to_nat = function
  | N0 -> O
  | Npos p -> Coq_Pos.to_nat p

  (** val of_nat : nat -> n **)

  let of_nat = function
  | O -> N0
  | S n' -> Npos (Coq_Pos.of_succ_nat n')
 end

module Z =
 struct
  (** val double : z -> z **)

  let double = function
  | Z0 -> Z0
  | Zpos p -> Zpos (XO p)
  | Zneg p -> Zneg (XO p)

  (** val succ_double : z -> z **)

  let succ_double = function
  | Z0 -> Zpos XH
  | Zpos p -> Zpos (XI p)
  | Zneg p -> Zneg (Coq_Pos.pred_double p)

  (** val pred_double : z -> z **)

  let pred_double = function
  | Z0 -> Zneg XH
  | Zpos p -> Zpos (Coq_Pos.pred_double p)
  | Zneg p -> Zneg (XI p)

  (** val pos_sub : positive -> positive -> z **)

  let rec pos_sub x y =
    match x with
    | XI p ->
      (match y with
       | XI q -> double (pos_sub p q)
       | XO q -> succ_double (pos_sub p q)
       | XH -> Zpos (XO p))
    | XO p ->
      (match y with
       | XI q -> pred_double (pos_sub p q)
       | XO q -> double (pos_sub p q)
       | XH -> Zpos (Coq_Pos.pred_double p))
    | XH ->
      (match y with
       | XI q -> Zneg (XO q)
       | XO q -> Zneg (Coq_Pos.pred_double q)
       | XH -> Z0)

  (** val add : z -> z -> z **)

  let add x y =
    match x with
    | Z0 -> y
    | Zpos x' ->
      (match y with
       | Z0 -> x
       | Zpos y' -> Zpos (Coq_Pos.add x' y')
       | Zneg y' -> pos_sub x' y')
    | Zneg x' ->
      (match y with
       | Z0 -> x
       | Zpos y' -> pos_sub y' x'
       | Zneg y' -> Zneg (Coq_Pos.add x' y'))

  (** val opp : z -> z **)

  let opp = function
  | Z0 -> Z0
  | Zpos x0 -> Zneg x0
  | Zneg x0 -> Zpos x0

  (** val sub : z -> z -> z **)

  let sub m n0 =
    add m (opp n0)

  (** val mul : z -> z -> z **)

  let mul x y =
    match x with
    | Z0 -> Z0
    | Zpos x' ->
      (match y with
       | Z0 -> Z0
       | Zpos y' -> Zpos (Coq_Pos.mul x' y')
       | Zneg y' -> Zneg (Coq_Pos.mul x' y'))
    | Zneg x' ->
      (match y with
       | Z0 -> Z0
       | Zpos y' -> Zneg (Coq_Pos.mul x' y')
       | Zneg y' -> Zpos (Coq_Pos.mul x' y'))

  (** val compare : z -> z -> comparison **)

  let compare x y =
    match x with
    | Z0 -> (match y with
             | Z0 -> Eq
             | Zpos _ -> Lt
             | Zneg _ -> Gt)
    | Zpos x' -> (match y with
                  | Zpos y' -> Coq_Pos.compare x' y'
                  | _ -> Gt)
    | Zneg x' ->
      (match y with
       | Zneg y' -> compOpp (Coq_Pos.compare x' y')
       | _ -> Lt)

  (** val leb : z -> z -> bool **)

  let leb x y =
    match compare x y with
    | Gt -> false
    | _ -> true

  (** val ltb : z -> z -> bool **)

  let ltb x y =
    match compare x y with
    | Lt -> true
    | _ -> false

  (** val to_nat : z -> nat **)

  let to_nat = function
  | Zpos p -> Coq_Pos.to_nat p
  | _ -> O

  (** val to_N : z -> n **)

  let to_N = function
  | Zpos p -> Npos p
  | _ -> N0

  (** val of_nat : nat -> z **)

  let of_nat = function
  | O -> Z0
  | S n1 -> Zpos (Coq_Pos.of_succ_nat n1)

  (** val of_N : n -> z **)

  let of_N = function
  | N0 -> Z0
  | Npos p -> Zpos p

  (** val pos_div_eucl : positive -> z -> z * z **)

  let rec pos_div_eucl a b =
    match a with
    | XI a' ->
      let (q, r) = pos_div_eucl a' b in
      let r' = add (mul (Zpos (XO XH)) r) (Zpos XH) in
      if ltb r' b
      then ((mul (Zpos (XO XH)) q), r')
      else ((add (mul (Zpos (XO XH)) q) (Zpos XH)), (sub r' b))
    | XO a' ->
      let (q, r) = pos_div_eucl a' b in
      let r' = mul (Zpos (XO XH)) r in
      if ltb r' b
      then ((mul (Zpos (XO XH)) q), r')
      else ((add (mul (Zpos (XO XH)) q) (Zpos XH)), (sub r' b))
    | XH -> if leb (Zpos (XO XH)) b then (Z0, (Zpos XH)) else ((Zpos XH), Z0)

  (** val div_eucl : z -> z -> z * z **)

  let div_eucl a b =
    match a with
    | Z0 -> (Z0, Z0)
    | Zpos a' ->
      (match b with
       | Z0 -> (Z0, a)
       | Zpos _ -> pos_div_eucl a' b
       | Zneg b' ->
         let (q, r) = pos_div_eucl a' (Zpos b') in
         (match r with
          | Z0 -> ((opp q), Z0)
          | _ -> ((opp (add q (Zpos XH))), (add b r))))
    | Zneg a' ->
      (match b with
       | Z0 -> (Z0, a)
       | Zpos _ ->
         let (q, r) = pos_div_eucl a' b in
         (match r with
          | Z0 -> ((opp q), Z0)
          | _ -> ((opp (add q (Zpos XH))), (sub b r)))
       | Zneg b' -> let (q, r) = pos_div_eucl a' (Zpos b') in (q, (opp r)))

  (** val div : z -> z -> z **)

  let div a b =
    let (q, _) = div_eucl a b in q

  (** val modulo : z -> z -> z **)

  let modulo a b =
    let (_, r) = div_eucl a b in r
 end

(** val nth : nat -> 'a1 list -> 'a1 -> 'a1 **)

let rec nth n0 l default =
  match n0 with
  | O -> (match l with
          | [] -> default
          | x :: _ -> x)
  | S m -> (match l with
            | [] -> default
            | _ :: t -> nth m t default)

(** val concat : 'a1 list list -> 'a1 list **)

let rec concat = function
| [] -> []
| x :: l0 -> app x (concat l0)

(** val map : ('a1 -> 'a2) -> 'a1 list -> 'a2 list **)

let rec map f = function
| [] -> []
| a :: t -> (f a) :: (map f t)

(** val flat_map : ('a1 -> 'a2 list) -> 'a1 list -> 'a2 list **)

let rec flat_map f = function
| [] -> []
| x :: t -> app (f x) (flat_map f t)

(** val fold_right : ('a2 -> 'a1 -> 'a1) -> 'a1 -> 'a2 list -> 'a1 **)

let rec fold_right f a0 = function
| [] -> a0
| b :: t -> f b (fold_right f a0 t)

(** val existsb : ('a1 -> bool) -> 'a1 list -> bool **)

let rec existsb f = function
| [] -> false
| a :: l0 -> (||) (f a) (existsb f l0)

(** val forallb : ('a1 -> bool) -> 'a1 list -> bool **)

let rec forallb f = function
| [] -> true
| a :: l0 -> (&&) (f a) (forallb f l0)

(** val filter : ('a1 -> bool) -> 'a1 list -> 'a1 list **)

let rec filter f = function
| [] -> []
| x :: l0 -> if f x then x :: (filter f l0) else filter f l0

(** val seq : nat -> nat -> nat list **)

let rec seq start = function
| O -> []
| S len0 -> start :: (seq (S start) len0)

(** val list_sum : nat list -> nat **)

let list_sum l =
  fold_right add O l

type byte = n

(** val escape_leader : n **)

let escape_leader =
  Npos (XO (XI (XI (XI (XO (XI (XI XH)))))))

(** val escape_base_json : (n list * n list) list **)

let escape_base_json =
  (((Npos (XO (XI (XI (XI (XO (XI (XI XH)))))))) :: []), ((Npos (XO (XI (XI
    (XI (XO (XI (XI XH)))))))) :: ((Npos (XO (XI (XI (XI (XO (XI (XI
    XH)))))))) :: []))) :: ((((Npos (XO (XI (XI (XI (XI (XI XH))))))) :: []),
    ((Npos (XO (XI (XI (XI (XO (XI (XI XH)))))))) :: ((Npos (XI (XO (XO (XO
    (XI XH)))))) :: []))) :: [])

(** val escape_all_chars : n list **)

let escape_all_chars =
  (Npos (XO XH)) :: ((Npos (XI (XO (XI XH)))) :: ((Npos (XO (XO (XO (XO
    XH))))) :: ((Npos (XI (XO (XO (XO XH))))) :: ((Npos (XI (XI (XO (XO
    XH))))) :: ((Npos (XO (XO (XO (XI XH))))) :: ((Npos (XI (XI (XO (XI
    XH))))) :: ((Npos (XI (XO (XI (XI XH))))) :: ((Npos (XI (XO (XI (XI (XO
    (XO (XO XH)))))))) :: ((Npos (XO (XO (XO (XO (XI (XO (XO
    XH)))))))) :: ((Npos (XI (XO (XO (XO (XI (XO (XO XH)))))))) :: ((Npos (XI
    (XI (XO (XO (XI (XO (XO XH)))))))) :: ((Npos (XI (XO (XI (XI (XI (XO (XO
    XH)))))))) :: []))))))))))))

(** val escape_all_first_code : n **)

let escape_all_first_code =
  Npos (XI (XO (XO (XO (XO (XO XH))))))

(** val leader : byte **)

let leader =
  escape_leader

type table = (byte * byte) list

(** val esc_code : table -> byte -> byte option **)

let rec esc_code t b =
  match t with
  | [] -> None
  | p :: r ->
    let (s, c) = p in
    (match esc_code r b with
     | Some x -> Some x
     | None -> if N.eqb s b then Some c else None)

(** val unesc_code : table -> byte -> byte option **)

let rec unesc_code t c =
  match t with
  | [] -> None
  | p :: r ->
    let (s, c') = p in
    (match unesc_code r c with
     | Some x -> Some x
     | None -> if N.eqb c' c then Some s else None)

(** val escape : table -> byte list -> byte list **)

let rec escape t = function
| [] -> []
| b :: r ->
  (match esc_code t b with
   | Some c -> leader :: (c :: (escape t r))
   | None -> b :: (escape t r))

type ures =
| UOk of byte list * byte list
| UErr of byte

(** val ucons : byte -> ures -> ures **)

let ucons b = function
| UOk (o, rem) -> UOk ((b :: o), rem)
| UErr c -> UErr c

(** val unesc : table -> byte list -> nat -> ures **)

let rec unesc t data room =
  match data with
  | [] -> UOk ([], [])
  | b :: r ->
    if N.eqb b leader
    then (match r with
          | [] -> UOk ([], (b :: []))
          | c :: r' ->
            (match unesc_code t c with
             | Some s ->
               (match room with
                | O -> UOk ((s :: []), r')
                | S room' ->
                  (match room' with
                   | O -> UOk ((s :: []), r')
                   | S _ -> ucons s (unesc t r' room')))
             | None -> UErr c))
    else (match room with
          | O -> UOk ((b :: []), r)
          | S room' ->
            (match room' with
             | O -> UOk ((b :: []), r)
             | S _ -> ucons b (unesc t r room')))

(** val unescape_data : table -> byte list -> nat -> ures **)

let unescape_data t data dstlen =
  match t with
  | [] -> UOk (data, [])
  | _ :: _ ->
    unesc t data (match dstlen with
                  | O -> length data
                  | S _ -> dstlen)

type rres =
| RData of byte list
| REof
| RErr of byte

(** val er_read :
    table -> byte list -> byte list list -> nat -> rres * (byte list * byte
    list list) **)

let rec er_read t buffer cs size =
  match match buffer with
        | [] -> UOk ([], [])
        | _ :: _ -> unesc t buffer size with
  | UOk (out, rem) ->
    (match out with
     | [] ->
       (match cs with
        | [] -> (REof, (rem, []))
        | c :: cs' -> er_read t (app rem c) cs' size)
     | _ :: _ -> ((RData out), (rem, cs)))
  | UErr c -> ((RErr c), (buffer, cs))

(** val next_size : nat list -> nat -> nat * nat list **)

let next_size sizes dflt =
  match sizes with
  | [] -> (dflt, [])
  | s :: r -> (s, r)

type rend =
| EndEof of byte list
| EndErr of byte
| EndFuel

(** val er_run :
    nat -> table -> byte list -> byte list list -> nat list -> nat -> byte
    list list * rend **)

let rec er_run fuel t buffer cs sizes dflt =
  match fuel with
  | O -> ([], EndFuel)
  | S f ->
    let (size, sizes') = next_size sizes dflt in
    let (r, p) = er_read t buffer cs size in
    (match r with
     | RData out ->
       let (b', cs') = p in
       let (outs, e) = er_run f t b' cs' sizes' dflt in ((out :: outs), e)
     | REof -> let (b', _) = p in ([], (EndEof b'))
     | RErr c -> ([], (EndErr c)))

(** val er_fuel : byte list -> byte list list -> nat **)

let er_fuel buffer cs =
  S (add (length buffer) (length (concat cs)))

(** val ew_write : table -> byte list list -> byte list list **)

let ew_write t chunks =
  map (escape t) chunks

(** val latin1 : n list -> byte list option **)

let latin1 s =
  if forallb (fun c ->
       N.ltb c (Npos (XO (XO (XO (XO (XO (XO (XO (XO XH)))))))))) s
  then Some s
  else None

(** val table_of_json : n list list list -> table option **)

let rec table_of_json = function
| [] -> Some []
| e :: r ->
  (match e with
   | [] -> None
   | a :: l ->
     (match l with
      | [] -> None
      | b :: l0 ->
        (match l0 with
         | [] ->
           (match latin1 a with
            | Some l1 ->
              (match l1 with
               | [] -> None
               | s :: l2 ->
                 (match l2 with
                  | [] ->
                    (match latin1 b with
                     | Some l3 ->
                       (match l3 with
                        | [] -> None
                        | l4 :: l5 ->
                          (match l5 with
                           | [] -> None
                           | c :: l6 ->
                             (match l6 with
                              | [] ->
                                if N.eqb l4 leader
                                then (match table_of_json r with
                                      | Some t -> Some ((s, c) :: t)
                                      | None -> None)
                                else None
                              | _ :: _ -> None)))
                     | None -> None)
                  | _ :: _ -> None))
            | None -> None)
         | _ :: _ -> None)))

(** val escape_all_pairs : n list -> n -> n list list list **)

let rec escape_all_pairs chars code =
  match chars with
  | [] -> []
  | c :: r ->
    ((c :: []) :: ((leader :: (code :: [])) :: [])) :: (escape_all_pairs r
                                                         (N.add code (Npos
                                                           XH)))

(** val builtin_json : bool -> n list list list **)

let builtin_json escape_all =
  app (map (fun p -> (fst p) :: ((snd p) :: [])) escape_base_json)
    (if escape_all
     then escape_all_pairs escape_all_chars escape_all_first_code
     else [])

(** val builtin_table : bool -> table **)

let builtin_table escape_all =
  match table_of_json (builtin_json escape_all) with
  | Some t -> t
  | None -> []

type chan = nat

type pid = nat

type wgid = nat

type alt =
| SendAlt of chan
| RecvAlt of chan
| DoneAlt
| TimerAlt
| DefaultAlt

type iokind =
| RecvLine
| WriteWire
| PauseGate
| FileIO
| Unknown

type stmt =
| Sel of (alt * stmt list) list
| Io of iokind
| Cancel
| IfCtxExit
| Return
| RecvClose of chan
| SendOnce of chan
| Join of pid
| WgWait of wgid
| WgAdd of wgid
| WgDone of wgid
| Branch of stmt list * stmt list
| LoopCtx of stmt list
| LoopRange of chan * stmt list
| LoopData of stmt list

type proc = { body : stmt list; finally : stmt list; defer_close : chan list;
              exit_cancel : bool; rank : nat }

type net = { procs_of : proc list; caps : nat list; senders : pid option list }

(** val noproc : proc **)

let noproc =
  { body = []; finally = []; defer_close = []; exit_cancel = false; rank = O }

(** val info : net -> pid -> proc **)

let info n0 p =
  nth p n0.procs_of noproc

(** val nprocs : net -> nat **)

let nprocs n0 =
  length n0.procs_of

(** val capof : net -> chan -> nat **)

let capof n0 c =
  nth c n0.caps O

(** val sender : net -> chan -> pid option **)

let sender n0 c =
  nth c n0.senders None

(** val exitsS : stmt -> bool **)

let rec exitsS = function
| Sel cs ->
  let rec fa = function
  | [] -> true
  | c :: r ->
    (&&)
      (let (_, bd) = c in
       let rec ex = function
       | [] -> false
       | x :: t -> (||) (exitsS x) (ex t)
       in ex bd) (fa r)
  in fa cs
| IfCtxExit -> true
| Return -> true
| SendOnce _ -> true
| Branch (a, b) ->
  (&&)
    (let rec ex = function
     | [] -> false
     | x :: t -> (||) (exitsS x) (ex t)
     in ex a)
    (let rec ex = function
     | [] -> false
     | x :: t -> (||) (exitsS x) (ex t)
     in ex b)
| _ -> false

(** val exitsL : stmt list -> bool **)

let exitsL l =
  existsb exitsS l

type condition =
| W1
| W2
| W3
| W4
| W5

(** val is_wake : alt -> bool **)

let is_wake = function
| SendAlt _ -> false
| RecvAlt _ -> false
| _ -> true

(** val has_wake : (alt * stmt list) list -> bool **)

let has_wake cs =
  existsb (fun c -> is_wake (fst c)) cs

(** val opt_pid_eqb : pid option -> pid option -> bool **)

let opt_pid_eqb a b =
  match a with
  | Some x -> (match b with
               | Some y -> Nat.eqb x y
               | None -> false)
  | None -> (match b with
             | Some _ -> false
             | None -> true)

(** val closer_ok : net -> pid -> chan -> bool **)

let closer_ok n0 me c =
  existsb (fun q ->
    (&&) (Nat.ltb (info n0 q).rank (info n0 me).rank)
      (existsb (Nat.eqb c) (info n0 q).defer_close)) (seq O (nprocs n0))

(** val alt_ok : net -> alt -> bool **)

let alt_ok n0 = function
| SendAlt c -> opt_pid_eqb (sender n0 c) None
| _ -> true

(** val check : net -> pid -> bool -> stmt -> condition option **)

let check n0 me infin = function
| Sel cs ->
  if negb (has_wake cs)
  then Some W1
  else if negb (forallb (fun c -> alt_ok n0 (fst c)) cs)
       then Some W4
       else None
| Io k -> (match k with
           | Unknown -> Some W5
           | _ -> None)
| IfCtxExit -> if infin then Some W4 else None
| Return -> if infin then Some W4 else None
| RecvClose c -> if closer_ok n0 me c then None else Some W3
| SendOnce c ->
  if (&&) ((&&) (negb infin) (opt_pid_eqb (sender n0 c) (Some me)))
       (Nat.ltb O (capof n0 c))
  then None
  else Some W4
| Join q ->
  if (&&) (Nat.ltb (info n0 q).rank (info n0 me).rank) (Nat.ltb q (nprocs n0))
  then None
  else Some W3
| WgWait _ -> Some W4
| LoopRange (c, bd) ->
  if negb (closer_ok n0 me c)
  then Some W3
  else if negb (exitsL bd) then Some W2 else None
| _ -> None

(** val checkb : net -> pid -> bool -> stmt -> bool **)

let checkb n0 me infin s =
  match check n0 me infin s with
  | Some _ -> false
  | None -> true

(** val okS : net -> pid -> bool -> stmt -> bool **)

let rec okS n0 me infin s =
  (&&) (checkb n0 me infin s)
    (match s with
     | Sel cs ->
       let rec fa = function
       | [] -> true
       | c :: r ->
         (&&)
           (let (_, bd) = c in
            let rec ok = function
            | [] -> true
            | x :: t -> (&&) (okS n0 me infin x) (ok t)
            in ok bd) (fa r)
       in fa cs
     | Branch (a, b) ->
       (&&)
         (let rec ok = function
          | [] -> true
          | x :: t -> (&&) (okS n0 me infin x) (ok t)
          in ok a)
         (let rec ok = function
          | [] -> true
          | x :: t -> (&&) (okS n0 me infin x) (ok t)
          in ok b)
     | LoopCtx bd ->
       let rec ok = function
       | [] -> true
       | x :: t -> (&&) (okS n0 me infin x) (ok t)
       in ok bd
     | LoopRange (_, bd) ->
       let rec ok = function
       | [] -> true
       | x :: t -> (&&) (okS n0 me infin x) (ok t)
       in ok bd
     | LoopData bd ->
       let rec ok = function
       | [] -> true
       | x :: t -> (&&) (okS n0 me infin x) (ok t)
       in ok bd
     | _ -> true)

(** val okL : net -> pid -> bool -> stmt list -> bool **)

let okL n0 me infin l =
  forallb (okS n0 me infin) l

(** val violS :
    net -> pid -> bool -> stmt -> ((pid * stmt) * condition) list **)

let rec violS n0 me infin s =
  app
    (match check n0 me infin s with
     | Some w -> ((me, s), w) :: []
     | None -> [])
    (match s with
     | Sel cs ->
       let rec fa = function
       | [] -> []
       | c :: r ->
         app
           (let (_, bd) = c in
            let rec vl = function
            | [] -> []
            | x :: t -> app (violS n0 me infin x) (vl t)
            in vl bd) (fa r)
       in fa cs
     | Branch (a, b) ->
       app
         (let rec vl = function
          | [] -> []
          | x :: t -> app (violS n0 me infin x) (vl t)
          in vl a)
         (let rec vl = function
          | [] -> []
          | x :: t -> app (violS n0 me infin x) (vl t)
          in vl b)
     | LoopCtx bd ->
       let rec vl = function
       | [] -> []
       | x :: t -> app (violS n0 me infin x) (vl t)
       in vl bd
     | LoopRange (_, bd) ->
       let rec vl = function
       | [] -> []
       | x :: t -> app (violS n0 me infin x) (vl t)
       in vl bd
     | LoopData bd ->
       let rec vl = function
       | [] -> []
       | x :: t -> app (violS n0 me infin x) (vl t)
       in vl bd
     | _ -> [])

(** val violL :
    net -> pid -> bool -> stmt list -> ((pid * stmt) * condition) list **)

let violL n0 me infin l =
  flat_map (violS n0 me infin) l

(** val ok_proc : net -> pid -> bool **)

let ok_proc n0 p =
  (&&) (okL n0 p false (info n0 p).body) (okL n0 p true (info n0 p).finally)

(** val nodupb : nat list -> bool **)

let rec nodupb = function
| [] -> true
| x :: r -> (&&) (negb (existsb (Nat.eqb x) r)) (nodupb r)

(** val closers_unique : net -> bool **)

let closers_unique n0 =
  nodupb (flat_map (fun p -> p.defer_close) n0.procs_of)

(** val wf : net -> bool **)

let wf n0 =
  (&&) (forallb (ok_proc n0) (seq O (nprocs n0))) (closers_unique n0)

(** val wf_violations : net -> ((pid * stmt) * condition) list **)

let wf_violations n0 =
  flat_map (fun p ->
    app (violL n0 p false (info n0 p).body)
      (violL n0 p true (info n0 p).finally)) (seq O (nprocs n0))

(** val flatS : stmt -> stmt list **)

let rec flatS s =
  s :: (match s with
        | Sel cs ->
          let rec fa = function
          | [] -> []
          | c :: r ->
            app
              (let (_, bd) = c in
               let rec fl = function
               | [] -> []
               | x :: t -> app (flatS x) (fl t)
               in fl bd) (fa r)
          in fa cs
        | Branch (a, b) ->
          app
            (let rec fl = function
             | [] -> []
             | x :: t -> app (flatS x) (fl t)
             in fl a)
            (let rec fl = function
             | [] -> []
             | x :: t -> app (flatS x) (fl t)
             in fl b)
        | LoopCtx bd ->
          let rec fl = function
          | [] -> []
          | x :: t -> app (flatS x) (fl t)
          in fl bd
        | LoopRange (_, bd) ->
          let rec fl = function
          | [] -> []
          | x :: t -> app (flatS x) (fl t)
          in fl bd
        | LoopData bd ->
          let rec fl = function
          | [] -> []
          | x :: t -> app (flatS x) (fl t)
          in fl bd
        | _ -> [])

(** val flatL : stmt list -> stmt list **)

let flatL l =
  flat_map flatS l

(** val all_stmts : proc -> stmt list **)

let all_stmts p =
  app (flatL p.body) (flatL p.finally)

(** val is_range : stmt -> bool **)

let is_range = function
| LoopRange (_, _) -> true
| _ -> false

(** val count : (stmt -> bool) -> stmt list -> nat **)

let count f l =
  length (filter f l)

(** val net_counts : net -> nat list **)

let net_counts n0 =
  app
    ((length n0.procs_of) :: ((length n0.caps) :: ((length
                                                     (flat_map (fun p ->
                                                       p.defer_close)
                                                       n0.procs_of)) :: (
    (list_sum (map (fun p -> count is_range (all_stmts p)) n0.procs_of)) :: []))))
    n0.caps

(** val wg_bufInitWG : wgid **)

let wg_bufInitWG =
  O

(** val ch_send_sendFileDataV2_0 : chan **)

let ch_send_sendFileDataV2_0 =
  O

(** val ch_send_ReadData_0 : chan **)

let ch_send_ReadData_0 =
  S O

(** val ch_send_ReadData_1 : chan **)

let ch_send_ReadData_1 =
  S (S O)

(** val ch_send_CalculateMD5_0 : chan **)

let ch_send_CalculateMD5_0 =
  S (S (S O))

(** val ch_send_EncodeData_0 : chan **)

let ch_send_EncodeData_0 =
  S (S (S (S O)))

(** val ch_send_SendData_0 : chan **)

let ch_send_SendData_0 =
  S (S (S (S (S O))))

(** val ch_send_RecvAck_0 : chan **)

let ch_send_RecvAck_0 =
  S (S (S (S (S (S O)))))

(** val p_send_CalculateMD5 : pid **)

let p_send_CalculateMD5 =
  S O

(** val p_send_RecvAck : pid **)

let p_send_RecvAck =
  S (S (S (S O)))

(** val p_send_ShowProgress : pid **)

let p_send_ShowProgress =
  S (S (S (S (S O))))

(** val send_ReadData_body : stmt list **)

let send_ReadData_body =
  (LoopCtx ((Io FileIO) :: ((Branch (((Sel (((SendAlt ch_send_ReadData_0),
    []) :: ((DoneAlt, (Return :: [])) :: []))) :: ((Sel (((SendAlt
    ch_send_ReadData_1), []) :: ((DoneAlt, (Return :: [])) :: []))) :: [])),
    [])) :: ((Branch (((Branch ((Cancel :: (Return :: [])), [])) :: []),
    ((Branch ((Cancel :: (Return :: [])), [])) :: []))) :: [])))) :: []

(** val send_ReadData_finally : stmt list **)

let send_ReadData_finally =
  []

(** val send_ReadData_proc : proc **)

let send_ReadData_proc =
  { body = send_ReadData_body; finally = send_ReadData_finally; defer_close =
    (ch_send_ReadData_0 :: (ch_send_ReadData_1 :: [])); exit_cancel = false;
    rank = O }

(** val send_CalculateMD5_body : stmt list **)

let send_CalculateMD5_body =
  (LoopRange (ch_send_ReadData_1, ((Branch ((Cancel :: (Return :: [])),
    [])) :: (IfCtxExit :: [])))) :: (IfCtxExit :: ((SendOnce
    ch_send_CalculateMD5_0) :: []))

(** val send_CalculateMD5_finally : stmt list **)

let send_CalculateMD5_finally =
  []

(** val send_CalculateMD5_proc : proc **)

let send_CalculateMD5_proc =
  { body = send_CalculateMD5_body; finally = send_CalculateMD5_finally;
    defer_close = (ch_send_CalculateMD5_0 :: []); exit_cancel = false; rank =
    (S O) }

(** val send_EncodeData_body : stmt list **)

let send_EncodeData_body =
  (Branch ((Cancel :: (Return :: [])), [])) :: ((LoopRange
    (ch_send_ReadData_0, ((LoopData ((LoopData ((Branch ([], ((Branch ([],
    ((Branch (((WgAdd wg_bufInitWG) :: []), [])) :: ((Sel (((SendAlt
    ch_send_EncodeData_0), []) :: ((DoneAlt, []) :: []))) :: ((Branch ([],
    ((Branch (((WgWait wg_bufInitWG) :: []),
    [])) :: []))) :: []))))) :: []))) :: [])) :: [])) :: ((Branch
    ((Cancel :: (Return :: [])), [])) :: ((Branch (((LoopData ((LoopData
    ((Branch ([], ((Branch ([], ((Branch (((WgAdd wg_bufInitWG) :: []),
    [])) :: ((Sel (((SendAlt ch_send_EncodeData_0), []) :: ((DoneAlt,
    []) :: []))) :: ((Branch ([], ((Branch (((WgWait wg_bufInitWG) :: []),
    [])) :: []))) :: []))))) :: []))) :: [])) :: [])) :: ((Branch
    ((Cancel :: (Return :: [])), [])) :: [])),
    [])) :: (IfCtxExit :: [])))))) :: [])

(** val send_EncodeData_finally : stmt list **)

let send_EncodeData_finally =
  (LoopData ((LoopData ((Branch ([], ((Branch ([], ((Branch (((WgAdd
    wg_bufInitWG) :: []), [])) :: ((Sel (((SendAlt ch_send_EncodeData_0),
    []) :: ((DoneAlt, []) :: []))) :: ((Branch ([], ((Branch (((WgWait
    wg_bufInitWG) :: []),
    [])) :: []))) :: []))))) :: []))) :: [])) :: [])) :: ((Branch (((Sel
    (((SendAlt ch_send_EncodeData_0), []) :: ((DoneAlt,
    []) :: []))) :: ((Branch ([], ((Sel (((SendAlt ch_send_EncodeData_0),
    []) :: ((DoneAlt, []) :: []))) :: []))) :: [])), ((Sel (((SendAlt
    ch_send_EncodeData_0), []) :: ((DoneAlt,
    []) :: []))) :: []))) :: ((Branch ((Cancel :: []), [])) :: []))

(** val send_EncodeData_proc : proc **)

let send_EncodeData_proc =
  { body = send_EncodeData_body; finally = send_EncodeData_finally;
    defer_close = (ch_send_EncodeData_0 :: []); exit_cancel = false; rank =
    (S O) }

(** val send_SendData_body : stmt list **)

let send_SendData_body =
  (LoopRange (ch_send_EncodeData_0, (IfCtxExit :: ((Branch (((Io
    PauseGate) :: ((Io WriteWire) :: ((Branch ([], ((Sel (((SendAlt
    ch_send_SendData_0), []) :: ((DoneAlt, []) :: []))) :: []))) :: ((Branch
    ((Cancel :: (Return :: [])), [])) :: [])))), ((LoopData ((Io
    PauseGate) :: ((Io WriteWire) :: ((Branch ([], ((Sel (((SendAlt
    ch_send_SendData_0), []) :: ((DoneAlt, []) :: []))) :: []))) :: ((Branch
    ((Cancel :: (Return :: [])),
    [])) :: (IfCtxExit :: [])))))) :: []))) :: [])))) :: []

(** val send_SendData_finally : stmt list **)

let send_SendData_finally =
  []

(** val send_SendData_proc : proc **)

let send_SendData_proc =
  { body = send_SendData_body; finally = send_SendData_finally; defer_close =
    (ch_send_SendData_0 :: []); exit_cancel = false; rank = (S (S O)) }

(** val send_RecvAck_body : stmt list **)

let send_RecvAck_body =
  (LoopRange (ch_send_SendData_0, ((Io RecvLine) :: ((Branch
    ((Cancel :: (Return :: [])), [])) :: ((Branch
    ((Cancel :: (Return :: [])), [])) :: ((Branch (((Sel (((SendAlt
    ch_send_RecvAck_0), []) :: ((DoneAlt, (Return :: [])) :: []))) :: []),
    [])) :: ((Branch (((Branch (((Branch (((WgDone wg_bufInitWG) :: []),
    [])) :: []), ((Branch (((WgDone wg_bufInitWG) :: []),
    [])) :: []))) :: []),
    [])) :: (IfCtxExit :: [])))))))) :: (IfCtxExit :: ((LoopCtx ((Io
    RecvLine) :: ((Branch ((Cancel :: (Return :: [])), [])) :: ((Branch
    ((Cancel :: (Return :: [])), [])) :: ((Branch
    ((Cancel :: (Return :: [])), [])) :: ((Branch (((Sel (((SendAlt
    ch_send_RecvAck_0), []) :: ((DoneAlt, (Return :: [])) :: []))) :: []),
    [])) :: ((Branch (((Branch (((SendOnce ch_send_sendFileDataV2_0) :: []),
    [])) :: (Return :: [])), [])) :: []))))))) :: []))

(** val send_RecvAck_finally : stmt list **)

let send_RecvAck_finally =
  []

(** val send_RecvAck_proc : proc **)

let send_RecvAck_proc =
  { body = send_RecvAck_body; finally = send_RecvAck_finally; defer_close =
    (ch_send_RecvAck_0 :: []); exit_cancel = false; rank = (S (S (S O))) }

(** val send_ShowProgress_body : stmt list **)

let send_ShowProgress_body =
  (LoopRange (ch_send_RecvAck_0, (IfCtxExit :: []))) :: []

(** val send_ShowProgress_finally : stmt list **)

let send_ShowProgress_finally =
  []

(** val send_ShowProgress_proc : proc **)

let send_ShowProgress_proc =
  { body = send_ShowProgress_body; finally = send_ShowProgress_finally;
    defer_close = []; exit_cancel = false; rank = (S (S (S (S O)))) }

(** val send_main_body : stmt list **)

let send_main_body =
  (Io FileIO) :: ((Io WriteWire) :: ((Branch ((Return :: []), [])) :: ((Sel
    (((RecvAlt ch_send_sendFileDataV2_0), ((RecvClose
    ch_send_CalculateMD5_0) :: (Return :: []))) :: ((DoneAlt,
    (Return :: [])) :: []))) :: [])))

(** val send_main_finally : stmt list **)

let send_main_finally =
  (Branch (((Join p_send_ShowProgress) :: []), [])) :: []

(** val send_main_proc : proc **)

let send_main_proc =
  { body = send_main_body; finally = send_main_finally; defer_close =
    (ch_send_sendFileDataV2_0 :: []); exit_cancel = true; rank = (S (S (S (S
    (S O))))) }

(** val send_net : net **)

let send_net =
  { procs_of =
    (send_ReadData_proc :: (send_CalculateMD5_proc :: (send_EncodeData_proc :: (send_SendData_proc :: (send_RecvAck_proc :: (send_ShowProgress_proc :: (send_main_proc :: [])))))));
    caps = ((S O) :: ((S (S (S (S (S (S (S (S (S (S (S (S (S (S (S (S (S (S
    (S (S (S (S (S (S (S (S (S (S (S (S (S (S (S (S (S (S (S (S (S (S (S (S
    (S (S (S (S (S (S (S (S (S (S (S (S (S (S (S (S (S (S (S (S (S (S (S (S
    (S (S (S (S (S (S (S (S (S (S (S (S (S (S (S (S (S (S (S (S (S (S (S (S
    (S (S (S (S (S (S (S (S (S (S
    O)))))))))))))))))))))))))))))))))))))))))))))))))))))))))))))))))))))))))))))))))))))))))))))))))))) :: ((S
    (S (S (S (S (S (S (S (S (S (S (S (S (S (S (S (S (S (S (S (S (S (S (S (S
    (S (S (S (S (S (S (S (S (S (S (S (S (S (S (S (S (S (S (S (S (S (S (S (S
    (S (S (S (S (S (S (S (S (S (S (S (S (S (S (S (S (S (S (S (S (S (S (S (S
    (S (S (S (S (S (S (S (S (S (S (S (S (S (S (S (S (S (S (S (S (S (S (S (S
    (S (S (S
    O)))))))))))))))))))))))))))))))))))))))))))))))))))))))))))))))))))))))))))))))))))))))))))))))))))) :: ((S
    O) :: ((S (S (S (S (S O))))) :: ((S (S (S (S (S O))))) :: ((S (S (S (S (S
    (S (S (S (S (S (S (S (S (S (S (S (S (S (S (S (S (S (S (S (S (S (S (S (S
    (S (S (S (S (S (S (S (S (S (S (S (S (S (S (S (S (S (S (S (S (S (S (S (S
    (S (S (S (S (S (S (S (S (S (S (S (S (S (S (S (S (S (S (S (S (S (S (S (S
    (S (S (S (S (S (S (S (S (S (S (S (S (S (S (S (S (S (S (S (S (S (S (S
    O)))))))))))))))))))))))))))))))))))))))))))))))))))))))))))))))))))))))))))))))))))))))))))))))))))) :: [])))))));
    senders = ((Some p_send_RecvAck) :: (None :: (None :: ((Some
    p_send_CalculateMD5) :: (None :: (None :: (None :: []))))))) }

(** val ch_recv_recvFileDataV2_0 : chan **)

let ch_recv_recvFileDataV2_0 =
  O

(** val ch_recv_RecvData_0 : chan **)

let ch_recv_RecvData_0 =
  S O

(** val ch_recv_RecvData_1 : chan **)

let ch_recv_RecvData_1 =
  S (S O)

(** val ch_recv_SendAck_0 : chan **)

let ch_recv_SendAck_0 =
  S (S (S O))

(** val ch_recv_DecodeData_0 : chan **)

let ch_recv_DecodeData_0 =
  S (S (S (S O)))

(** val ch_recv_DecodeData_1 : chan **)

let ch_recv_DecodeData_1 =
  S (S (S (S (S O))))

(** val ch_recv_CalculateMD5_0 : chan **)

let ch_recv_CalculateMD5_0 =
  S (S (S (S (S (S O)))))

(** val ch_recv_SaveData_0 : chan **)

let ch_recv_SaveData_0 =
  S (S (S (S (S (S (S O))))))

(** val p_recv_SendAck : pid **)

let p_recv_SendAck =
  S O

(** val p_recv_CalculateMD5 : pid **)

let p_recv_CalculateMD5 =
  S (S (S O))

(** val p_recv_SaveData : pid **)

let p_recv_SaveData =
  S (S (S (S O)))

(** val p_recv_ShowProgress : pid **)

let p_recv_ShowProgress =
  S (S (S (S (S O))))

(** val recv_RecvData_body : stmt list **)

let recv_RecvData_body =
  (LoopCtx ((Branch (((Io RecvLine) :: []), ((Io
    RecvLine) :: []))) :: ((Branch ((Cancel :: (Return :: [])), [])) :: ((Sel
    (((SendAlt ch_recv_RecvData_0), []) :: ((DoneAlt,
    (Return :: [])) :: []))) :: ((Branch ((Return :: []), [])) :: ((Sel
    (((SendAlt ch_recv_RecvData_1), []) :: ((DoneAlt,
    (Return :: [])) :: []))) :: [])))))) :: []

(** val recv_RecvData_finally : stmt list **)

let recv_RecvData_finally =
  []

(** val recv_RecvData_proc : proc **)

let recv_RecvData_proc =
  { body = recv_RecvData_body; finally = recv_RecvData_finally; defer_close =
    (ch_recv_RecvData_0 :: (ch_recv_RecvData_1 :: [])); exit_cancel = false;
    rank = O }

(** val recv_SendAck_body : stmt list **)

let recv_SendAck_body =
  (LoopRange (ch_recv_RecvData_0, ((Io PauseGate) :: ((Branch
    ((Cancel :: (Return :: [])), [])) :: ((Io WriteWire) :: ((Branch
    ((Cancel :: (Return :: [])), [])) :: (IfCtxExit :: []))))))) :: ((LoopCtx
    ((Io PauseGate) :: ((Branch ((Cancel :: (Return :: [])), [])) :: ((Io
    WriteWire) :: ((Branch ((Cancel :: (Return :: [])), [])) :: ((Branch
    ((Cancel :: (Return :: [])), [])) :: ((Branch (((Branch (((SendOnce
    ch_recv_recvFileDataV2_0) :: []), [])) :: (Return :: [])), [])) :: ((Sel
    (((RecvAlt ch_recv_SendAck_0), []) :: ((TimerAlt,
    []) :: []))) :: [])))))))) :: [])

(** val recv_SendAck_finally : stmt list **)

let recv_SendAck_finally =
  []

(** val recv_SendAck_proc : proc **)

let recv_SendAck_proc =
  { body = recv_SendAck_body; finally = recv_SendAck_finally; defer_close =
    []; exit_cancel = false; rank = (S O) }

(** val recv_DecodeData_body : stmt list **)

let recv_DecodeData_body =
  (Branch ((Cancel :: (Return :: [])), [])) :: ((LoopCtx ((LoopData ((Branch
    ([], ((Branch (((Sel (((RecvAlt ch_recv_RecvData_1), []) :: ((DoneAlt,
    []) :: []))) :: []), [])) :: []))) :: [])) :: ((Branch (((Sel (((SendAlt
    ch_recv_DecodeData_0), []) :: ((DoneAlt,
    (Return :: [])) :: []))) :: ((Sel (((SendAlt ch_recv_DecodeData_1),
    []) :: ((DoneAlt, (Return :: [])) :: []))) :: [])), [])) :: ((Branch
    ((Return :: []), [])) :: ((Branch ((Cancel :: (Return :: [])),
    [])) :: []))))) :: [])

(** val recv_DecodeData_finally : stmt list **)

let recv_DecodeData_finally =
  []

(** val recv_DecodeData_proc : proc **)

let recv_DecodeData_proc =
  { body = recv_DecodeData_body; finally = recv_DecodeData_finally;
    defer_close = (ch_recv_DecodeData_0 :: (ch_recv_DecodeData_1 :: []));
    exit_cancel = false; rank = O }

(** val recv_CalculateMD5_body : stmt list **)

let recv_CalculateMD5_body =
  (LoopRange (ch_recv_DecodeData_1, ((Branch ((Cancel :: (Return :: [])),
    [])) :: (IfCtxExit :: [])))) :: (IfCtxExit :: ((SendOnce
    ch_recv_CalculateMD5_0) :: []))

(** val recv_CalculateMD5_finally : stmt list **)

let recv_CalculateMD5_finally =
  []

(** val recv_CalculateMD5_proc : proc **)

let recv_CalculateMD5_proc =
  { body = recv_CalculateMD5_body; finally = recv_CalculateMD5_finally;
    defer_close = (ch_recv_CalculateMD5_0 :: []); exit_cancel = false; rank =
    (S O) }

(** val recv_SaveData_body : stmt list **)

let recv_SaveData_body =
  (LoopRange (ch_recv_DecodeData_0, ((Io FileIO) :: ((Branch
    ((Cancel :: (Return :: [])), [])) :: ((Branch (((Sel (((SendAlt
    ch_recv_SaveData_0), []) :: ((DoneAlt, (Return :: [])) :: []))) :: []),
    [])) :: (IfCtxExit :: [])))))) :: (IfCtxExit :: ((Branch
    ((Cancel :: (Return :: [])), [])) :: ((SendOnce
    ch_recv_SendAck_0) :: [])))

(** val recv_SaveData_finally : stmt list **)

let recv_SaveData_finally =
  []

(** val recv_SaveData_proc : proc **)

let recv_SaveData_proc =
  { body = recv_SaveData_body; finally = recv_SaveData_finally; defer_close =
    (ch_recv_SaveData_0 :: (ch_recv_SendAck_0 :: [])); exit_cancel = false;
    rank = (S O) }

(** val recv_ShowProgress_body : stmt list **)

let recv_ShowProgress_body =
  (LoopRange (ch_recv_SaveData_0, (IfCtxExit :: []))) :: []

(** val recv_ShowProgress_finally : stmt list **)

let recv_ShowProgress_finally =
  []

(** val recv_ShowProgress_proc : proc **)

let recv_ShowProgress_proc =
  { body = recv_ShowProgress_body; finally = recv_ShowProgress_finally;
    defer_close = []; exit_cancel = false; rank = (S (S O)) }

(** val recv_main_body : stmt list **)

let recv_main_body =
  (Io RecvLine) :: ((Branch ((Return :: []), [])) :: ((Sel (((RecvAlt
    ch_recv_recvFileDataV2_0), ((RecvClose
    ch_recv_CalculateMD5_0) :: (Return :: []))) :: ((DoneAlt,
    (Return :: [])) :: []))) :: []))

(** val recv_main_finally : stmt list **)

let recv_main_finally =
  (Branch (((Join p_recv_ShowProgress) :: []), [])) :: []

(** val recv_main_proc : proc **)

let recv_main_proc =
  { body = recv_main_body; finally = recv_main_finally; defer_close =
    (ch_recv_recvFileDataV2_0 :: []); exit_cancel = true; rank = (S (S (S
    O))) }

(** val recv_net : net **)

let recv_net =
  { procs_of =
    (recv_RecvData_proc :: (recv_SendAck_proc :: (recv_DecodeData_proc :: (recv_CalculateMD5_proc :: (recv_SaveData_proc :: (recv_ShowProgress_proc :: (recv_main_proc :: [])))))));
    caps = ((S O) :: ((S (S (S (S (S (S (S (S (S (S (S (S (S (S (S (S (S (S
    (S (S (S (S (S (S (S (S (S (S (S (S (S (S (S (S (S (S (S (S (S (S (S (S
    (S (S (S (S (S (S (S (S (S (S (S (S (S (S (S (S (S (S (S (S (S (S (S (S
    (S (S (S (S (S (S (S (S (S (S (S (S (S (S (S (S (S (S (S (S (S (S (S (S
    (S (S (S (S (S (S (S (S (S (S
    O)))))))))))))))))))))))))))))))))))))))))))))))))))))))))))))))))))))))))))))))))))))))))))))))))))) :: ((S
    (S (S (S (S (S (S (S (S (S (S (S (S (S (S (S (S (S (S (S (S (S (S (S (S
    (S (S (S (S (S (S (S (S (S (S (S (S (S (S (S (S (S (S (S (S (S (S (S (S
    (S (S (S (S (S (S (S (S (S (S (S (S (S (S (S (S (S (S (S (S (S (S (S (S
    (S (S (S (S (S (S (S (S (S (S (S (S (S (S (S (S (S (S (S (S (S (S (S (S
    (S (S (S
    O)))))))))))))))))))))))))))))))))))))))))))))))))))))))))))))))))))))))))))))))))))))))))))))))))))) :: ((S
    O) :: ((S (S (S (S (S (S (S (S (S (S (S (S (S (S (S (S (S (S (S (S (S (S
    (S (S (S (S (S (S (S (S (S (S (S (S (S (S (S (S (S (S (S (S (S (S (S (S
    (S (S (S (S (S (S (S (S (S (S (S (S (S (S (S (S (S (S (S (S (S (S (S (S
    (S (S (S (S (S (S (S (S (S (S (S (S (S (S (S (S (S (S (S (S (S (S (S (S
    (S (S (S (S (S (S
    O)))))))))))))))))))))))))))))))))))))))))))))))))))))))))))))))))))))))))))))))))))))))))))))))))))) :: ((S
    (S (S (S (S (S (S (S (S (S (S (S (S (S (S (S (S (S (S (S (S (S (S (S (S
    (S (S (S (S (S (S (S (S (S (S (S (S (S (S (S (S (S (S (S (S (S (S (S (S
    (S (S (S (S (S (S (S (S (S (S (S (S (S (S (S (S (S (S (S (S (S (S (S (S
    (S (S (S (S (S (S (S (S (S (S (S (S (S (S (S (S (S (S (S (S (S (S (S (S
    (S (S (S
    O)))))))))))))))))))))))))))))))))))))))))))))))))))))))))))))))))))))))))))))))))))))))))))))))))))) :: ((S
    O) :: ((S (S (S (S (S (S (S (S (S (S (S (S (S (S (S (S (S (S (S (S (S (S
    (S (S (S (S (S (S (S (S (S (S (S (S (S (S (S (S (S (S (S (S (S (S (S (S
    (S (S (S (S (S (S (S (S (S (S (S (S (S (S (S (S (S (S (S (S (S (S (S (S
    (S (S (S (S (S (S (S (S (S (S (S (S (S (S (S (S (S (S (S (S (S (S (S (S
    (S (S (S (S (S (S
    O)))))))))))))))))))))))))))))))))))))))))))))))))))))))))))))))))))))))))))))))))))))))))))))))))))) :: []))))))));
    senders = ((Some p_recv_SendAck) :: (None :: (None :: ((Some
    p_recv_SaveData) :: (None :: (None :: ((Some
    p_recv_CalculateMD5) :: (None :: [])))))))) }

(** val ch_hash_RecvHashAck_0 : chan **)

let ch_hash_RecvHashAck_0 =
  O

(** val p_hash_SendHash : pid **)

let p_hash_SendHash =
  O

(** val p_hash_RecvHashAck : pid **)

let p_hash_RecvHashAck =
  S O

(** val hash_SendHash_body : stmt list **)

let hash_SendHash_body =
  (LoopCtx ((Io FileIO) :: ((Branch ((Cancel :: (Return :: [])), [])) :: ((Io
    WriteWire) :: ((Branch ((Cancel :: (Return :: [])),
    [])) :: []))))) :: (IfCtxExit :: ((Io WriteWire) :: ((Branch
    ((Cancel :: (Return :: [])), [])) :: [])))

(** val hash_SendHash_finally : stmt list **)

let hash_SendHash_finally =
  []

(** val hash_SendHash_proc : proc **)

let hash_SendHash_proc =
  { body = hash_SendHash_body; finally = hash_SendHash_finally; defer_close =
    []; exit_cancel = false; rank = O }

(** val hash_RecvHashAck_body : stmt list **)

let hash_RecvHashAck_body =
  (LoopCtx ((Io RecvLine) :: ((Branch ((Cancel :: (Return :: [])),
    [])) :: ((Branch (((SendOnce ch_hash_RecvHashAck_0) :: (Return :: [])),
    [])) :: ((Branch (((SendOnce ch_hash_RecvHashAck_0) :: (Return :: [])),
    ((Branch ((Cancel :: (Return :: [])), [])) :: []))) :: []))))) :: []

(** val hash_RecvHashAck_finally : stmt list **)

let hash_RecvHashAck_finally =
  []

(** val hash_RecvHashAck_proc : proc **)

let hash_RecvHashAck_proc =
  { body = hash_RecvHashAck_body; finally = hash_RecvHashAck_finally;
    defer_close = (ch_hash_RecvHashAck_0 :: []); exit_cancel = false; rank =
    O }

(** val hash_main_body : stmt list **)

let hash_main_body =
  (Branch ((Return :: []), [])) :: ((Branch (((Io WriteWire) :: ((Branch
    ((Return :: []), [])) :: [])), [])) :: ((Sel ((DoneAlt,
    (Return :: [])) :: (((RecvAlt ch_hash_RecvHashAck_0),
    []) :: []))) :: ((Join p_hash_SendHash) :: (IfCtxExit :: ((Io
    FileIO) :: ((Branch ((Return :: []), [])) :: (Return :: [])))))))

(** val hash_main_finally : stmt list **)

let hash_main_finally =
  []

(** val hash_main_proc : proc **)

let hash_main_proc =
  { body = hash_main_body; finally = hash_main_finally; defer_close = [];
    exit_cancel = true; rank = (S O) }

(** val hash_net : net **)

let hash_net =
  { procs_of =
    (hash_SendHash_proc :: (hash_RecvHashAck_proc :: (hash_main_proc :: [])));
    caps = ((S O) :: []); senders = ((Some p_hash_RecvHashAck) :: []) }
