open BinInt
open BinNat
open BinNums
open Bytes0
open Consts
open Datatypes
open List0
open Nat0
open PeanoNat

val nl : byte

val intr : byte

val cr : byte

type pending = byte list list

type rres =
| Done of byte list * pending
| Blocked
| Interrupted of pending

val has_byte : byte -> byte list -> bool

val ends_cr : byte list -> bool

type cres =
| CLine of byte list * byte list
| CIntr of byte list
| CMore of byte list

val in_chunk : nat -> bool -> byte list -> byte list -> cres

val read_line : bool -> byte list -> pending -> rres

val read_binary : nat -> byte list -> pending -> rres

val read_binary_op : coq_Z -> pending -> rres

val pop_buffer : pending -> byte list option * pending

val pop_all : nat -> pending -> byte list list

val pop_all_fuel : pending -> nat

type op =
| OpLine of bool
| OpBinary of coq_Z

type result =
| RData of byte list
| RBlocked
| RInterrupted

val step : op -> pending -> rres

val run_st : op list -> pending -> result list * pending

val run : op list -> pending -> result list

val run_cont : op list -> pending -> result list * pending

val split_at : byte -> byte list -> byte list * byte list option

type fres =
| FDone of byte list * byte list
| FBlocked
| FInterrupted

val ref_line : byte list -> fres

val ref_junk_line : nat -> byte list -> byte list -> fres

val ref_binary : coq_Z -> byte list -> fres

val ref_step : op -> byte list -> fres

val ref_run_st : op list -> byte list -> result list * byte list

val ref_run : op list -> byte list -> result list
