open Archive
open BinNat
open BinNums
open Bytes0
open Consts
open Datatypes
open List0
open PeanoNat

type amo_src = { amo_id : nat; amo_rel : apath; amo_isdir : bool;
                 amo_size : coq_Z; amo_data : byte list }

type amo_root = { amo_top : amo_src; amo_subs : amo_src list }

val amo_put :
  amo_root option list -> nat -> amo_src -> amo_root option list option

val amo_fill :
  amo_root option list -> amo_src list -> amo_root option list option

val amo_grouping : bool -> coq_N -> amo_src list -> bool

val amo_group : bool -> coq_N -> amo_src list -> amo_root option list option

type amo_name = { amn_id : nat; amn_rel : apath; amn_isdir : bool;
                  amn_archive : bool; amn_size : coq_Z }

val amo_flag : amo_root -> bool

val amo_name_of : amo_root -> amo_name

type amo_skind =
| AmoSArchive
| AmoSNone
| AmoSFile

val amo_sender : coq_N -> amo_root -> amo_skind

type amo_rkind =
| AmoRArchive
| AmoRNone
| AmoRFile
| AmoRErr

val amo_receiver : amo_name -> amo_rkind

type amo_step =
| AmoNil
| AmoStep of amo_name * nat * amo_skind * amo_rkind

val amo_step_of : coq_N -> amo_root option -> amo_step

val amo_plan : bool -> coq_N -> amo_src list -> amo_step list option

val amo_rule_cond : coq_N -> coq_N -> coq_N -> coq_N -> coq_N -> bool

val amo_comp_val : coq_N -> bool -> bool

val amo_rules_eval :
  (((coq_N * coq_N) * bool) * coq_N) list -> coq_N -> coq_N -> bool -> coq_N
  -> bool * bool

type amo_comp =
| AmoCompFixed of bool
| AmoCompProbed of bool
| AmoCompErr

val amo_archive_compress : coq_N -> coq_N -> bool -> coq_N -> amo_comp
