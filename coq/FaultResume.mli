open BinInt
open BinNat
open BinNums
open Bytes0
open Consts
open Datatypes
open List0
open PeanoNat
open Resume

type fr_outcome = { fo_mrecv : coq_Z; fo_msend : coq_Z; fo_sent : byte list;
                    fo_final : byte list }

type fr_deliv = { fd_size : coq_Z; fd_hashes : hmsg list;
                  fd_answers : ack list }

val fr_recv_acks : coq_Z -> ack list -> coq_Z -> sres * ack list

val fr_recv_hash_acks : coq_Z -> ack list -> sres * ack list

val fr_after_over : hmsg list -> hmsg list

val fr_is_nil : 'a1 list -> bool

val fr_exchange :
  coq_N -> (byte list -> digest) -> coq_N -> coq_N -> coq_N -> bool -> byte
  list -> byte list -> fr_deliv -> fr_outcome option

val fr_exchange_code :
  coq_N -> (byte list -> digest) -> bool -> byte list -> byte list ->
  fr_deliv -> fr_outcome option
