open BinNums
open BinPos
open Datatypes

module N =
 struct
  (** val succ_double : coq_N -> coq_N **)

  let succ_double = function
  | N0 -> Npos Coq_xH
  | Npos p -> Npos (Coq_xI p)

  (** val double : coq_N -> coq_N **)

  let double = function
  | N0 -> N0
  | Npos p -> Npos (Coq_xO p)

  (** val add : coq_N -> coq_N -> coq_N **)

  let add n m =
    match n with
    | N0 -> m
    | Npos p -> (match m with
                 | N0 -> n
                 | Npos q -> Npos (Pos.add p q))

  (** val sub : coq_N -> coq_N -> coq_N **)

  let sub n m =
    match n with
    | N0 -> N0
    | Npos n' ->
      (match m with
       | N0 -> n
       | Npos m' ->
         (match Pos.sub_mask n' m' with
          | Pos.IsPos p -> Npos p
          | _ -> N0))

  (** val mul : coq_N -> coq_N -> coq_N **)

  let mul n m =
    match n with
    | N0 -> N0
    | Npos p -> (match m with
                 | N0 -> N0
                 | Npos q -> Npos (Pos.mul p q))

  (** val compare : coq_N -> coq_N -> comparison **)

  let compare n m =
    match n with
    | N0 -> (match m with
             | N0 -> Eq
             | Npos _ -> Lt)
    | Npos n' -> (match m with
                  | N0 -> Gt
                  | Npos m' -> Pos.compare n' m')

  (** val eqb : coq_N -> coq_N -> bool **)

  let eqb n m =
    match n with
    | N0 -> (match m with
             | N0 -> true
             | Npos _ -> false)
    | Npos p -> (match m with
                 | N0 -> false
                 | Npos q -> Pos.eqb p q)

  (** val leb : coq_N -> coq_N -> bool **)

  let leb x y =
    match compare x y with
    | Gt -> false
    | _ -> true

  (** val ltb : coq_N -> coq_N -> bool **)

  let ltb x y =
    match compare x y with
    | Lt -> true
    | _ -> false

  (** val min : coq_N -> coq_N -> coq_N **)

  let min n n' =
    match compare n n' with
    | Gt -> n'
    | _ -> n

  (** val pow : coq_N -> coq_N -> coq_N **)

  let pow n = function
  | N0 -> Npos Coq_xH
  | Npos p0 -> (match n with
                | N0 -> N0
                | Npos q -> Npos (Pos.pow q p0))

  (** val log2 : coq_N -> coq_N **)

  let log2 = function
  | N0 -> N0
  | Npos p0 ->
    (match p0 with
     | Coq_xI p -> Npos (Pos.size p)
     | Coq_xO p -> Npos (Pos.size p)
     | Coq_xH -> N0)

  (** val size_nat : coq_N -> nat **)

  let size_nat = function
  | N0 -> O
  | Npos p -> Pos.size_nat p

  (** val pos_div_eucl : positive -> coq_N -> coq_N * coq_N **)

  let rec pos_div_eucl a b =
    match a with
    | Coq_xI a' ->
      let (q, r) = pos_div_eucl a' b in
      let r' = succ_double r in
      if leb b r' then ((succ_double q), (sub r' b)) else ((double q), r')
    | Coq_xO a' ->
      let (q, r) = pos_div_eucl a' b in
      let r' = double r in
      if leb b r' then ((succ_double q), (sub r' b)) else ((double q), r')
    | Coq_xH ->
      (match b with
       | N0 -> (N0, (Npos Coq_xH))
       | Npos p ->
         (match p with
          | Coq_xH -> ((Npos Coq_xH), N0)
          | _ -> (N0, (Npos Coq_xH))))

  (** val div_eucl : coq_N -> coq_N -> coq_N * coq_N **)

  let div_eucl a b =
    match a with
    | N0 -> (N0, N0)
    | Npos na -> (match b with
                  | N0 -> (N0, a)
                  | Npos _ -> pos_div_eucl na b)

  (** val div : coq_N -> coq_N -> coq_N **)

  let div a b =
    fst (div_eucl a b)

  (** val modulo : coq_N -> coq_N -> coq_N **)

  let modulo a b =
    snd (div_eucl a b)

  (** val to_nat : coq_N -> nat **)

  let to_nat = function
  | N0 -> O
  | Npos p -> Pos.to_nat p

  (** val of_nat : nat -> coq_N **)

  let of_nat = function
  | O -> N0
  | S n' -> Npos (Pos.of_succ_nat n')
 end
