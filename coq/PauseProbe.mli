open BinInt
open BinNums
open Consts

type pra = { pra_ignore : coq_Z; pra_init : bool }

val pra_step : pra -> bool -> bool -> pra * bool

val pra_run : pra -> (bool * bool) list -> pra * bool list

val pra_init0 : pra
