open BinInt
open BinNat
open BinNums
open Bytes0
open Consts
open Datatypes
open Fs
open List0
open Path

(** val dec_aux : nat -> coq_N -> coq_N list -> coq_N list **)

let rec dec_aux fuel n acc =
  match fuel with
  | O -> acc
  | S fuel' ->
    let acc' =
      (N.add (Npos (Coq_xO (Coq_xO (Coq_xO (Coq_xO (Coq_xI Coq_xH))))))
        (N.modulo n (Npos (Coq_xO (Coq_xI (Coq_xO Coq_xH)))))) :: acc
    in
    if N.ltb n (Npos (Coq_xO (Coq_xI (Coq_xO Coq_xH))))
    then acc'
    else dec_aux fuel' (N.div n (Npos (Coq_xO (Coq_xI (Coq_xO Coq_xH))))) acc'

(** val decimal : coq_N -> coq_N list **)

let decimal n =
  dec_aux (S (N.size_nat n)) n []

(** val candidate : name -> coq_N -> name **)

let candidate nm i =
  app nm (app (dot :: []) (decimal i))

(** val find_fresh : fs -> path -> name -> coq_N -> nat -> name option **)

let rec find_fresh f dest nm i = function
| O -> None
| S fuel' ->
  (match stat f (join dest ((candidate nm i) :: [])) with
   | SNotExist -> Some (candidate nm i)
   | _ -> find_fresh f dest nm (N.add i (Npos Coq_xH)) fuel')

(** val get_new_name : fs -> path -> name -> name option **)

let get_new_name f dest nm =
  if N.ltb names_max_len (name_len nm)
  then None
  else (match stat f (join dest (nm :: [])) with
        | SNotExist -> Some nm
        | _ -> find_fresh f dest nm N0 (N.to_nat names_max_tries))

(** val valid_name : name -> bool **)

let valid_name nm =
  (&&) (negb (existsb (list_eqb nm) names_reject_exact))
    (negb (existsb (fun b -> existsb (N.eqb b) names_reject_bytes) nm))

type checks = { chk_unmarshal : bool; chk_create_file : bool }

(** val code_checks : checks **)

let code_checks =
  { chk_unmarshal = names_check_in_unmarshal; chk_create_file =
    names_check_in_create_file }

type src = { s_id : coq_Z; s_rel : name list; s_isdir : bool; s_archive : bool }

type state = { st_fs : fs; st_log : effect list; st_created : path list;
               st_map : (coq_Z * name) list }

type config = { overwrite : bool; directory : bool; v3 : bool }

type result =
| NOk of name
| NErr

(** val init_state : fs -> state **)

let init_state f =
  { st_fs = f; st_log = []; st_created = []; st_map = [] }

(** val map_get : (coq_Z * name) list -> coq_Z -> name option **)

let rec map_get m k =
  match m with
  | [] -> None
  | p :: m' -> let (k', v) = p in if Z.eqb k' k then Some v else map_get m' k

(** val do_create_file :
    path -> bool -> coq_N list -> state -> bool * state **)

let do_create_file p trunc pl st =
  match open_create st.st_fs p trunc pl with
  | Some p0 ->
    let (f', es) = p0 in
    (true, { st_fs = f'; st_log = (app st.st_log es); st_created =
    (app st.st_created (p :: [])); st_map = st.st_map })
  | None -> (false, st)

(** val do_create_directory : path -> state -> bool * state **)

let do_create_directory p st =
  match stat st.st_fs p with
  | SFound n -> (match n with
                 | File _ -> (false, st)
                 | Dir -> (true, st))
  | SNotExist ->
    let (p0, es) = mkdir_all st.st_fs p in
    let (ok, f') = p0 in
    (ok, { st_fs = f'; st_log = (app st.st_log es); st_created =
    (if ok then app st.st_created (p :: []) else st.st_created); st_map =
    st.st_map })
  | SOther -> (false, st)

(** val create_file :
    checks -> config -> path -> name -> bool -> coq_N list -> state ->
    result * state **)

let create_file ck cfg dest nm trunc pl st =
  if (&&) ck.chk_create_file (negb (valid_name nm))
  then (NErr, st)
  else (match if cfg.overwrite then Some nm else get_new_name st.st_fs dest nm with
        | Some ln ->
          let (b, st') = do_create_file (join dest (ln :: [])) trunc pl st in
          if b then ((NOk ln), st') else (NErr, st')
        | None -> (NErr, st))

(** val set_map : state -> (coq_Z * name) list -> state **)

let set_map st m =
  { st_fs = st.st_fs; st_log = st.st_log; st_created = st.st_created;
    st_map = m }

(** val create_leaf :
    src -> path -> bool -> coq_N list -> name -> state -> result * state **)

let create_leaf s full trunc pl ln st =
  if s.s_archive
  then if negb s.s_isdir
       then (NErr, st)
       else let (b, st') = do_create_directory full st in
            if b then ((NOk ln), st') else (NErr, st')
  else if s.s_isdir
       then let (b, st') = do_create_directory full st in
            if b then ((NOk ln), st') else (NErr, st')
       else let (b, st') = do_create_file full trunc pl st in
            if b then ((NOk ln), st') else (NErr, st')

(** val create_dir_or_file :
    config -> path -> src -> name -> name list -> bool -> coq_N list -> state
    -> result * state **)

let create_dir_or_file cfg dest s r0 rest trunc pl st =
  let chosen =
    if cfg.overwrite
    then Some (r0, st)
    else (match map_get st.st_map s.s_id with
          | Some v -> Some (v, st)
          | None ->
            (match get_new_name st.st_fs dest r0 with
             | Some ln -> Some (ln, (set_map st ((s.s_id, ln) :: st.st_map)))
             | None -> None))
  in
  (match chosen with
   | Some p ->
     let (ln, st1) = p in
     (match rest with
      | [] -> create_leaf s (join dest (ln :: [])) trunc pl ln st1
      | _ :: _ ->
        let p0 = join dest (ln :: (removelast rest)) in
        let (b, st2) = do_create_directory p0 st1 in
        if b
        then create_leaf s (join p0 ((last rest []) :: [])) trunc pl ln st2
        else (NErr, st2))
   | None -> (NErr, st))

(** val recv_json :
    checks -> config -> path -> src option -> bool -> coq_N list -> state ->
    result * state **)

let recv_json ck cfg dest d trunc pl st =
  match d with
  | Some s ->
    (match s.s_rel with
     | [] -> (NErr, st)
     | r0 :: rest ->
       if (&&) ck.chk_unmarshal (negb (forallb valid_name (r0 :: rest)))
       then (NErr, st)
       else create_dir_or_file cfg dest s r0 rest trunc pl st)
  | None -> (NErr, st)

type msg =
| MName of coq_N list * coq_N list
| MEntry of coq_N list * coq_N list

(** val step :
    (coq_N list -> src option) -> checks -> config -> path -> msg -> state ->
    result * state **)

let step decode ck cfg dest m st =
  match m with
  | MName (raw, pl) ->
    if cfg.v3
    then recv_json ck cfg dest (decode raw) false pl st
    else if cfg.directory
         then recv_json ck cfg dest (decode raw) true pl st
         else create_file ck cfg dest raw true pl st
  | MEntry (raw, pl) -> recv_json ck cfg dest (decode raw) true pl st

(** val recv_msgs :
    (coq_N list -> src option) -> checks -> config -> path -> msg list ->
    state -> (result * effect list) list * state **)

let rec recv_msgs decode ck cfg dest ms st =
  match ms with
  | [] -> ([], st)
  | m :: ms' ->
    let (r, st1) = step decode ck cfg dest m st in
    let (rs, st2) = recv_msgs decode ck cfg dest ms' st1 in
    (((r, (skipn (length st.st_log) st1.st_log)) :: rs), st2)

(** val delete_paths : path list -> fs -> (fs * effect list) * path list **)

let rec delete_paths ps f =
  match ps with
  | [] -> ((f, []), [])
  | p :: ps' ->
    (match stat f p with
     | SFound _ ->
       let (f1, es1) = remove_all f p in
       let (p0, del) = delete_paths ps' f1 in
       let (f2, es2) = p0 in ((f2, (app es1 es2)), (p :: del))
     | _ -> delete_paths ps' f)

(** val delete_created : state -> state * path list **)

let delete_created st =
  let (p, del) = delete_paths st.st_created st.st_fs in
  let (f', es) = p in
  ({ st_fs = f'; st_log = (app st.st_log es); st_created = st.st_created;
  st_map = st.st_map }, del)

type outcome = { o_results : (result * effect list) list; o_mid : state;
                 o_final : state; o_deleted : path list }

(** val recv_names_gen :
    (coq_N list -> src option) -> checks -> config -> path -> msg list ->
    bool -> fs -> outcome **)

let recv_names_gen decode ck cfg dest ms del f0 =
  let (rs, st1) = recv_msgs decode ck cfg dest ms (init_state f0) in
  if del
  then let (st2, dl) = delete_created st1 in
       { o_results = rs; o_mid = st1; o_final = st2; o_deleted = dl }
  else { o_results = rs; o_mid = st1; o_final = st1; o_deleted = [] }
