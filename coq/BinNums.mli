
type positive =
| Coq_xI of positive
| Coq_xO of positive
| Coq_xH

type coq_N =
| N0
| Npos of positive

type coq_Z =
| Z0
| Zpos of positive
| Zneg of positive
