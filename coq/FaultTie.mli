open BinInt
open BinNums
open Bytes0
open Datatypes
open Fs
open List0
open Names
open Path
open Protocol
open Resume
open Transfer
open Wire

val ft_feed :
  (byte list -> 'a1) -> ('a1 -> 'a1 -> bool) -> (byte list -> byte list
  option) -> (byte list -> byte list option) -> (byte list -> digest) ->
  (byte list -> (src * coq_Z) option) -> tr_cfg -> path -> tr_rstate -> 'a1
  tr_msg list -> tr_rstate * 'a1 tr_msg list

val ft_line : 'a1 tr_msg -> 'a1 line

val ft_decode :
  (byte list -> byte list option) -> tr_cfg -> bool -> byte list list -> byte
  list option

val ft_decode1 :
  (byte list -> byte list option) -> tr_cfg -> byte list -> byte list option

type 'digest ft_ghost = { fg_size : coq_N; fg_cp : bool;
                          fg_msgs : 'digest tr_msg list }

val ft_ghost0 : 'a1 ft_ghost

val ft_ghost_step :
  tr_cfg -> tr_rstate -> 'a1 tr_msg -> 'a1 ft_ghost -> 'a1 ft_ghost

type 'digest ft_saved = { fv_payload : tr_npayload; fv_size : coq_N;
                          fv_cp : bool; fv_msgs : 'digest tr_msg list;
                          fv_content : byte list; fv_md5 : 'digest;
                          fv_before : tr_rstate; fv_after : tr_rstate }

val ft_is_digest : 'a1 tr_msg -> bool

val ft_run :
  (byte list -> 'a1) -> ('a1 -> 'a1 -> bool) -> (byte list -> byte list
  option) -> (byte list -> byte list option) -> (byte list -> digest) ->
  (byte list -> (src * coq_Z) option) -> tr_cfg -> path -> tr_rstate -> 'a1
  ft_ghost -> 'a1 tr_msg list -> (tr_rstate * 'a1 tr_msg list) * 'a1 ft_saved
  list

val ft_receive :
  (byte list -> 'a1) -> ('a1 -> 'a1 -> bool) -> (byte list -> byte list
  option) -> (byte list -> byte list option) -> (byte list -> digest) ->
  (byte list -> (src * coq_Z) option) -> tr_cfg -> path -> fs -> tr_sched
  list -> 'a1 tr_msg list -> (tr_rstate * 'a1 tr_msg list) * 'a1 ft_saved list

val ft_verdict :
  (byte list -> 'a1) -> ('a1 -> 'a1 -> bool) -> (byte list -> byte list
  option) -> (byte list -> byte list option) -> tr_cfg -> 'a1 ft_saved ->
  verdict

val ft_leaf : tr_cfg -> path -> 'a1 ft_saved -> path option
